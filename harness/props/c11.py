"""C11 — Aliases, NewTypes, qualifiers and string references are transparent."""
from __future__ import annotations

import json

from .. import core, enc, iso, universe
from ..runner import Result

ID = "C11"
LEVEL = "proof"
LEVEL_TEXT = ("Kernel-checked theorems over the model (Props/C11.lean, Lemmas/Fuel.lean): unmarshalling / marshalling through any "
              "chain of wrappers equals the routine of the wrapped type (`um_wrap`, chains of any length), at the root and at every "
              "nested position (`um_erase` / `mar_erase`: erasing every wrapper anywhere in the annotation changes no non-fuel "
              "outcome), using fuel stability (`um_stable`). Reference resolution from frames is modelled only as 'a reference "
              "resolves to the object its (module, name) names'; the stack walk is outside the model. Tied to /repo per run: for "
              "generated T and wrapper chains of length <= 3 over {NewType, TypeAliasType(value), TypeAliasType('string'), Final, "
              "ClassVar, 'string reference', ForwardRef(module=...)} at root / collection argument / mapping value / tuple member / "
              "union member / class field, the REAL routines for W(T) and for T are compared on identical inputs (valid values and "
              "junk, marshal and unmarshal), with references issued from the defining module, from another module with a "
              "qualified name and from nested call depths; plus the model correspondence on the wrapped annotation.")
LEVEL_NOTE = ("Trusted: Lean kernel, standard axioms; hand-written model tied by correspondence; py/frames.py stack walking and "
              "refs._resolve_module_name are exercised by the oracle, not modelled.")
TECHNIQUE = "Lean 4 theorems (wrapper erasure preserves every non-fuel outcome, via fuel stability); metamorphic oracle W(T) vs T on the real routines; correspondence"
DESIGN_REF = "DESIGN.md §5 C11"
MODULES = ["TypelibModel.Props.C11", "TypelibModel.Props.Dispatch"]
TABLES = True
RULE = ("T from U (depth <= 2/3); chains of length 1-3 over the seven wrapper kinds where Python permits them (NewType only over "
        "class-like targets, ClassVar at the root only, Final at the root and on fields); positions root / collection argument / "
        "mapping value / tuple member / union member / class field; inputs: valid values of T and the C03 junk pool; 17 chains (alias, "
        "string-valued alias, NewType, length 1-3) over the Optional[Node] that closes a recursion, at 5 positions of a same-named field "
        "of two classes on the recursive path (3 class layouts), each compared with the unwrapped family")
ASSUMPTIONS = ["a reference is issued from code whose globals contain the name (the defining module) or as module-qualified text"]
TRUSTED = ["harness generators"]


def classlike(ts):
    b = [x for x in ts if not isinstance(x, dict)]
    return b[0] not in ("union", "none", "lit", "any")


def wrap_chain(g, ts, allow_qualifiers):
    """Wrap ts in 1-3 wrappers; returns (wrapped spec, list of kinds)."""
    r = g.r
    kinds = []
    cur = ts
    for i in range(r.randint(1, 3)):
        opts = ["alias", "aliasstr"]
        if classlike(cur) and not (cur[0] == "wrap" and cur[1] in ("final", "classvar")):
            opts.append("newtype")
        if allow_qualifiers and i == 0 and False:
            pass
        k = r.choice(opts)
        name = f"{'NT' if k == 'newtype' else 'AL'}{len(g.prog['aliases'])}"
        g.prog["aliases"][name] = {"name": name, "module": r.choice(g.mods), "kind": k, "target": cur}
        cur = ["wrap", "newtype" if k == "newtype" else "alias", cur, {"name": name}]
        kinds.append(k)
    if allow_qualifiers and r.random() < 0.3:
        q = r.choice(allow_qualifiers)
        cur = ["wrap", q, cur]
        kinds.append(q)
    return cur, kinds


def place(g, wrapped, plain, pos):
    """Put the wrapped / plain member at a position; returns (wrapped root, plain root, value builder)."""
    if pos == "root":
        return wrapped, plain, lambda v: v
    if pos == "coll":
        return ["coll", "list", wrapped, {"sp": g._sp("list")}], ["coll", "list", plain], lambda v: ["l", [v, v]]
    if pos == "mapval":
        return ["dict", ["str"], wrapped, {"sp": g._sp("dict")}], ["dict", ["str"], plain], lambda v: ["d", [["k", v]]]
    if pos == "tuple":
        return ["tuple", [["int"], wrapped]], ["tuple", [["int"], plain]], lambda v: ["t", [1, v]]
    if pos == "union":
        return ["union", [wrapped, ["none"]], {"sp": "typing"}], ["union", [plain, ["none"]], {"sp": "typing"}], lambda v: v
    raise ValueError(pos)


def make_ops(depth):
    def f(g, prog):
        ops = []
        for _ in range(3):
            base = g.ty(depth, allow_union=True)
            pos = g.r.choice(["root", "root", "coll", "mapval", "tuple", "union", "field"])
            allow_q = ["final", "classvar"] if pos == "root" else (["final"] if pos == "field" else [])
            if pos == "field":
                wrapped, kinds = wrap_chain(g, base, allow_q)
                cid = len(prog["classes"])
                cidp = cid + 1
                mod = g.r.choice(g.mods)
                for c, ft in ((cid, wrapped), (cidp, base)):
                    prog["classes"].append({"id": c, "name": f"Holder{c}", "qualname": f"Holder{c}", "module": mod, "kind": "dataclass",
                                            "opts": [], "fields": [["a", ["int"]], ["w", ft]], "required": ["a", "w"], "defaults": [],
                                            "members": [], "mixin": "none"})
                wroot, proot = ["cls", cid], ["cls", cidp]
                mkv = None
            else:
                if pos == "union" and any(m == "none" or (isinstance(m, list) and m and m[0] == "none") for m in [base]):
                    pos = "coll"
                wrapped, kinds = wrap_chain(g, base, allow_q)
                wroot, proot, mkv = place(g, wrapped, base, pos)
            for _ in range(3):
                v = g.value(base, budget=depth)
                if pos == "field":
                    vw = ["o", wroot[1], [["a", 1], ["w", v]]]
                    vp = ["o", proot[1], [["a", 1], ["w", v]]]
                else:
                    vw = vp = mkv(v)
                ops.append({"op": "rt", "ty": wroot, "val": vw, "pair": len(ops) + 1, "kinds": kinds, "pos": pos})
                ops.append({"op": "rt", "ty": proot, "val": vp, "plain": True})
            for _ in range(2):
                x = g.junk()
                ops.append({"op": "um", "ty": wroot, "val": x, "pair": len(ops) + 1, "kinds": kinds, "pos": pos})
                ops.append({"op": "um", "ty": proot, "val": x, "plain": True})
        return ops
    return f


def strip_cls(vj, a, b):
    """Rename class id a -> b in an encoded value (the two Holder classes of the 'field' position)."""
    if isinstance(vj, list):
        if vj and vj[0] == "o" and vj[1] == a:
            return ["o", b, [[k, strip_cls(v, a, b)] for k, v in vj[2]]]
        return [strip_cls(x, a, b) for x in vj]
    return vj


@iso.tmp_cleaned
def refs_child(job):
    """String references and ForwardRefs at the root: issued from the defining module, from another module with a
    qualified name, and from nested call depths."""
    import sys
    import types
    import warnings
    warnings.simplefilter("ignore")
    out = []
    a = types.ModuleType("vm_c11_a")
    b = types.ModuleType("vm_c11_b")
    sys.modules["vm_c11_a"], sys.modules["vm_c11_b"] = a, b
    exec("from __future__ import annotations\nimport dataclasses, typing, decimal, datetime\n"
         "@dataclasses.dataclass\nclass Item:\n    n: int\n    tags: list[str] = dataclasses.field(default_factory=list)\n"
         "IntList = list[int]\nNT = typing.NewType('NT', Item)\nAL = typing.TypeAliasType('AL', 'dict[str, Item]')\n"
         "import typelib\n"
         "def um(ref, x):\n    return typelib.unmarshal(ref, x)\n"
         "def um2(ref, x):\n    return (lambda: um(ref, x))()\n"
         "def mar(ref, v):\n    return typelib.marshal(v, t=ref)\n", a.__dict__)
    exec("import vm_c11_a, typelib\n"
         "def um(ref, x):\n    return typelib.unmarshal(ref, x)\n"
         "def um3(ref, x):\n    def inner():\n        def inner2():\n            return typelib.unmarshal(ref, x)\n        return inner2()\n    return inner()\n", b.__dict__)
    import typelib
    from typelib.py import refs
    wire = {"n": "3", "tags": ["a"]}
    base = typelib.unmarshal(a.Item, wire)
    cases = [
        ("'Item' from the defining module", lambda: a.um("Item", wire), base),
        ("'Item' from a nested call in the defining module", lambda: a.um2("Item", wire), base),
        ("'vm_c11_a.Item' qualified from another module", lambda: b.um("vm_c11_a.Item", wire), base),
        ("'vm_c11_a.Item' qualified from a doubly nested call", lambda: b.um3("vm_c11_a.Item", wire), base),
        ("ForwardRef('Item', module='vm_c11_a')", lambda: typelib.unmarshal(refs.forwardref("Item", module="vm_c11_a"), wire), base),
        ("'NT' (NewType by name)", lambda: a.um("NT", wire), base),
        ("'AL' (string-valued alias by name)", lambda: a.um("AL", {"k": wire}), {"k": base}),
        ("'vm_c11_a.IntList' (module-level generic alias by name)", lambda: b.um("vm_c11_a.IntList", ["1", 2]), [1, 2]),
        ("marshal with t='Item'", lambda: a.mar("Item", base), typelib.marshal(base, t=a.Item)),
        # a module-qualified text may spell a qualified type (Python permits ClassVar / Final at the root): `typing.ClassVar[int]` is
        # resolved in the module it names.  (Texts over names of the CALLER's module are not names; outside the assumption above.)
        ("'typing.ClassVar[int]'", lambda: a.um("typing.ClassVar[int]", "5"), 5),
        ("'typing.Final[int]'", lambda: a.um("typing.Final[int]", "5"), 5),
        ("'typing.ClassVar[typing.List[int]]' from a nested call", lambda: a.um2("typing.ClassVar[typing.List[int]]", ["1", 2]), [1, 2]),
        ("'typing.ClassVar[typing.Dict[str, int]]' from another module", lambda: b.um("typing.ClassVar[typing.Dict[str, int]]", {"k": "1"}), {"k": 1}),
        ("'typing.Final[typing.Optional[int]]'", lambda: b.um3("typing.Final[typing.Optional[int]]", "7"), 7),
        ("'typing.ClassVar[typing.Optional[int]]'", lambda: a.um("typing.ClassVar[typing.Optional[int]]", None), None),
        ("marshal with t='typing.ClassVar[typing.List[int]]'", lambda: a.mar("typing.ClassVar[typing.List[int]]", (1, 2)), [1, 2]),
    ]
    for label, fn, exp in cases:
        try:
            got = fn()
            out.append({"label": label, "ok": got == exp and type(got) is type(exp), "got": repr(got)[:120]})
        except Exception as e:  # noqa: BLE001
            out.append({"label": label, "ok": False, "got": f"{type(e).__name__}: {e}"[:160]})
    out.extend(nested_refs(job))
    out.extend(lambda_refs())
    return out


LAMBDA_A = '''
from __future__ import annotations
import dataclasses, typelib
@dataclasses.dataclass
class Item:
    n: int
    tags: list[str] = dataclasses.field(default_factory=list)
cb = lambda ref, x: typelib.unmarshal(ref, x)
mcb = lambda ref, v: typelib.marshal(v, t=ref)
def gen(ref, xs):
    return (typelib.unmarshal(ref, x) for x in xs)
def comp(ref, xs):
    return [typelib.unmarshal(ref, x) for x in xs]
def fn(ref, x):
    return typelib.unmarshal(ref, x)
'''
LAMBDA_B = '''
import vm_c11_la as la
def call(f, *a):
    return f(*a)
def consume(g):
    return list(g)
class Item:
    pass
'''


def lambda_refs():
    """References issued at a nested call depth whose frame is a lambda / generator expression of the defining module, run by
    ANOTHER module (a callback, a lazily consumed generator): the caller of the library is still the defining module."""
    import importlib
    import os
    import sys
    import tempfile
    d = tempfile.mkdtemp(prefix="c11lam")
    sys.path.insert(0, d)
    with open(os.path.join(d, "vm_c11_la.py"), "w") as f:
        f.write(LAMBDA_A)
    with open(os.path.join(d, "vm_c11_lb.py"), "w") as f:
        f.write(LAMBDA_B)
    a, b = importlib.import_module("vm_c11_la"), importlib.import_module("vm_c11_lb")
    import typelib
    wire = {"n": "3", "tags": ["a"]}
    base = typelib.unmarshal(a.Item, wire)
    plain = typelib.marshal(base, t=a.Item)
    cases = [
        ("'list[Item]' from a lambda of the defining module run by another module", lambda: b.call(a.cb, "list[Item]", [wire]), [base]),
        ("'dict[str, Item]' from a generator expression consumed by another module", lambda: b.consume(a.gen("dict[str, Item]", [{"k": wire}])), [{"k": base}]),
        ("marshal t='tuple[Item, ...]' from a lambda run by another module", lambda: b.call(a.mcb, "tuple[Item, ...]", (base,)), [plain]),
        ("'Item | None' from a lambda run by another module", lambda: b.call(a.cb, "Item | None", wire), base),
        ("'set[Item] | None' from a comprehension", lambda: a.comp("list[Item] | None", [[wire]]), [[base]]),
        ("'list[Item]' from a function of the defining module, afterwards", lambda: a.fn("list[Item]", [wire]), [base]),
        # known finding refTextSharedAcrossModules: module vm_c11_a issued the text 'Item' for ITS class earlier in this process
        ("'Item' from a second module that defines its own Item, after another module issued the same text", lambda: a.fn("Item", wire), base),
    ]
    out = []
    for label, fn, exp in cases:
        try:
            got = fn()
            out.append({"label": label, "ok": got == exp and type(got) is type(exp), "got": f"{type(got).__module__}.{got!r}"[:120]})
        except Exception as e:  # noqa: BLE001
            out.append({"label": label, "ok": False, "got": f"{type(e).__name__}: {e}"[:160]})
    if not out[-1]["ok"] and out[-1]["got"].startswith("vm_c11_a.Item("):
        out[-1]["finding"] = "refTextSharedAcrossModules"
    return out


NESTED_SRC = """
from __future__ import annotations
import dataclasses, enum, typing
@dataclasses.dataclass
class Pt:
    x: int
    y: int
PtAlias = typing.TypeAliasType("PtAlias", Pt)
PtStr = typing.TypeAliasType("PtStr", "Pt")
PtNew = typing.NewType("PtNew", Pt)
Uid = typing.NewType("Uid", int)
UidAlias = typing.TypeAliasType("UidAlias", Uid)
UidAlias2 = typing.TypeAliasType("UidAlias2", UidAlias)
Names = typing.TypeAliasType("Names", list[str])
from typing import Literal
Mode = typing.Literal["r", "w"]
IntList = list[int]
MaybePt = typing.Optional[Pt]
class Outer:
    @dataclasses.dataclass
    class Inner:
        x: int
        tag: str = "t"
    class Colour(enum.Enum):
        RED = "red"
        BLUE = "blue"
    class Mid:
        @dataclasses.dataclass
        class Leaf:
            n: int
            inner: typing.Optional[Outer.Inner] = None
InnerId = typing.NewType("InnerId", Outer.Inner)
@dataclasses.dataclass
class Tree:
    value: int
    children: Forest
Forest = typing.TypeAliasType("Forest", list[Tree])
@dataclasses.dataclass
class TreeP:
    value: int
    children: list[TreeP]
@dataclasses.dataclass
class Chain:
    value: int
    next: typing.Optional[ChainRef] = None
ChainRef = typing.NewType("ChainRef", Chain)
@dataclasses.dataclass
class ChainP:
    value: int
    next: typing.Optional[ChainP] = None
# wrappers that cannot be found again by their own declared name: bound to another variable name / made by a factory of another module
@dataclasses.dataclass
class Renamed:
    value: int
    children: list[RenamedRef] = dataclasses.field(default_factory=list)
RenamedRef = typing.NewType("RenamedId", Renamed)
import vm_c11_kit
@dataclasses.dataclass
class KitNT:
    value: int
    children: list[KitNTRef] = dataclasses.field(default_factory=list)
KitNTRef = vm_c11_kit.new_type("KitNTRef", KitNT)
@dataclasses.dataclass
class KitAl:
    value: int
    nxt: typing.Optional[KitAlRef] = None
KitAlRef = vm_c11_kit.new_alias("KitAlRef", KitAl)
@dataclasses.dataclass
class Chained:
    value: int
    children: list[ChainedRef] = dataclasses.field(default_factory=list)
ChainedRef = typing.TypeAliasType("ChainedRef", typing.NewType("ChainedMid", typing.TypeAliasType("ChainedIn", Chained)))
@dataclasses.dataclass
class ListP:
    value: int
    children: list[ListP] = dataclasses.field(default_factory=list)
@dataclasses.dataclass
class OptP:
    value: int
    nxt: typing.Optional[OptP] = None
"""
KIT_SRC = """
import typing
def new_type(name, base):
    return typing.NewType(name, base)
def new_alias(name, base):
    return typing.TypeAliasType(name, base)
"""


def shape(o):
    """Reduce a result to plain data with class names erased (the wrapped and plain recursive models are different classes)."""
    import dataclasses
    if dataclasses.is_dataclass(o) and not isinstance(o, type):
        return {"$obj": {f.name: shape(getattr(o, f.name)) for f in dataclasses.fields(o)}}
    if isinstance(o, (list, tuple)):
        return [type(o).__name__, [shape(i) for i in o]]
    if isinstance(o, dict):
        return {k: shape(v) for k, v in o.items()}
    return [type(o).__name__, repr(o)]


def nested_refs(seed):
    """A reference (ForwardRef with module, or the named object itself) that names a class / alias / NewType / chain of them,
    placed at every composite position: the routines must behave like those of the plain type; plus recursive models whose
    back-edge is spelled through an alias or a NewType."""
    import random
    import sys
    import types
    import typing
    import typelib
    kit = types.ModuleType("vm_c11_kit")
    sys.modules["vm_c11_kit"] = kit
    exec(compile(KIT_SRC, "vm_c11_kit.py", "exec"), kit.__dict__)
    m = types.ModuleType("vm_c11_n")
    sys.modules["vm_c11_n"] = m
    exec(compile(NESTED_SRC, "vm_c11_n.py", "exec"), m.__dict__)
    r = random.Random(seed)

    def ref(name):
        return typing.ForwardRef(name, module="vm_c11_n")
    pt_raw, pt_val = {"x": "1", "y": 2}, m.Pt(1, 2)
    names = {  # name -> (plain type, wire input, valid value)
        "Pt": (m.Pt, pt_raw, pt_val), "PtAlias": (m.Pt, pt_raw, pt_val), "PtStr": (m.Pt, pt_raw, pt_val), "PtNew": (m.Pt, pt_raw, pt_val),
        "Uid": (int, "7", 7), "UidAlias": (int, "7", 7), "UidAlias2": (int, "8", 8), "Names": (list[str], [1, "b"], ["1", "b"]),
        # references whose text is a type EXPRESSION, or the name of a module-level variable holding an anonymous type
        "list[int]": (list[int], ["1", 2], [1, 2]), "dict[str, Pt]": (dict[str, m.Pt], {"a": pt_raw}, {"a": pt_val}),
        "Pt | None": (typing.Optional[m.Pt], pt_raw, pt_val), "typing.Literal['r', 'w']": (typing.Literal["r", "w"], "r", "w"),
        "Literal['r', 'w']": (typing.Literal["r", "w"], "w", "r"), "Mode": (typing.Literal["r", "w"], "r", "r"),
        "IntList": (list[int], ["3"], [3]), "MaybePt": (typing.Optional[m.Pt], pt_raw, pt_val),
        "tuple[int, str]": (tuple[int, str], ["1", 2], (1, "2")), "list[Outer.Inner]": (list[m.Outer.Inner], [{"x": "1"}], [m.Outer.Inner(1)]),
    }
    positions = {
        "root": (lambda t: t, lambda x: x),
        "list": (lambda t: list[t], lambda x: [x, x]),
        "mapval": (lambda t: dict[str, t], lambda x: {"k": x}),
        "tuple": (lambda t: tuple[str, t], lambda x: ("a", x)),
        "vartuple": (lambda t: tuple[t, ...], lambda x: (x,)),
        "optional": (lambda t: typing.Optional[t], lambda x: x),
        "union-none-first": (lambda t: typing.Union[None, t], lambda x: x),
        "list-of-dict": (lambda t: list[dict[str, t]], lambda x: [{"k": x}]),
    }
    junk = ["zz", None, [1], {"x": "q"}, 3.5]

    def obs(fn):
        import warnings
        with warnings.catch_warnings():
            warnings.simplefilter("ignore")
            try:
                return ["ok", shape(fn())]
            except Exception as e:  # noqa: BLE001
                return ["err", enc.err_class(e)]
    out = []
    for name, (plain, raw, val) in names.items():
        for how, w in (("ForwardRef", ref(name)),) + ((("object", getattr(m, name)),) if hasattr(m, name) else ()):
            for pos, (mk, mkv) in positions.items():
                label = f"{how} {name} at {pos}"
                tw, tp = mk(w), mk(plain)
                diffs = []
                for what, fw, fp in (
                    ("unmarshal", lambda: typelib.unmarshal(tw, mkv(raw)), lambda: typelib.unmarshal(tp, mkv(raw))),
                    ("marshal", lambda: typelib.marshal(mkv(val), t=tw), lambda: typelib.marshal(mkv(val), t=tp)),
                    ("codec", lambda: typelib.codec(tw).decode(typelib.codec(tw).encode(mkv(val))),
                     lambda: typelib.codec(tp).decode(typelib.codec(tp).encode(mkv(val)))),
                    ("unmarshal-junk", lambda: [obs(lambda j=j: typelib.unmarshal(tw, mkv(j))) for j in junk],
                     lambda: [obs(lambda j=j: typelib.unmarshal(tp, mkv(j))) for j in junk]),
                ):
                    a, b = obs(fw), obs(fp)
                    if a != b:
                        diffs.append(f"{what}: wrapped {json.dumps(a)[:90]} vs plain {json.dumps(b)[:90]}")
                out.append({"label": label, "ok": not diffs, "got": "; ".join(diffs)[:300]})
    # references to NESTED classes (dotted qualified names): module-qualified text from anywhere, ForwardRef with module, the
    # qualified name from the defining module -- each must behave like the class object
    exec("import typelib\ndef um(ref, x):\n    return typelib.unmarshal(ref, x)\ndef mar(ref, v):\n    return typelib.marshal(v, t=ref)\n",
         m.__dict__)
    inner_raw, inner_val = {"x": "5", "tag": "q"}, m.Outer.Inner(5, "q")
    leaf_raw, leaf_val = {"n": "1", "inner": {"x": "2"}}, m.Outer.Mid.Leaf(1, m.Outer.Inner(2))
    nested = [("Outer.Inner", m.Outer.Inner, inner_raw, inner_val), ("Outer.Colour", m.Outer.Colour, "blue", m.Outer.Colour.BLUE),
              ("Outer.Mid.Leaf", m.Outer.Mid.Leaf, leaf_raw, leaf_val), ("InnerId", m.Outer.Inner, inner_raw, inner_val),
              ("Pt", m.Pt, pt_raw, pt_val)]
    for qn, cls, raw, val in nested:
        spellings = [
            (f"'vm_c11_n.{qn}' (module-qualified text, issued from outside)", lambda: typelib.unmarshal(f"vm_c11_n.{qn}", raw),
             lambda: typelib.marshal(val, t=f"vm_c11_n.{qn}")),
            (f"ForwardRef('{qn}', module='vm_c11_n')", lambda: typelib.unmarshal(ref(qn), raw), lambda: typelib.marshal(val, t=ref(qn))),
            (f"'{qn}' (text, issued from the defining module)", lambda: m.um(qn, raw), lambda: m.mar(qn, val)),
            (f"codec('vm_c11_n.{qn}')", lambda: typelib.codec(f"vm_c11_n.{qn}").decode(typelib.codec(f"vm_c11_n.{qn}").encode(val)),
             lambda: typelib.codec(f"vm_c11_n.{qn}").encode(val)),
        ]
        base_u, base_m = obs(lambda: typelib.unmarshal(cls, raw)), obs(lambda: typelib.marshal(val, t=cls))
        base_c = (obs(lambda: typelib.codec(cls).decode(typelib.codec(cls).encode(val))), obs(lambda: typelib.codec(cls).encode(val)))
        for label, fu, fm in spellings:
            eu, em = (base_c if label.startswith("codec") else (base_u, base_m))
            a, b = obs(fu), obs(fm)
            diffs = []
            if a != eu:
                diffs.append(f"first op: reference {json.dumps(a)[:100]} vs type {json.dumps(eu)[:100]}")
            if b != em:
                diffs.append(f"second op: reference {json.dumps(b)[:100]} vs type {json.dumps(em)[:100]}")
            out.append({"label": "reference " + label, "ok": not diffs, "got": "; ".join(diffs)[:300]})
    # text that is a type EXPRESSION over several module-qualified names (the qualifier occurs more than once)
    exprs = [
        ("vm_c11_n.Uid | vm_c11_n.Pt", typing.Union[m.Uid, m.Pt], [("7", 7), (pt_raw, pt_val)]),
        ("vm_c11_n.Pt | vm_c11_n.Uid | None", typing.Union[m.Pt, m.Uid, None], [(pt_raw, pt_val), (None, None)]),
        ("vm_c11_n.PtStr | vm_c11_n.Outer.Inner", typing.Union[m.Pt, m.Outer.Inner], [(pt_raw, pt_val), (inner_raw, inner_val)]),
        ("vm_c11_n.Names | vm_c11_n.Uid", typing.Union[list[str], int], [([1, "b"], ["1", "b"]), ("7", 7)]),
        ("vm_c11_n.Pt | None", typing.Optional[m.Pt], [(pt_raw, pt_val), (None, None)]),
    ]
    for text, plain, samples in exprs:
        diffs = []
        for raw, val in samples:
            for what, fw, fp in (("unmarshal", lambda: typelib.unmarshal(text, raw), lambda: typelib.unmarshal(plain, raw)),
                                 ("marshal", lambda: typelib.marshal(val, t=text), lambda: typelib.marshal(val, t=plain)),
                                 ("codec", lambda: typelib.codec(text).encode(val), lambda: typelib.codec(plain).encode(val))):
                a, b = obs(fw), obs(fp)
                if a != b:
                    diffs.append(f"{what}: reference {json.dumps(a)[:90]} vs type {json.dumps(b)[:90]}")
        out.append({"label": f"reference '{text}' (type expression over qualified names)", "ok": not diffs, "got": "; ".join(diffs)[:300]})
    depth = r.randint(2, 5)
    tree = {"value": "0", "children": []}
    for i in range(depth):
        tree = {"value": str(i + 1), "children": [tree, {"value": i, "children": []}]}
    chain = None
    for i in range(depth):
        chain = {"value": str(i), "next": chain}
    for label, tw, tp, raw in (
        ("recursive model, back-edge through an alias of list[Tree] (root = the alias)", m.Forest, list[m.TreeP], [tree]),
        ("recursive model, back-edge through an alias of list[Tree] (root = the class)", m.Tree, m.TreeP, tree),
        ("recursive model, back-edge through an alias (root = list[Tree])", list[m.Tree], list[m.TreeP], [tree]),
        ("recursive model, back-edge through a NewType (root = the class)", m.Chain, m.ChainP, chain),
        ("recursive model, back-edge through a NewType (root = the NewType)", m.ChainRef, m.ChainP, chain),
        ("recursive model, back-edge through a NewType (root = dict of it)", dict[str, m.Chain], dict[str, m.ChainP], {"k": chain}),
        ("recursive model, back-edge through a NewType bound to another name than it declares", m.Renamed, m.ListP, tree),
        ("recursive model, back-edge through a NewType made by a factory of another module", m.KitNT, m.ListP, tree),
        ("recursive model, back-edge through an alias made by a factory of another module", m.KitAl, m.OptP,
         {"value": "1", "nxt": {"value": "2", "nxt": {"value": 3, "nxt": None}}}),
        ("recursive model, back-edge through alias -> NewType -> alias", m.Chained, m.ListP, tree),
        ("recursive model, back-edge through a renamed NewType (root = list of the class)", list[m.Renamed], list[m.ListP], [tree]),
    ):
        a, b = obs(lambda: typelib.unmarshal(tw, raw)), obs(lambda: typelib.unmarshal(tp, raw))
        diffs = [] if a == b else [f"unmarshal: wrapped {json.dumps(a)[:140]} vs plain {json.dumps(b)[:140]}"]
        if a[0] == "ok" and b[0] == "ok":
            va, vb = typelib.unmarshal(tw, raw), typelib.unmarshal(tp, raw)
            ma, mb = obs(lambda: typelib.marshal(va, t=tw)), obs(lambda: typelib.marshal(vb, t=tp))
            if ma != mb:
                diffs.append(f"marshal: wrapped {json.dumps(ma)[:140]} vs plain {json.dumps(mb)[:140]}")
        out.append({"label": label, "ok": not diffs, "got": "; ".join(diffs)[:300]})
    return out


# ---- binary types under every wrapper chain of length <= 3, through the codec entry points (bytes-like T is carried verbatim)
def _bytes_chain_child(_job):
    import itertools
    import typing
    import warnings
    warnings.simplefilter("ignore")
    import typelib
    bad = []

    def obs(t):
        out = {}
        for label, f in (("codec.encode", lambda: typelib.codec(t).encode(b'"ab"')), ("codec.decode", lambda: typelib.codec(t).decode(b'"ab"')),
                         ("encode", lambda: typelib.encode(b"[1, 2]", t=t)), ("decode", lambda: typelib.decode(t, b"[1, 2]")),
                         ("marshal", lambda: typelib.marshal(b"ab", t=t)), ("unmarshal", lambda: typelib.unmarshal(t, b"ab")),
                         ("unmarshal-str", lambda: typelib.unmarshal(t, "ab"))):
            try:
                r = f()
                out[label] = ["ok", type(r).__name__, bytes(r) if isinstance(r, (bytes, bytearray, memoryview)) else repr(r)]
            except Exception as e:  # noqa: BLE001
                out[label] = ["raised", type(e).__name__]
        return out
    n = 0
    for base in (bytes, bytearray):
        plain = obs(base)
        for k in (1, 2, 3):
            for chain in itertools.product("NA", repeat=k):
                t = base
                for i, w in enumerate(reversed(chain)):
                    t = typing.NewType(f"N{i}", t) if w == "N" else typing.TypeAliasType(f"A{i}", t)
                got = obs(t)
                n += 1
                if got != plain:
                    diff = {k_: (got[k_], plain[k_]) for k_ in got if got[k_] != plain[k_]}
                    bad.append(["".join(chain) + " over " + base.__name__, repr(diff)[:300]])
    return {"bad": bad, "n": n}


def bytes_chain_probe(res):
    from .. import iso
    o = iso.map_isolated(_bytes_chain_child, [None], timeout=120.0)[0]
    if not isinstance(o, dict) or "bad" not in o:
        raise RuntimeError(f"harness: bytes chain probe failed: {o}")
    res.case({"family": "wrapper-chains-over-binary-types"}, True)
    for chain, diff in o["bad"]:
        res.failures.append({"what": f"wrapper chain {chain} is not transparent for the codec entry points: (wrapped, plain) = {diff}",
                             "input": {"bytes_chain": chain}})
    if not o["bad"]:
        res.count("oracle:binary-wrapper-chains-transparent", o["n"])


# ---- wrapper chains over the union that closes a RECURSION: families of classes which differ only in how W names Optional[Node]
REC_CHAINS = ["", "A", "N", "S", "AA", "NA", "AN", "NN", "SA", "AS", "NS", "ANA", "NNA", "NAN", "AAN", "NAA", "ASN", "NSA"]
REC_POSITIONS = ["W", "typing.Union[W, int]", "typing.List[W]", "typing.Dict[str, W]", "typing.Tuple[W, int]"]
REC_TEMPLATES = {"extra": """
from __future__ import annotations
import dataclasses, typing, datetime
@dataclasses.dataclass
class Node:
    x: {pos} = None
    d: datetime.date = datetime.date(2020, 1, 2)
@dataclasses.dataclass
class Head:
    x: {pos} = None
    n: typing.Optional[Node] = None
{wdef}
""", "bare": """
from __future__ import annotations
import dataclasses, typing, datetime
@dataclasses.dataclass
class Node:
    x: {pos} = None
@dataclasses.dataclass
class Head:
    x: {pos} = None
{wdef}
""", "via": """
from __future__ import annotations
import dataclasses, typing, datetime
@dataclasses.dataclass
class Node:
    y: {pos} = None
    d: datetime.date = datetime.date(2020, 1, 2)
@dataclasses.dataclass
class Head:
    n: typing.List[Node] = dataclasses.field(default_factory=list)
    x: {pos} = None
{wdef}
"""}
# "C:" positions: W wraps the CLASS Node itself and sits next to a bare Node at the same level (two members that unwrap to one type)
REC_CLASS_POSITIONS = ["C:typing.Optional[typing.Tuple[Node, W]]", "C:typing.List[typing.Tuple[Node, W]]", "C:typing.Union[Node, W, None]",
                       "C:typing.Dict[str, typing.Tuple[W, Node]]", "C:typing.Optional[typing.Tuple[W, Node, W]]"]
REC_JOBS = [(p_, t_) for p_ in REC_POSITIONS + REC_CLASS_POSITIONS for t_ in ("extra", "bare", "via")]


def _rec_family_src(chain, pos, tmpl):
    lines, cur = [], ("Node" if pos.startswith("C:") else "typing.Optional[Node]")
    pos = pos[2:] if pos.startswith("C:") else pos
    for i, w in enumerate(reversed(chain)):
        name = f"W{i}"
        if w == "A":
            lines.append(f"{name} = typing.TypeAliasType('{name}', {cur})")
        elif w == "S":
            lines.append(f"{name} = typing.TypeAliasType('{name}', '{cur}')")
        else:
            lines.append(f"{name} = typing.NewType('{name}', {cur})")
        cur = name
    lines.append(f"W = {cur}")
    return REC_TEMPLATES[tmpl].format(wdef="\n".join(lines), pos=pos)


def _rec_chain_child(job):
    pos, tmpl = job
    import sys
    import types
    import warnings
    warnings.simplefilter("ignore")
    import typelib

    def wrapv(v):
        if pos.startswith("C:"):
            if v is None:
                return {"C:typing.List[typing.Tuple[Node, W]]": [], "C:typing.Dict[str, typing.Tuple[W, Node]]": {}}.get(pos)
            return {"C:typing.Optional[typing.Tuple[Node, W]]": [v, v], "C:typing.List[typing.Tuple[Node, W]]": [[v, v]],
                    "C:typing.Union[Node, W, None]": v, "C:typing.Dict[str, typing.Tuple[W, Node]]": {"k": [v, v]},
                    "C:typing.Optional[typing.Tuple[W, Node, W]]": [v, v, v]}[pos]
        return {"W": v, "typing.Union[W, int]": v, "typing.List[W]": [v, None], "typing.Dict[str, W]": {"k": v},
                "typing.Tuple[W, int]": [v, "7"]}[pos]

    def shape(o):
        import dataclasses
        if dataclasses.is_dataclass(o) and not isinstance(o, type):
            return [type(o).__name__, {f.name: shape(getattr(o, f.name)) for f in dataclasses.fields(o)}]
        if isinstance(o, dict):
            return {k: shape(v) for k, v in o.items()}
        if isinstance(o, (list, tuple)):
            return [type(o).__name__, [shape(v) for v in o]]
        return repr(o)

    def observe(chain):
        name = f"vm_c11_rec_{chain or 'plain'}_{tmpl}"
        mod = types.ModuleType(name)
        sys.modules[name] = mod
        exec(_rec_family_src(chain, pos, tmpl), mod.__dict__)
        Node, Head = mod.Node, mod.Head
        fx = "y" if tmpl == "via" else "x"           # the field of Node that carries the position
        none = [None, 1] if pos == "typing.Tuple[W, int]" else wrapv(None) if pos.startswith("C:") else None
        leaf = {fx: none, "d": "2021-03-04"} if tmpl != "bare" else {fx: none}
        inner = {fx: wrapv(leaf), **({"d": "2022-05-06"} if tmpl != "bare" else {})}
        inputs = [{"x": wrapv(inner)}, {"x": wrapv(None)}, {"x": wrapv(leaf)}, {"x": "junk"}, {}, '{"x": null}']
        if tmpl == "extra":
            inputs += [{"x": wrapv(inner), "n": inner}, '{"x": null, "n": {"d": "2020-02-02"}}']
        if tmpl == "via":
            inputs += [{"x": wrapv(leaf), "n": [inner, leaf]}]
        if pos == "typing.Union[W, int]":
            inputs += [{"x": "7"}, {"x": {fx: "5"}}]
        out = []
        for x in inputs:
            for label, f in (("unmarshal", lambda: typelib.unmarshal(Head, x)),
                             ("marshal-of-unmarshal", lambda: typelib.marshal(typelib.unmarshal(Head, x))),
                             ("marshal-t", lambda: typelib.marshal(typelib.unmarshal(Head, x), t=Head)),
                             ("codec", lambda: typelib.codec(Head).decode(typelib.codec(Head).encode(typelib.unmarshal(Head, x))))):
                try:
                    out.append([label, "ok", shape(f())])
                except Exception as e:  # noqa: BLE001
                    out.append([label, "raised", "ValueError" if isinstance(e, ValueError) else type(e).__name__])
        return out
    plain = observe("")
    bad, n = [], 0
    for chain in REC_CHAINS[1:]:
        got = observe(chain)
        n += len(got)
        if got != plain:
            d = next((g, p_) for g, p_ in zip(got, plain) if g != p_)
            bad.append([chain, repr(d)[:400]])
    return {"bad": bad, "n": n, "plain_ok": sum(1 for o in plain if o[1] == "ok")}


def rec_chain_probe(res):
    from .. import iso
    outs = iso.map_isolated(_rec_chain_child, REC_JOBS, timeout=120.0)
    for (pos, tmpl), o in zip(REC_JOBS, outs):
        if not isinstance(o, dict) or "bad" not in o:
            raise RuntimeError(f"harness: recursive chain probe failed: {pos} {tmpl}: {o}")
        if not o["plain_ok"]:
            raise RuntimeError(f"harness: recursive chain probe is vacuous at {pos}")
        res.case({"family": "wrapper-chains-over-recursive-union", "pos": pos, "classes": tmpl}, True)
        for chain, diff in o["bad"]:
            res.failures.append({"what": f"chain {chain} (A alias, S string-valued alias, N NewType; outermost first) over the type that closes the recursion at "
                                         f"`x: {pos}` of the recursive classes Head / Node ({tmpl}) is not transparent: (wrapped, plain) = {diff}",
                                 "input": {"rec_chain": [chain, pos, tmpl]}})
        if not o["bad"]:
            res.count("oracle:recursive-wrapper-chains-transparent", o["n"])


def explore(ctx):
    res = Result()
    res.rule = RULE
    depth = 2 if ctx.tier == "quick" else 3
    n = ctx.n(150, 2500)
    jobs = core.gen_jobs(ctx, n, "c11", dict(max_depth=depth, unions="any", wrappers=True), make_ops(depth))
    real, model = core.run_jobs(jobs)
    res.programs = len(jobs)
    for job, ro, mo in zip(jobs, real, model):
        if isinstance(ro, dict) and "crash" in ro:
            raise RuntimeError(f"harness: program failed to materialise: {ro}")
        ops = job["ops"]
        for i, (op, r_, m_) in enumerate(zip(ops, ro, mo)):
            if "crash" in r_:
                raise RuntimeError(f"harness: {r_}")
            if op.get("plain"):
                continue
            rp = ro[op["pair"]]
            case = {"ann": enc.pyexpr(op["ty"], job["prog"]), "plain": enc.pyexpr(ops[op["pair"]]["ty"], job["prog"]),
                    "chain": op["kinds"], "pos": op["pos"], "val": op["val"]}
            res.case(case, True)
            res.count("pos:" + op["pos"])
            for k in op["kinds"]:
                res.count("wrapper:" + k)
            inp = {"prog": job["prog"], "ty": op["ty"], "val": op["val"], **case}
            unordered = enc.has_set(op["ty"], job["prog"])
            # correspondence on the wrapped annotation
            if op["op"] == "rt":
                for what in ("mar", "um"):
                    if what in r_ and what in m_:
                        if core.compare(res, what, inp, r_[what], m_[what], unordered=(what == "mar" and unordered)) is not True:
                            break
            else:
                core.compare(res, "um", inp, r_, m_)
            # metamorphic oracle: W(T) behaves like T
            ida, idb = None, None
            if op["pos"] == "field":
                ida, idb = ops[op["pair"]]["ty"][1], op["ty"][1]

            def norm(o):
                if "ok" in o and ida is not None:
                    return {"ok": strip_cls(o["ok"], ida, idb)}
                return o
            pairs = [("mar", r_.get("mar"), rp.get("mar")), ("um", r_.get("um"), rp.get("um"))] if op["op"] == "rt" else [("um", r_, rp)]
            for what, x, y in pairs:
                if x is None or y is None:
                    if (x is None) != (y is None):
                        res.failures.append({"what": f"{what}: the wrapped annotation and the plain one disagree on success", "input": inp})
                    continue
                y = norm(y)
                cn = enc.canon_unordered if (what == "mar" and unordered) else enc.canon
                same = ("ok" in x and "ok" in y and cn(x["ok"]) == cn(y["ok"])) or ("err" in x and x.get("err") == y.get("err"))
                if not same:
                    res.failures.append({"what": f"{what}: routine for the wrapped annotation differs from the routine for the plain one",
                                         "input": inp, "real": {"wrapped": {k: x[k] for k in x if k != "msg"}, "plain": {k: y[k] for k in y if k != "msg"}}})
                else:
                    res.count("oracle:transparent")
    core.import_typelib()
    for out in iso.map_isolated(refs_child, [ctx.seed]):
        if isinstance(out, dict) and "crash" in out:
            raise RuntimeError(f"harness: {out}")
        for o in out:
            res.case({"reference": o["label"]}, True)
            if not o["ok"]:
                res.failures.append({"what": f"reference {o['label']} did not behave like the type it names: {o['got']}",
                                     "input": {"reference": o["label"], "seed": ctx.seed}, **({"finding": o["finding"]} if o.get("finding") else {})})
            else:
                res.count("oracle:reference-ok")
    bytes_chain_probe(res)
    rec_chain_probe(res)
    return res


def witness(fid):
    return None


def replay(failure):
    if "bytes_chain" in failure.get("input", {}):
        from .. import iso
        o = iso.map_isolated(_bytes_chain_child, [None], timeout=120.0)[0]
        print(json.dumps(o, indent=1, default=str)[:3000])
        return bool(o.get("bad")) if isinstance(o, dict) else True
    inp = failure["input"]
    if "rec_chain" in inp:
        from .. import iso
        chain, pos, tmpl = inp["rec_chain"]
        o = iso.map_isolated(_rec_chain_child, [(pos, tmpl)], timeout=120.0)[0]
        bad = [b for b in o.get("bad", [])] if isinstance(o, dict) else o
        print(_rec_family_src(chain, pos, tmpl))
        print(json.dumps(bad, indent=1, default=str)[:3000])
        return bool(bad)
    if "reference" in inp:
        core.import_typelib()
        out = iso.map_isolated(refs_child, [inp.get("seed", 0)])[0]
        print(json.dumps([o for o in out if o["label"] == inp["reference"]], indent=1))
        return any(not o["ok"] for o in out if o["label"] == inp["reference"])
    print(json.dumps({k: inp[k] for k in inp if k != "prog"}, indent=1)[:2000])
    job = {"prog": inp["prog"], "ops": [{"op": "rt", "ty": inp["ty"], "val": inp["val"]}]}
    real, model = core.run_jobs([job])
    print(json.dumps(real[0][0], indent=1)[:2000])
    return True
