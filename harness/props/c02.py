"""C02 — JSON wire round trip and agreement of all entry points."""
from __future__ import annotations

import json

from .. import core, enc, universe
from ..runner import Result
from .c01 import type_optional_only, enum_ambiguous

ID = "C02"
LEVEL = "proof"
LEVEL_TEXT = ("Kernel-checked theorems over the model of the three entry points (Props/C02.lean): typelib.encode/decode, "
              "Codec.encode/decode and the explicit composition are equal for every annotation, coder pair and input "
              "(`*_entrypoints_agree`, `*_is_composition`), bytes-like T is carried verbatim (`bytes_verbatim`), and the wire round "
              "trip follows from C01 and the coder law JsonLaw (`codec_roundtrip`, `codec_roundtrip_U`). JsonLaw (the JSON libraries) "
              "is a named hypothesis, exercised on the real encoders by every run; the agreement of the real entry points, the "
              "validity of the emitted JSON (stdlib json.loads == marshal(v)) and the round trip are evaluated directly on the real "
              "library under three encoder/decoder configurations.")
LEVEL_NOTE = ("Trusted: Lean kernel, standard axioms; model tied by correspondence (model marshal vs json.loads of the real payload); "
              "orjson / json are assumed to satisfy JsonLaw on plain, str-keyed, 64-bit data.")
TECHNIQUE = "Lean 4 theorems (entry-point equalities, round trip = C01 ∘ coder law); correspondence through the decoded payload; three-configuration oracle"
DESIGN_REF = "DESIGN.md §5 C02"
MODULES = ["TypelibModel.Props.C02", "TypelibModel.Props.Dispatch"]
TABLES = True
RULE = ("programs with str-keyed mappings, ints within 64 bits, valid Unicode; valid values; three configurations "
        "{default (orjson), stdlib json wrapped to bytes, tagging test codec}; plus bytes payloads for bytes-like T")
ASSUMPTIONS = ["JsonLaw for orjson and json on plain str-keyed 64-bit data", "floats are compared by repr"]
TRUSTED = ["harness encoders/generators", "hand-written model tied by correspondence"]


def str_keyed(ts, prog, seen=None):
    seen = set() if seen is None else seen
    body = [x for x in ts if not isinstance(x, dict)]
    tag = body[0]
    if tag == "dict":
        kb = [x for x in body[1] if not isinstance(x, dict)]
        return kb == ["str"] and str_keyed(body[2], prog, seen)
    if tag == "coll":
        return str_keyed(body[2], prog, seen)
    if tag in ("tuple", "union"):
        return all(str_keyed(e, prog, seen) for e in body[1])
    if tag == "wrap":
        return str_keyed(body[2], prog, seen)
    if tag == "cls":
        if body[1] in seen:
            return True
        seen.add(body[1])
        return all(str_keyed(ft, prog, seen) for _, ft in prog["classes"][body[1]]["fields"])
    return True


def small_ints(v):
    if isinstance(v, bool) or v is None or isinstance(v, str):
        return True
    if isinstance(v, int):
        return -2**63 <= v < 2**63
    if isinstance(v, list):
        return all(small_ints(x) for x in v)
    return True


def make_ops(depth):
    def f(g, prog):
        ops = []
        for _ in range(3):
            ts = g.ty(depth)
            if not str_keyed(ts, prog):
                continue
            for _ in range(3):
                v = g.value(ts, budget=depth)
                if small_ints(v):
                    ops.append({"op": "codec", "ty": ts, "val": v})
        ops.append({"op": "codec", "ty": ["bytes"], "val": ["b", "bytes", g.r.choice(universe.STRS)]})
        return ops
    return f


ADV_TEXT = ["null", "None", " null\n", "true", "1", "1.5", "[1]", "{}", "\"q\"", "2020-01-02", "", "nan", "0x10", "a\"b"]


def adversarial_text_job():
    """Every str value that reads as something else (JSON / Python literal / number / date / null) at every position where a text
    member sits next to None or to another member: the wire is quoted text and must come back as that text."""
    opt = ["union", [["str"], ["none"]], {"sp": "optional"}]
    tys = [opt, ["union", [["none"], ["str"]], {"sp": "typing"}], ["coll", "list", opt, {"sp": "builtin"}],
           ["dict", ["str"], opt, {"sp": "builtin"}], ["tuple", [["int"], opt], {"sp": "builtin"}], ["str"]]
    ops = []
    for s in ADV_TEXT:
        for ts in tys:
            tag = ts[0]
            v = s if tag in ("union", "str") else (["l", [s, None, s]] if tag == "coll" else (["d", [["k", s]]] if tag == "dict" else ["t", [1, s]]))
            ops.append({"op": "codec", "ty": ts, "val": v})
    return {"prog": {"classes": [], "aliases": {}}, "ops": ops}


SEQ_SRC = """
import dataclasses, datetime, decimal, typing, uuid
@dataclasses.dataclass
class Event:
    id: typing.Union[uuid.UUID, str]
    at: typing.Union[datetime.datetime, str]
    n: typing.Union[typing.List[int], typing.List[str]] = dataclasses.field(default_factory=list)
import collections
class S(str):
    pass
@dataclasses.dataclass
class Inventory:
    name: str
    counts: typing.Dict[str, int] = dataclasses.field(default_factory=dict)
class Document(typing.TypedDict):
    # keys of a TypedDict are wire keys whatever they look like (`_id` of a document store)
    _id: uuid.UUID
    title: str
class Revision(typing.TypedDict):
    number: int
    _etag: typing.NotRequired[str]
Row = collections.namedtuple("Row", ["class", "value"], rename=True)      # fields _0, value
class Blob(bytes):
    pass
class TypedRow(typing.NamedTuple):
    key: str
    row: Row
@dataclasses.dataclass
class Shelf:
    docs: typing.List[Document]
    rev: Revision
"""
U1, U2 = "uuid.UUID('12345678-1234-5678-1234-567812345678')", "uuid.UUID('00000000-0000-4000-8000-000000000001')"
DT = "datetime.datetime(2024, 2, 29, 12, 30, 15, 250, tzinfo=datetime.timezone.utc)"
SEQ_CASES = [("typing.Union[uuid.UUID, str]", [U1, "'hello'", U2, "'x'", U1]),
             ("typing.Union[datetime.datetime, str]", [DT, "'soon'", DT]),
             ("typing.Union[typing.List[int], typing.List[str]]", ["[1, 2]", "['a', 'b']", "[3, 4]", "[]", "[5]"]),
             ("typing.Dict[str, typing.Union[uuid.UUID, str]]", ["{'k': " + U1 + "}", "{'k': 'text'}", "{'k': " + U2 + ", 'j': 'w'}"]),
             ("Event", [f"Event({U1}, {DT}, [1])", "Event('plain', 'later', ['a'])", f"Event({U2}, {DT}, [2, 3])"]),
             ("typing.Optional[typing.Union[int, str]]", ["1", "'a'", "None", "2"]),
             # members whose NAME starts with an underscore but which are on the wire: TypedDict keys, renamed named-tuple fields
             ("Document", ["{'_id': " + U1 + ", 'title': 'Hello'}", "{'_id': " + U2 + ", 'title': ''}"]),
             ("Revision", ["{'number': 1}", "{'number': 2, '_etag': 'W/123'}"]),
             ("Row", ["Row('kw', 3)", "Row(None, [1])"]), ("TypedRow", ["TypedRow('k', Row('a', 1))"]),
             ("typing.Dict[str, typing.List[Document]]", ["{'docs': [{'_id': " + U1 + ", 'title': 't'}]}"]),
             ("Shelf", ["Shelf([{'_id': " + U2 + ", 'title': 't'}], {'number': 3, '_etag': 'e'})"]),
             # instances of a str subclass are valid members of str: as mapping keys (the default encoder takes exact str keys only),
             # as values, as a field
             ("typing.Dict[str, int]", ["{S('apples'): 1, 'pears': 2}", "{S(''): 0}"]), ("typing.List[str]", ["[S('a'), 'b']"]),
             ("Inventory", ["Inventory(S('shed'), {S('apples'): 1})"]), ("typing.Dict[str, typing.Dict[str, str]]", ["{S('o'): {S('i'): S('v')}}"]),
             # bytes-like roots are carried verbatim -- by every entry point alike, whatever the bytes-like class
             ("bytes", ["b'abc'", "b''", "b'\"abc\"'"]), ("bytearray", ["bytearray(b'abc')", "bytearray()"]),
             ("memoryview", ["memoryview(b'abc')"]), ("Blob", ["Blob(b'xyz')", "Blob()"])]
BYTES_ROOTS = ("bytes", "bytearray", "memoryview", "Blob")


def _seq_child(case):
    import json as _json
    import sys
    import types
    import warnings
    warnings.simplefilter("ignore")
    import typelib
    mod = types.ModuleType("vm_c02_seq")
    sys.modules["vm_c02_seq"] = mod
    ns = mod.__dict__
    # (compiled without this file's postponed annotations: NotRequired inside a STRING annotation is invisible to TypedDict)
    exec(compile(SEQ_SRC, "vm_c02_seq.py", "exec", dont_inherit=True), ns)
    t = eval(case[0], ns)
    bad = []
    for dec_name, enc_f, dec_f in (("default", None, None), ("stdlib", lambda o: _json.dumps(o).encode(), _json.loads)):
        c = typelib.codec(t) if enc_f is None else typelib.codec(t, encoder=enc_f, decoder=dec_f)
        kw = {} if enc_f is None else {"encoder": enc_f}
        dkw = {} if dec_f is None else {"decoder": dec_f}
        for i, src in enumerate(case[1]):
            v = eval(src, ns)
            if case[0] in BYTES_ROOTS:
                try:
                    wires = {"Codec.encode": c.encode(v), "typelib.encode": typelib.encode(v, t=t, **kw), "marshal": typelib.marshal(v, t=t)}
                    shown = {k: (type(w).__name__, bytes(w)) for k, w in wires.items()}
                    if len(set(shown.values())) != 1:
                        bad.append(f"[{dec_name}] the entry points carry {src} differently: {shown}"[:300])
                    backs = {"Codec": c.decode(c.encode(v)), "typelib": typelib.decode(t, typelib.encode(v, t=t, **kw), **dkw)}
                    for k, b_ in backs.items():
                        if type(b_) is not type(v) or bytes(b_) != bytes(v):
                            bad.append(f"[{dec_name}] {k}: decode(encode({src})) is {type(b_).__name__} {bytes(b_)!r}"[:300])
                except Exception as e:  # noqa: BLE001
                    bad.append(f"[{dec_name}] bytes-like root {src}: raised {type(e).__name__}: {e}"[:200])
                continue
            try:
                wire = c.encode(v)
                back = c.decode(wire)
                ok = back == v and type(back) is type(v) and _json.loads(wire) == typelib.marshal(v, t=t)
                got = repr(back)[:120]
            except Exception as e:  # noqa: BLE001
                ok, got = False, f"raised {type(e).__name__}: {e}"[:120]
            if not ok:
                bad.append(f"[{dec_name}] value #{i} {src[:70]} of the sequence came back as {got}")
    return bad


def union_sequence_probe(res):
    from .. import iso
    outs = iso.map_isolated(_seq_child, SEQ_CASES, timeout=60.0)
    for case, bad in zip(SEQ_CASES, outs):
        if not isinstance(bad, list):
            raise RuntimeError(f"harness: union sequence probe failed: {case[0]}: {bad}")
        res.case({"ann": case[0], "family": "sequence-through-one-codec"}, True)
        if bad:
            res.failures.append({"what": f"codec({case[0]}): " + bad[0] + (f" (+{len(bad) - 1} more)" if len(bad) > 1 else ""),
                                 "input": {"seq_case": [case[0], case[1]]}})
        else:
            res.count("oracle:sequence-through-one-codec-ok")


def explore(ctx):
    res = Result()
    res.rule = RULE
    depth = 3 if ctx.tier == "quick" else 4
    n = ctx.n(120, 2000)
    jobs = core.gen_jobs(ctx, n, "c02", dict(max_depth=depth, unions="any"), make_ops(depth))
    jobs.append(adversarial_text_job())
    # the minimised past misses of the round trip (corpus/C01: Literal members that are == across classes, ...) through the codec too
    for cj in core.corpus_jobs("C01"):
        ops = [{"op": "codec", "ty": o["ty"], "val": o["val"]} for o in cj["ops"]
               if o.get("op") == "rt" and str_keyed(o["ty"], cj["prog"]) and small_ints(o["val"])]
        if ops:
            jobs.append({"prog": cj["prog"], "ops": ops})
    real, model = core.run_jobs(jobs)
    res.programs = len(jobs)
    for job, op, r_, m_ in core.iter_results(jobs, real, model):
        case = {"ann": enc.pyexpr(op["ty"], job["prog"]), "val": op["val"]}
        res.case(case, op["ty"][0] not in enc.SCALAR_EXPR)
        inp = {"prog": job["prog"], "ty": op["ty"], "val": op["val"], **case}
        is_bytes = op["ty"][0] == "bytes"
        unordered = enc.has_set(op["ty"], job["prog"])
        cn = enc.canon_unordered if unordered else enc.canon
        bad = []
        if "ok" in r_["mar"] and not small_ints(r_["mar"]["ok"]):
            res.count("excluded:wire-int-beyond-64-bit")
            continue
        for cname, c in r_["confs"].items():
            if "is_bytes" not in c:
                # encode raised: then every entry point must raise alike
                if "ok" in r_["mar"] and not is_bytes:
                    bad.append(f"[{cname}] Codec.encode raised {c['codec_encode']} although marshal succeeded")
                elif "ok" in c.get("api_encode", {}):
                    bad.append(f"[{cname}] typelib.encode succeeded where Codec.encode raised")
                elif not is_bytes and type_optional_only(op["ty"], job["prog"]) and not enum_ambiguous(job["prog"]):
                    # every entry point rejects a VALID value of a union-free type: nothing to decode, the round trip fails
                    bad.append(f"[{cname}] encode raised {c['codec_encode']} for a valid value: decode(encode(v)) != v")
                continue
            for k in ("api_encode_same", "compose_encode_same"):
                if c[k].get("ok") is not True and not (is_bytes and k == "compose_encode_same"):
                    bad.append(f"[{cname}] {k}: {c[k]}")
            if is_bytes:
                for k in ("codec_decode", "api_decode"):
                    if not ("ok" in c[k] and c[k]["ok"] == op["val"]):
                        bad.append(f"[{cname}] bytes payload not carried verbatim by {k}: {c[k]}")
                continue
            if not c["is_bytes"]:
                bad.append(f"[{cname}] encoded payload is not bytes")
            if "json_loads" in c:
                if not ("ok" in c["json_loads"] and "ok" in r_["mar"] and cn(c["json_loads"]["ok"]) == cn(r_["mar"]["ok"])):
                    bad.append(f"[{cname}] json.loads(encoded) != marshal(v): {json.dumps(c['json_loads'])[:200]}")
                elif cname == "default":
                    # correspondence: the model's marshal vs the decoded real payload
                    core.compare(res, "mar-through-wire", inp, c["json_loads"], m_, unordered=unordered)
            d0 = c["codec_decode"]
            for k in ("api_decode", "compose_decode"):
                same = ("ok" in d0 and "ok" in c[k] and enc.canon(d0["ok"]) == enc.canon(c[k]["ok"])) or \
                       ("err" in d0 and c[k].get("err") == d0["err"])
                if not same:
                    bad.append(f"[{cname}] {k} differs from Codec.decode: {_b(c[k])} vs {_b(d0)}")
            if type_optional_only(op["ty"], job["prog"]) and not enum_ambiguous(job["prog"]):
                if not ("ok" in d0 and enc.canon(d0["ok"]) == enc.canon(op["val"])):
                    bad.append(f"[{cname}] decode(encode(v)) != v: {_b(d0)}")
        if bad:
            res.failures.append({"what": "; ".join(bad[:4]), "input": inp, "real": {"mar": _b(r_["mar"])}})
        else:
            res.count("oracle:entrypoints-agree" + ("-bytes" if is_bytes else ""))
    from .c01 import inheritance_probe
    inheritance_probe(res, "codec")
    union_sequence_probe(res)
    return res


def _b(o):
    return {k: o[k] for k in o if k in ("ok", "err", "msg")}


def witness(fid):
    return None


def replay(failure):
    inp = failure["input"]
    if "seq_case" in inp:
        from .. import iso
        bad = iso.map_isolated(_seq_child, [(inp["seq_case"][0], inp["seq_case"][1])], timeout=60.0)[0]
        print(json.dumps({"case": inp["seq_case"], "differences": bad}, indent=1))
        return bool(bad)
    if "inherit_case" in inp:
        from .. import iso
        from .c01 import _inherit_child
        o = iso.map_isolated(_inherit_child, [tuple(inp["inherit_case"])], timeout=60.0)[0]
        print(json.dumps({"case": inp["inherit_case"], "real": o}, indent=1))
        return not (isinstance(o, dict) and o.get("codec") and o.get("json_is_marshal"))
    job = {"prog": inp["prog"], "ops": [{"op": "codec", "ty": inp["ty"], "val": inp["val"]}]}
    real, model = core.run_jobs([job])
    print(json.dumps({"annotation": inp["ann"], "value": inp["val"], "real": real[0][0]}, indent=1)[:4000])
    return True
