#!/bin/sh
# Build the Lean project (library + native driver) from files on disk only.
set -e
cd "$(dirname "$0")/lean"
lake build TypelibModel driver 2>&1 | tail -5
