#!/usr/bin/env python3
"""Rebuild MANIFEST.json from the property modules that exist (harness/props/cNN.py) — keeps the manifest valid
and the not_applicable list current."""
import importlib, json, os, sys
ROOT = os.path.dirname(os.path.dirname(os.path.abspath(__file__)))
sys.path.insert(0, ROOT)
props = [json.loads(l) for l in open(os.path.join(ROOT, "properties.jsonl"))]
checks, na = [], []
for p in props:
    pid = p["id"]
    path = os.path.join(ROOT, "harness", "props", pid.lower() + ".py")
    if not os.path.exists(path):
        na.append({"property_id": pid, "reason": "check under construction in this round (DESIGN.md §10); not claimed yet"})
        continue
    src = open(path).read()
    ns = {}
    # read the declarative header without importing typelib
    for key in ("LEVEL", "LEVEL_TEXT", "LEVEL_NOTE", "TECHNIQUE", "DESIGN_REF"):
        import re
        m = re.search(rf"^{key}\s*=\s*(\(.*?\)|\".*?\"|'.*?')\s*$", src, re.M | re.S)
        if m:
            ns[key] = eval(m.group(1))
    checks.append({
        "property_id": pid,
        "quick_cmd": f"./check {pid} --tier quick",
        "thorough_cmd": f"./check {pid} --tier thorough",
        "evidence_file": f"evidence/{pid}.json",
        "replay_cmd_template": f"./check {pid} --replay {{path}}",
        "engine": "lean4-model+correspondence",
        "level_claimed": {"category": ns.get("LEVEL", "proof"), "text": ns.get("LEVEL_TEXT", ""), "design_ref": ns.get("DESIGN_REF", f"DESIGN.md §5 {pid}")},
        "level_note": ns.get("LEVEL_NOTE", ""),
        "technique": ns.get("TECHNIQUE", "Lean 4 theorems over an executable model + differential correspondence with the real code"),
    })
m = {
    "version": 1,
    "setup_cmd": "./setup.sh",
    "hooks": {"guard": "TYPELIB_VERIF", "enable": "no source hooks: every observation is at a public entry point or public attribute",
              "baseline_off_cmd": "cd /repo && /venv/bin/python -m pytest -ra -q -p no:cacheprovider --timeout=900 --continue-on-collection-errors",
              "source_commits": [], "add_only": True},
    "engines": [{"name": "lean4-model+correspondence", "path": "lean/ harness/ check",
                 "serves_properties": [c["property_id"] for c in checks],
                 "kind_free_text": "hand-written executable Lean 4 model with kernel-checked theorems (lake build + #print axioms audit), tables regenerated from /repo and re-decided on every run, native Lean driver diffed against the real library on generated inputs in forked children, direct Python oracle per property"}],
    "checks": checks,
    "not_applicable": na,
    "notes": "See DESIGN.md. Fixed defects and known findings: known_findings.json.",
}
json.dump(m, open(os.path.join(ROOT, "MANIFEST.json"), "w"), indent=1)
print(len(checks), "checks,", len(na), "pending")
