#!/usr/bin/env python3
"""Print the prompt given to a mutation sub-agent: only the property text and its scratch worktree."""
import json, sys
pid, tag = sys.argv[1], sys.argv[2]
avoid = sys.argv[3] if len(sys.argv) > 3 else ""
p = next(json.loads(l) for l in open('/verif/properties.jsonl') if json.loads(l)['id'] == pid)
wt = f"/tmp/wt_{tag}"
print(f"""You have your own scratch git worktree of the Python library seandstewart/python-typelib at {wt} (a pure-Python runtime type-inspection and (un)marshalling library: `typelib.marshal`, `typelib.unmarshal`, `typelib.codec`, `typelib.binding`, `typelib.graph`, `typelib.serdes`, `typelib.py.*`). Work ONLY inside {wt}; do not read or touch any other checkout of this library, and do not look at /verif.

Run the library's test-suite with:  cd {wt} && PYTHONPATH={wt}/src /venv/bin/python -m pytest -q -p no:cacheprovider
(exactly one pre-existing failure, tests/unit/py/test_inspection.py::test_origin[type_alias_type], is expected and must stay the only one). Run scripts against the worktree with `PYTHONPATH={wt}/src /venv/bin/python script.py`.

Here is a semantic property the library is supposed to satisfy:

TITLE: {p['title']}
STATEMENT: {p['statement']}
QUANTIFIED OVER: {p['quantifier']['text']}

YOUR TASK: make ONE realistic change to the library's source under {wt}/src/typelib (the kind of slip or well-meant refactoring a maintainer could plausibly commit: an off-by-one, a reordered check, a 'harmless' optimisation or caching, a too-narrow or too-broad condition, a lost special case, two sites that each look fine alone) that BREAKS this property while the package still imports and the existing test-suite result is unchanged (still exactly that one failure). The breakage must need something specific to manifest — an unusual input, a particular nesting or combination of types, a specific sequence of calls, a boundary value — not something ordinary use would expose at once. Do not break it by raising unconditionally, deleting features wholesale, or special-casing a magic value.{(" Someone else already tried a change in " + avoid + "; pick a DIFFERENT place and mechanism.") if avoid else ""}

DELIVER, all inside {wt}:
1. the change, left UNCOMMITTED in the working tree (so that `git -C {wt} diff` shows exactly it) — source files only, do not edit tests;
2. a demonstration script {wt}/demo.py that uses only the public API, prints what it observes, exits 1 when the property is violated and exits 0 when it holds; verify BOTH: with your change it exits 1; with the change temporarily removed it exits 0 — do NOT use `git stash` (all worktrees of this repository share one stash): save the diff (`git -C {wt} diff > {wt}/change.patch`), revert (`git -C {wt} checkout -- src`), run the demo, then re-apply (`git -C {wt} apply {wt}/change.patch`) and check `git -C {wt} diff` shows exactly your change again;
3. confirm the test-suite result with your change applied.
In your final message give: the diff, what the change does and why it is plausible, exactly what is needed for the violation to manifest, and the outputs of the demo with and without the change.""")
