"""Repro for DESIGN §7 #20 (C15 constructions) and #23 (bytes entry points). Exit 0 iff all behave."""
import sys, typing, warnings, collections.abc
warnings.simplefilter("ignore")
import typelib
bad = 0
T = typing.TypeVar("T"); B = typing.TypeVar("B", bound=int); Cn = typing.TypeVar("Cn", int, str)
class G(typing.Generic[T]):
    x: T
    def __init__(self, x): self.x = x
class NoHints:
    def __init__(self, a=1): self.a = a
cases = {
 "list[Any]": (list[typing.Any], [1, "a"]), "dict[str,Any]": (dict[str, typing.Any], {"a": 1}),
 "Optional[Any]": (typing.Optional[typing.Any], 5), "Any": (typing.Any, 5), "object": (object, 5),
 "list": (list, [1]), "dict": (dict, {"a": 1}), "tuple": (tuple, (1,)), "set": (set, {1}), "typing.List": (typing.List, [1]),
 "TypeVar": (T, 5), "list[T]": (list[T], [1]), "bound TypeVar": (B, 5), "constrained": (Cn, 5),
 "Callable": (typing.Callable[[int], str], len), "abc.Callable": (collections.abc.Callable, len), "type[int]": (type[int], int),
 "G": (G, None), "G[int]": (G[int], None), "NoHints": (NoHints, None),
 "tuple[()]": (tuple[()], ()), "two variadic": (tuple[tuple[int, ...], tuple[str, ...]], ((1,), ("a",))),
 "tuple[Any,...]": (tuple[typing.Any, ...], (1, "a")),
}
for label, (t, v) in cases.items():
    try:
        m = typelib.marshaller(t); u = typelib.unmarshaller(t); c = typelib.codec(t)
        ok = True; got = ""
        if v is not None:
            r = u(v); got = repr(r)
    except Exception as e:
        ok = False; got = f"{type(e).__name__}: {e}"
    print(("ok  " if ok else "BAD ") + "construct " + label, "" if ok else f"-> {got}"); bad += not ok
def check(label, fn, expect):
    global bad
    try: got = fn(); ok = got == expect
    except Exception as e: got = f"{type(e).__name__}: {e}"; ok = False
    print(("ok  " if ok else "BAD ") + label, "" if ok else f"-> {got!r}"); bad += not ok
check("#23 typelib.encode bytes", lambda: typelib.encode(b'\x00ab', t=bytes), typelib.codec(bytes).encode(b'\x00ab'))
check("#23 typelib.decode bytes", lambda: typelib.decode(bytes, b'\x00ab'), typelib.codec(bytes).decode(b'\x00ab'))
sys.exit(1 if bad else 0)
