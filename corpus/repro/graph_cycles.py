"""Repro for DESIGN §7 #9/#10: cyclic members cut by qualname. Exit 0 iff all cases behave."""
from __future__ import annotations
import dataclasses, sys, types, typing, warnings
warnings.simplefilter("ignore")

def mkmod(name, src):
    m = types.ModuleType(name); sys.modules[name] = m
    exec(compile(src, name, "exec"), m.__dict__); return m

m = mkmod("gm1", '''
from __future__ import annotations
import dataclasses, typing
@dataclasses.dataclass
class Node:
    val: int
    children: list[Node] = dataclasses.field(default_factory=list)
@dataclasses.dataclass
class ONode:
    val: int
    nxt: typing.Optional[ONode] = None
@dataclasses.dataclass
class PNode:
    val: int
    nxt: PNode | None = None
class Outer:
    @dataclasses.dataclass
    class Inner:
        val: int
        nxt: typing.Optional[Outer.Inner] = None
@dataclasses.dataclass
class DNode:
    val: int
    kids: dict[str, DNode] = dataclasses.field(default_factory=dict)
@dataclasses.dataclass
class TNode:
    val: int
    kids: tuple[TNode, ...] = ()
''')
import typelib
from typelib import graph
bad = 0
def check(label, t, wire, expect):
    global bad
    try:
        got = typelib.unmarshal(t, wire)
        ok = got == expect
        back = typelib.marshal(got, t=t)
        ok = ok and back == wire
    except Exception as e:
        got, ok = f"{type(e).__name__}: {e}", False
    print(("ok  " if ok else "BAD ") + label, "" if ok else f"-> {got!r}")
    bad += not ok
N, O, P, I, D, T = m.Node, m.ONode, m.PNode, m.Outer.Inner, m.DNode, m.TNode
w = {"val": 1, "children": [{"val": 2, "children": [{"val": 3, "children": []}]}]}
v = N(1, [N(2, [N(3, [])])])
check("Node", N, w, v)
check("list[Node] root", list[N], [w], [v])
check("dict[str,Node] root", dict[str, N], {"a": w}, {"a": v})
wo = {"val": 1, "nxt": {"val": 2, "nxt": None}}
check("ONode", O, wo, O(1, O(2)))
check("Optional[ONode] root", typing.Optional[O], wo, O(1, O(2)))
check("PNode", P, wo, P(1, P(2)))
check("PNode|None root", P | None, wo, P(1, P(2)))
check("Outer.Inner", I, wo, I(1, I(2)))
check("list[Outer.Inner]", list[I], [wo], [I(1, I(2))])
wd = {"val": 1, "kids": {"a": {"val": 2, "kids": {}}}}
check("DNode", D, wd, D(1, {"a": D(2)}))
check("dict[str,DNode] root", dict[str, D], {"k": wd}, {"k": D(1, {"a": D(2)})})
wt = {"val": 1, "kids": [{"val": 2, "kids": []}]}
check("TNode", T, wt, T(1, (T(2),)))
check("tuple[TNode,...] root", tuple[T, ...], [wt], (T(1, (T(2),)),))
m3 = mkmod("gm3", '''
from __future__ import annotations
import dataclasses, typing
@dataclasses.dataclass
class Item:
    x: Item | None = None
AL = typing.TypeAliasType("AL", Item)
@dataclasses.dataclass
class LNode:
    x: typing.Optional[LNode] = None
@dataclasses.dataclass
class Head:
    x: typing.Optional[LNode] = None
@dataclasses.dataclass
class KNode:
    kids: dict[str, list[KNode]] = dataclasses.field(default_factory=dict)
''')
check("List[alias of recursive class]", typing.List[m3.AL], [{"x": {"x": None}}], [m3.Item(m3.Item())])
check("same field name and type in two classes", tuple[m3.Head, m3.LNode], [{"x": {"x": None}}, {"x": None}], (m3.Head(m3.LNode()), m3.LNode()))
check("Head -> LNode", m3.Head, {"x": {"x": {"x": None}}}, m3.Head(m3.LNode(m3.LNode())))
check("dict[str, list[KNode]] root", dict[str, list[m3.KNode]], {"a": [{"kids": {"b": [{"kids": {}}]}}]}, {"a": [m3.KNode({"b": [m3.KNode()]})]})
for t in (list[N], typing.Optional[O], I):
    for node in graph.static_order(t):
        if node.cyclic:
            from typelib.py import refs
            try: ev = refs.evaluate(node.type)
            except Exception as e: ev = f"{type(e).__name__}"
            print("   deferred", node.type, "->", ev)
sys.exit(1 if bad else 0)
