"""Repro for DESIGN §7 #13: binder matrix rows / name registration. Exit 0 iff all behave."""
import sys, warnings
warnings.simplefilter("ignore")
from typelib import binding
bad = 0
def check(label, f, args, kwargs, expect):
    global bad
    try: got = binding.bind(f)(*args, **kwargs)
    except Exception as e: got = f"{type(e).__name__}: {e}"
    ok = repr(got) == repr(expect)
    print(("ok  " if ok else "BAD ") + label, "" if ok else f"-> {got!r} expected {expect!r}"); bad += not ok
def f1(b: int, *c: float): return (b, c)
check("(pk,va) kw", f1, (), {"b": "1"}, (1, ()))
def f2(b: int, *c: float, **k: str): return (b, c, k)
check("(pk,va,vk) pos", f2, ("1", "2"), {"z": 3}, (1, (2.0,), {"z": "3"}))
def f3(b: int, *c: float, d: str): return (b, c, d)
check("(pk,va,ko)", f3, ("1", "2", "3"), {"d": 4}, (1, (2.0, 3.0), "4"))
def f4(b: int, *c: float, d: str, **k: bytes): return (b, c, d, k)
check("(pk,va,ko,vk)", f4, ("1", "2"), {"d": 4, "z": "q"}, (1, (2.0,), "4", {"z": b"q"}))
def f5(a: int, /, *, d: str, **k: float): return (a, d, k)
check("(po,ko,vk)", f5, ("1",), {"d": 4, "z": "2"}, (1, "4", {"z": 2.0}))
def f6(a: int, /, b: str, **k: float): return (a, b, k)
check("(po,pk,vk)", f6, ("1",), {"b": 4, "z": "2"}, (1, "4", {"z": 2.0}))
def f7(a: int, /, b: str, *c: float): return (a, b, c)
check("(po,pk,va) kw", f7, ("1",), {"b": 4}, (1, "4", ()))
def f8(a: int, /, **k: str): return (a, k)
check("po name as keyword", f8, ("1",), {"a": 5}, (1, {"a": "5"}))
def f9(*args: int, **kw: str): return (args, kw)
check("*args name as keyword", f9, ("1",), {"args": 5, "kw": 6}, ((1,), {"args": "5", "kw": "6"}))
def f10(a: int, /, *, d: str, **k: bytes): return (a, d, k)
check("po name as keyword beside ko", f10, ("1",), {"d": 2, "a": "3"}, (1, "2", {"a": b"3"}))
def f11(*args: int, d: str, **kw: bytes): return (args, d, kw)
check("*args/**kw names as keywords beside ko", f11, ("1",), {"d": 2, "args": "3", "kw": "4"}, ((1,), "2", {"args": b"3", "kw": b"4"}))
sys.exit(1 if bad else 0)
