"""Repro for DESIGN §7 #5 #6 #7 #8 #11 #12 #17 #18 #19 (unmarshal/serdes defects). Exit 0 iff all behave."""
import dataclasses, datetime, decimal, enum, pathlib, sys, typing, warnings
warnings.simplefilter("ignore")
import typelib
from typelib import serdes
bad = 0
def check(label, fn, expect=None, raises=None):
    global bad
    try:
        got = fn(); ok = raises is None and got == expect and type(got) is type(expect)
    except Exception as e:
        got = f"{type(e).__name__}: {e}"; ok = raises is not None and isinstance(e, raises)
    print(("ok  " if ok else "BAD ") + label, "" if ok else f"-> {got!r}"); bad += not ok
tz = datetime.timezone(datetime.timedelta(hours=5, minutes=30))
t = datetime.time(1, 2, 3, 4, tzinfo=tz)
check("#5 time offset", lambda: (lambda r: (r, r.utcoffset()))(typelib.unmarshal(datetime.time, typelib.marshal(t, t=datetime.time))), (t, tz.utcoffset(None)))
class E(enum.Enum):
    a = "3"; b = "x"
class SE(str, enum.Enum):
    a = "1"; b = "null"
check("#6 enum '3'", lambda: typelib.unmarshal(E, "3"), E.a)
check("#6 str-enum member itself", lambda: typelib.unmarshal(SE, SE.a), SE.a)
check("#6 str-enum 'null'", lambda: typelib.unmarshal(SE, "null"), SE.b)
check("#6 Path('1')", lambda: typelib.unmarshal(pathlib.PurePosixPath, "1"), pathlib.PurePosixPath("1"))
check("#7 tuple arity", lambda: typelib.unmarshal(tuple[int, str], [1]), raises=(ValueError, TypeError))
class TD(typing.TypedDict):
    a: int
    b: str
check("#8 TypedDict required", lambda: typelib.unmarshal(TD, {"a": 1}), raises=(ValueError, TypeError, KeyError))
check("#11 Union[None,int,str] None", lambda: typelib.unmarshal(typing.Union[None, int, str], None), None)
check("#11 Union[int,None,str] 5", lambda: typelib.unmarshal(typing.Union[int, None, str], 5), 5)
check("#12 Decimal|str 'abc'", lambda: typelib.unmarshal(typing.Union[decimal.Decimal, str], "abc"), "abc")
class NT(typing.NamedTuple):
    a: str
    b: int
class NT2(typing.NamedTuple):
    a: tuple[str, str]
    b: tuple[str, str]
check("#17 NT('ab',1) unmarshal", lambda: typelib.unmarshal(NT, NT("ab", 1)), NT("ab", 1))
check("#17 NT('ab',1) marshal", lambda: typelib.marshal(NT("ab", 1)), {"a": "ab", "b": 1})
check("#17 NT2 marshal", lambda: typelib.marshal(NT2(("x", "y"), ("z", "w"))), {"a": ["x", "y"], "b": ["z", "w"]})
check("#17 iteritems(NT)", lambda: list(serdes.iteritems(NT("ab", 1))), [("a", "ab"), ("b", 1)])
check("#18 iteritems(iter([]))", lambda: list(serdes.iteritems(iter([]))), [])
check("#18 iteritems(iter([1,2]))", lambda: list(serdes.iteritems(iter([5, 6]))), [(0, 5), (1, 6)])
check("#19 bytearray into list[int]", lambda: typelib.unmarshal(list[int], bytearray(b"[1,2]")), [1, 2])
check("#19 writable memoryview into dict", lambda: typelib.unmarshal(dict[str, int], memoryview(bytearray(b'{"a":1}'))), {"a": 1})
l = serdes.strload("[1,2]"); l.append(3)
check("#14 strload cache aliasing", lambda: serdes.strload("[1,2]"), [1, 2])
u = datetime.datetime(2020, 1, 1, 12, tzinfo=datetime.timezone.utc); v = u.astimezone(tz)
serdes.isoformat.cache_clear(); serdes.isoformat(u)
check("#15 isoformat equal instants", lambda: serdes.isoformat(v), v.isoformat())
sys.exit(1 if bad else 0)
