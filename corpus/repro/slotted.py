"""Repro for DESIGN §7 #21/#27 (classes.slotted). Exit 0 iff all behave."""
import dataclasses, sys, warnings, pickle, copy
warnings.simplefilter("ignore")
from typelib.py import classes
bad = 0
def check(label, fn):
    global bad
    try: got = fn(); ok = got is True
    except Exception as e: got = f"{type(e).__name__}: {e}"; ok = False
    print(("ok  " if ok else "BAD ") + label, "" if ok else f"-> {got!r}"); bad += not ok
@dataclasses.dataclass
class Base:
    a: int = 1
def t1():
    @classes.slotted
    @dataclasses.dataclass
    class Child(Base):
        b: int = 2
    c = Child(3, 4)
    return (c.a, c.b) == (3, 4) and "b" in Child.__slots__ and "__weakref__" not in Child.__slots__
check("#21 default flags, unslotted dataclass base", t1)
def t2():
    @classes.slotted(weakref=False)
    @dataclasses.dataclass
    class Child(Base):
        b: int = 2
    return Child(3, 4).b == 4
check("after a failed decoration the next one works (same repr)", lambda: t2() and t2())
def t3():
    @dataclasses.dataclass
    class C:
        a: int = 1
        b: str = "x"
    S = classes.slotted(C, weakref=False)
    SS = classes.slotted(S, weakref=False)
    return SS(2, "y") == SS(2, "y") and SS(2, "y").a == 2
check("#27 slotted(slotted(C))", t3)
def t4():
    class X: pass
    try: classes.slotted(X)
    except TypeError: pass
    @classes.slotted
    @dataclasses.dataclass
    class X:
        a: int = 1
    return X(2).a == 2
check("no spurious metaclass error after failures", t4)
sys.exit(1 if bad else 0)
