import TypelibModel.Model.Basic
