import TypelibModel.Model.Basic
import TypelibModel.Model.Serdes
import TypelibModel.Model.Denote
import TypelibModel.Model.Text
import TypelibModel.Model.Temporal
import TypelibModel.Model.Leaf
