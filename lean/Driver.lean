/-
  Line protocol driver: one JSON object per input line → one JSON object per output line.
  `{"op": ..., ...}`; unknown ops and malformed lines answer `{"bad": reason}` (never a default).
-/
import TypelibModel.Drv.Core
import TypelibModel.Drv.Binding
import TypelibModel.Drv.Future
import TypelibModel.Drv.Ctx
import TypelibModel.Drv.Slotted
import TypelibModel.Drv.Graph
import TypelibModel.Drv.Inspect
import TypelibModel.Drv.Cache
import TypelibModel.Drv.Routine
import TypelibModel.Drv.Fields
import TypelibModel.Drv.Naming
import TypelibModel.Drv.Hints
import TypelibModel.Drv.ClassDispatch
open Lean Typelib.Drv

def handlers : List (St → String → Json → Option (Except String (St × Json))) :=
  [handleCore, handleBinding, handleFuture, handleCtx, handleSlotted, handleGraph, handleInspect, handleCache, handleRoutine, handleFields, handleNaming, handleHints, handleClassDispatch]

def step (st : St) (line : String) : St × String :=
  match Json.parse line with
  | .error e => (st, (Json.mkObj [("bad", .str s!"parse: {e}")]).compress)
  | .ok j =>
    match j.getObjValAs? String "op" with
    | .error _ => (st, (Json.mkObj [("bad", .str "no op")]).compress)
    | .ok op =>
      let rec try_ : List (St → String → Json → Option (Except String (St × Json))) → St × String
        | [] => (st, (Json.mkObj [("bad", .str s!"unknown op {op}")]).compress)
        | h :: hs =>
          match h st op j with
          | none => try_ hs
          | some (.error e) => (st, (Json.mkObj [("bad", .str e)]).compress)
          | some (.ok (st', out)) => (st', out.compress)
      try_ handlers

partial def loop (h : IO.FS.Stream) (out : IO.FS.Stream) (st : St) : IO Unit := do
  let line ← h.getLine
  if line.isEmpty then return ()
  let l := line.trimAscii.toString
  if l.isEmpty then
    loop h out st
  else
    let (st', o) := step st l
    out.putStrLn o
    loop h out st'

def main : IO Unit := do
  let stdin ← IO.getStdin
  let stdout ← IO.getStdout
  loop stdin stdout {}
