/-
  Helper lemmas for the round-trip / pass-through theorems (C01, C13): lists, fixed tuples and the
  struct comprehension of `StructuredType{M,Unm}arshaller`.
-/
import TypelibModel.Lemmas.WF
namespace Typelib


theorem collOf_some {k : Coll} {v : Val} {xs : List Val} (h : collOf k v = some xs) :
    v = mkColl k xs ∧ ∀ env, itervalues env v = .ok xs := by
  cases k <;> cases v <;> simp [collOf] at h <;> subst h <;> simp [mkColl, itervalues]

theorem itervalues_list (env : Env) (xs : List Val) : itervalues env (.list xs) = .ok xs := rfl

theorem load_list (env : Env) (L : Leaves) (xs : List Val) : load env L (.list xs) = .ok (.list xs) := rfl
theorem load_dict (env : Env) (L : Leaves) (kvs : List (Val × Val)) : load env L (.dict kvs) = .ok (.dict kvs) := rfl

theorem eq_none_of_beq {v : Val} (h : (v == Val.none) = true) : v = .none := by
  cases v <;> simp_all [BEq.beq, Val.beq]

/-- zip of member routines: round trip when the shapes agree. -/
theorem zipR_roundtrip (f g : Ty → Val → R Val) (P : Ty → Val → Bool) :
    ∀ (es : List Ty) (xs : List Val), all2 P es xs = true →
      (∀ e x, e ∈ es → P e x = true → ∃ m, f e x = .ok m ∧ g e m = .ok x) →
      ∃ ms, zipR (es.map f) xs = .ok ms ∧ zipR (es.map g) ms = .ok xs ∧ ms.length = es.length := by
  intro es
  induction es with
  | nil =>
    intro xs h _
    cases xs with
    | nil => exact ⟨[], rfl, rfl, rfl⟩
    | cons _ _ => simp [all2] at h
  | cons e es ih =>
    intro xs h hrt
    cases xs with
    | nil => simp [all2] at h
    | cons x xs =>
      simp only [all2, Bool.and_eq_true] at h
      obtain ⟨m, hm1, hm2⟩ := hrt e x (by simp) h.1
      obtain ⟨ms, h1, h2, h3⟩ := ih xs h.2 (fun e' x' he' => hrt e' x' (by simp [he']))
      refine ⟨m :: ms, ?_, ?_, by simp [h3]⟩
      · simp [zipR, hm1, h1]
      · simp [zipR, hm2, h2]

theorem zipR_ok_length : ∀ (fs : List (Val → R Val)) (xs ys : List Val),
    zipR fs xs = .ok ys → ys.length = min fs.length xs.length := by
  intro fs
  induction fs with
  | nil => intro xs ys h; simp [zipR] at h; subst h; simp
  | cons f fs ih =>
    intro xs ys h
    cases xs with
    | nil => simp [zipR] at h; subst h; simp
    | cons x xs =>
      simp only [zipR] at h
      split at h
      · cases h
      · split at h
        · cases h
        · rename_i _ _ ys' hys
          cases h
          simp [ih xs ys' hys]

theorem mapR_map {α β γ : Type} (F : β → R γ) (h : α → β) : ∀ xs : List α, mapR F (xs.map h) = mapR (fun x => F (h x)) xs := by
  intro xs
  induction xs with
  | nil => rfl
  | cons x xs ih => simp [mapR, ih]




theorem nodupStr_cons {x : Str} {xs : List Str} (h : nodupStr (x :: xs) = true) :
    x ∉ xs ∧ nodupStr xs = true := by
  simp [nodupStr] at h
  exact ⟨h.1, h.2⟩

/-- With distinct field names, `convOf` finds the declared type of a declared field. -/
theorem convOf_mem (f : Ty → Val → R Val) :
    ∀ (fields : List (Str × Ty)), nodupStr (fields.map Prod.fst) = true →
      ∀ name t, (name, t) ∈ fields → convOf fields f name = some (f t) := by
  intro fields
  induction fields with
  | nil => intro _ _ _ h; cases h
  | cons p ps ih =>
    intro hnd name t hmem
    obtain ⟨hnotin, hnd'⟩ := nodupStr_cons hnd
    cases hmem with
    | head => simp [convOf, List.find?]
    | tail _ hm =>
      have hne : (p.1 == name) = false := by
        apply Bool.eq_false_iff.mpr
        intro heq
        have : p.1 = name := eq_of_beq heq
        apply hnotin
        rw [this]
        exact List.mem_map_of_mem (f := Prod.fst) hm
      have := ih hnd' name t hm
      simp only [convOf, List.find?, hne] at this ⊢
      exact this

theorem convOf_none (f : Ty → Val → R Val) (fields : List (Str × Ty)) (name : Str)
    (h : name ∉ fields.map Prod.fst) : convOf fields f name = none := by
  induction fields with
  | nil => rfl
  | cons p ps ih =>
    simp only [List.map_cons, List.mem_cons, not_or] at h
    have hne : (p.1 == name) = false := by
      apply Bool.eq_false_iff.mpr
      intro heq
      exact h.1 (eq_of_beq heq).symm
    have := ih h.2
    simp only [convOf, List.find?, hne] at this ⊢
    exact this

theorem insertKw_fresh (k : Str) (v : Val) :
    ∀ acc : List (Str × Val), k ∉ acc.map Prod.fst → insertKw k v acc = acc ++ [(k, v)] := by
  intro acc
  induction acc with
  | nil => intro _; rfl
  | cons p ps ih =>
    intro h
    simp only [List.map_cons, List.mem_cons, not_or] at h
    have hne : (p.1 == k) = false := by
      apply Bool.eq_false_iff.mpr
      intro heq
      exact h.1 (eq_of_beq heq).symm
    obtain ⟨pk, pv⟩ := p
    simp only at hne
    simp [insertKw, hne, ih h.2]

def toItem (p : Str × Val) : Item := .ok (.str p.1, p.2)

/-- The struct comprehension: marshalling the fields and unmarshalling them again. -/
theorem buildKwargs_rt (fields : List (Str × Ty)) (F G : Ty → Val → R Val) (P : Ty → Val → Bool)
    (hnd : nodupStr (fields.map Prod.fst) = true)
    (hrt : ∀ t v, P t v = true → ∃ m, F t v = .ok m ∧ G t m = .ok v) :
    ∀ (fs acc : List (Str × Val)), nodupStr (fs.map Prod.fst) = true →
      (∀ p ∈ fs, p.1 ∉ acc.map Prod.fst) →
      (∀ p ∈ fs, ∃ t, (p.1, t) ∈ fields ∧ P t p.2 = true) →
      ∃ ms, buildKwargs (convOf fields F) (fs.map toItem) acc = .ok (acc ++ ms)
        ∧ ms.map Prod.fst = fs.map Prod.fst
        ∧ ∀ acc' : List (Str × Val), (∀ p ∈ fs, p.1 ∉ acc'.map Prod.fst) →
            buildKwargs (convOf fields G) (ms.map toItem) acc' = .ok (acc' ++ fs) := by
  intro fs
  induction fs with
  | nil =>
    intro acc _ _ _
    exact ⟨[], by simp [buildKwargs], rfl, by intro acc' _; simp [buildKwargs]⟩
  | cons p ps ih =>
    intro acc hnd' hacc hP
    obtain ⟨name, v⟩ := p
    obtain ⟨hnotin, hndps⟩ := nodupStr_cons (by simpa using hnd')
    obtain ⟨t, htmem, hPt⟩ := hP (name, v) (by simp)
    obtain ⟨m, hF, hG⟩ := hrt t v hPt
    have hfresh : name ∉ acc.map Prod.fst := hacc (name, v) (by simp)
    have hacc2 : ∀ q ∈ ps, q.1 ∉ (acc ++ [(name, m)]).map Prod.fst := by
      intro q hq
      simp only [List.map_append, List.map_cons, List.map_nil, List.mem_append, List.mem_cons,
        List.not_mem_nil, or_false, not_or]
      refine ⟨hacc q (by simp [hq]), ?_⟩
      intro heq
      apply hnotin
      rw [← heq]
      exact List.mem_map_of_mem (f := Prod.fst) hq
    obtain ⟨ms, h1, h2, h3⟩ := ih (acc ++ [(name, m)]) hndps hacc2 (fun q hq => hP q (by simp [hq]))
    refine ⟨(name, m) :: ms, ?_, by simp [h2], ?_⟩
    · simp only [List.map_cons, toItem, buildKwargs, hashable, Bool.not_true, Bool.false_eq_true,
        if_false]
      rw [convOf_mem F fields hnd name t htmem]
      simp only [hF]
      rw [insertKw_fresh name m acc hfresh]
      rw [show (List.map toItem ps) = List.map toItem ps from rfl] at h1
      simpa [toItem, List.append_assoc] using h1
    · intro acc' hacc'
      have hfresh' : name ∉ acc'.map Prod.fst := hacc' (name, v) (by simp)
      simp only [List.map_cons, toItem, buildKwargs, hashable, Bool.not_true, Bool.false_eq_true,
        if_false]
      rw [convOf_mem G fields hnd name t htmem]
      simp only [hG]
      rw [insertKw_fresh name v acc' hfresh']
      have hacc3 : ∀ q ∈ ps, q.1 ∉ (acc' ++ [(name, v)]).map Prod.fst := by
        intro q hq
        simp only [List.map_append, List.map_cons, List.map_nil, List.mem_append, List.mem_cons,
          List.not_mem_nil, or_false, not_or]
        refine ⟨hacc' q (by simp [hq]), ?_⟩
        intro heq
        apply hnotin
        rw [← heq]
        exact List.mem_map_of_mem (f := Prod.fst) hq
      have := h3 (acc' ++ [(name, v)]) hacc3
      simpa [toItem, List.append_assoc] using this




theorem lookupKw_mem : ∀ (kw : List (Str × Val)), nodupStr (kw.map Prod.fst) = true →
    ∀ name v, (name, v) ∈ kw → lookupKw name kw = some v := by
  intro kw
  induction kw with
  | nil => intro _ _ _ h; cases h
  | cons p ps ih =>
    intro hnd name v hmem
    obtain ⟨hnotin, hnd'⟩ := nodupStr_cons (by simpa using hnd)
    obtain ⟨pk, pv⟩ := p
    cases hmem with
    | head => simp [lookupKw]
    | tail _ hm =>
      have hne : (pk == name) = false := by
        apply Bool.eq_false_iff.mpr
        intro heq
        apply hnotin
        rw [eq_of_beq heq]
        exact List.mem_map_of_mem (f := Prod.fst) (a := (name, v)) hm
      simp [lookupKw, hne, ih hnd' name v hm]

theorem construct_go (ci : ClassInfo) (kw : List (Str × Val)) (hnd : nodupStr (kw.map Prod.fst) = true) :
    ∀ (sub : List (Str × Ty)) (fsub : List (Str × Val)),
      all2 (fun (f : Str × Ty) (g : Str × Val) => f.1 == g.1) sub fsub = true → (∀ p ∈ fsub, p ∈ kw) →
      mapR (fieldArg ci kw) sub = .ok fsub := by
  intro sub
  induction sub with
  | nil =>
    intro fsub h _
    cases fsub with
    | nil => rfl
    | cons _ _ => simp [all2] at h
  | cons f fs ih =>
    intro fsub h hin
    cases fsub with
    | nil => simp [all2] at h
    | cons g gs =>
      simp only [all2, Bool.and_eq_true] at h
      obtain ⟨gk, gv⟩ := g
      have hk : f.1 = gk := eq_of_beq h.1
      have hl : lookupKw f.1 kw = some gv := by
        rw [hk]; exact lookupKw_mem kw hnd gk gv (hin (gk, gv) (by simp))
      have := ih gs h.2 (fun p hp => hin p (by simp [hp]))
      have hfa : fieldArg ci kw f = .ok (gk, gv) := by
        unfold fieldArg
        rw [hl, hk]
      simp [mapR, this, hfa]

theorem construct_ok (ci : ClassInfo) (c : Nat) (fs : List (Str × Val))
    (h : all2 (fun (f : Str × Ty) (g : Str × Val) => f.1 == g.1) ci.fields fs = true)
    (hnd : nodupStr (fs.map Prod.fst) = true) : construct ci c fs = .ok (.inst c fs) := by
  unfold construct
  rw [construct_go ci fs hnd ci.fields fs h (fun p hp => hp)]

/-- Field names of an instance that matches its class are the class's field names. -/
theorem all2_names {P : Ty → Val → Bool} : ∀ (fields : List (Str × Ty)) (fs : List (Str × Val)),
    all2 (fun (f : Str × Ty) (g : Str × Val) => f.1 == g.1 && P f.2 g.2) fields fs = true →
    fs.map Prod.fst = fields.map Prod.fst
      ∧ all2 (fun (f : Str × Ty) (g : Str × Val) => f.1 == g.1) fields fs = true
      ∧ ∀ p ∈ fs, ∃ t, (p.1, t) ∈ fields ∧ P t p.2 = true := by
  intro fields
  induction fields with
  | nil =>
    intro fs h
    cases fs with
    | nil => exact ⟨rfl, rfl, by intro p hp; cases hp⟩
    | cons _ _ => simp [all2] at h
  | cons f fs' ih =>
    intro fs h
    cases fs with
    | nil => simp [all2] at h
    | cons g gs =>
      simp only [all2, Bool.and_eq_true] at h
      obtain ⟨h1, h2, h3⟩ := ih gs h.2
      have hk : f.1 = g.1 := eq_of_beq h.1.1
      refine ⟨by simp [h1, hk], by simp [all2, h.1.1, h2], ?_⟩
      intro p hp
      cases hp with
      | head => exact ⟨f.2, by rw [← hk]; simp, h.1.2⟩
      | tail _ hm =>
        obtain ⟨t, ht, hP⟩ := h3 p hm
        exact ⟨t, by simp [ht], hP⟩

theorem keyNames_some : ∀ (kvs : List (Val × Val)) (names : List Str), keyNames kvs = some names →
    ∃ fs : List (Str × Val), kvs = fs.map (fun q => ((Val.str q.1, q.2) : Val × Val)) ∧ fs.map Prod.fst = names := by
  intro kvs
  induction kvs with
  | nil => intro names h; simp [keyNames] at h; subst h; exact ⟨[], rfl, rfl⟩
  | cons kv rest ih =>
    intro names h
    obtain ⟨k, v⟩ := kv
    have hrest : ∃ ns, keyNames rest = some ns := by
      cases hr : keyNames rest with
      | none =>
        simp only [keyNames, List.foldr_cons] at h hr
        rw [hr] at h
        cases k <;> simp at h
      | some ns => exact ⟨ns, rfl⟩
    obtain ⟨ns, hns⟩ := hrest
    obtain ⟨fs, hfs1, hfs2⟩ := ih ns hns
    simp only [keyNames, List.foldr_cons] at h hns
    rw [hns] at h
    cases k <;> simp at h
    rename_i s
    subst h
    exact ⟨(s, v) :: fs, by simp [hfs1], by simp [hfs2]⟩

theorem filter_public_id (fs : List (Str × Val)) (h : ∀ p ∈ fs, isPrivate p.1 = false) :
    fs.filter (fun f => !isPrivate f.1) = fs := by
  apply List.filter_eq_self.mpr
  intro p hp
  simp [h p hp]


end Typelib
