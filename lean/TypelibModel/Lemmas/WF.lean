/-
  Well-formedness predicates (decidable) and the leaf-law hypotheses the composite theorems take.
-/
import TypelibModel.Lemmas.Core
namespace Typelib

/-- Positions whose wire form must be hashable (dict keys): scalars, enums, literals. -/
def isKeyTy : Ty → Bool
  | .scalar _ | .enum _ | .literal _ => true
  | .wrap _ t => isKeyTy t
  | _ => false

/-- A union with exactly one member besides `None` (`Optional[X]`, `X | None`, `Union[None, X]`). -/
def optionalOnly (ms : List Ty) : Bool :=
  nullable ms && (ms.filter (fun m => !m.isNone)).length == 1

mutual
  /-- Annotations of U (over the scalar types selected by `S`) for the round-trip / pass-through theorems: fully annotated (no `Any`),
      literal members primitive, dict keys of key type, unions Optional-only, classes declared. -/
  def wfTy (S : Scalar → Bool) (env : Env) : Ty → Bool
    | .scalar s => S s
    | .none => true
    | .any => false
    | .enum c => (env.cls c).isSome
    | .literal vs => vs.all isPrim
    | .coll _ e => wfTy S env e
    | .tuple es => wfTys S env es
    | .dict k e => isKeyTy k && wfTy S env k && wfTy S env e
    | .union ms => optionalOnly ms && wfTys S env ms
    | .cls c => (env.cls c).isSome
    | .wrap _ t => wfTy S env t
  termination_by structural t => t
  def wfTys (S : Scalar → Bool) (env : Env) : List Ty → Bool
    | [] => true
    | t :: ts => wfTy S env t && wfTys S env ts
  termination_by structural ts => ts
end

/-- Class environments: distinct public field names, well-formed field annotations, TypedDict
    required keys among the fields. -/
def wfClass (S : Scalar → Bool) (env : Env) (ci : ClassInfo) : Bool :=
  nodupStr (ci.fields.map Prod.fst) && ci.fields.all (fun f => !isPrivate f.1 && wfTy S env f.2)
    && ci.required.all (fun r => (ci.fields.map Prod.fst).contains r)

def wfEnv (S : Scalar → Bool) (env : Env) : Bool := env.all (wfClass S env)

/-- What the composite theorems assume of the leaf conversions (DESIGN.md §6: `CPy.*`): every valid
    scalar marshals to a hashable, non-null, non-text wire value that unmarshals back to it; every
    enum member's value finds the member again. Proved for `pyLeaves` on U₀ in Lemmas/LeafRT.lean. -/
structure LeafLaws (S : Scalar → Bool) (env : Env) (L : Leaves) : Prop where
  rt : ∀ s v, S s = true → hasScalar s v = true →
    ∃ m, L.mar s v = .ok m ∧ L.um s m = .ok v ∧ hashable m = true ∧ decode m ≠ .none
  enumRT : ∀ c i w, memberValue env c i = some w →
    umEnum env L c w = .ok (.member c i) ∧ hashable w = true ∧ decode w ≠ .none

/-- A value that is valid for a member naming None (directly or through wrappers) is None. -/
theorem isNone_hasTypeG (leaf : Scalar → Val → Bool) (lit : List Val → Val → Bool) (env : Env) :
    ∀ n m v, m.isNone = true → hasTypeG leaf lit env n m v = true → v = .none := by
  intro n
  induction n with
  | zero => intro m v _ h; simp [hasTypeG] at h
  | succ n ih =>
    intro m v hm h
    cases m <;> simp [Ty.isNone] at hm
    case none =>
      simp only [hasTypeG] at h
      cases v <;> simp_all [BEq.beq, Val.beq]
    case wrap w t =>
      simp only [hasTypeG] at h
      exact ih t v hm h

theorem wfTys_mem {S : Scalar → Bool} {env : Env} : ∀ {ts : List Ty}, wfTys S env ts = true → ∀ t ∈ ts, wfTy S env t = true := by
  intro ts
  induction ts with
  | nil => intro _ t ht; cases ht
  | cons a as ih =>
    intro h t ht
    simp only [wfTys, Bool.and_eq_true] at h
    cases ht with
    | head => exact h.1
    | tail _ hm => exact ih h.2 t hm

theorem wfEnv_cls {S : Scalar → Bool} {env : Env} (h : wfEnv S env = true) {c : Nat} {ci : ClassInfo}
    (hc : env.cls c = some ci) : wfClass S env ci = true := by
  unfold wfEnv at h
  rw [List.all_eq_true] at h
  apply h
  unfold Env.cls at hc
  exact List.mem_of_getElem? hc

end Typelib
