/-
  JSON round trip on the executable fragment: the lexer / parser of `Model/Text.lean` read back what
  the printer of `Model/JsonText.lean` writes (served properties: C14, C02).

      jsonParse_render : plainWire w = true → jsonParse (renderJson w) = some w
      strload_render   : plainWire w = true → strload? (renderJson w) = some w
  and the same for Python's default separators (`renderJsonSp`), in general for every blank padding
  after `,` and `:` (`jsonParse_renderWith`).
-/
import TypelibModel.Model.JsonText
import TypelibModel.Lemmas.TemporalText
namespace Typelib

/-! ### The token view of a wire value -/

def keyToks : Val → List Tok
  | .str s => [.str s]
  | _ => []

mutual
  def toks : Val → List Tok
    | .none => [.nul]
    | .bool true => [.tru]
    | .bool false => [.fls]
    | .int i => [.int i]
    | .str s => [.str s]
    | .list [] => [.lbrack, .rbrack]
    | .list (x :: xs) => .lbrack :: (toks x ++ toksTail xs)
    | .dict [] => [.lbrace, .rbrace]
    | .dict ((k, v) :: kvs) => .lbrace :: (keyToks k ++ .colon :: (toks v ++ toksMTail kvs))
    | _ => []
  termination_by structural w => w
  def toksTail : List Val → List Tok
    | [] => [.rbrack]
    | x :: xs => .comma :: (toks x ++ toksTail xs)
  termination_by structural xs => xs
  def toksMTail : List (Val × Val) → List Tok
    | [] => [.rbrace]
    | (k, v) :: kvs => .comma :: (keyToks k ++ .colon :: (toks v ++ toksMTail kvs))
  termination_by structural kvs => kvs
end

/-! ### Lexer: one step per token -/

theorem lexFuel_mono : ∀ (n : Nat) (s : Str) (acc r : List Tok),
    lexFuel n s acc = some r → ∀ m, n ≤ m → lexFuel m s acc = some r := by
  intro n
  induction n with
  | zero => intro s acc r h; simp [lexFuel] at h
  | succ n ih =>
    intro s acc r h m hm
    obtain ⟨m, rfl⟩ : ∃ m', m = m' + 1 := ⟨m - 1, by omega⟩
    have hm' : n ≤ m := by omega
    cases s with
    | nil => simpa [lexFuel] using h
    | cons c cs =>
      unfold lexFuel at h ⊢
      split
      · rename_i hws
        simp only [hws, if_true] at h
        exact ih _ _ _ h m hm'
      · rename_i hws
        simp only [hws, Bool.false_eq_true, if_false] at h
        split at h
        all_goals first
          | exact ih _ _ _ h m hm'
          | (split at h
             · exact ih _ _ _ h m hm'
             · cases h)

theorem lexFuel_ws (n : Nat) (c : Char) (cs : Str) (acc : List Tok) (h : isJsonWs c = true) :
    lexFuel (n + 1) (c :: cs) acc = lexFuel n cs acc := by
  simp [lexFuel, h]

/-- Blank padding costs one unit of fuel per character and produces no token. -/
theorem lexFuel_pad (pad : Str) (hp : pad.all isJsonWs = true) (n : Nat) (s : Str) (acc : List Tok) :
    lexFuel (n + pad.length) (pad ++ s) acc = lexFuel n s acc := by
  induction pad generalizing n with
  | nil => rfl
  | cons c cs ih =>
    simp only [List.all_cons, Bool.and_eq_true] at hp
    simp only [List.length_cons, List.cons_append]
    rw [← Nat.add_assoc, lexFuel_ws _ _ _ _ hp.1, ih hp.2]

theorem lexFuel_lbrack (n : Nat) (cs : Str) (acc : List Tok) :
    lexFuel (n + 1) ('[' :: cs) acc = lexFuel n cs (.lbrack :: acc) := rfl
theorem lexFuel_rbrack (n : Nat) (cs : Str) (acc : List Tok) :
    lexFuel (n + 1) (']' :: cs) acc = lexFuel n cs (.rbrack :: acc) := rfl
theorem lexFuel_lbrace (n : Nat) (cs : Str) (acc : List Tok) :
    lexFuel (n + 1) ('{' :: cs) acc = lexFuel n cs (.lbrace :: acc) := rfl
theorem lexFuel_rbrace (n : Nat) (cs : Str) (acc : List Tok) :
    lexFuel (n + 1) ('}' :: cs) acc = lexFuel n cs (.rbrace :: acc) := rfl
theorem lexFuel_colon (n : Nat) (cs : Str) (acc : List Tok) :
    lexFuel (n + 1) (':' :: cs) acc = lexFuel n cs (.colon :: acc) := rfl
theorem lexFuel_comma (n : Nat) (cs : Str) (acc : List Tok) :
    lexFuel (n + 1) (',' :: cs) acc = lexFuel n cs (.comma :: acc) := rfl
theorem lexFuel_null (n : Nat) (cs : Str) (acc : List Tok) :
    lexFuel (n + 1) ('n' :: 'u' :: 'l' :: 'l' :: cs) acc = lexFuel n cs (.nul :: acc) := rfl
theorem lexFuel_true (n : Nat) (cs : Str) (acc : List Tok) :
    lexFuel (n + 1) ('t' :: 'r' :: 'u' :: 'e' :: cs) acc = lexFuel n cs (.tru :: acc) := rfl
theorem lexFuel_false (n : Nat) (cs : Str) (acc : List Tok) :
    lexFuel (n + 1) ('f' :: 'a' :: 'l' :: 's' :: 'e' :: cs) acc = lexFuel n cs (.fls :: acc) := rfl
theorem lexFuel_quote (n : Nat) (cs : Str) (acc : List Tok) :
    lexFuel (n + 1) ('"' :: cs) acc =
      match lexString cs [] with
      | some (s, rest) => lexFuel n rest (.str s :: acc)
      | none => none := rfl

/-! ### Strings -/

theorem lexString_raw (c : Char) (rest acc : Str) (h1 : c ≠ '"') (h2 : c ≠ '\\') :
    lexString (c :: rest) acc = if c.toNat < 32 then none else lexString rest (c :: acc) := by
  conv => lhs; unfold lexString
  split <;> simp_all

theorem lexString_escChar (c : Char) (hc : okChar c = true) (rest acc : Str) :
    lexString (escChar c ++ rest) acc = lexString rest (c :: acc) := by
  by_cases h1 : c = '"'
  · subst h1; rfl
  by_cases h2 : c = '\\'
  · subst h2; rfl
  by_cases h3 : c = '\n'
  · subst h3; rfl
  by_cases h4 : c = '\r'
  · subst h4; rfl
  by_cases h5 : c = '\t'
  · subst h5; rfl
  by_cases h6 : c = '\x08'
  · subst h6; rfl
  by_cases h7 : c = '\x0c'
  · subst h7; rfl
  have h32 : ¬ c.toNat < 32 := by
    simp [okChar, h3, h4, h5, h6, h7] at hc
    omega
  simp only [escChar, h1, h2, h3, h4, h5, h6, h7, h32, if_false, List.cons_append, List.nil_append]
  rw [lexString_raw _ _ _ h1 h2]
  simp [h32]

/-- The lexer reads back the body of a printed string. -/
theorem lexString_escBody : ∀ (s : Str), okStr s = true → ∀ (rest acc : Str),
    lexString (escBody s ++ '"' :: rest) acc = some (acc.reverse ++ s, rest) := by
  intro s
  induction s with
  | nil => intro _ rest acc; simp [escBody, lexString]
  | cons c cs ih =>
    intro h rest acc
    simp only [okStr, List.all_cons, Bool.and_eq_true] at h
    simp only [escBody, List.append_assoc]
    rw [lexString_escChar c h.1, ih h.2]
    simp

/-! ### Integers -/

/-- The text after a number does not continue it: empty, or not a digit / `.` / `e` / `E`. -/
def numStop : Str → Bool
  | [] => true
  | c :: _ => !isDigit c && c != '.' && c != 'e' && c != 'E'

theorem numStop_stops {s : Str} (h : numStop s = true) : stops s = true := by
  cases s with
  | nil => rfl
  | cons c cs =>
    simp only [numStop, Bool.and_eq_true] at h
    simpa [stops] using h.1.1.1

/-- Only the numeral of zero starts with `0`. -/
theorem natStr_head_zero : ∀ n : Nat, (natStr n).head? = some '0' → n = 0 := by
  intro n
  induction n using Nat.strongRecOn with
  | _ n ih =>
    intro h
    unfold natStr at h ih
    rw [Nat.toDigits_eq_if (by decide)] at h
    split at h
    · simpa using h
    · rename_i hge
      have hne : Nat.toDigits 10 (n / 10) ≠ [] := Nat.toDigits_ne_nil
      have hh : (Nat.toDigits 10 (n / 10) ++ [Nat.digitChar (n % 10)]).head?
          = (Nat.toDigits 10 (n / 10)).head? := by
        cases hd : Nat.toDigits 10 (n / 10) with
        | nil => exact absurd hd hne
        | cons a as => rfl
      rw [hh] at h
      have := ih (n / 10) (by omega) h
      omega

/-- The part of `lexNumber` after the sign. -/
def lexNumBody (neg : Bool) (r : Str) : Option (Tok × Str) :=
  let (ip, r1) := spanDigits r
  if ip.isEmpty then none
  else if ip.length > 1 && ip.head? == some '0' then none
  else match r1 with
    | '.' :: r2 =>
      let (fp, r3) := spanDigits r2
      if fp.isEmpty then none
      else match r3 with
        | 'e' :: _ | 'E' :: _ => none
        | _ => some (.float ((if neg then ['-'] else []) ++ ip ++ '.' :: fp), r3)
    | 'e' :: _ | 'E' :: _ => none
    | _ =>
      let n := digitsVal ip 0
      some (.int (if neg then -(n : Int) else n), r1)

theorem lexNumber_minus (r : Str) : lexNumber ('-' :: r) = lexNumBody true r := rfl

theorem lexNumber_digit (c : Char) (cs : Str) (hc : isDigit c = true) :
    lexNumber (c :: cs) = lexNumBody false (c :: cs) := by
  have hne : c ≠ '-' := by intro h; subst h; simp [isDigit] at hc
  unfold lexNumber lexNumBody
  split
  · rename_i heq
    split at heq
    · rename_i h'; cases h'; exact absurd rfl hne
    · cases heq; rfl

theorem lexNumBody_natStr (neg : Bool) (n : Nat) (rest : Str) (hr : numStop rest = true) :
    lexNumBody neg (natStr n ++ rest) = some (.int (if neg then -(n : Int) else n), rest) := by
  unfold lexNumBody
  rw [spanDigits_natStr n (numStop_stops hr)]
  have hne := natStr_ne_nil n
  have hz : ((natStr n).length > 1 && (natStr n).head? == some '0') = false := by
    cases hh : (natStr n).head? == some '0' with
    | false => simp
    | true =>
      have := natStr_head_zero n (by simpa using hh)
      subst this
      decide
  simp only [List.isEmpty_iff, hne, if_false, hz, Bool.false_eq_true, digitsVal_natStr]
  cases rest with
  | nil => rfl
  | cons d ds =>
    simp only [numStop, Bool.and_eq_true, bne_iff_ne, ne_eq] at hr
    split <;> simp_all

theorem lexNumber_intStr (i : Int) (rest : Str) (hr : numStop rest = true) :
    lexNumber (intStr i ++ rest) = some (.int i, rest) := by
  cases i with
  | ofNat n =>
    obtain ⟨c, cs, hcs, hc, _⟩ := natStr_cons n
    have h := lexNumBody_natStr false n rest hr
    simp only [intStr]
    rw [hcs] at h ⊢
    rw [List.cons_append, lexNumber_digit c _ hc]
    simpa using h
  | negSucc n =>
    simp only [intStr, List.cons_append, lexNumber_minus]
    rw [lexNumBody_natStr true (n + 1) rest hr]
    simp [Int.negSucc_eq]

theorem lexFuel_minus (n : Nat) (cs : Str) (acc : List Tok) :
    lexFuel (n + 1) ('-' :: cs) acc =
      match lexNumber ('-' :: cs) with
      | some (t, rest) => lexFuel n rest (t :: acc)
      | none => none := rfl

theorem lexFuel_digit (n : Nat) (c : Char) (cs : Str) (acc : List Tok) (hc : isDigit c = true) :
    lexFuel (n + 1) (c :: cs) acc =
      match lexNumber (c :: cs) with
      | some (t, rest) => lexFuel n rest (t :: acc)
      | none => none := by
  conv => lhs; unfold lexFuel
  split
  · rename_i hws
    exfalso
    simp only [isJsonWs, Bool.or_eq_true, beq_iff_eq] at hws
    rcases hws with ((h | h) | h) | h <;> (subst h; exact absurd hc (by decide))
  · split <;> first | rfl | exact absurd hc (by decide)

/-- A printed integer followed by text that does not continue it is one `int` token. -/
theorem lexFuel_intStr (n : Nat) (i : Int) (rest : Str) (acc : List Tok) (hr : numStop rest = true) :
    lexFuel (n + 1) (intStr i ++ rest) acc = lexFuel n rest (.int i :: acc) := by
  have hl := lexNumber_intStr i rest hr
  cases i with
  | ofNat k =>
    obtain ⟨c, cs, hcs, hc, _⟩ := natStr_cons k
    simp only [intStr, hcs, List.cons_append] at hl ⊢
    rw [lexFuel_digit n c _ acc hc, hl]
  | negSucc k =>
    simp only [intStr, List.cons_append] at hl ⊢
    rw [lexFuel_minus, hl]

theorem intStr_length_pos (i : Int) : 1 ≤ (intStr i).length := by
  cases i with
  | ofNat k =>
    have := natStr_ne_nil k
    simp only [intStr]
    cases h : natStr k with
    | nil => exact absurd h this
    | cons _ _ => simp
  | negSucc k => simp [intStr]

/-! ### Lexing a printed value

Fuel: one unit per character of the text is always enough (a token or a blank consumes one unit and
at least one character); `lex` provides `length + 1`. -/

theorem numStop_renderTail (pad : Str) (xs : List Val) (rest : Str) :
    numStop (renderTail pad xs ++ rest) = true := by
  cases xs <;> simp [renderTail, numStop] <;> decide

theorem numStop_renderMTail (pad : Str) (kvs : List (Val × Val)) (rest : Str) :
    numStop (renderMTail pad kvs ++ rest) = true := by
  cases kvs with
  | nil => simp [renderMTail, numStop]; decide
  | cons kv kvs => obtain ⟨k, v⟩ := kv; simp [renderMTail, numStop]; decide

theorem lex_quote (s : Str) (hs : okStr s = true) (rest : Str) (acc r : List Tok) (n : Nat)
    (h : lexFuel n rest (.str s :: acc) = some r) :
    lexFuel (n + (quoteJson s).length) (quoteJson s ++ rest) acc = some r := by
  simp only [quoteJson, List.cons_append, List.append_assoc, List.nil_append, List.length_cons,
    List.length_append, List.length_nil]
  have e : n + ((escBody s).length + (0 + 1) + 1) = (n + (escBody s).length + 1) + 1 := by omega
  rw [e, lexFuel_quote, lexString_escBody s hs]
  simp only [List.reverse_nil, List.nil_append]
  exact lexFuel_mono _ _ _ _ h _ (by omega)

mutual
  theorem lex_render (pad : Str) (hp : pad.all isJsonWs = true) :
      ∀ (w : Val), plainWire w = true → ∀ (rest : Str) (acc r : List Tok) (n : Nat),
        numStop rest = true → lexFuel n rest ((toks w).reverse ++ acc) = some r →
        lexFuel (n + (renderWith pad w).length) (renderWith pad w ++ rest) acc = some r
    | .none, _, rest, acc, r, n, _, h => by
      simp only [toks, List.reverse_cons, List.reverse_nil, List.nil_append, List.cons_append] at h
      simp only [renderWith, List.cons_append, List.nil_append, List.length_cons, List.length_nil]
      show lexFuel (n + 3 + 1) _ _ = _
      rw [lexFuel_null]
      exact lexFuel_mono _ _ _ _ h _ (by omega)
    | .bool true, _, rest, acc, r, n, _, h => by
      simp only [toks, List.reverse_cons, List.reverse_nil, List.nil_append, List.cons_append] at h
      simp only [renderWith, List.cons_append, List.nil_append, List.length_cons, List.length_nil]
      show lexFuel (n + 3 + 1) _ _ = _
      rw [lexFuel_true]
      exact lexFuel_mono _ _ _ _ h _ (by omega)
    | .bool false, _, rest, acc, r, n, _, h => by
      simp only [toks, List.reverse_cons, List.reverse_nil, List.nil_append, List.cons_append] at h
      simp only [renderWith, List.cons_append, List.nil_append, List.length_cons, List.length_nil]
      show lexFuel (n + 4 + 1) _ _ = _
      rw [lexFuel_false]
      exact lexFuel_mono _ _ _ _ h _ (by omega)
    | .int i, _, rest, acc, r, n, hr, h => by
      simp only [toks, List.reverse_cons, List.reverse_nil, List.nil_append, List.cons_append] at h
      simp only [renderWith]
      have hl := intStr_length_pos i
      obtain ⟨k, hk⟩ : ∃ k, n + (intStr i).length = k + 1 := ⟨n + (intStr i).length - 1, by omega⟩
      rw [hk, lexFuel_intStr k i rest acc hr]
      exact lexFuel_mono _ _ _ _ h _ (by omega)
    | .str s, hw, rest, acc, r, n, _, h => by
      simp only [toks, List.reverse_cons, List.reverse_nil, List.nil_append, List.cons_append] at h
      simp only [plainWire] at hw
      simp only [renderWith]
      exact lex_quote s hw rest acc r n h
    | .list [], _, rest, acc, r, n, _, h => by
      simp only [toks, List.reverse_cons, List.reverse_nil, List.nil_append, List.cons_append] at h
      simp only [renderWith, List.cons_append, List.nil_append, List.length_cons, List.length_nil]
      show lexFuel (n + 1 + 1) _ _ = _
      rw [lexFuel_lbrack]
      show lexFuel (n + 1) _ _ = _
      rw [lexFuel_rbrack]
      exact h
    | .list (x :: xs), hw, rest, acc, r, n, hr, h => by
      simp only [plainWire, plainList, Bool.and_eq_true] at hw
      simp only [toks, List.reverse_cons, List.reverse_append, List.append_assoc, List.cons_append,
        List.nil_append] at h
      have h1 := lex_renderTail pad hp xs hw.2 rest _ r n hr h
      have h2 := lex_render pad hp x hw.1 (renderTail pad xs ++ rest) _ r _
        (numStop_renderTail pad xs rest) h1
      simp only [renderWith, List.cons_append, List.append_assoc, List.length_cons, List.length_append]
      have e : n + ((renderWith pad x).length + (renderTail pad xs).length + 1)
          = n + (renderTail pad xs).length + (renderWith pad x).length + 1 := by omega
      rw [e, lexFuel_lbrack]
      exact h2
    | .dict [], _, rest, acc, r, n, _, h => by
      simp only [toks, List.reverse_cons, List.reverse_nil, List.nil_append, List.cons_append] at h
      simp only [renderWith, List.cons_append, List.nil_append, List.length_cons, List.length_nil]
      show lexFuel (n + 1 + 1) _ _ = _
      rw [lexFuel_lbrace]
      show lexFuel (n + 1) _ _ = _
      rw [lexFuel_rbrace]
      exact h
    | .dict ((.str k, v) :: kvs), hw, rest, acc, r, n, hr, h => by
      simp only [plainWire, plainPairs, keyOk, Bool.and_eq_true] at hw
      simp only [toks, keyToks, List.reverse_cons, List.reverse_append, List.append_assoc,
        List.cons_append, List.nil_append] at h
      have h1 := lex_renderMTail pad hp kvs hw.1.2 rest _ r n hr h
      have h2 := lex_render pad hp v hw.1.1.2 (renderMTail pad kvs ++ rest) _ r _
        (numStop_renderMTail pad kvs rest) h1
      simp only [renderWith, renderKey, List.cons_append, List.append_assoc, List.length_cons,
        List.length_append]
      have h3 : lexFuel (n + (renderMTail pad kvs).length + (renderWith pad v).length + pad.length + 1)
          (':' :: (pad ++ (renderWith pad v ++ (renderMTail pad kvs ++ rest)))) (.str k :: .lbrace :: acc)
          = some r := by
        rw [lexFuel_colon, lexFuel_pad pad hp]
        exact h2
      have h4 := lex_quote k hw.1.1.1 _ _ r _ h3
      have e : n + ((quoteJson k).length + (pad.length + ((renderWith pad v).length
            + (renderMTail pad kvs).length) + 1) + 1)
          = n + (renderMTail pad kvs).length + (renderWith pad v).length + pad.length + 1
            + (quoteJson k).length + 1 := by omega
      rw [e, lexFuel_lbrace]
      exact h4
  theorem lex_renderTail (pad : Str) (hp : pad.all isJsonWs = true) :
      ∀ (xs : List Val), plainList xs = true → ∀ (rest : Str) (acc r : List Tok) (n : Nat),
        numStop rest = true → lexFuel n rest ((toksTail xs).reverse ++ acc) = some r →
        lexFuel (n + (renderTail pad xs).length) (renderTail pad xs ++ rest) acc = some r
    | [], _, rest, acc, r, n, _, h => by
      simp only [toksTail, List.reverse_cons, List.reverse_nil, List.nil_append, List.cons_append] at h
      simp only [renderTail, List.cons_append, List.nil_append, List.length_cons, List.length_nil]
      show lexFuel (n + 1) _ _ = _
      rw [lexFuel_rbrack]
      exact h
    | x :: xs, hw, rest, acc, r, n, hr, h => by
      simp only [plainList, Bool.and_eq_true] at hw
      simp only [toksTail, List.reverse_cons, List.reverse_append, List.append_assoc, List.cons_append,
        List.nil_append] at h
      have h1 := lex_renderTail pad hp xs hw.2 rest _ r n hr h
      have h2 := lex_render pad hp x hw.1 (renderTail pad xs ++ rest) _ r _
        (numStop_renderTail pad xs rest) h1
      simp only [renderTail, List.cons_append, List.append_assoc, List.length_cons, List.length_append]
      have e : n + (pad.length + ((renderWith pad x).length + (renderTail pad xs).length) + 1)
          = n + (renderTail pad xs).length + (renderWith pad x).length + pad.length + 1 := by omega
      rw [e, lexFuel_comma, lexFuel_pad pad hp]
      exact h2
  theorem lex_renderMTail (pad : Str) (hp : pad.all isJsonWs = true) :
      ∀ (kvs : List (Val × Val)), plainPairs kvs = true → ∀ (rest : Str) (acc r : List Tok) (n : Nat),
        numStop rest = true → lexFuel n rest ((toksMTail kvs).reverse ++ acc) = some r →
        lexFuel (n + (renderMTail pad kvs).length) (renderMTail pad kvs ++ rest) acc = some r
    | [], _, rest, acc, r, n, _, h => by
      simp only [toksMTail, List.reverse_cons, List.reverse_nil, List.nil_append, List.cons_append] at h
      simp only [renderMTail, List.cons_append, List.nil_append, List.length_cons, List.length_nil]
      show lexFuel (n + 1) _ _ = _
      rw [lexFuel_rbrace]
      exact h
    | (.str k, v) :: kvs, hw, rest, acc, r, n, hr, h => by
      simp only [plainPairs, keyOk, Bool.and_eq_true] at hw
      simp only [toksMTail, keyToks, List.reverse_cons, List.reverse_append, List.append_assoc,
        List.cons_append, List.nil_append] at h
      have h1 := lex_renderMTail pad hp kvs hw.2 rest _ r n hr h
      have h2 := lex_render pad hp v hw.1.2 (renderMTail pad kvs ++ rest) _ r _
        (numStop_renderMTail pad kvs rest) h1
      simp only [renderMTail, renderKey, List.cons_append, List.append_assoc, List.length_cons,
        List.length_append]
      have h3 : lexFuel (n + (renderMTail pad kvs).length + (renderWith pad v).length + pad.length + 1)
          (':' :: (pad ++ (renderWith pad v ++ (renderMTail pad kvs ++ rest)))) (.str k :: .comma :: acc)
          = some r := by
        rw [lexFuel_colon, lexFuel_pad pad hp]
        exact h2
      have h4 := lex_quote k hw.1.1 _ _ r _ h3
      have e : n + (pad.length + ((quoteJson k).length + (pad.length + ((renderWith pad v).length
            + (renderMTail pad kvs).length) + 1)) + 1)
          = n + (renderMTail pad kvs).length + (renderWith pad v).length + pad.length + 1
            + (quoteJson k).length + pad.length + 1 := by omega
      rw [e, lexFuel_comma, lexFuel_pad pad hp]
      exact h4
end

/-- **The lexer reads back the printer's text**, whatever blank padding follows `,` and `:`. -/
theorem lex_renderWith (pad : Str) (hp : pad.all isJsonWs = true) (w : Val) (hw : plainWire w = true) :
    lex (renderWith pad w) = some (toks w) := by
  have h := lex_render pad hp w hw [] [] (toks w) 1 rfl (by simp [lexFuel])
  simp only [List.append_nil] at h
  unfold lex
  rw [Nat.add_comm]
  exact h

/-! ### Parser -/

theorem distinctKeys_append_cons : ∀ (A : List Val) (k : Val) (K : List Val),
    distinctKeys (A ++ k :: K) = true → A.any (fun a => a == k) = false := by
  intro A
  induction A with
  | nil => intro _ _ _; rfl
  | cons a A ih =>
    intro k K h
    simp only [List.cons_append, distinctKeys, Bool.and_eq_true, Bool.not_eq_true', List.any_append,
      List.any_cons, Bool.or_eq_false_iff] at h
    simp only [List.any_cons, Bool.or_eq_false_iff]
    exact ⟨h.1.2.1, ih k K h.2⟩

/-- Pairwise distinct keys: nothing is overridden, `dedupKeys` is the identity. -/
theorem dedupKeys_distinct : ∀ (kvs acc : List (Val × Val)),
    distinctKeys (acc.map Prod.fst ++ kvs.map Prod.fst) = true → dedupKeys kvs acc = acc ++ kvs := by
  intro kvs
  induction kvs with
  | nil => intro acc _; simp [dedupKeys]
  | cons kv rest ih =>
    intro acc h
    obtain ⟨k, v⟩ := kv
    simp only [List.map_cons] at h
    have hk := distinctKeys_append_cons _ _ _ h
    rw [List.any_map] at hk
    have hk' : acc.any (fun p => p.1 == k) = false := hk
    unfold dedupKeys
    simp only [hk', Bool.false_eq_true, if_false]
    rw [ih (acc ++ [(k, v)]) (by simpa [List.map_append] using h)]
    simp

theorem dedupKeys_nil (kvs : List (Val × Val)) (h : distinctKeys (kvs.map Prod.fst) = true) :
    dedupKeys kvs [] = kvs := by
  simpa using dedupKeys_distinct kvs [] (by simpa using h)

theorem toks_head : ∀ (w : Val), plainWire w = true → ∃ t ts, toks w = t :: ts ∧ t ≠ Tok.rbrack := by
  intro w hw
  cases w with
  | none => exact ⟨_, _, rfl, by simp⟩
  | bool b => cases b <;> exact ⟨_, _, rfl, by simp⟩
  | int i => exact ⟨_, _, rfl, by simp⟩
  | str s => exact ⟨_, _, rfl, by simp⟩
  | list xs => cases xs <;> exact ⟨_, _, rfl, by simp⟩
  | dict kvs =>
    cases kvs with
    | nil => exact ⟨_, _, rfl, by simp⟩
    | cons kv kvs => obtain ⟨k, v⟩ := kv; exact ⟨_, _, rfl, by simp⟩
  | _ => simp [plainWire] at hw

theorem parseVal_lbrack (n : Nat) (ts : List Tok) (h : ∀ r, ts ≠ Tok.rbrack :: r) :
    parseVal (n + 1) (.lbrack :: ts) =
      match parseElems n ts with
      | some (xs, r') => some (.list xs, r')
      | none => none := by
  conv => lhs; unfold parseVal
  split <;> first | (simp_all; done) | (rename_i heq; cases heq; rfl)

theorem parseVal_lbrace (n : Nat) (ts : List Tok) (h : ∀ r, ts ≠ Tok.rbrace :: r) :
    parseVal (n + 1) (.lbrace :: ts) =
      match parseMembers n ts with
      | some (kvs, r') => some (.dict (dedupKeys kvs []), r')
      | none => none := by
  conv => lhs; unfold parseVal
  split <;> first | (simp_all; done) | (rename_i heq; cases heq; rfl)

theorem toks_length_pos (w : Val) (hw : plainWire w = true) : 1 ≤ (toks w).length := by
  obtain ⟨t, ts, h, _⟩ := toks_head w hw
  rw [h]; simp

/- Fuel sufficiency is explicit: `parseVal n` reads back the tokens of `w` as soon as
   `n ≥ (toks w).length` (every recursive call of the parser consumes at least one token). -/
mutual
  theorem parse_toks : ∀ (w : Val), plainWire w = true → ∀ (n : Nat) (r : List Tok),
      (toks w).length ≤ n → parseVal n (toks w ++ r) = some (w, r)
    | .none, _, n, r, hn => by
      obtain ⟨n, rfl⟩ : ∃ n', n = n' + 1 := ⟨n - 1, by simp [toks] at hn; omega⟩
      simp [toks, parseVal]
    | .bool true, _, n, r, hn => by
      obtain ⟨n, rfl⟩ : ∃ n', n = n' + 1 := ⟨n - 1, by simp [toks] at hn; omega⟩
      simp [toks, parseVal]
    | .bool false, _, n, r, hn => by
      obtain ⟨n, rfl⟩ : ∃ n', n = n' + 1 := ⟨n - 1, by simp [toks] at hn; omega⟩
      simp [toks, parseVal]
    | .int i, hw, n, r, hn => by
      obtain ⟨n, rfl⟩ : ∃ n', n = n' + 1 := ⟨n - 1, by simp [toks] at hn; omega⟩
      simp only [plainWire] at hw
      simp [toks, parseVal, hw]
    | .str s, _, n, r, hn => by
      obtain ⟨n, rfl⟩ : ∃ n', n = n' + 1 := ⟨n - 1, by simp [toks] at hn; omega⟩
      simp [toks, parseVal]
    | .list [], _, n, r, hn => by
      obtain ⟨n, rfl⟩ : ∃ n', n = n' + 1 := ⟨n - 1, by simp [toks] at hn; omega⟩
      simp [toks, parseVal]
    | .list (x :: xs), hw, n, r, hn => by
      simp only [plainWire, plainList, Bool.and_eq_true] at hw
      simp only [toks, List.length_cons, List.length_append] at hn
      obtain ⟨n, rfl⟩ : ∃ n', n = n' + 1 := ⟨n - 1, by omega⟩
      obtain ⟨t, ts, ht, hne⟩ := toks_head x hw.1
      have hE := parse_toksTail xs hw.2 x n r (parse_toks x hw.1) (toks_length_pos x hw.1) (by omega)
      simp only [toks, List.cons_append, List.append_assoc]
      rw [parseVal_lbrack n _ (by
        rw [ht]; intro r' h'
        simp only [List.cons_append] at h'
        injection h' with h1 _
        exact hne h1), hE]
    | .dict [], _, n, r, hn => by
      obtain ⟨n, rfl⟩ : ∃ n', n = n' + 1 := ⟨n - 1, by simp [toks] at hn; omega⟩
      simp [toks, parseVal]
    | .dict ((.str k, v) :: kvs), hw, n, r, hn => by
      simp only [plainWire, plainPairs, keyOk, Bool.and_eq_true] at hw
      simp only [toks, keyToks, List.length_cons, List.length_append, List.cons_append,
        List.nil_append] at hn
      obtain ⟨n, rfl⟩ : ∃ n', n = n' + 1 := ⟨n - 1, by omega⟩
      have hM := parse_toksMTail kvs hw.1.2 k v n r (parse_toks v hw.1.1.2) (by omega)
      simp only [toks, keyToks, List.cons_append, List.append_assoc, List.nil_append]
      rw [parseVal_lbrace n _ (by intro r'; simp), hM]
      simp only [dedupKeys_nil _ hw.2]
  theorem parse_toksTail : ∀ (xs : List Val), plainList xs = true → ∀ (x : Val) (n : Nat) (r : List Tok),
      (∀ (m : Nat) (r' : List Tok), (toks x).length ≤ m → parseVal m (toks x ++ r') = some (x, r')) →
      1 ≤ (toks x).length → (toks x).length + (toksTail xs).length ≤ n →
      parseElems n (toks x ++ (toksTail xs ++ r)) = some (x :: xs, r)
    | [], _, x, n, r, hx, _, hn => by
      simp only [toksTail, List.length_cons, List.length_nil] at hn
      obtain ⟨n, rfl⟩ : ∃ n', n = n' + 1 := ⟨n - 1, by omega⟩
      unfold parseElems
      simp only [toksTail, List.cons_append, List.nil_append]
      rw [hx n _ (by omega)]
    | y :: ys, hw, x, n, r, hx, hpos, hn => by
      simp only [plainList, Bool.and_eq_true] at hw
      simp only [toksTail, List.length_cons, List.length_append] at hn
      obtain ⟨n, rfl⟩ : ∃ n', n = n' + 1 := ⟨n - 1, by omega⟩
      have hE := parse_toksTail ys hw.2 y n r (parse_toks y hw.1) (toks_length_pos y hw.1) (by omega)
      unfold parseElems
      simp only [toksTail, List.cons_append, List.append_assoc]
      rw [hx n _ (by omega)]
      simp only [hE]
  theorem parse_toksMTail : ∀ (kvs : List (Val × Val)), plainPairs kvs = true →
      ∀ (k : Str) (v : Val) (n : Nat) (r : List Tok),
      (∀ (m : Nat) (r' : List Tok), (toks v).length ≤ m → parseVal m (toks v ++ r') = some (v, r')) →
      (toks v).length + (toksMTail kvs).length + 1 ≤ n →
      parseMembers n (.str k :: .colon :: (toks v ++ (toksMTail kvs ++ r))) = some ((.str k, v) :: kvs, r)
    | [], _, k, v, n, r, hv, hn => by
      simp only [toksMTail, List.length_cons, List.length_nil] at hn
      obtain ⟨n, rfl⟩ : ∃ n', n = n' + 1 := ⟨n - 1, by omega⟩
      unfold parseMembers
      simp only [toksMTail, List.cons_append, List.nil_append]
      rw [hv n _ (by omega)]
    | (.str k', v') :: kvs, hw, k, v, n, r, hv, hn => by
      simp only [plainPairs, keyOk, Bool.and_eq_true] at hw
      simp only [toksMTail, keyToks, List.length_cons, List.length_append, List.cons_append,
        List.nil_append] at hn
      obtain ⟨n, rfl⟩ : ∃ n', n = n' + 1 := ⟨n - 1, by omega⟩
      have hM := parse_toksMTail kvs hw.2 k' v' n r (parse_toks v' hw.1.2) (by omega)
      unfold parseMembers
      simp only [toksMTail, keyToks, List.cons_append, List.append_assoc, List.nil_append]
      rw [hv n _ (by omega)]
      simp only [hM]
end

/-- The fuel `jsonParse` supplies (`toks.length + 1`) suffices. -/
theorem parse_fuel_suffices (w : Val) (hw : plainWire w = true) :
    parseVal ((toks w).length + 1) (toks w) = some (w, []) := by
  have := parse_toks w hw ((toks w).length + 1) [] (by omega)
  simpa using this

/-! ### Round trip -/

/-- **JSON round trip on the fragment**, for every blank padding after `,` and `:`. -/
theorem jsonParse_renderWith (pad : Str) (hp : pad.all isJsonWs = true) (w : Val)
    (hw : plainWire w = true) : jsonParse (renderWith pad w) = some w := by
  unfold jsonParse
  rw [lex_renderWith pad hp w hw]
  simp only [parse_fuel_suffices w hw]

/-- `json.loads(json.dumps(w, separators=(",", ":"), ensure_ascii=False)) == w`. -/
theorem jsonParse_render (w : Val) (hw : plainWire w = true) : jsonParse (renderJson w) = some w :=
  jsonParse_renderWith [] rfl w hw

/-- `json.loads(json.dumps(w, ensure_ascii=False)) == w` (separators `", "` and `": "`). -/
theorem jsonParse_renderSp (w : Val) (hw : plainWire w = true) : jsonParse (renderJsonSp w) = some w :=
  jsonParse_renderWith [' '] (by decide) w hw

/-- `serdes.strload` of the JSON text of a plain wire value is that value. -/
theorem strload_render (w : Val) (hw : plainWire w = true) : strload? (renderJson w) = some w := by
  unfold strload?
  rw [jsonParse_render w hw]

theorem strload_renderSp (w : Val) (hw : plainWire w = true) : strload? (renderJsonSp w) = some w := by
  unfold strload?
  rw [jsonParse_renderSp w hw]

/-- Non-vacuity, and the side conditions are needed: outside `plainWire` the round trip fails —
    a control character without short escape is printed as `\u0001`, which the lexer does not read;
    a repeated key is collapsed by the reader; an integer beyond 64 bits is not read as an integer. -/
example : plainWire (.list [.int (-1), .str ['a', '\n']]) = true := by decide
example : jsonParse (renderJson (.str ['\x01'])) = none := by rfl
example : jsonParse (renderJson (.dict [(.str [], .none), (.str [], .bool true)]))
    = some (.dict [(.str [], .bool true)]) := by rfl
example : jsonParse (renderJson (.int 18446744073709551616)) = none := by rfl

end Typelib
