/-
  Leaf laws proved for the executable leaves `pyLeaves` (the unconditional core U₀ of DESIGN.md §3.1).
-/
import TypelibModel.Lemmas.WF
import TypelibModel.Model.Leaf
namespace Typelib

/-- Scalars whose conversions are typelib's own logic on both sides of the wire and need no
    fact about CPython printers/parsers: int, bool, float (identified by its repr), str. -/
def S0 : Scalar → Bool
  | .int | .bool | .float | .str => true
  | _ => false

theorem pyLeaves_rt (env : Env) (today : Int) : ∀ s v, S0 s = true → hasScalar s v = true →
    ∃ m, (pyLeaves env today).mar s v = .ok m ∧ (pyLeaves env today).um s m = .ok v
      ∧ hashable m = true ∧ decode m ≠ .none := by
  intro s v hs hv
  cases s <;> simp [S0] at hs <;> cases v <;> simp [hasScalar] at hv
  case int.int i =>
    exact ⟨.int i, by simp [pyLeaves, pyMar, marInt, castInt], by simp [pyLeaves, pyUm, umInt, decode], rfl, by simp [decode]⟩
  case bool.bool b =>
    refine ⟨.bool b, by simp [pyLeaves, pyMar, marBool, truthy], by simp [pyLeaves, pyUm, umBool, decode], rfl, by simp [decode]⟩
  case float.float r =>
    exact ⟨.float r, by simp [pyLeaves, pyMar, marFloat, castFloat], by simp [pyLeaves, pyUm, umFloat, decode], rfl, by simp [decode]⟩
  case str.str s =>
    exact ⟨.str s, by simp [pyLeaves, pyMar, marStr, pyStr], by simp [pyLeaves, pyUm, umStr, decode], rfl, by simp [decode]⟩

/-- Pass-through: a valid value of a core scalar type is returned unchanged by its unmarshaller. -/
theorem pyLeaves_pass (env : Env) (today : Int) : ∀ s v, S0 s = true → hasScalar s v = true →
    (pyLeaves env today).um s v = .ok v := by
  intro s v hs hv
  cases s <;> simp [S0] at hs <;> cases v <;> simp [hasScalar] at hv
  all_goals simp [pyLeaves, pyUm, umInt, umBool, umFloat, umStr, decode]

end Typelib
