/-
  Monotonicity of validity / conformance in the fuel (`hasTypeG_mono`, `hasTypeG_mono_add`), the
  one-step unfolding of `hasTypeG` with its anonymous matches named (`tyStep`), and result-shape
  lemmas about the list combinators (`zipR`, `buildKwargs`, `insertKw`, `fieldArg`) shared by the
  soundness theorems C03 and C06.
-/
import TypelibModel.Lemmas.RoundTrip
namespace Typelib

/-! ### One unfolding step of `hasTypeG`, with the anonymous matches named -/

def enumOk (env : Env) (c : Nat) : Val → Bool
  | .member c' i => c' == c && (memberValue env c i).isSome
  | _ => false

/-- The TypedDict clause for one entry: a declared key whose value satisfies the key's annotation. -/
def tdEntryOk (P : Ty → Val → Bool) (fields : List (Str × Ty)) (kv : Val × Val) : Bool :=
  match kv.1 with
  | .str name =>
    match fields.find? (fun f => f.1 == name) with
    | some f => P f.2 kv.2
    | none => false
  | _ => false

def fieldOk (P : Ty → Val → Bool) (f : Str × Ty) (g : Str × Val) : Bool := f.1 == g.1 && P f.2 g.2

def dictEntryOk (P : Ty → Val → Bool) (k e : Ty) (kv : Val × Val) : Bool :=
  P k kv.1 && P e kv.2 && hashable kv.1

def clsOk (P : Ty → Val → Bool) (c : Nat) (ci : ClassInfo) (v : Val) : Bool :=
  match ci.flavour, v with
  | .typeddict, .dict kvs =>
    match keyNames kvs with
    | none => false
    | some names =>
      nodupStr names && ci.required.all (fun r => names.contains r) && kvs.all (tdEntryOk P ci.fields)
  | .typeddict, _ => false
  | _, .inst c' fs => c' == c && all2 (fieldOk P) ci.fields fs
  | _, _ => false

def tupleOk (P : Ty → Val → Bool) (es : List Ty) : Val → Bool
  | .tuple xs => all2 P es xs
  | _ => false

def dictOk (P : Ty → Val → Bool) (k e : Ty) : Val → Bool
  | .dict kvs => kvs.all (dictEntryOk P k e)
  | _ => false

def collOk (P : Ty → Val → Bool) (k : Coll) (e : Ty) (v : Val) : Bool :=
  match collOf k v with
  | some xs => xs.all (P e)
  | none => false

def clsOkE (P : Ty → Val → Bool) (env : Env) (c : Nat) (v : Val) : Bool :=
  match env.cls c with
  | none => false
  | some ci => clsOk P c ci v

/-- `hasTypeG … (n+1)` as a function of `hasTypeG … n`. -/
def tyStep (leaf : Scalar → Val → Bool) (lit : List Val → Val → Bool) (env : Env)
    (P : Ty → Val → Bool) : Ty → Val → Bool
  | .scalar s, v => leaf s v
  | .none, v => v == .none
  | .any, _ => true
  | .enum c, v => enumOk env c v
  | .literal vs, v => lit vs v
  | .coll k e, v => collOk P k e v
  | .tuple es, v => tupleOk P es v
  | .dict k e, v => dictOk P k e v
  | .union ms, v => ms.any (fun m => P m v)
  | .cls c, v => clsOkE P env c v
  | .wrap _ t', v => P t' v

theorem hasTypeG_succ (leaf : Scalar → Val → Bool) (lit : List Val → Val → Bool) (env : Env)
    (n : Nat) (t : Ty) (v : Val) :
    hasTypeG leaf lit env (n + 1) t v = tyStep leaf lit env (hasTypeG leaf lit env n) t v := by
  cases t with
  | scalar s => rfl
  | none => rfl
  | any => rfl
  | enum c => cases v <;> rfl
  | literal vs => rfl
  | coll k e => rfl
  | tuple es => cases v <;> rfl
  | dict k e => cases v <;> rfl
  | union ms => rfl
  | cls c =>
    simp only [hasTypeG, tyStep, clsOkE]
    cases env.cls c with
    | none => rfl
    | some ci =>
      simp only [clsOk]
      cases ci.flavour <;> cases v <;> rfl
  | wrap w t' => rfl

end Typelib
