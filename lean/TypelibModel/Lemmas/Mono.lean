/-
  Monotonicity of validity / conformance in the fuel (`hasTypeG_mono`, `hasTypeG_mono_add`), the
  one-step unfolding of `hasTypeG` with its anonymous matches named (`tyStep`), and result-shape
  lemmas about the list combinators (`zipR`, `buildKwargs`, `insertKw`, `fieldArg`) shared by the
  soundness theorems C03 and C06.
-/
import TypelibModel.Lemmas.RoundTrip
namespace Typelib

/-! ### One unfolding step of `hasTypeG`, with the anonymous matches named -/

def enumOk (env : Env) (c : Nat) : Val → Bool
  | .member c' i => c' == c && (memberValue env c i).isSome
  | _ => false

/-- The TypedDict clause for one entry: a declared key whose value satisfies the key's annotation. -/
def tdEntryOk (P : Ty → Val → Bool) (fields : List (Str × Ty)) (kv : Val × Val) : Bool :=
  match kv.1 with
  | .str name =>
    match fields.find? (fun f => f.1 == name) with
    | some f => P f.2 kv.2
    | none => false
  | _ => false

def fieldOk (P : Ty → Val → Bool) (f : Str × Ty) (g : Str × Val) : Bool := f.1 == g.1 && P f.2 g.2

def dictEntryOk (P : Ty → Val → Bool) (k e : Ty) (kv : Val × Val) : Bool :=
  P k kv.1 && P e kv.2 && hashable kv.1

def clsOk (P : Ty → Val → Bool) (c : Nat) (ci : ClassInfo) (v : Val) : Bool :=
  match ci.flavour, v with
  | .typeddict, .dict kvs =>
    match keyNames kvs with
    | none => false
    | some names =>
      nodupStr names && ci.required.all (fun r => names.contains r) && kvs.all (tdEntryOk P ci.fields)
  | .typeddict, _ => false
  | _, .inst c' fs => c' == c && all2 (fieldOk P) ci.fields fs
  | _, _ => false

def tupleOk (P : Ty → Val → Bool) (es : List Ty) : Val → Bool
  | .tuple xs => all2 P es xs
  | _ => false

def dictOk (P : Ty → Val → Bool) (k e : Ty) : Val → Bool
  | .dict kvs => kvs.all (dictEntryOk P k e)
  | _ => false

def collOk (P : Ty → Val → Bool) (k : Coll) (e : Ty) (v : Val) : Bool :=
  match collOf k v with
  | some xs => xs.all (P e)
  | none => false

def clsOkE (P : Ty → Val → Bool) (env : Env) (c : Nat) (v : Val) : Bool :=
  match env.cls c with
  | none => false
  | some ci => clsOk P c ci v

/-- `hasTypeG … (n+1)` as a function of `hasTypeG … n`. -/
def tyStep (leaf : Scalar → Val → Bool) (lit : List Val → Val → Bool) (env : Env)
    (P : Ty → Val → Bool) : Ty → Val → Bool
  | .scalar s, v => leaf s v
  | .none, v => v == .none
  | .any, _ => true
  | .enum c, v => enumOk env c v
  | .literal vs, v => lit vs v
  | .coll k e, v => collOk P k e v
  | .tuple es, v => tupleOk P es v
  | .dict k e, v => dictOk P k e v
  | .union ms, v => ms.any (fun m => P m v)
  | .cls c, v => clsOkE P env c v
  | .wrap _ t', v => P t' v

theorem hasTypeG_succ (leaf : Scalar → Val → Bool) (lit : List Val → Val → Bool) (env : Env)
    (n : Nat) (t : Ty) (v : Val) :
    hasTypeG leaf lit env (n + 1) t v = tyStep leaf lit env (hasTypeG leaf lit env n) t v := by
  cases t with
  | scalar s => rfl
  | none => rfl
  | any => rfl
  | enum c => cases v <;> rfl
  | literal vs => rfl
  | coll k e => rfl
  | tuple es => cases v <;> rfl
  | dict k e => cases v <;> rfl
  | union ms => rfl
  | cls c =>
    simp only [hasTypeG, tyStep, clsOkE]
    cases env.cls c with
    | none => rfl
    | some ci =>
      simp only [clsOk]
      cases ci.flavour <;> cases v <;> rfl
  | wrap w t' => rfl

/-! ### Each clause is monotone in the recursive predicate -/

theorem all_mono {α : Type} {p q : α → Bool} (h : ∀ x, p x = true → q x = true) :
    ∀ xs : List α, xs.all p = true → xs.all q = true := by
  intro xs hx
  rw [List.all_eq_true] at hx ⊢
  exact fun x hm => h x (hx x hm)

theorem any_mono {α : Type} {p q : α → Bool} (h : ∀ x, p x = true → q x = true) :
    ∀ xs : List α, xs.any p = true → xs.any q = true := by
  intro xs hx
  rw [List.any_eq_true] at hx ⊢
  obtain ⟨x, hm, hp⟩ := hx
  exact ⟨x, hm, h x hp⟩

theorem all2_mono {α β : Type} {p q : α → β → Bool} (h : ∀ a b, p a b = true → q a b = true) :
    ∀ (as : List α) (bs : List β), all2 p as bs = true → all2 q as bs = true := by
  intro as
  induction as with
  | nil => intro bs hx; cases bs <;> simp_all [all2]
  | cons a as ih =>
    intro bs hx
    cases bs with
    | nil => simp [all2] at hx
    | cons b bs =>
      simp only [all2, Bool.and_eq_true] at hx ⊢
      exact ⟨h a b hx.1, ih bs hx.2⟩

section
variable {P Q : Ty → Val → Bool} (h : ∀ t v, P t v = true → Q t v = true)
include h

theorem tdEntryOk_mono (fields : List (Str × Ty)) (kv : Val × Val) :
    tdEntryOk P fields kv = true → tdEntryOk Q fields kv = true := by
  unfold tdEntryOk
  split
  · split
    · exact h _ _
    · exact id
  · exact id

theorem fieldOk_mono (f : Str × Ty) (g : Str × Val) : fieldOk P f g = true → fieldOk Q f g = true := by
  unfold fieldOk
  simp only [Bool.and_eq_true]
  exact fun hx => ⟨hx.1, h _ _ hx.2⟩

theorem dictEntryOk_mono (k e : Ty) (kv : Val × Val) :
    dictEntryOk P k e kv = true → dictEntryOk Q k e kv = true := by
  unfold dictEntryOk
  simp only [Bool.and_eq_true]
  exact fun hx => ⟨⟨h _ _ hx.1.1, h _ _ hx.1.2⟩, hx.2⟩

theorem clsOk_mono (c : Nat) (ci : ClassInfo) (v : Val) : clsOk P c ci v = true → clsOk Q c ci v = true := by
  unfold clsOk
  split
  · split
    · exact id
    · simp only [Bool.and_eq_true]
      exact fun hx => ⟨hx.1, all_mono (tdEntryOk_mono h ci.fields) _ hx.2⟩
  · exact id
  · simp only [Bool.and_eq_true]
    exact fun hx => ⟨hx.1, all2_mono (fieldOk_mono h) _ _ hx.2⟩
  · exact id

theorem tyStep_mono (leaf : Scalar → Val → Bool) (lit : List Val → Val → Bool) (env : Env) (t : Ty) (v : Val) :
    tyStep leaf lit env P t v = true → tyStep leaf lit env Q t v = true := by
  cases t with
  | scalar s => exact id
  | none => exact id
  | any => exact id
  | enum c => exact id
  | literal vs => exact id
  | coll k e =>
    simp only [tyStep, collOk]
    split
    · exact all_mono (h e) _
    · exact id
  | tuple es =>
    simp only [tyStep]
    cases v <;> simp only [tupleOk] <;> first | exact id | exact all2_mono h _ _
  | dict k e =>
    simp only [tyStep]
    cases v <;> simp only [dictOk] <;> first | exact id | exact all_mono (dictEntryOk_mono h k e) _
  | union ms => exact any_mono (fun m => h m v) ms
  | cls c =>
    simp only [tyStep, clsOkE]
    split
    · exact id
    · exact clsOk_mono h c _ v
  | wrap w t' => exact h t' v

end

/-- Validity / conformance is monotone in the fuel. -/
theorem hasTypeG_mono (leaf : Scalar → Val → Bool) (lit : List Val → Val → Bool) (env : Env) :
    ∀ (n : Nat) (t : Ty) (v : Val),
      hasTypeG leaf lit env n t v = true → hasTypeG leaf lit env (n + 1) t v = true := by
  intro n
  induction n with
  | zero => intro t v hx; simp [hasTypeG] at hx
  | succ n ih =>
    intro t v hx
    rw [hasTypeG_succ] at hx ⊢
    exact tyStep_mono ih leaf lit env t v hx

theorem hasTypeG_mono_add (leaf : Scalar → Val → Bool) (lit : List Val → Val → Bool) (env : Env)
    (k n : Nat) (t : Ty) (v : Val) (hx : hasTypeG leaf lit env n t v = true) :
    hasTypeG leaf lit env (n + k) t v = true := by
  induction k with
  | zero => exact hx
  | succ k ih => exact hasTypeG_mono leaf lit env (n + k) t v ih

theorem hasTypeG_mono_le (leaf : Scalar → Val → Bool) (lit : List Val → Val → Bool) (env : Env)
    {n m : Nat} (hnm : n ≤ m) (t : Ty) (v : Val) (hx : hasTypeG leaf lit env n t v = true) :
    hasTypeG leaf lit env m t v = true := by
  obtain ⟨k, rfl⟩ := Nat.exists_eq_add_of_le hnm
  exact hasTypeG_mono_add leaf lit env k n t v hx

/-! ### Result shapes of the list combinators -/

/-- Fixed tuples: an `ok` zip of the declared arity satisfies, position by position, whatever the
    member routines establish. -/
theorem zipR_ok_all2 (F : Ty → Val → R Val) (P : Ty → Val → Bool) :
    ∀ (es : List Ty) (xs ys : List Val), zipR (es.map F) xs = .ok ys → ys.length = es.length →
      (∀ e ∈ es, ∀ x ∈ xs, ∀ y, F e x = .ok y → P e y = true) → all2 P es ys = true := by
  intro es
  induction es with
  | nil =>
    intro xs ys hz _ _
    simp [zipR] at hz
    subst hz
    rfl
  | cons e es ih =>
    intro xs ys hz hlen hP
    cases xs with
    | nil =>
      simp [zipR] at hz
      subst hz
      simp at hlen
    | cons x xs =>
      simp only [List.map_cons, zipR] at hz
      split at hz
      · cases hz
      · rename_i y hy
        split at hz
        · cases hz
        · rename_i ys' hys
          cases hz
          simp only [List.length_cons, Nat.add_right_cancel_iff] at hlen
          simp only [all2, Bool.and_eq_true]
          exact ⟨hP e (by simp) x (by simp) y hy,
            ih xs ys' hys hlen (fun e' he' x' hx' => hP e' (by simp [he']) x' (by simp [hx']))⟩

theorem zipR_ok_forall (F : Ty → Val → R Val) (Q : Val → Prop) :
    ∀ (es : List Ty) (xs ys : List Val), zipR (es.map F) xs = .ok ys →
      (∀ e ∈ es, ∀ x ∈ xs, ∀ y, F e x = .ok y → Q y) → ∀ y ∈ ys, Q y := by
  intro es
  induction es with
  | nil =>
    intro xs ys hz _ y hy
    simp [zipR] at hz
    subst hz
    cases hy
  | cons e es ih =>
    intro xs ys hz hP y hy
    cases xs with
    | nil =>
      simp [zipR] at hz
      subst hz
      cases hy
    | cons x xs =>
      simp only [List.map_cons, zipR] at hz
      split at hz
      · cases hz
      · rename_i y0 hy0
        split at hz
        · cases hz
        · rename_i ys' hys
          cases hz
          cases hy with
          | head => exact hP e (by simp) x (by simp) _ hy0
          | tail _ hm =>
            exact ih xs ys' hys (fun e' he' x' hx' => hP e' (by simp [he']) x' (by simp [hx'])) y hm

theorem mem_insertKw {k : Str} {v : Val} : ∀ {acc : List (Str × Val)} {p : Str × Val},
    p ∈ insertKw k v acc → p = (k, v) ∨ p ∈ acc := by
  intro acc
  induction acc with
  | nil => intro p hp; simp [insertKw] at hp; exact Or.inl hp
  | cons q qs ih =>
    intro p hp
    obtain ⟨qk, qv⟩ := q
    simp only [insertKw] at hp
    split at hp
    · rename_i hq
      have : qk = k := eq_of_beq hq
      subst this
      cases hp with
      | head => exact Or.inl rfl
      | tail _ hm => exact Or.inr (List.mem_cons_of_mem _ hm)
    · cases hp with
      | head => exact Or.inr List.mem_cons_self
      | tail _ hm =>
        cases ih hm with
        | inl h1 => exact Or.inl h1
        | inr h2 => exact Or.inr (List.mem_cons_of_mem _ h2)

theorem insertKw_keys_mem {k : Str} {v : Val} : ∀ {acc : List (Str × Val)}, k ∈ acc.map Prod.fst →
    (insertKw k v acc).map Prod.fst = acc.map Prod.fst := by
  intro acc
  induction acc with
  | nil => intro h; cases h
  | cons q qs ih =>
    intro h
    obtain ⟨qk, qv⟩ := q
    simp only [insertKw]
    split
    · rfl
    · rename_i hq
      simp only [List.map_cons, List.mem_cons] at h
      cases h with
      | inl h1 => subst h1; simp at hq
      | inr h2 => simp [ih h2]

theorem nodupStr_iff {xs : List Str} : nodupStr xs = true ↔ xs.Nodup := by
  induction xs with
  | nil => simp [nodupStr]
  | cons x xs ih => simp [nodupStr, ih]

theorem insertKw_nodup {k : Str} {v : Val} {acc : List (Str × Val)}
    (h : nodupStr (acc.map Prod.fst) = true) : nodupStr ((insertKw k v acc).map Prod.fst) = true := by
  by_cases hk : k ∈ acc.map Prod.fst
  · rw [insertKw_keys_mem hk]; exact h
  · rw [insertKw_fresh k v acc hk]
    rw [nodupStr_iff] at h ⊢
    simp only [List.map_append, List.map_cons, List.map_nil]
    rw [List.nodup_append]
    refine ⟨h, by simp, ?_⟩
    intro a ha b hb
    simp only [List.mem_cons, List.not_mem_nil, or_false] at hb
    subst hb
    intro hab
    subst hab
    exact hk ha

/-- The struct comprehension: every entry of the result was already in `acc` or is a delivered
    item's value converted by the routine `conv` selects for its key. -/
theorem buildKwargs_inv (conv : Str → Option (Val → R Val)) (Q : Str → Val → Prop) :
    ∀ (items : List Item) (acc kw : List (Str × Val)), buildKwargs conv items acc = .ok kw →
      (∀ name v, Except.ok (Val.str name, v) ∈ items → ∀ g r, conv name = some g → g v = .ok r → Q name r) →
      (∀ p ∈ acc, Q p.1 p.2) → ∀ p ∈ kw, Q p.1 p.2 := by
  intro items
  induction items with
  | nil =>
    intro acc kw hb _ hacc
    simp [buildKwargs] at hb
    subst hb
    exact hacc
  | cons it rest ih =>
    intro acc kw hb hQ hacc
    have hQ' : ∀ name v, Except.ok (Val.str name, v) ∈ rest → ∀ g r, conv name = some g → g v = .ok r → Q name r :=
      fun name v hm => hQ name v (by simp [hm])
    cases it with
    | error e => simp [buildKwargs] at hb
    | ok kv =>
      obtain ⟨k, v⟩ := kv
      simp only [buildKwargs] at hb
      split at hb
      · cases hb
      · split at hb
        · rename_i name _
          split at hb
          · exact ih acc kw hb hQ' hacc
          · rename_i g hg
            split at hb
            · cases hb
            · rename_i r hr
              apply ih (insertKw name r acc) kw hb hQ'
              intro p hp
              cases mem_insertKw hp with
              | inl h1 => subst h1; exact hQ name v (by simp) g r hg hr
              | inr h2 => exact hacc p h2
        · exact ih acc kw hb hQ' hacc

theorem buildKwargs_nodup (conv : Str → Option (Val → R Val)) :
    ∀ (items : List Item) (acc kw : List (Str × Val)), buildKwargs conv items acc = .ok kw →
      nodupStr (acc.map Prod.fst) = true → nodupStr (kw.map Prod.fst) = true := by
  intro items
  induction items with
  | nil =>
    intro acc kw hb hacc
    simp [buildKwargs] at hb
    subst hb
    exact hacc
  | cons it rest ih =>
    intro acc kw hb hacc
    cases it with
    | error e => simp [buildKwargs] at hb
    | ok kv =>
      obtain ⟨k, v⟩ := kv
      simp only [buildKwargs] at hb
      split at hb
      · cases hb
      · split at hb
        · split at hb
          · exact ih acc kw hb hacc
          · split at hb
            · cases hb
            · exact ih _ kw hb (insertKw_nodup hacc)
        · exact ih acc kw hb hacc

theorem lookupKw_some_mem {k : Str} {v : Val} : ∀ {kw : List (Str × Val)}, lookupKw k kw = some v → (k, v) ∈ kw := by
  intro kw
  induction kw with
  | nil => intro h; simp [lookupKw] at h
  | cons q qs ih =>
    intro h
    obtain ⟨qk, qv⟩ := q
    simp only [lookupKw] at h
    split at h
    · rename_i hq
      have : qk = k := eq_of_beq hq
      subst this
      cases h
      simp
    · simp [ih h]

theorem keyNames_strKeys : ∀ kw : List (Str × Val),
    keyNames (kw.map fun p => ((Val.str p.1, p.2) : Val × Val)) = some (kw.map Prod.fst) := by
  intro kw
  induction kw with
  | nil => rfl
  | cons q qs ih =>
    simp only [keyNames, List.map_cons, List.foldr_cons] at ih ⊢
    rw [ih]

/-- The constructor call: the instance has exactly the declared field names in order, each bound to
    the keyword or else the default. -/
theorem mapR_fieldArg_all2 (ci : ClassInfo) (kw : List (Str × Val)) (P : Ty → Val → Bool) :
    ∀ (sub : List (Str × Ty)) (fs : List (Str × Val)), mapR (fieldArg ci kw) sub = .ok fs →
      (∀ f ∈ sub, ∀ v, lookupKw f.1 kw = some v → P f.2 v = true) →
      (∀ f ∈ sub, ∀ d, lookupKw f.1 ci.defaults = some d → P f.2 d = true) →
      all2 (fieldOk P) sub fs = true := by
  intro sub
  induction sub with
  | nil =>
    intro fs hm _ _
    simp [mapR] at hm
    subst hm
    rfl
  | cons f sub ih =>
    intro fs hm hkw hdef
    simp only [mapR] at hm
    split at hm
    · cases hm
    · rename_i g hg
      split at hm
      · cases hm
      · rename_i gs hgs
        cases hm
        simp only [all2, Bool.and_eq_true]
        refine ⟨?_, ih gs hgs (fun f' hf' => hkw f' (by simp [hf'])) (fun f' hf' => hdef f' (by simp [hf']))⟩
        unfold fieldArg at hg
        split at hg
        · rename_i v hv
          cases hg
          simp [fieldOk, hkw f (by simp) v hv]
        · split at hg
          · rename_i d hd
            cases hg
            simp [fieldOk, hdef f (by simp) d hd]
          · cases hg

/-- An `ok` pair conversion is a delivered pair converted by the two routines, with a hashable key. -/
theorem convPair_ok {fk fv : Val → R Val} {it : Item} {kv : Val × Val} (h : convPair fk fv it = .ok kv) :
    ∃ a b, it = .ok (a, b) ∧ fk a = .ok kv.1 ∧ fv b = .ok kv.2 ∧ hashable kv.1 = true := by
  unfold convPair at h
  split at h
  · cases h
  · rename_i a b
    split at h
    · cases h
    · rename_i a' ha
      split at h
      · cases h
      · rename_i b' hb
        split at h
        · rename_i hh
          cases h
          exact ⟨a, b, rfl, ha, hb, hh⟩
        · cases h

theorem bind_ok {α β : Type} {x : R α} {f : α → R β} {b : β} (h : x.bind f = .ok b) :
    ∃ a, x = .ok a ∧ f a = .ok b := by
  cases x with
  | error e => cases h
  | ok a => exact ⟨a, rfl, h⟩

theorem collOf_mkColl (k : Coll) (ys : List Val) : collOf k (mkColl k ys) = some ys := by
  cases k <;> rfl

/-- With distinct field names, looking a declared field up by its name finds that field. -/
theorem find?_of_mem_nodup : ∀ (fields : List (Str × Ty)), nodupStr (fields.map Prod.fst) = true →
    ∀ f ∈ fields, fields.find? (fun p => p.1 == f.1) = some f := by
  intro fields
  induction fields with
  | nil => intro _ f hf; cases hf
  | cons p ps ih =>
    intro hnd f hf
    obtain ⟨hnotin, hnd'⟩ := nodupStr_cons hnd
    cases hf with
    | head => simp [List.find?]
    | tail _ hm =>
      have hne : (p.1 == f.1) = false := by
        apply Bool.eq_false_iff.mpr
        intro heq
        apply hnotin
        rw [eq_of_beq heq]
        exact List.mem_map_of_mem (f := Prod.fst) hm
      simp only [List.find?, hne]
      exact ih hnd' f hm

theorem findIdxFrom_range {α : Type} (p : α → Bool) : ∀ (xs : List α) (k i : Nat),
    findIdxFrom p k xs = some i → k ≤ i ∧ i < k + xs.length := by
  intro xs
  induction xs with
  | nil => intro k i h; simp [findIdxFrom] at h
  | cons x xs ih =>
    intro k i h
    simp only [findIdxFrom] at h
    split at h
    · cases h; simp
    · have := ih (k + 1) i h
      simp only [List.length_cons]
      omega

/-- `E(d)` returns a declared member of `E`. -/
theorem lookupByValue_ok {env : Env} {c : Nat} {d m : Val} (h : lookupByValue env c d = some m) :
    enumOk env c m = true := by
  unfold lookupByValue at h
  split at h
  · rename_i ci hc
    split at h
    · rename_i i hi
      cases h
      have := (findIdxFrom_range _ ci.members 0 i hi).2
      simp only [enumOk, beq_self_eq_true, Bool.true_and, memberValue, hc]
      simp only [Nat.zero_add] at this
      simp [this]
    · cases h
  · cases h

/-- Members the union unmarshaller tries: declared members, or the `None` routine it puts first when
    some member names None (directly or through an alias / NewType chain). -/
theorem unionOrder_sub {ms : List Ty} : ∀ m ∈ unionOrder ms,
    m ∈ ms ∨ (m = .none ∧ ∃ m' ∈ ms, m'.isNone = true) := by
  intro m hm
  unfold unionOrder at hm
  split at hm
  · rename_i hnull
    cases hm with
    | head =>
      unfold nullable at hnull
      rw [List.any_eq_true] at hnull
      exact Or.inr ⟨rfl, hnull⟩
    | tail _ hm' => exact Or.inl (List.mem_filter.mp hm').1
  · exact Or.inl hm

/-- Length of the alias / NewType / Final / ClassVar chain at the head of an annotation. -/
def wrapDepth : Ty → Nat
  | .wrap _ t => wrapDepth t + 1
  | _ => 0

/-- None is a valid value of a member naming None, given fuel beyond its wrapper chain. -/
theorem isNone_accepts (leaf : Scalar → Val → Bool) (lit : List Val → Val → Bool) (env : Env) :
    ∀ (k : Nat) (m : Ty), m.isNone = true → wrapDepth m < k → hasTypeG leaf lit env k m .none = true := by
  intro k
  induction k with
  | zero => intro m _ h; cases h
  | succ k ih =>
    intro m hm hd
    rw [hasTypeG_succ]
    cases m <;> simp [Ty.isNone] at hm
    case none => rfl
    case wrap w t =>
      simp only [wrapDepth, Nat.add_lt_add_iff_right] at hd
      exact ih t hm hd

theorem isNone_accepts_ex (leaf : Scalar → Val → Bool) (lit : List Val → Val → Bool) (env : Env)
    (m : Ty) (hm : m.isNone = true) : ∃ k, hasTypeG leaf lit env k m .none = true :=
  ⟨wrapDepth m + 1, isNone_accepts leaf lit env _ m hm (Nat.lt_succ_self _)⟩

end Typelib
