/-
  Enum members and the executable leaves `pyLeaves`: the decidable side conditions on a class
  environment under which `LeafLaws.enumRT` (round trip of a member through its value, C01) and
  pass-through of a member (C13) hold — replacing "the environment
  declares no enum member" / "no enum has a str mix-in".  For `enumPass` no condition at all is
  left since 9645d73 (`umEnum_member`).

  `EnumUnmarshaller = CastUnmarshaller[EnumT]` (`unmarshals/routines.py:559-610`):
      isinstance(val, E) and istexttype(E) → val   -- member of a str enum, before decoding (9645d73)
      decoded = serdes.load(val)            -- text is read as JSON / a Python literal first
      isinstance(decoded, E) → decoded
      E(decoded)                            -- the FIRST member whose value == decoded
      on ValueError/TypeError, for text input: E(serdes.decode(val))   -- the text itself (232a609)
  so a member comes back from its value `w` iff the lookups above meet that member first.
-/
import TypelibModel.Lemmas.LeafRT
namespace Typelib

/-- Index of the first member of class `c` whose value `==` `d`: the member `E(d)` returns. -/
def firstIdx (env : Env) (c : Nat) (d : Val) : Option Nat :=
  match env.cls c with
  | some ci => findIdxFrom (fun m => (pyEq? env m.2 d).getD false) 0 ci.members
  | none => none

theorem lookupByValue_eq (env : Env) (c : Nat) (d : Val) :
    lookupByValue env c d = (firstIdx env c d).map (Val.member c) := by
  unfold lookupByValue firstIdx
  cases env.cls c with
  | none => rfl
  | some ci =>
    simp only
    cases findIdxFrom (fun m => (pyEq? env m.2 d).getD false) 0 ci.members <;> rfl

/-- **The side condition for one member** `i` of class `c` with value `w`: unmarshalling `w` meets
    member `i` first.
    * `bool` / `int` value: no earlier member has a numerically equal value (`True == 1`);
    * `str` value `s`: the text is inside the modelled fragment of `strload`, and what it reads as
      (`"1"` ↦ 1, `"null"` ↦ None, `"\"a\""` ↦ "a", a plain word ↦ itself) is either the value of no
      member — then the fall-back on the text itself must meet `i` first (no earlier member with
      the same text) — or is first met at `i`;
    * any other value (None, float, tuple, …): not covered (`E(None)` in an `Optional[E]` cannot
      be told from the null; `==` of the other classes is outside the model's `pyEq?`). -/
def valueOK (env : Env) (c i : Nat) : Val → Bool
  | .bool b => firstIdx env c (.bool b) == some i
  | .int k => firstIdx env c (.int k) == some i
  | .str s =>
    match pySl? s with
    | none => false
    | some d =>
      match firstIdx env c d with
      | some j => j == i
      | none => firstIdx env c (.str s) == some i
  | _ => false

def memberOK (env : Env) (c i : Nat) : Bool :=
  match memberValue env c i with
  | some w => valueOK env c i w
  | none => true

/-- **Decidable well-formedness of the enum classes of an environment** (for C01): every declared
    member satisfies `valueOK`.  Environments without enum members satisfy it trivially
    (`enumWF_of_noEnums`); on members with bool / int / str values it is *equivalent* to the round
    trip of the member through its value (`valueOK_iff`), so it cannot be weakened. -/
def enumWF (env : Env) : Bool :=
  (List.range env.length).all fun c =>
    match env.cls c with
    | some ci => (List.range ci.members.length).all (memberOK env c)
    | none => true

theorem enumWF_member {env : Env} (h : enumWF env = true) {c i : Nat} {w : Val}
    (hw : memberValue env c i = some w) : valueOK env c i w = true := by
  unfold enumWF at h
  rw [List.all_eq_true] at h
  unfold memberValue at hw
  cases hc : env.cls c with
  | none => simp [hc] at hw
  | some ci =>
    have hlt : c < env.length := by
      unfold Env.cls at hc
      exact (List.getElem?_eq_some_iff.mp hc).1
    have h1 := h c (List.mem_range.mpr hlt)
    simp only [hc, List.all_eq_true] at h1
    simp only [hc, Option.map_eq_some_iff] at hw
    obtain ⟨p, hp, hpw⟩ := hw
    have hi : i < ci.members.length := (List.getElem?_eq_some_iff.mp hp).1
    have h2 := h1 i (List.mem_range.mpr hi)
    unfold memberOK memberValue at h2
    simp only [hc, hp, Option.map_some, hpw] at h2
    exact h2

/-- The old hypothesis of `roundtrip_core` / `roundtrip_temporal` implies the new one. -/
theorem enumWF_of_noEnums (env : Env) (h : ∀ c i, memberValue env c i = none) : enumWF env = true := by
  unfold enumWF
  rw [List.all_eq_true]
  intro c _
  cases hc : env.cls c with
  | none => rfl
  | some ci =>
    simp only [List.all_eq_true]
    intro i _
    simp [memberOK, h c i]

/-! ### `strload` never produces an enum member -/

theorem parseVal_not_member (c : Nat) : ∀ (n : Nat) (toks : List Tok) (v : Val) (r : List Tok),
    parseVal n toks = some (v, r) → isMemberOf c v = false := by
  intro n toks v r h
  cases n with
  | zero => simp [parseVal] at h
  | succ n =>
    unfold parseVal at h
    split at h
    all_goals first
      | (simp only [Option.some.injEq, Prod.mk.injEq] at h; obtain ⟨rfl, _⟩ := h; rfl)
      | (split at h
         all_goals first
           | (simp only [Option.some.injEq, Prod.mk.injEq] at h; obtain ⟨rfl, _⟩ := h; rfl)
           | cases h)
      | cases h

theorem pySl_eq (s : Str) : pySl s = match pySl? s with | some v => .ok v | none => .error .unsupported := by
  unfold pySl pySl?
  cases strload? s with
  | some v => rfl
  | none => cases (uuidParse? s).isSome <;> rfl

theorem strloadFrag_not_member (c : Nat) {s : Str} {d : Val} (h : strload? s = some d) :
    isMemberOf c d = false := by
  unfold strload? at h
  split at h
  · rename_i v hj
    cases h
    unfold jsonParse at hj
    split at hj
    · split at hj
      · rename_i v' hp
        cases hj
        exact parseVal_not_member c _ _ _ _ hp
      · cases hj
    · cases hj
  · split at h
    · cases h; rfl
    · split at h
      · cases h; rfl
      · split at h
        · cases h; rfl
        · split at h
          · cases h; rfl
          · cases h

theorem strload_not_member (c : Nat) {s : Str} {d : Val} (h : pySl? s = some d) :
    isMemberOf c d = false := by
  unfold pySl? at h
  cases hs : strload? s with
  | some v =>
    rw [hs] at h
    cases h
    exact strloadFrag_not_member c hs
  | none =>
    rw [hs] at h
    simp only at h
    split at h
    · cases h; rfl
    · cases h

/-! ### What the enum routine computes on a primitive value, with the executable leaves -/

def foundOr (c : Nat) (o : Option Nat) (els : R Val) : R Val :=
  match o with
  | some j => .ok (.member c j)
  | none => els

theorem umEnum_bool (env : Env) (today : Int) (c : Nat) (b : Bool) :
    umEnum env (pyLeaves env today) c (.bool b) = foundOr c (firstIdx env c (.bool b)) (.error .value) := by
  simp only [umEnum, load, isMemberOf, lookupByValue_eq, isText]
  cases firstIdx env c (.bool b) <;> simp [foundOr]

theorem umEnum_int (env : Env) (today : Int) (c : Nat) (k : Int) :
    umEnum env (pyLeaves env today) c (.int k) = foundOr c (firstIdx env c (.int k)) (.error .value) := by
  simp only [umEnum, load, isMemberOf, lookupByValue_eq, isText]
  cases firstIdx env c (.int k) <;> simp [foundOr]

theorem umEnum_str (env : Env) (today : Int) (c : Nat) (s : Str) :
    umEnum env (pyLeaves env today) c (.str s) =
      match pySl? s with
      | none => .error .unsupported
      | some d => foundOr c (firstIdx env c d) (foundOr c (firstIdx env c (.str s)) (.error .value)) := by
  have hl : load env (pyLeaves env today) (.str s) = pySl s := rfl
  simp only [umEnum, hl, pySl_eq]
  cases hs : pySl? s with
  | none => rfl
  | some d =>
    have hnm := strload_not_member c hs
    simp only [hnm, lookupByValue_eq, isText, decode]
    cases firstIdx env c d with
    | some j => simp [foundOr, isMemberOf]
    | none =>
      cases firstIdx env c (.str s) <;> simp [foundOr, isMemberOf]

/-- On bool / int / str values `valueOK` is exactly "the value unmarshals to the member". -/
theorem valueOK_iff (env : Env) (today : Int) (c i : Nat) (w : Val)
    (hp : isPrim w = true) (hn : w ≠ .none) :
    valueOK env c i w = true ↔ umEnum env (pyLeaves env today) c w = .ok (.member c i) := by
  cases w <;> simp [isPrim] at hp
  case none => exact absurd rfl hn
  case bool b =>
    rw [umEnum_bool]
    cases h : firstIdx env c (.bool b) <;> simp [valueOK, foundOr, h]
  case int k =>
    rw [umEnum_int]
    cases h : firstIdx env c (.int k) <;> simp [valueOK, foundOr, h]
  case str s =>
    rw [umEnum_str]
    cases hs : pySl? s with
    | none => simp [valueOK, hs]
    | some d =>
      cases h1 : firstIdx env c d with
      | some j => simp [valueOK, hs, h1, foundOr]
      | none =>
        cases h2 : firstIdx env c (.str s) <;> simp [valueOK, hs, h1, h2, foundOr]

theorem valueOK_prim {env : Env} {c i : Nat} {w : Val} (h : valueOK env c i w = true) :
    isPrim w = true ∧ w ≠ .none := by
  cases w <;> simp [valueOK] at h <;> simp [isPrim]

/-- **`LeafLaws.enumRT` for the executable leaves**, under the decidable `enumWF`.
    Full statement (no hypothesis on `env`) is false: `enumRT_false_for_shadowed_member`. -/
theorem pyLeaves_enumRT (env : Env) (today : Int) (h : enumWF env = true) :
    ∀ c i w, memberValue env c i = some w →
      umEnum env (pyLeaves env today) c w = .ok (.member c i) ∧ hashable w = true ∧ decode w ≠ .none := by
  intro c i w hw
  have hok := enumWF_member h hw
  obtain ⟨hp, hn⟩ := valueOK_prim hok
  refine ⟨(valueOK_iff env today c i w hp hn).mp hok, ?_, ?_⟩
  · cases w <;> simp [isPrim] at hp <;> rfl
  · cases w <;> simp [isPrim] at hp <;> simp [decode]
    exact absurd rfl hn

theorem pyLeaves_enumRT_partial (env : Env) (today : Int) (h : enumWF env = true) :
    ∀ c i w, memberValue env c i = some w →
      umEnum env (pyLeaves env today) c w = .ok (.member c i) ∧ hashable w = true ∧ decode w ≠ .none :=
  pyLeaves_enumRT env today h

/-- All member values are None / bool / int / str (what `valueOK_iff` speaks about). -/
def primValued (env : Env) : Bool := env.all fun ci => ci.members.all fun m => isPrim m.2

/-- `enumWF` is *necessary* as well: on environments whose member values are primitive it is
    equivalent to `LeafLaws.enumRT` for the executable leaves. -/
theorem enumWF_iff_enumRT (env : Env) (today : Int) (hpv : primValued env = true) :
    enumWF env = true ↔
      ∀ c i w, memberValue env c i = some w →
        umEnum env (pyLeaves env today) c w = .ok (.member c i) ∧ hashable w = true ∧ decode w ≠ .none := by
  constructor
  · exact pyLeaves_enumRT env today
  · intro h
    unfold enumWF
    rw [List.all_eq_true]
    intro c _
    cases hc : env.cls c with
    | none => rfl
    | some ci =>
      simp only [List.all_eq_true]
      intro i _
      unfold memberOK
      cases hw : memberValue env c i with
      | none => rfl
      | some w =>
        obtain ⟨h1, _, h3⟩ := h c i w hw
        have hprim : isPrim w = true := by
          unfold primValued at hpv
          rw [List.all_eq_true] at hpv
          have hmem : ci ∈ env := by unfold Env.cls at hc; exact List.mem_of_getElem? hc
          have := hpv ci hmem
          rw [List.all_eq_true] at this
          unfold memberValue at hw
          simp only [hc, Option.map_eq_some_iff] at hw
          obtain ⟨p, hp, hpw⟩ := hw
          have := this p (List.mem_of_getElem? hp)
          rw [hpw] at this
          exact this
        have hnn : w ≠ .none := by
          intro e; subst e; exact h3 rfl
        exact (valueOK_iff env today c i w hprim hnn).mpr h1

/-! ### Pass-through of members (C13)

Since 9645d73 a member of a `str`-mixin enum is returned before `serdes.load` reads its value as
text; a member of any other enum is not text, `load` leaves it alone and the `isinstance`
short-circuit returns it.  The former `PassLaws.enumPass` law therefore holds for EVERY environment
and EVERY leaves (`C13.enumPass`; the field is gone from `PassLaws`) — no side condition is left (before the repair: `A = '"b"'; B = 'b'` in a str enum made
`unmarshal(E, E.A)` return `E.B`). -/

/-- **Enum pass-through, unconditionally**: a member is returned unchanged by its enum routine. -/
theorem umEnum_member (env : Env) (L : Leaves) (c i : Nat) :
    umEnum env L c (.member c i) = .ok (.member c i) := by
  cases hm : isStrMixin env c <;> simp [umEnum, load, hm, isMemberOf]

theorem pyLeaves_enumPass (env : Env) (today : Int) :
    ∀ c i, (memberValue env c i).isSome = true →
      umEnum env (pyLeaves env today) c (.member c i) = .ok (.member c i) :=
  fun c i _ => umEnum_member env _ c i

end Typelib
