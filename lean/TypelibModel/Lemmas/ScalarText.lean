/-
  The remaining scalar kinds of U through their text wire forms, on the executable leaves `pyLeaves`
  (served properties: C01 / C13 through Props/C04.lean).

  * uuid     — `uuidParse? (uuidStr n) = some n` for every `n < 2^128` (hex writer / reader, by induction);
               `pySl` returns the canonical UUID text unchanged (`pySl_uuidStr`), so the unmarshaller
               reads it back (`umUuid_text`, `uuid_leaf_rt`).
  * Fraction — `fracOfStr (fracText n d) = frac n d` for every normalised fraction (`gcd |n| d = 1`); for
               an unnormalised pair the round trip is false (`fraction_rt_false_unnormalised`).
  * Decimal  — the value *is* its `str()` text; the reader is modelled on positional texts only
               (`decCanon`), which therefore is the side condition.
  * path     — likewise (`pathCanon`); the text of a path is never parsed, so no `strload` condition.
  * pattern  — literal patterns only (`patLiteral`): `re.compile` is not modelled beyond them.
  * bytes    — `um .bytes` is constantly `unsupported` in the model: nothing to prove, left out.
-/
import TypelibModel.Lemmas.TemporalText
import TypelibModel.Lemmas.EnumRT
namespace Typelib

/-! ### Hexadecimal numerals and the UUID text -/

theorem hexVal?_hexDigit : ∀ k, k < 16 → hexVal? (hexDigit k) = some k := by decide

theorem hexParse_append (a b : Str) (acc : Nat) :
    hexParse (a ++ b) acc = (hexParse a acc).bind (hexParse b) := by
  induction a generalizing acc with
  | nil => rfl
  | cons c cs ih =>
    simp only [List.cons_append, hexParse]
    cases hexVal? c with
    | none => rfl
    | some d => exact ih _

theorem hexFixed_acc (w n : Nat) (acc : Str) : hexFixed w n acc = hexFixed w n [] ++ acc := by
  induction w generalizing n acc with
  | zero => rfl
  | succ w ih =>
    simp only [hexFixed]
    rw [ih (n / 16) (hexDigit (n % 16) :: acc), ih (n / 16) [hexDigit (n % 16)]]
    simp

theorem hexFixed_length (w n : Nat) (acc : Str) : (hexFixed w n acc).length = w + acc.length := by
  induction w generalizing n acc with
  | zero => simp [hexFixed]
  | succ w ih => simp only [hexFixed, ih, List.length_cons]; omega

/-- The fixed-width hex reader inverts the fixed-width hex writer (modulo `16 ^ w`), from any
    accumulator. -/
theorem hexParse_hexFixed (w n a : Nat) :
    hexParse (hexFixed w n []) a = some (a * 16 ^ w + n % 16 ^ w) := by
  induction w generalizing n a with
  | zero => simp [hexFixed, hexParse, Nat.mod_one]
  | succ w ih =>
    simp only [hexFixed]
    rw [hexFixed_acc, hexParse_append, ih]
    simp only [Option.bind, hexParse, hexVal?_hexDigit (n % 16) (Nat.mod_lt _ (by decide))]
    congr 1
    have : n % 16 ^ (w + 1) = n % 16 + 16 * (n / 16 % 16 ^ w) := by
      rw [Nat.pow_succ, Nat.mul_comm, Nat.mod_mul]
    rw [this, Nat.pow_succ, ← Nat.mul_assoc]
    generalize a * 16 ^ w = q
    generalize n / 16 % 16 ^ w = r
    omega

/-- Removing the four dashes of the 8-4-4-4-12 layout gives the 32 hex digits back (the digits are
    opaque here: both sides reduce to the same list). -/
theorem uuidParse_uuidStr_hex (n : Nat) : uuidParse? (uuidStr n) = hexParse (hexFixed 32 n []) 0 := rfl

/-- **`UUID(str(u)) == u`** on the model's text functions, for every 128-bit value. -/
theorem uuid_text_rt {n : Nat} (h : n < uuidMax) : uuidParse? (uuidStr n) = some n := by
  rw [uuidParse_uuidStr_hex, hexParse_hexFixed]
  have : (16 : Nat) ^ 32 = uuidMax := by decide
  rw [this, Nat.mod_eq_of_lt h]
  simp

example : uuidStr 0x12345678123456781234567812345678 = "12345678-1234-5678-1234-567812345678".toList := by decide
example : uuidStr (uuidMax - 1) = "ffffffff-ffff-ffff-ffff-ffffffffffff".toList := by decide

/-! ### `strload` on canonical UUID text

The fragment `strload?` (JSON documents and plain words) has no reading of the 8-4-4-4-12 text:
the JSON lexer either fails or produces a number token followed by at least one more token, and
the text is not a plain word.  `pySl` therefore takes its UUID rule and returns the text itself. -/

/-- Characters of canonical UUID text. -/
def uuidCh (c : Char) : Bool := (hexVal? c).isSome || c == '-'

theorem spanDigits_spec : ∀ (s : Str), s = (spanDigits s).1 ++ (spanDigits s).2 ∧ stops (spanDigits s).2 = true
    ∧ ∀ c ∈ (spanDigits s).1, isDigit c = true := by
  intro s
  induction s with
  | nil => simp [spanDigits, stops]
  | cons c cs ih =>
    by_cases h : isDigit c = true
    · simp only [spanDigits, h, if_true]
      obtain ⟨h1, h2, h3⟩ := ih
      refine ⟨by simp [← h1], h2, ?_⟩
      intro d hd
      simp only [List.mem_cons] at hd
      rcases hd with rfl | hd
      · exact h
      · exact h3 d hd
    · simp [spanDigits, h, stops]

theorem lexFuel_acc : ∀ (n : Nat) (s : Str) (acc toks : List Tok), lexFuel n s acc = some toks →
    ∃ ts, toks = acc.reverse ++ ts := by
  intro n
  induction n with
  | zero => intro s acc toks h; simp [lexFuel] at h
  | succ n ih =>
    intro s acc toks h
    cases s with
    | nil => simp only [lexFuel, Option.some.injEq] at h; exact ⟨[], by simp [h]⟩
    | cons c cs =>
      unfold lexFuel at h
      repeat' split at h
      all_goals first
        | cases h
        | (obtain ⟨ts, rfl⟩ := ih _ _ _ h; first | exact ⟨_, rfl⟩ | (simp only [List.reverse_cons, List.append_assoc, List.singleton_append]; exact ⟨_, rfl⟩))

theorem lexFuel_tok {n : Nat} {c : Char} {cs : Str} {acc toks : List Tok}
    (h : lexFuel (n + 1) (c :: cs) acc = some toks) (hws : isJsonWs c = false) :
    ∃ t ts, toks = acc.reverse ++ t :: ts := by
  unfold lexFuel at h
  simp only [hws, Bool.false_eq_true, if_false] at h
  repeat' split at h
  all_goals first
    | cases h
    | (obtain ⟨ts, rfl⟩ := lexFuel_acc _ _ _ _ h; simp only [List.reverse_cons, List.append_assoc, List.singleton_append]; exact ⟨_, _, rfl⟩)


theorem uuidCh_not_ws {c : Char} (h : uuidCh c = true) : isJsonWs c = false := by
  simp only [isJsonWs, Bool.or_eq_false_iff, beq_eq_false_iff_ne, ne_eq]
  refine ⟨⟨⟨?_, ?_⟩, ?_⟩, ?_⟩ <;> (rintro rfl; revert h; decide)

theorem uuidCh_of_hex {c : Char} (h : (hexVal? c).isSome = true) : uuidCh c = true := by
  simp [uuidCh, h]

def isNumTok : Tok → Bool
  | .int _ | .float _ => true
  | _ => false

/-- On text made of hex digits and dashes, starting with a hex digit and containing a dash, a
    number token never reaches the end of the text. -/
theorem lexNumber_uuidish {c0 : Char} {cs : Str} {t : Tok} {rest : Str}
    (h : lexNumber (c0 :: cs) = some (t, rest))
    (h0 : (hexVal? c0).isSome = true) (hall : ∀ c ∈ cs, uuidCh c = true) (hd : '-' ∈ cs) :
    isNumTok t = true ∧ ∃ r rs, rest = r :: rs ∧ isJsonWs r = false := by
  have hall' : ∀ c ∈ c0 :: cs, uuidCh c = true := by
    intro c hc
    simp only [List.mem_cons] at hc
    rcases hc with rfl | hc
    · exact uuidCh_of_hex h0
    · exact hall c hc
  obtain ⟨hsp, hst, hdig⟩ := spanDigits_spec (c0 :: cs)
  have hmem : '-' ∈ (spanDigits (c0 :: cs)).2 := by
    have : '-' ∈ (spanDigits (c0 :: cs)).1 ++ (spanDigits (c0 :: cs)).2 := by
      rw [← hsp]; simp [hd]
    rcases List.mem_append.mp this with h1 | h2
    · exact absurd (hdig _ h1) (by decide)
    · exact h2
  have hsub : ∀ c ∈ (spanDigits (c0 :: cs)).2, uuidCh c = true := by
    intro c hc
    apply hall'
    rw [hsp]; exact List.mem_append.mpr (.inr hc)
  unfold lexNumber at h
  split at h
  rename_i neg r heq
  split at heq
  · rename_i r' heq'
    cases heq'
    exact absurd h0 (by decide)
  · cases heq
    simp only at h
    generalize (spanDigits (c0 :: cs)).1 = ip at h
    generalize hr1 : (spanDigits (c0 :: cs)).2 = r1 at h hmem hsub
    repeat' split at h
    all_goals first
      | (cases h; done)
      | (exfalso; have := hsub '.' (by simp); revert this; decide)
      | (simp only [Option.some.injEq, Prod.mk.injEq] at h
         obtain ⟨rfl, rfl⟩ := h
         refine ⟨rfl, ?_⟩
         cases r1 with
         | nil => cases hmem
         | cons r rs => exact ⟨r, rs, rfl, uuidCh_not_ws (hsub r (by simp))⟩)


theorem parseVal_num_two (k : Nat) (t t2 : Tok) (ts : List Tok) (h : isNumTok t = true) :
    ∀ v, parseVal k (t :: t2 :: ts) ≠ some (v, []) := by
  intro v hv
  cases k with
  | zero => simp [parseVal] at hv
  | succ k =>
    cases t <;> simp [isNumTok] at h
    all_goals
      unfold parseVal at hv
      simp only at hv
      repeat' split at hv
      all_goals simp at hv

theorem jsonParse_uuidish {c0 : Char} {cs : Str}
    (h0 : (hexVal? c0).isSome = true) (hall : ∀ c ∈ cs, uuidCh c = true) (hd : '-' ∈ cs) :
    jsonParse (c0 :: cs) = none := by
  unfold jsonParse lex
  cases hl : lexFuel ((c0 :: cs).length + 1) (c0 :: cs) [] with
  | none => rfl
  | some toks =>
    have hws := uuidCh_not_ws (uuidCh_of_hex h0)
    simp only [List.length_cons] at hl
    unfold lexFuel at hl
    simp only [hws, Bool.false_eq_true, if_false] at hl
    split at hl
    case h_9 =>
      split at hl
      · exfalso; have := hall 'l' (by simp); revert this; decide
      · cases hl
    case h_11 =>
      split at hl
      · rename_i t rest heq
        obtain ⟨hnum, r, rs, rfl, hr⟩ := lexNumber_uuidish heq h0 hall hd
        obtain ⟨t2, ts, rfl⟩ := lexFuel_tok hl hr
        simp only [List.reverse_cons, List.reverse_nil, List.nil_append, List.singleton_append]
        split
        · rename_i v hv
          exact absurd hv (parseVal_num_two _ t t2 ts hnum v)
        · rfl
      · cases hl
    all_goals exact absurd h0 (by decide)


theorem strload_uuidish {c0 : Char} {cs : Str}
    (h0 : (hexVal? c0).isSome = true) (hall : ∀ c ∈ cs, uuidCh c = true) (hd : '-' ∈ cs) :
    strload? (c0 :: cs) = none := by
  have hm : '-' ∈ c0 :: cs := by simp [hd]
  have hpw : isPlainWord (c0 :: cs) = false := by
    cases hp : isPlainWord (c0 :: cs) with
    | false => rfl
    | true =>
      simp only [isPlainWord, Bool.and_eq_true, List.all_eq_true] at hp
      have := hp.1.1.1.1.1.1.2 '-' hm
      revert this; decide
  have hne : ∀ w : Str, '-' ∉ w → (c0 :: cs == w) = false := by
    intro w hw
    cases hb : (c0 :: cs == w) with
    | false => rfl
    | true => exact absurd (eq_of_beq hb ▸ hm) hw
  unfold strload?
  rw [jsonParse_uuidish h0 hall hd]
  simp only [hpw, Bool.false_eq_true, if_false, hne "None".toList (by decide), hne "True".toList (by decide),
    hne "False".toList (by decide)]

theorem mem_hexFixed : ∀ (w n : Nat) (acc : Str) (c : Char), c ∈ hexFixed w n acc →
    (hexVal? c).isSome = true ∨ c ∈ acc := by
  intro w
  induction w with
  | zero => intro n acc c h; exact .inr h
  | succ w ih =>
    intro n acc c h
    simp only [hexFixed] at h
    rcases ih _ _ c h with h1 | h2
    · exact .inl h1
    · simp only [List.mem_cons] at h2
      rcases h2 with rfl | h2
      · left; rw [hexVal?_hexDigit _ (Nat.mod_lt _ (by decide))]; rfl
      · exact .inr h2

theorem uuidCh_uuidStr {n : Nat} {c : Char} (h : c ∈ uuidStr n) : uuidCh c = true := by
  have hx : ∀ d, d ∈ hexFixed 32 n [] → uuidCh d = true := by
    intro d hd
    rcases mem_hexFixed 32 n [] d hd with h1 | h2
    · exact uuidCh_of_hex h1
    · cases h2
  simp only [uuidStr, List.mem_append, List.mem_cons] at h
  rcases h with (((h | rfl | h) | rfl | h) | rfl | h) | rfl | h
  all_goals first
    | decide
    | exact hx _ (List.mem_of_mem_take h)
    | exact hx _ (List.mem_of_mem_drop (List.mem_of_mem_take h))
    | exact hx _ (List.mem_of_mem_drop h)

theorem uuidStr_head (n : Nat) : ∃ k, k < 16 ∧ (uuidStr n)[0]? = some (hexDigit k) := by
  refine ⟨_, ?_, rfl⟩
  exact Nat.mod_lt _ (by decide)

/-- The fragment `strload?` has no reading of canonical UUID text. -/
theorem strload_uuidStr (n : Nat) : strload? (uuidStr n) = none := by
  obtain ⟨k, hk, h0⟩ := uuidStr_head n
  have h8 : (uuidStr n)[8]? = some '-' := rfl
  have hall : ∀ c ∈ uuidStr n, uuidCh c = true := fun c hc => uuidCh_uuidStr hc
  cases hs : uuidStr n with
  | nil => rw [hs] at h8; cases h8
  | cons c0 cs =>
    rw [hs] at h0 h8 hall
    simp only [List.getElem?_cons_zero, Option.some.injEq] at h0
    subst h0
    apply strload_uuidish
    · rw [hexVal?_hexDigit k hk]; rfl
    · exact fun c hc => hall c (by simp [hc])
    · simp only [List.getElem?_cons_succ] at h8
      exact List.mem_of_getElem? h8

/-- `strload(str(u)) == str(u)`: the modelled `strload` returns canonical UUID text unchanged. -/
theorem pySl_uuidStr {n : Nat} (h : n < uuidMax) : pySl (uuidStr n) = .ok (.str (uuidStr n)) := by
  unfold pySl
  rw [strload_uuidStr n]
  simp [uuid_text_rt h]

/-- `UUIDUnmarshaller` on the canonical text, for any leaf table whose `strload` returns that text
    unchanged. -/
theorem umUuid_text (env : Env) (L : Leaves) {n : Nat} (h : n < uuidMax)
    (hsl : L.sl (uuidStr n) = .ok (.str (uuidStr n))) :
    umUuid env L (.str (uuidStr n)) = .ok (.uuid n) := by
  simp [umUuid, load, hsl, uuid_text_rt h]

/-- **`unmarshal(UUID, str(u)) == u`** on the executable leaves, for every 128-bit value. -/
theorem umUuid_pyLeaves (env : Env) (today : Int) {n : Nat} (h : n < uuidMax) :
    (pyLeaves env today).um .uuid (.str (uuidStr n)) = .ok (.uuid n) :=
  umUuid_text env _ h (pySl_uuidStr h)

example : (pyLeaves [] 0).mar .uuid (.uuid 5) = .ok (.str "00000000-0000-0000-0000-000000000005".toList) := by rfl
example : (pyLeaves [] 0).um .uuid (.str "00000000-0000-0000-0000-000000000005".toList) = .ok (.uuid 5) := by rfl
/-- Only the canonical spelling is in the fragment: upper case, braces, `urn:` and dash-less hex
    (all accepted by `uuid.UUID`) stay `unsupported` or go through `strload?` as before. -/
example : pySl "00000000-0000-0000-0000-00000000000A".toList = .error .unsupported := by rfl

/-! ### ASCII / whitespace facts about numerals -/

theorem isDigit_lt128 {c : Char} (h : isDigit c = true) : c.toNat < 128 := by
  simp [isDigit, Char.isDigit] at h
  have h2 := UInt32.le_iff_toNat_le.mp h.2
  show c.val.toNat < 128
  have : (57 : UInt32).toNat = 57 := rfl
  omega

theorem isDigit_not_ws {c : Char} (h : isDigit c = true) : isPyWs c = false := by
  simp only [isPyWs, Bool.or_eq_false_iff, beq_eq_false_iff_ne, ne_eq]
  refine ⟨⟨⟨⟨⟨?_, ?_⟩, ?_⟩, ?_⟩, ?_⟩, ?_⟩ <;> (rintro rfl; revert h; decide)

theorem stripL_cons {c : Char} {cs : Str} (h : isPyWs c = false) : stripL (c :: cs) = c :: cs := by
  simp [stripL, h]

/-- Text without Python whitespace is its own `strip()`. -/
theorem strip_id {s : Str} (h : ∀ c ∈ s, isPyWs c = false) : strip s = s := by
  cases s with
  | nil => rfl
  | cons c cs =>
    unfold strip
    rw [stripL_cons (h c (by simp))]
    cases hr : (c :: cs).reverse with
    | nil => simp at hr
    | cons x xs =>
      have hx : x ∈ c :: cs := by
        rw [← List.mem_reverse, hr]; simp
      rw [stripL_cons (h x hx), ← hr, List.reverse_reverse]

theorem allDigits_natStr (d : Nat) : allDigits (natStr d) = true := by
  simp only [allDigits, Bool.and_eq_true, Bool.not_eq_true', List.all_eq_true]
  refine ⟨?_, fun c hc => isDigit_of_mem_natStr hc⟩
  cases h : natStr d with
  | nil => exact absurd h (natStr_ne_nil d)
  | cons _ _ => rfl

theorem natStr_isEmpty (k : Nat) : (natStr k).isEmpty = false := by
  cases h : natStr k with
  | nil => exact absurd h (natStr_ne_nil k)
  | cons _ _ => rfl

/-! ### Fraction -/

/-- `str(Fraction(n, d))`. -/
def fracText (n : Int) (d : Nat) : Str := if d == 1 then intStr n else intStr n ++ '/' :: natStr d

theorem pyStr_frac (env : Env) (n : Int) (d : Nat) : pyStr env (.frac n d) = .ok (.str (fracText n d)) := rfl

/-- The characters a fraction text is made of. -/
def fracChar (c : Char) : Bool := isDigit c || c == '-' || c == '/'

theorem fracChar_lt128 {c : Char} (h : fracChar c = true) : c.toNat < 128 := by
  simp only [fracChar, Bool.or_eq_true, beq_iff_eq] at h
  rcases h with (h | rfl) | rfl
  · exact isDigit_lt128 h
  · decide
  · decide

theorem fracChar_not_ws {c : Char} (h : fracChar c = true) : isPyWs c = false := by
  simp only [fracChar, Bool.or_eq_true, beq_iff_eq] at h
  rcases h with (h | rfl) | rfl
  · exact isDigit_not_ws h
  · decide
  · decide

theorem fracChar_natStr {k : Nat} {c : Char} (h : c ∈ natStr k) : fracChar c = true := by
  simp [fracChar, isDigit_of_mem_natStr h]

theorem fracChar_intStr {n : Int} {c : Char} (h : c ∈ intStr n) : fracChar c = true := by
  cases n with
  | ofNat k => exact fracChar_natStr h
  | negSucc k =>
    simp only [intStr, List.mem_cons] at h
    rcases h with rfl | h
    · decide
    · exact fracChar_natStr h

theorem fracChar_fracText {n : Int} {d : Nat} {c : Char} (h : c ∈ fracText n d) : fracChar c = true := by
  unfold fracText at h
  split at h
  · exact fracChar_intStr h
  · simp only [List.mem_append, List.mem_cons] at h
    rcases h with h | rfl | h
    · exact fracChar_intStr h
    · decide
    · exact fracChar_natStr h

theorem isAscii_fracText (n : Int) (d : Nat) : isAscii (fracText n d) = true := by
  simp only [isAscii, List.all_eq_true, decide_eq_true_eq]
  exact fun c hc => fracChar_lt128 (fracChar_fracText hc)

theorem strip_fracText (n : Int) (d : Nat) : strip (fracText n d) = fracText n d :=
  strip_id fun _ hc => fracChar_not_ws (fracChar_fracText hc)

/-- The part of `fracOfStr` after the sign (`t` is the stripped text, only used for the error class). -/
def fracBody (t : Str) (neg : Bool) (body : Str) : R Val :=
  let (np, rest) := spanDigits body
  if np.isEmpty then (if isPlainWord t then .error .value else .error .unsupported)
  else
    let n : Int := if neg then -(digitsVal np 0 : Int) else digitsVal np 0
    match rest with
    | [] => .ok (.frac n 1)
    | '/' :: dp =>
      if allDigits dp then
        let d := digitsVal dp 0
        if d == 0 then .error .zeroDivision else .ok (gcdNorm n d)
      else .error .unsupported
    | _ => .error .unsupported

theorem fracOfStr_neg (r : Str) (ha : isAscii ('-' :: r) = true) (hs : strip ('-' :: r) = '-' :: r) :
    fracOfStr ('-' :: r) = fracBody ('-' :: r) true r := by
  unfold fracOfStr fracBody
  simp only [ha, hs, Bool.not_true, Bool.false_eq_true, if_false]
  rfl

theorem fracOfStr_digit (c : Char) (r : Str) (hc : isDigit c = true) (ha : isAscii (c :: r) = true)
    (hs : strip (c :: r) = c :: r) :
    fracOfStr (c :: r) = fracBody (c :: r) false (c :: r) := by
  unfold fracOfStr fracBody
  simp only [ha, hs, Bool.not_true, Bool.false_eq_true, if_false]
  split
  · rename_i h; cases h; exact absurd hc (by decide)
  · rename_i h; cases h; exact absurd hc (by decide)
  · rfl

theorem fracBody_natStr (t : Str) (neg : Bool) (k : Nat) :
    fracBody t neg (natStr k) = .ok (.frac (if neg then -(k : Int) else k) 1) := by
  have h := spanDigits_natStr k (rest := []) rfl
  rw [List.append_nil] at h
  unfold fracBody
  rw [h]
  simp only [natStr_isEmpty, digitsVal_natStr]
  rfl

theorem gcdNorm_coprime (n : Int) (d : Nat) (h : Nat.gcd n.natAbs d = 1) : gcdNorm n d = .frac n d := by
  simp [gcdNorm, h]

theorem fracBody_natStr_slash (t : Str) (neg : Bool) (k d : Nat) (hd : d ≠ 0) :
    fracBody t neg (natStr k ++ '/' :: natStr d) = .ok (gcdNorm (if neg then -(k : Int) else k) d) := by
  have h := spanDigits_natStr k (rest := '/' :: natStr d) (by simp [stops]; decide)
  unfold fracBody
  rw [h]
  simp only [natStr_isEmpty, digitsVal_natStr, allDigits_natStr]
  simp [hd]

/-- What `Fraction(str(Fraction(n, d)))` computes, for any pair with `d ≠ 0`: the pair itself when
    `d = 1`, its reduction to lowest terms otherwise. -/
theorem fracOfStr_fracText (n : Int) (d : Nat) (hd : d ≠ 0) :
    fracOfStr (fracText n d) = .ok (if d == 1 then .frac n 1 else gcdNorm n d) := by
  have ha := isAscii_fracText n d
  have hs := strip_fracText n d
  cases n with
  | ofNat k =>
    obtain ⟨c, cs, hcs, hc, _⟩ := natStr_cons k
    by_cases h1 : d = 1
    · subst h1
      simp only [fracText, intStr, beq_self_eq_true, if_true] at ha hs ⊢
      rw [hcs] at ha hs
      rw [hcs, fracOfStr_digit c cs hc ha hs, ← hcs, fracBody_natStr]
      rfl
    · have hb : (d == 1) = false := by simp [h1]
      simp only [fracText, intStr, hb, Bool.false_eq_true, if_false] at ha hs ⊢
      rw [hcs, List.cons_append] at ha hs
      rw [hcs, List.cons_append, fracOfStr_digit c _ hc ha hs, ← List.cons_append, ← hcs,
        fracBody_natStr_slash _ _ _ _ hd]
      rfl
  | negSucc k =>
    by_cases h1 : d = 1
    · subst h1
      simp only [fracText, intStr, beq_self_eq_true, if_true] at ha hs ⊢
      rw [fracOfStr_neg _ ha hs, fracBody_natStr]
      rfl
    · have hb : (d == 1) = false := by simp [h1]
      simp only [fracText, intStr, hb, Bool.false_eq_true, if_false, List.cons_append] at ha hs ⊢
      rw [fracOfStr_neg _ ha hs, fracBody_natStr_slash _ _ _ _ hd]
      rfl

/-- **`Fraction(str(q)) == q`** for every fraction in lowest terms (as every `Fraction` object is). -/
theorem frac_text_rt (n : Int) (d : Nat) (hd : d ≠ 0) (hg : Nat.gcd n.natAbs d = 1) :
    fracOfStr (fracText n d) = .ok (.frac n d) := by
  rw [fracOfStr_fracText n d hd]
  by_cases h1 : d = 1
  · subst h1; rfl
  · have hb : (d == 1) = false := by simp [h1]
    rw [hb, gcdNorm_coprime n d hg]
    rfl

example : fracText (-3) 4 = "-3/4".toList := by decide
example : fracText 7 1 = "7".toList := by decide

/-! ### Side conditions: the spellings the modelled readers return unchanged -/

/-- Literal regular expressions: the only patterns whose compilation the model states. -/
def patLiteral (p : Str) : Bool := p.all (fun c => isAlpha c || isDigit c || c == ' ' || c == '_')

/-- Path texts that are read back: the normalised ones (`pathCanon`); since the text of a path is never
    parsed, no condition on `strload` is needed. -/
def pathWire (s : Str) : Bool := pathCanon s

/-- The canonical-spelling condition per scalar kind (trivial for the kinds that need none). -/
def canonScalar : Scalar → Val → Bool
  | .decimal, .dec s => decCanon s
  | .fraction, .frac n d => Nat.gcd n.natAbs d == 1
  | .path, .path s => pathWire s
  | .pattern, .pattern p => patLiteral p
  | _, _ => true

/-- Valid *and* canonically spelled. On S1 and uuid this is `hasScalar`. -/
def hasScalarC (s : Scalar) (v : Val) : Bool := hasScalar s v && canonScalar s v

theorem hasScalarC_hasScalar {s : Scalar} {v : Val} (h : hasScalarC s v = true) : hasScalar s v = true := by
  simp only [hasScalarC, Bool.and_eq_true] at h; exact h.1

theorem hasScalarC_S1 {s : Scalar} {v : Val} (hs : S1 s = true) : hasScalarC s v = hasScalar s v := by
  cases s <;> simp [S1] at hs <;> cases v <;> simp [hasScalarC, canonScalar]

example : decCanon "-12.50".toList = true := by decide
example : decCanon "1E+3".toList = false := by decide
example : pathWire "etc".toList = true := by decide
example : pathWire "a/b".toList = true := by decide
example : pathWire "1".toList = true := by decide         -- number look-alikes are paths too
example : pathCanon "a/b".toList = true := by decide
example : patLiteral "ab c_1".toList = true := by decide

/-! ### The leaf laws -/

/-- Every scalar kind of U except `bytes` (whose unmarshaller the model does not execute). -/
def S2 : Scalar → Bool
  | .int | .bool | .float | .str | .date | .datetime | .time | .timedelta
  | .decimal | .fraction | .uuid | .path | .pattern => true
  | .bytes => false

theorem S2_of_S1 {s : Scalar} (h : S1 s = true) : S2 s = true := by
  cases s <;> simp [S1] at h <;> rfl

theorem uuid_leaf_rt (env : Env) (today : Int) {n : Nat} (h : n < uuidMax) :
    ∃ m, (pyLeaves env today).mar .uuid (.uuid n) = .ok m ∧ (pyLeaves env today).um .uuid m = .ok (.uuid n)
      ∧ hashable m = true ∧ decode m ≠ .none :=
  ⟨.str (uuidStr n), rfl, umUuid_pyLeaves env today h, rfl, by simp [decode]⟩

theorem decimal_leaf_rt (env : Env) (today : Int) {s : Str} (h : decCanon s = true) :
    ∃ m, (pyLeaves env today).mar .decimal (.dec s) = .ok m ∧ (pyLeaves env today).um .decimal m = .ok (.dec s)
      ∧ hashable m = true ∧ decode m ≠ .none :=
  ⟨.str s, rfl, by simp [pyLeaves, pyUm, umDecimal, decode, isTemporal, seqElems, castDecimal, h], rfl,
    by simp [decode]⟩

theorem fraction_leaf_rt (env : Env) (today : Int) {n : Int} {d : Nat} (hd : d ≠ 0)
    (hg : Nat.gcd n.natAbs d = 1) :
    ∃ m, (pyLeaves env today).mar .fraction (.frac n d) = .ok m
      ∧ (pyLeaves env today).um .fraction m = .ok (.frac n d) ∧ hashable m = true ∧ decode m ≠ .none :=
  ⟨.str (fracText n d), rfl,
    by simp [pyLeaves, pyUm, umFraction, decode, isTemporal, seqElems, castFraction, frac_text_rt n d hd hg],
    rfl, by simp [decode]⟩

theorem pattern_leaf_rt (env : Env) (today : Int) {p : Str} (h : patLiteral p = true) :
    ∃ m, (pyLeaves env today).mar .pattern (.pattern p) = .ok m
      ∧ (pyLeaves env today).um .pattern m = .ok (.pattern p) ∧ hashable m = true ∧ decode m ≠ .none := by
  unfold patLiteral at h
  exact ⟨.str p, rfl, by simp only [pyLeaves, pyUm, umPattern, decode]; rw [if_pos h], rfl, by simp [decode]⟩

theorem umPath_text (env : Env) (today : Int) {s : Str} (h : pathWire s = true) :
    (pyLeaves env today).um .path (.str s) = .ok (.path s) := by
  simp only [pathWire] at h
  show umPath env { sl := pySl, um := fun _ _ => .error .unsupported, mar := pyMar env } (.str s) = _
  simp [umPath, decode, h]

theorem path_leaf_rt (env : Env) (today : Int) {s : Str} (h : pathWire s = true) :
    ∃ m, (pyLeaves env today).mar .path (.path s) = .ok m
      ∧ (pyLeaves env today).um .path m = .ok (.path s) ∧ hashable m = true ∧ decode m ≠ .none :=
  ⟨.str s, rfl, umPath_text env today h, rfl, by simp [decode]⟩

/-- **`LeafLaws.rt` for `pyLeaves` on `S2`** (every kind but bytes), for canonically spelled values. -/
theorem pyLeaves_rt_all (cal : CalLaw) (env : Env) (today : Int) : ∀ s v, S2 s = true → hasScalarC s v = true →
    ∃ m, (pyLeaves env today).mar s v = .ok m ∧ (pyLeaves env today).um s m = .ok v
      ∧ hashable m = true ∧ decode m ≠ .none := by
  intro s v hs hv
  by_cases h1 : S1 s = true
  · exact pyLeaves_rt_temporal cal env today s v h1 (hasScalarC_hasScalar hv)
  · cases s <;> simp [S2] at hs <;> simp [S1] at h1 <;> cases v <;>
      simp [hasScalarC, hasScalar, canonScalar] at hv
    case uuid.uuid n => exact uuid_leaf_rt env today hv
    case decimal.dec s => exact decimal_leaf_rt env today hv
    case fraction.frac n d => exact fraction_leaf_rt env today hv.1 hv.2
    case path.path s => exact path_leaf_rt env today hv
    case pattern.pattern p => exact pattern_leaf_rt env today hv

/-- **Pass-through on `S2`** (every kind but bytes), for every valid value — no spelling condition:
    the unmarshaller of each kind returns an instance of the target class unchanged. -/
theorem pyLeaves_pass_all (env : Env) (today : Int) : ∀ s v, S2 s = true → hasScalar s v = true →
    (pyLeaves env today).um s v = .ok v := by
  intro s v hs hv
  by_cases h1 : S1 s = true
  · exact pyLeaves_pass_temporal env today s v h1 hv
  · cases s <;> simp [S2] at hs <;> simp [S1] at h1 <;> cases v <;> simp [hasScalar] at hv
    all_goals simp [pyLeaves, pyUm, umDecimal, umFraction, umUuid, umPath, umPattern, decode, load]

/-! ### The side conditions are forced (on the model) -/

/-- An unnormalised pair does not round-trip: `2/4` is read back as `1/2` (real `Fraction` objects
    are always in lowest terms, so this is a condition on the representation, not on the library). -/
theorem fraction_rt_false_unnormalised :
    hasScalar .fraction (.frac 2 4) = true
    ∧ (pyLeaves [] 0).mar .fraction (.frac 2 4) = .ok (.str "2/4".toList)
    ∧ (pyLeaves [] 0).um .fraction (.str "2/4".toList) = .ok (.frac 1 2) := by
  refine ⟨rfl, rfl, rfl⟩

/-- Hence `pyLeaves_rt_all` with plain `hasScalar` in place of `hasScalarC` is false. -/
theorem rt_all_false_without_canon :
    ¬ (∀ s v, S2 s = true → hasScalar s v = true →
        ∃ m, (pyLeaves [] 0).mar s v = .ok m ∧ (pyLeaves [] 0).um s m = .ok v) := by
  intro h
  obtain ⟨m, h1, h2⟩ := h .fraction (.frac 2 4) rfl rfl
  rw [fraction_rt_false_unnormalised.2.1] at h1
  cases h1
  rw [fraction_rt_false_unnormalised.2.2] at h2
  cases h2

/-- Outside the canonical spellings the modelled readers are undefined (`unsupported`), they do not
    disagree: a Decimal in scientific notation, a pattern with an operator, an unnormalised path. -/
example : (pyLeaves [] 0).um .decimal (.str "1E+3".toList) = .error .unsupported := by rfl
example : (pyLeaves [] 0).um .pattern (.str "a+".toList) = .error .unsupported := by rfl
example : (pyLeaves [] 0).um .path (.str "a//b".toList) = .error .unsupported := by rfl
example : (pyLeaves [] 0).um .bytes (.text .bytes "ab".toList) = .error .unsupported := by rfl

end Typelib
