/-
  Fuel stability of the routine semantics (`um`, `mar` of Model/Denote.lean): every outcome other
  than "out of fuel" is reproduced at every larger fuel.  The list helpers get congruence lemmas of
  one shape: `Pres f g` ("g reproduces every non-fuel outcome of f") is inherited by the helper.
-/
import TypelibModel.Model.Denote
namespace Typelib

/-- `g` reproduces every outcome of `f` other than "out of fuel". -/
def Pres {α β : Type} (f g : α → R β) : Prop := ∀ x, f x ≠ .error .fuel → g x = f x

theorem ne_fuel_of_err {α β : Type} {e : Err} (h : (Except.error e : R α) ≠ .error .fuel) :
    (Except.error e : R β) ≠ .error .fuel := fun hc => h (by cases hc; rfl)

theorem ok_ne_fuel {α : Type} {y : α} : (Except.ok y : R α) ≠ .error .fuel := fun hc => nomatch hc

theorem Pres.refl {α β : Type} (f : α → R β) : Pres f f := fun _ _ => rfl

theorem Pres.trans {α β : Type} {f g h : α → R β} (h1 : Pres f g) (h2 : Pres g h) : Pres f h := by
  intro x hx
  have e1 := h1 x hx
  rw [h2 x (by rw [e1]; exact hx), e1]

theorem mapR_pres {α β : Type} {f g : α → R β} (h : Pres f g) : Pres (mapR f) (mapR g) := by
  intro xs
  induction xs with
  | nil => intro _; rfl
  | cons x xs ih =>
    intro hne
    simp only [mapR] at hne ⊢
    cases hfx : f x with
    | error e =>
      simp only [hfx] at hne
      simp only [h x (by rw [hfx]; exact ne_fuel_of_err hne), hfx]
    | ok y =>
      simp only [hfx] at hne
      simp only [h x (by rw [hfx]; exact ok_ne_fuel), hfx]
      cases hxs : mapR f xs with
      | error e =>
        simp only [hxs] at hne
        simp only [ih (by rw [hxs]; exact hne), hxs]
      | ok ys =>
        simp only [ih (by rw [hxs]; exact ok_ne_fuel), hxs]

theorem zipR_pres (F G : Ty → Val → R Val) :
    ∀ ts : List Ty, (∀ t ∈ ts, Pres (F t) (G t)) → Pres (zipR (ts.map F)) (zipR (ts.map G)) := by
  intro ts
  induction ts with
  | nil => intro _ xs _; rfl
  | cons t ts ih =>
    intro h xs hne
    cases xs with
    | nil => rfl
    | cons x xs =>
      simp only [List.map_cons, zipR] at hne ⊢
      have ht := h t (by simp)
      have ih' := ih (fun t' ht' => h t' (by simp [ht'])) xs
      cases hfx : F t x with
      | error e =>
        simp only [hfx] at hne
        simp only [ht x (by rw [hfx]; exact ne_fuel_of_err hne), hfx]
      | ok y =>
        simp only [hfx] at hne
        simp only [ht x (by rw [hfx]; exact ok_ne_fuel), hfx]
        cases hxs : zipR (ts.map F) xs with
        | error e =>
          simp only [hxs] at hne
          simp only [ih' (by rw [hxs]; exact hne), hxs]
        | ok ys =>
          simp only [ih' (by rw [hxs]; exact ok_ne_fuel), hxs]

/-- A member's `.error .fuel` is not a rejection, so it surfaces as the result: a non-fuel result
    means no tried member ran out of fuel. -/
theorem firstOk_pres (F G : Ty → Val → R Val) :
    ∀ ts : List Ty, (∀ t ∈ ts, Pres (F t) (G t)) → Pres (firstOk (ts.map F)) (firstOk (ts.map G)) := by
  intro ts
  induction ts with
  | nil => intro _ v _; rfl
  | cons t ts ih =>
    intro h v hne
    simp only [List.map_cons, firstOk] at hne ⊢
    have ht := h t (by simp)
    have ih' := ih (fun t' ht' => h t' (by simp [ht'])) v
    cases hfx : F t v with
    | ok r =>
      simp only [ht v (by rw [hfx]; exact ok_ne_fuel), hfx]
    | error e =>
      simp only [hfx] at hne
      have hef : e ≠ .fuel := by
        intro hc; subst hc; simp [Err.isRejection] at hne
      simp only [ht v (by rw [hfx]; exact fun hc => hef (by cases hc; rfl)), hfx]
      cases hr : e.isRejection with
      | false => rfl
      | true =>
        simp only [hr, if_true] at hne ⊢
        exact ih' hne

theorem convPair_pres {fk gk fv gv : Val → R Val} (hk : Pres fk gk) (hv : Pres fv gv) :
    Pres (convPair fk fv) (convPair gk gv) := by
  intro it hne
  cases it with
  | error er => rfl
  | ok p =>
    obtain ⟨a, b⟩ := p
    simp only [convPair] at hne ⊢
    cases hka : fk a with
    | error e =>
      simp only [hka] at hne
      simp only [hk a (by rw [hka]; exact ne_fuel_of_err hne), hka]
    | ok a' =>
      simp only [hka] at hne
      simp only [hk a (by rw [hka]; exact ok_ne_fuel), hka]
      cases hvb : fv b with
      | error e =>
        simp only [hvb] at hne
        simp only [hv b (by rw [hvb]; exact ne_fuel_of_err hne), hvb]
      | ok b' =>
        simp only [hv b (by rw [hvb]; exact ok_ne_fuel), hvb]

/-- Two converter tables with the same domain whose converters are related by `Pres`. -/
def PresOpt (conv conv' : Str → Option (Val → R Val)) : Prop :=
  ∀ name, (conv name = none ∧ conv' name = none) ∨
    ∃ f g, conv name = some f ∧ conv' name = some g ∧ Pres f g

theorem buildKwargs_pres {conv conv' : Str → Option (Val → R Val)} (h : PresOpt conv conv') :
    ∀ (items : List Item) (acc : List (Str × Val)),
      buildKwargs conv items acc ≠ .error .fuel → buildKwargs conv' items acc = buildKwargs conv items acc := by
  intro items
  induction items with
  | nil => intro acc _; rfl
  | cons it rest ih =>
    intro acc hne
    cases it with
    | error e => rfl
    | ok p =>
      obtain ⟨k, v⟩ := p
      simp only [buildKwargs] at hne ⊢
      cases hh : hashable k with
      | false => simp
      | true =>
        simp only [hh, Bool.not_true, Bool.false_eq_true, if_false] at hne ⊢
        cases k with
        | str name =>
          simp only at hne ⊢
          rcases h name with ⟨h1, h2⟩ | ⟨f, g, h1, h2, hp⟩
          · simp only [h1, h2] at hne ⊢
            exact ih acc hne
          · simp only [h1, h2] at hne ⊢
            cases hfv : f v with
            | error e =>
              simp only [hfv] at hne
              simp only [hp v (by rw [hfv]; exact ne_fuel_of_err hne), hfv]
            | ok r =>
              simp only [hfv] at hne
              simp only [hp v (by rw [hfv]; exact ok_ne_fuel), hfv]
              exact ih _ hne
        | _ => exact ih acc hne

/-- The converter lookup does not depend on the fuel; only the converters do. -/
theorem convOf_pres (F G : Ty → Val → R Val) (fields : List (Str × Ty))
    (h : ∀ p ∈ fields, Pres (F p.2) (G p.2)) : PresOpt (convOf fields F) (convOf fields G) := by
  intro name
  unfold convOf
  cases hf : fields.find? (fun p => p.1 == name) with
  | none => exact .inl ⟨rfl, rfl⟩
  | some p => exact .inr ⟨F p.2, G p.2, rfl, rfl, h p (List.mem_of_find?_eq_some hf)⟩

theorem umStruct_pres (env : Env) (c : Nat) {conv conv' : Str → Option (Val → R Val)}
    (h : PresOpt conv conv') : Pres (umStruct env c conv) (umStruct env c conv') := by
  intro d hne
  unfold umStruct at hne ⊢
  cases hc : env.cls c with
  | none => rfl
  | some ci =>
    simp only [hc] at hne ⊢
    cases hi : iteritems env d with
    | error e => rfl
    | ok items =>
      simp only [hi] at hne ⊢
      have hb : buildKwargs conv items [] ≠ .error .fuel := by
        intro hcn; rw [hcn] at hne; exact hne rfl
      rw [buildKwargs_pres h items [] hb]

theorem marUnion_pres (F G : Ty → Val → R Val) (ms : List Ty) (h : ∀ t ∈ ms, Pres (F t) (G t)) :
    Pres (marUnion ms F) (marUnion ms G) := by
  intro v hne
  unfold marUnion at hne ⊢
  cases hn : nullable ms with
  | false =>
    simp only [hn, Bool.false_eq_true, if_false] at hne ⊢
    exact firstOk_pres F G ms h v hne
  | true =>
    simp only [hn, if_true] at hne ⊢
    have h' : ∀ t ∈ ms.filter (fun m => !m.isNone), Pres (F t) (G t) :=
      fun t ht => h t (List.mem_filter.mp ht).1
    cases v <;> first | rfl | exact firstOk_pres F G _ h' _ hne

/-- `bind` with a fuel-independent first stage. -/
theorem bind_pres {α : Type} (a : R α) {f g : α → R Val} (h : Pres f g) :
    a.bind f ≠ .error .fuel → a.bind g = a.bind f := by
  cases a with
  | error e => intro _; rfl
  | ok y => exact h y


/-! ### One-step unfolding equations (`simp only [um]` would unfold under binders as well) -/

theorem um_zero (env : Env) (L : Leaves) (t : Ty) (v : Val) : um env L 0 t v = .error .fuel := rfl
theorem mar_zero (env : Env) (L : Leaves) (t : Ty) (v : Val) : mar env L 0 t v = .error .fuel := rfl

theorem um_coll (env : Env) (L : Leaves) (n : Nat) (k : Coll) (e : Ty) (v : Val) :
    um env L (n + 1) (.coll k e) v =
      match (load env L v).bind (itervalues env) with
      | .error er => .error er
      | .ok xs =>
        match mapR (um env L n e) xs with
        | .error er => .error er
        | .ok ys => .ok (mkColl k ys) := rfl

theorem um_tuple (env : Env) (L : Leaves) (n : Nat) (es : List Ty) (v : Val) :
    um env L (n + 1) (.tuple es) v =
      match (load env L v).bind (itervalues env) with
      | .error er => .error er
      | .ok xs =>
        match zipR (es.map (um env L n)) xs with
        | .error er => .error er
        | .ok ys => if ys.length == es.length then .ok (.tuple ys) else .error .value := rfl

theorem um_dict (env : Env) (L : Leaves) (n : Nat) (k e : Ty) (v : Val) :
    um env L (n + 1) (.dict k e) v =
      match (load env L v).bind (iteritems env) with
      | .error er => .error er
      | .ok items =>
        match mapR (convPair (um env L n k) (um env L n e)) items with
        | .error er => .error er
        | .ok kvs => .ok (.dict kvs) := rfl

theorem um_union (env : Env) (L : Leaves) (n : Nat) (ms : List Ty) (v : Val) :
    um env L (n + 1) (.union ms) v = firstOk ((unionOrder ms).map (um env L n)) v := rfl

theorem um_cls (env : Env) (L : Leaves) (n : Nat) (c : Nat) (v : Val) :
    um env L (n + 1) (.cls c) v =
      (load env L v).bind (umStruct env c (convOf (fieldsOf env c) (um env L n))) := rfl

theorem um_wrap_succ (env : Env) (L : Leaves) (n : Nat) (w : Wrapper) (t : Ty) (v : Val) :
    um env L (n + 1) (.wrap w t) v = um env L n t v := rfl

theorem mar_coll (env : Env) (L : Leaves) (n : Nat) (k : Coll) (e : Ty) (v : Val) :
    mar env L (n + 1) (.coll k e) v =
      match itervalues env v with
      | .error er => .error er
      | .ok xs =>
        match mapR (mar env L n e) xs with
        | .error er => .error er
        | .ok ys => .ok (.list ys) := rfl

theorem mar_tuple (env : Env) (L : Leaves) (n : Nat) (es : List Ty) (v : Val) :
    mar env L (n + 1) (.tuple es) v =
      match itervalues env v with
      | .error er => .error er
      | .ok xs =>
        match zipR (es.map (mar env L n)) xs with
        | .error er => .error er
        | .ok ys => .ok (.list ys) := rfl

theorem mar_dict (env : Env) (L : Leaves) (n : Nat) (k e : Ty) (v : Val) :
    mar env L (n + 1) (.dict k e) v =
      match iteritems env v with
      | .error er => .error er
      | .ok items =>
        match mapR (convPair (mar env L n k) (mar env L n e)) items with
        | .error er => .error er
        | .ok kvs => .ok (.dict kvs) := rfl

theorem mar_union (env : Env) (L : Leaves) (n : Nat) (ms : List Ty) (v : Val) :
    mar env L (n + 1) (.union ms) v = marUnion ms (mar env L n) v := rfl

theorem mar_cls (env : Env) (L : Leaves) (n : Nat) (c : Nat) (v : Val) :
    mar env L (n + 1) (.cls c) v =
      match env.cls c with
      | none => .error .unsupported
      | some ci =>
        match iteritems env v with
        | .error er => .error er
        | .ok items =>
          match buildKwargs (convOf ci.fields (mar env L n)) items [] with
          | .error er => .error er
          | .ok kw => .ok (.dict (kw.map fun p => (.str p.1, p.2))) := rfl

theorem mar_wrap_succ (env : Env) (L : Leaves) (n : Nat) (w : Wrapper) (t : Ty) (v : Val) :
    mar env L (n + 1) (.wrap w t) v = mar env L n t v := rfl

/-- **Fuel stability, one step** for `unmarshal`. -/
theorem um_pres_succ (env : Env) (L : Leaves) : ∀ n t, Pres (um env L n t) (um env L (n + 1) t) := by
  intro n
  induction n with
  | zero => intro t x h; exact absurd rfl h
  | succ n ih =>
    intro t x hne
    cases t with
    | scalar s => rfl
    | none => rfl
    | any => rfl
    | literal vs => rfl
    | enum c => rfl
    | coll k e =>
      simp only [um_coll] at hne ⊢
      cases h1 : (load env L x).bind (itervalues env) with
      | error er => rfl
      | ok xs =>
        simp only [h1] at hne ⊢
        have hm : mapR (um env L n e) xs ≠ .error .fuel := by
          intro hc; rw [hc] at hne; exact hne rfl
        rw [mapR_pres (ih e) xs hm]
    | tuple es =>
      simp only [um_tuple] at hne ⊢
      cases h1 : (load env L x).bind (itervalues env) with
      | error er => rfl
      | ok xs =>
        simp only [h1] at hne ⊢
        have hm : zipR (es.map (um env L n)) xs ≠ .error .fuel := by
          intro hc; rw [hc] at hne; exact hne rfl
        rw [zipR_pres _ _ es (fun t _ => ih t) xs hm]
    | dict k e =>
      simp only [um_dict] at hne ⊢
      cases h1 : (load env L x).bind (iteritems env) with
      | error er => rfl
      | ok items =>
        simp only [h1] at hne ⊢
        have hm : mapR (convPair (um env L n k) (um env L n e)) items ≠ .error .fuel := by
          intro hc; rw [hc] at hne; exact hne rfl
        rw [mapR_pres (convPair_pres (ih k) (ih e)) items hm]
    | union ms =>
      simp only [um_union] at hne ⊢
      exact firstOk_pres _ _ _ (fun t _ => ih t) x hne
    | cls c =>
      simp only [um_cls] at hne ⊢
      exact bind_pres _ (umStruct_pres env c (convOf_pres _ _ _ (fun p _ => ih p.2))) hne
    | wrap w t' =>
      simp only [um_wrap_succ] at hne ⊢
      exact ih t' x hne

/-- **Fuel stability, one step** for `marshal`. -/
theorem mar_pres_succ (env : Env) (L : Leaves) : ∀ n t, Pres (mar env L n t) (mar env L (n + 1) t) := by
  intro n
  induction n with
  | zero => intro t x h; exact absurd rfl h
  | succ n ih =>
    intro t x hne
    cases t with
    | scalar s => rfl
    | none => rfl
    | any => rfl
    | literal vs => rfl
    | enum c => rfl
    | coll k e =>
      simp only [mar_coll] at hne ⊢
      cases h1 : itervalues env x with
      | error er => rfl
      | ok xs =>
        simp only [h1] at hne ⊢
        have hm : mapR (mar env L n e) xs ≠ .error .fuel := by
          intro hc; rw [hc] at hne; exact hne rfl
        rw [mapR_pres (ih e) xs hm]
    | tuple es =>
      simp only [mar_tuple] at hne ⊢
      cases h1 : itervalues env x with
      | error er => rfl
      | ok xs =>
        simp only [h1] at hne ⊢
        have hm : zipR (es.map (mar env L n)) xs ≠ .error .fuel := by
          intro hc; rw [hc] at hne; exact hne rfl
        rw [zipR_pres _ _ es (fun t _ => ih t) xs hm]
    | dict k e =>
      simp only [mar_dict] at hne ⊢
      cases h1 : iteritems env x with
      | error er => rfl
      | ok items =>
        simp only [h1] at hne ⊢
        have hm : mapR (convPair (mar env L n k) (mar env L n e)) items ≠ .error .fuel := by
          intro hc; rw [hc] at hne; exact hne rfl
        rw [mapR_pres (convPair_pres (ih k) (ih e)) items hm]
    | union ms =>
      simp only [mar_union] at hne ⊢
      exact marUnion_pres _ _ ms (fun t _ => ih t) x hne
    | cls c =>
      simp only [mar_cls] at hne ⊢
      cases hc : env.cls c with
      | none => rfl
      | some ci =>
        simp only [hc] at hne ⊢
        cases h1 : iteritems env x with
        | error er => rfl
        | ok items =>
          simp only [h1] at hne ⊢
          have hm : buildKwargs (convOf ci.fields (mar env L n)) items [] ≠ .error .fuel := by
            intro hcn; rw [hcn] at hne; exact hne rfl
          rw [buildKwargs_pres (convOf_pres _ _ _ (fun p _ => ih p.2)) items [] hm]
    | wrap w t' =>
      simp only [mar_wrap_succ] at hne ⊢
      exact ih t' x hne

/-- **Fuel stability**: every outcome of `unmarshal` other than "out of fuel" is reproduced with one
    more unit of fuel. -/
theorem um_stable (env : Env) (L : Leaves) (n : Nat) (t : Ty) (x : Val) (res : R Val)
    (h : um env L n t x = res) (hne : res ≠ .error .fuel) : um env L (n + 1) t x = res := by
  subst h; exact um_pres_succ env L n t x hne

theorem mar_stable (env : Env) (L : Leaves) (n : Nat) (t : Ty) (x : Val) (res : R Val)
    (h : mar env L n t x = res) (hne : res ≠ .error .fuel) : mar env L (n + 1) t x = res := by
  subst h; exact mar_pres_succ env L n t x hne

theorem um_pres_add (env : Env) (L : Leaves) (n : Nat) (t : Ty) :
    ∀ k, Pres (um env L n t) (um env L (n + k) t) := by
  intro k
  induction k with
  | zero => exact Pres.refl _
  | succ k ih => exact Pres.trans ih (um_pres_succ env L (n + k) t)

theorem mar_pres_add (env : Env) (L : Leaves) (n : Nat) (t : Ty) :
    ∀ k, Pres (mar env L n t) (mar env L (n + k) t) := by
  intro k
  induction k with
  | zero => exact Pres.refl _
  | succ k ih => exact Pres.trans ih (mar_pres_succ env L (n + k) t)

/-- … and with any amount of additional fuel. -/
theorem um_stable_add (env : Env) (L : Leaves) (n k : Nat) (t : Ty) (x : Val) (res : R Val)
    (h : um env L n t x = res) (hne : res ≠ .error .fuel) : um env L (n + k) t x = res := by
  subst h; exact um_pres_add env L n t k x hne

theorem mar_stable_add (env : Env) (L : Leaves) (n k : Nat) (t : Ty) (x : Val) (res : R Val)
    (h : mar env L n t x = res) (hne : res ≠ .error .fuel) : mar env L (n + k) t x = res := by
  subst h; exact mar_pres_add env L n t k x hne

theorem um_pres_le (env : Env) (L : Leaves) {n m : Nat} (h : n ≤ m) (t : Ty) :
    Pres (um env L n t) (um env L m t) := by
  obtain ⟨k, rfl⟩ := Nat.exists_eq_add_of_le h
  exact um_pres_add env L n t k

theorem mar_pres_le (env : Env) (L : Leaves) {n m : Nat} (h : n ≤ m) (t : Ty) :
    Pres (mar env L n t) (mar env L m t) := by
  obtain ⟨k, rfl⟩ := Nat.exists_eq_add_of_le h
  exact mar_pres_add env L n t k

end Typelib
