/-
  Facts about the list combinators of the iteration model (`enumerateFrom`, `chars`) used by the
  C18 theorems.  No property statements here.
-/
import TypelibModel.Model.Serdes
namespace Typelib

/-- Python's `enumerate(xs)` written with the list library: positions `0 … len-1` zipped with the
    elements.  This is the *specification* of index enumeration; `enumerateFrom` is the model's loop. -/
def indexed (xs : List Val) : List (Val × Val) :=
  ((List.range xs.length).zip xs).map fun p => (Val.int (Int.ofNat p.1), p.2)

theorem enumerateFrom_eq_range' : ∀ (xs : List Val) (n : Nat),
    enumerateFrom n xs = ((List.range' n xs.length).zip xs).map fun p => (Val.int (Int.ofNat p.1), p.2) := by
  intro xs
  induction xs with
  | nil => intro n; rfl
  | cons x xs ih =>
    intro n
    simp only [enumerateFrom, List.length_cons, List.range'_succ, List.zip_cons_cons, List.map_cons, ih (n + 1)]
    rfl

/-- The model's enumeration loop is `enumerate`. -/
theorem enumerateFrom_zero (xs : List Val) : enumerateFrom 0 xs = indexed xs := by
  rw [enumerateFrom_eq_range', indexed, List.range_eq_range']

theorem enumerateFrom_length : ∀ (xs : List Val) (n : Nat), (enumerateFrom n xs).length = xs.length := by
  intro xs
  induction xs with
  | nil => intro _; rfl
  | cons x xs ih => intro n; simp [enumerateFrom, ih]

theorem enumerateFrom_snd : ∀ (xs : List Val) (n : Nat), (enumerateFrom n xs).map Prod.snd = xs := by
  intro xs
  induction xs with
  | nil => intro _; rfl
  | cons x xs ih => intro n; simp [enumerateFrom, ih]

theorem enumerateFrom_fst : ∀ (xs : List Val) (n : Nat),
    (enumerateFrom n xs).map Prod.fst = (List.range' n xs.length).map fun i => Val.int (Int.ofNat i) := by
  intro xs
  induction xs with
  | nil => intro _; rfl
  | cons x xs ih =>
    intro n
    simp only [enumerateFrom, List.map_cons, List.length_cons, List.range'_succ, ih (n + 1)]
    rfl

theorem indexed_length (xs : List Val) : (indexed xs).length = xs.length := by
  rw [← enumerateFrom_zero, enumerateFrom_length]

/-- Every element once, in order. -/
theorem indexed_snd (xs : List Val) : (indexed xs).map Prod.snd = xs := by
  rw [← enumerateFrom_zero, enumerateFrom_snd]

/-- The indices are `0, 1, …, len-1`. -/
theorem indexed_fst (xs : List Val) :
    (indexed xs).map Prod.fst = (List.range xs.length).map fun i => Val.int (Int.ofNat i) := by
  rw [← enumerateFrom_zero, enumerateFrom_fst, List.range_eq_range']

theorem chars_length (s : Str) : (chars s).length = s.length := by simp [chars]

end Typelib
