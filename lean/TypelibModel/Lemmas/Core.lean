/-
  Helper lemmas about the list combinators of the model (`mapR`, `zipR`, `firstOk`) and about
  structural equality of primitive values.  Property theorems live in Props/.
-/
import TypelibModel.Model.Typing
namespace Typelib

theorem mapR_nil {α β : Type} (f : α → R β) : mapR f [] = .ok [] := rfl

theorem mapR_cons_ok {α β : Type} {f : α → R β} {x : α} {xs : List α} {y : β} {ys : List β}
    (h1 : f x = .ok y) (h2 : mapR f xs = .ok ys) : mapR f (x :: xs) = .ok (y :: ys) := by
  simp [mapR, h1, h2]

/-- Element-wise round trip lifts to lists. -/
theorem mapR_roundtrip {α β : Type} (f : α → R β) (g : β → R α) (P : α → Prop) :
    ∀ xs : List α, (∀ x ∈ xs, P x) → (∀ x, P x → ∃ m, f x = .ok m ∧ g m = .ok x) →
      ∃ ms, mapR f xs = .ok ms ∧ mapR g ms = .ok xs := by
  intro xs
  induction xs with
  | nil => intro _ _; exact ⟨[], rfl, rfl⟩
  | cons x xs ih =>
    intro hP hrt
    obtain ⟨m, hm1, hm2⟩ := hrt x (hP x (by simp))
    obtain ⟨ms, hms1, hms2⟩ := ih (fun y hy => hP y (by simp [hy])) hrt
    exact ⟨m :: ms, mapR_cons_ok hm1 hms1, mapR_cons_ok hm2 hms2⟩

theorem mapR_ok_length {α β : Type} (f : α → R β) :
    ∀ (xs : List α) (ys : List β), mapR f xs = .ok ys → ys.length = xs.length := by
  intro xs
  induction xs with
  | nil => intro ys h; simp [mapR] at h; subst h; rfl
  | cons x xs ih =>
    intro ys h
    simp only [mapR] at h
    split at h
    · cases h
    · split at h
      · cases h
      · rename_i y _ ys' hys
        cases h
        simp [ih ys' hys]

/-- Every element of an `ok` result is the image of an input element. -/
theorem mapR_ok_forall {α β : Type} (f : α → R β) (Q : β → Prop) :
    ∀ (xs : List α) (ys : List β), mapR f xs = .ok ys → (∀ x ∈ xs, ∀ y, f x = .ok y → Q y) → ∀ y ∈ ys, Q y := by
  intro xs
  induction xs with
  | nil => intro ys h _ y hy; simp [mapR] at h; subst h; cases hy
  | cons x xs ih =>
    intro ys h hQ y hy
    simp only [mapR] at h
    split at h
    · cases h
    · rename_i y0 hy0
      split at h
      · cases h
      · rename_i ys' hys
        cases h
        cases hy with
        | head => exact hQ x (by simp) _ hy0
        | tail _ hmem => exact ih ys' hys (fun x' hx' => hQ x' (by simp [hx'])) y hmem

theorem isPrim_beq_eq {w v : Val} (hw : isPrim w = true) (h : (w == v) = true) : v = w := by
  cases w <;> simp [isPrim] at hw <;> cases v <;> simp_all [BEq.beq, Val.beq]
  case str.str a b => exact (eq_of_beq (α := Str) h).symm

theorem isPrim_beq_self {w : Val} (hw : isPrim w = true) : (w == w) = true := by
  cases w <;> simp [isPrim] at hw <;> simp [BEq.beq, Val.beq]
  case str a => exact beq_self_eq_true (α := Str) a

end Typelib
