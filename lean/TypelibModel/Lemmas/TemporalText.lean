/-
  Lemmas about the temporal text writers/readers of `Model/Temporal.lean` (served property: C04).
  Decimal numerals (`natStr`, `pad`) read back by `spanDigits`/`digitsVal`/`take2?`, the duration
  writer read back by `readDurMag?`, time-of-day and offset texts, the calendar law.
-/
import TypelibModel.Model.Temporal
import TypelibModel.Lemmas.LeafRT
namespace Typelib

/-! ### Decimal numerals -/

/-- The text does not continue a run of digits: it is empty or starts with a non-digit. -/
def stops : Str → Bool
  | [] => true
  | c :: _ => !isDigit c

theorem isDigit_of_mem_natStr {n : Nat} {c : Char} (h : c ∈ natStr n) : isDigit c = true :=
  Nat.isDigit_of_mem_toDigits (by decide) (by decide) h

theorem natStr_ne_nil (n : Nat) : natStr n ≠ [] := Nat.toDigits_ne_nil

theorem natStr_cons (n : Nat) : ∃ c cs, natStr n = c :: cs ∧ isDigit c = true ∧ ∀ d ∈ cs, isDigit d = true := by
  have h := natStr_ne_nil n
  have hd : ∀ c ∈ natStr n, isDigit c = true := fun c hc => isDigit_of_mem_natStr hc
  cases hs : natStr n with
  | nil => exact absurd hs h
  | cons c cs =>
    rw [hs] at hd
    exact ⟨c, cs, rfl, hd c (by simp), fun d hd' => hd d (by simp [hd'])⟩

theorem digitsVal_natStr (n : Nat) : digitsVal (natStr n) 0 = n := Nat.ofDigitChars_ten_toDigits

theorem spanDigits_stops {s : Str} (h : stops s = true) : spanDigits s = ([], s) := by
  cases s with
  | nil => rfl
  | cons c cs =>
    simp only [stops, Bool.not_eq_true'] at h
    simp [spanDigits, h]

theorem spanDigits_append {ds rest : Str} (hd : ∀ c ∈ ds, isDigit c = true) (hr : stops rest = true) :
    spanDigits (ds ++ rest) = (ds, rest) := by
  induction ds with
  | nil => simpa using spanDigits_stops hr
  | cons c cs ih =>
    have hc : isDigit c = true := hd c (by simp)
    have := ih (fun d hd' => hd d (by simp [hd']))
    simp [spanDigits, hc, this]

theorem spanDigits_natStr (n : Nat) {rest : Str} (hr : stops rest = true) :
    spanDigits (natStr n ++ rest) = (natStr n, rest) :=
  spanDigits_append (fun _ hc => isDigit_of_mem_natStr hc) hr

theorem dropWhile_digits_append {ds rest : Str} (hd : ∀ c ∈ ds, isDigit c = true) (hr : stops rest = true) :
    (ds ++ rest).dropWhile isDigit = rest := by
  induction ds with
  | nil =>
    cases rest with
    | nil => rfl
    | cons c cs =>
      simp only [stops, Bool.not_eq_true'] at hr
      simp [hr]
  | cons c cs ih =>
    have hc : isDigit c = true := hd c (by simp)
    have := ih (fun d hd' => hd d (by simp [hd']))
    simp [hc, this]

/-! ### Zero padding -/

theorem natStr_length_le {n w : Nat} (hw : 0 < w) (h : n < 10 ^ w) : (natStr n).length ≤ w :=
  (Nat.length_toDigits_le_iff (by decide) hw).2 h

theorem pad_length {n w : Nat} (hw : 0 < w) (h : n < 10 ^ w) : (pad w n).length = w := by
  have := natStr_length_le hw h
  simp only [pad, List.length_append, List.length_replicate]
  omega

theorem isDigit_of_mem_pad {w n : Nat} {c : Char} (h : c ∈ pad w n) : isDigit c = true := by
  simp only [pad, List.mem_append, List.mem_replicate] at h
  rcases h with ⟨_, rfl⟩ | h
  · rfl
  · exact isDigit_of_mem_natStr h

theorem digitsVal_pad (w n : Nat) : digitsVal (pad w n) 0 = n := by
  simp only [pad, digitsVal, Nat.ofDigitChars_append, Nat.ofDigitChars_replicate_zero, Nat.mul_zero]
  exact Nat.ofDigitChars_ten_toDigits

theorem fracMicros_pad6 {m : Nat} (h : m < 1000000) : fracMicros (pad 6 m) = m := by
  have hl : (pad 6 m).length = 6 := pad_length (by decide) (by simpa using h)
  have ht : (pad 6 m).take 6 = pad 6 m := by
    rw [List.take_of_length_le (by omega)]
  simp only [fracMicros, ht, hl, Nat.sub_self, List.replicate_zero, List.append_nil]
  exact digitsVal_pad 6 m

theorem digitVal_digitChar {k : Nat} (h : k < 10) : digitVal (Nat.digitChar k) = k :=
  Nat.toNat_digitChar_sub_48_of_lt_ten h

theorem isDigit_digitChar {k : Nat} (h : k < 10) : isDigit (Nat.digitChar k) = true := by
  simp [isDigit, Nat.isDigit_digitChar, h]

theorem pad2_eq {n : Nat} (h : n < 100) : pad 2 n = [Nat.digitChar (n / 10), Nat.digitChar (n % 10)] := by
  by_cases h10 : n < 10
  · have h0 : n / 10 = 0 := by omega
    have h1 : n % 10 = n := by omega
    simp [pad, natStr, Nat.toDigits_of_lt_base h10, h0, h1]
  · have hq : n / 10 < 10 := by omega
    simp [pad, natStr, Nat.toDigits_of_base_le (by decide : 1 < 10) (by omega : 10 ≤ n),
      Nat.toDigits_of_lt_base hq]

theorem take2?_pad2 {n : Nat} (h : n < 100) (rest : Str) : take2? (pad 2 n ++ rest) = some (n, rest) := by
  have hq : n / 10 < 10 := by omega
  have hr : n % 10 < 10 := by omega
  rw [pad2_eq h]
  simp only [List.cons_append, List.nil_append, take2?, isDigit_digitChar hq, isDigit_digitChar hr,
    Bool.and_self, if_true, digitVal_digitChar hq, digitVal_digitChar hr]
  congr 2
  omega

/-! ### Durations: `readDurMag?` reads `durMagText` back -/

theorem readUnit?_natStr (u : Char) (hu : isDigit u = false) (n : Nat) (rest : Str) :
    readUnit? u (natStr n ++ u :: rest) = some (n, rest) := by
  have hs : stops (u :: rest) = true := by simp [stops, hu]
  simp [readUnit?, spanDigits_natStr n hs, natStr_ne_nil, digitsVal_natStr]

theorem readUnit?_stops (u : Char) {s : Str} (h : stops s = true) : readUnit? u s = none := by
  simp only [readUnit?, spanDigits_stops h]
  cases s <;> simp

theorem readUnit?_other (u c : Char) (hc : isDigit c = false) (hne : c ≠ u) (n : Nat) (rest : Str) :
    readUnit? u (natStr n ++ c :: rest) = none := by
  have hs : stops (c :: rest) = true := by simp [stops, hc]
  simp [readUnit?, spanDigits_natStr n hs, hne]

/-- An optional `[n]u` component, as `readDurMag?` reads it. -/
def optUnit (u : Char) (s : Str) : Nat × Str :=
  match readUnit? u s with
  | some (d, r) => (d, r)
  | none => (0, s)

/-- The seconds tail of `readDurMag?`. -/
def readSecs? (base : Nat) (r4 : Str) : Option Nat :=
  match r4 with
  | [] => some base
  | _ =>
    let (sd, r5) := spanDigits r4
    if sd.isEmpty then none
    else match r5 with
      | ['S'] => some (base + digitsVal sd 0 * 1000000)
      | '.' :: r6 =>
        let (fd, r7) := spanDigits r6
        if r7 == ['S'] && !fd.isEmpty && fd.length ≤ 6 then
          some (base + digitsVal sd 0 * 1000000 + fracMicros fd)
        else none
      | _ => none

theorem readDurMag?_eq (r0 : Str) : readDurMag? ('P' :: r0) =
    match (optUnit 'D' r0).2 with
    | [] => if r0.isEmpty then none else some ((optUnit 'D' r0).1 * 86400000000)
    | 'T' :: r2 =>
      readSecs? ((optUnit 'D' r0).1 * 86400000000
          + ((optUnit 'H' r2).1 * 3600 + (optUnit 'M' (optUnit 'H' r2).2).1 * 60) * 1000000)
        (optUnit 'M' (optUnit 'H' r2).2).2
    | _ => none := by
  simp only [readDurMag?]
  delta optUnit readSecs?
  rfl

/-- The text of an optional component as the writer emits it. -/
def unitPart (u : Char) (n : Nat) : Str := if n == 0 then [] else natStr n ++ [u]

theorem optUnit_unitPart (u : Char) (hu : isDigit u = false) (n : Nat) (rest : Str)
    (hrest : readUnit? u rest = none) : optUnit u (unitPart u n ++ rest) = (n, rest) := by
  unfold unitPart
  by_cases h : n = 0
  · subst h
    simp [optUnit, hrest]
  · have : (n == 0) = false := by simpa using h
    simp only [this, Bool.false_eq_true, if_false, List.append_assoc, List.cons_append, List.nil_append]
    simp [optUnit, readUnit?_natStr u hu]

/-- The seconds component as the writer emits it. -/
def secPart (s f : Nat) : Str :=
  if f != 0 then natStr s ++ '.' :: pad 6 f ++ ['S']
  else if s == 0 then [] else natStr s ++ ['S']

theorem readUnit?_unitPart_other (u c : Char) (hc : isDigit c = false) (hne : c ≠ u) (n : Nat) (rest : Str)
    (hrest : readUnit? u rest = none) : readUnit? u (unitPart c n ++ rest) = none := by
  unfold unitPart
  by_cases h : n = 0
  · subst h; simpa using hrest
  · have : (n == 0) = false := by simpa using h
    simp only [this, Bool.false_eq_true, if_false, List.append_assoc, List.cons_append, List.nil_append]
    exact readUnit?_other u c hc hne n rest

theorem readUnit?_secPart (u : Char) (hS : 'S' ≠ u) (hdot : '.' ≠ u) (s f : Nat) : readUnit? u (secPart s f) = none := by
  unfold secPart
  split
  · simp only [List.append_assoc, List.cons_append]
    exact readUnit?_other u '.' (by decide) hdot s _
  · split
    · exact readUnit?_stops u rfl
    · exact readUnit?_other u 'S' (by decide) hS s _

theorem readSecs?_nonempty (base : Nat) (r4 : Str) (h : r4 ≠ []) : readSecs? base r4 =
    if (spanDigits r4).1.isEmpty then none
    else match (spanDigits r4).2 with
      | ['S'] => some (base + digitsVal (spanDigits r4).1 0 * 1000000)
      | '.' :: r6 =>
        if (spanDigits r6).2 == ['S'] && !(spanDigits r6).1.isEmpty && (spanDigits r6).1.length ≤ 6 then
          some (base + digitsVal (spanDigits r4).1 0 * 1000000 + fracMicros (spanDigits r6).1)
        else none
      | _ => none := by
  cases r4 with
  | nil => exact absurd rfl h
  | cons c cs => rfl


theorem readSecs?_whole (base : Nat) (sd : Str) (hsd : ∀ c ∈ sd, isDigit c = true) (hne : sd ≠ []) :
    readSecs? base (sd ++ ['S']) = some (base + digitsVal sd 0 * 1000000) := by
  have hsp : spanDigits (sd ++ ['S']) = (sd, ['S']) := spanDigits_append hsd rfl
  have hne' : sd ++ ['S'] ≠ [] := by simp
  rw [readSecs?_nonempty _ _ hne', hsp]
  simp only [List.isEmpty_iff, hne, if_false]

theorem readSecs?_frac (base : Nat) (sd fd : Str) (hsd : ∀ c ∈ sd, isDigit c = true) (hne : sd ≠ [])
    (hfd : ∀ c ∈ fd, isDigit c = true) (hfne : fd ≠ []) (hfl : fd.length ≤ 6) :
    readSecs? base (sd ++ '.' :: (fd ++ ['S'])) = some (base + digitsVal sd 0 * 1000000 + fracMicros fd) := by
  have hsp : spanDigits (sd ++ '.' :: (fd ++ ['S'])) = (sd, '.' :: (fd ++ ['S'])) := spanDigits_append hsd rfl
  have hsp2 : spanDigits (fd ++ ['S']) = (fd, ['S']) := spanDigits_append hfd rfl
  have hne' : sd ++ '.' :: (fd ++ ['S']) ≠ [] := by simp
  rw [readSecs?_nonempty _ _ hne', hsp]
  simp only [List.isEmpty_iff, hne, if_false, hsp2, beq_self_eq_true, hfl, decide_true]
  simp [hfne]

theorem readSecs?_secPart (base s f : Nat) (hf : f < 1000000) :
    readSecs? base (secPart s f) = some (base + s * 1000000 + f) := by
  have hl : (pad 6 f).length = 6 := pad_length (by decide) (by simpa using hf)
  have hpne : pad 6 f ≠ [] := by
    intro h; rw [h] at hl; cases hl
  unfold secPart
  by_cases hf0 : f = 0
  · subst hf0
    by_cases hs0 : s = 0
    · subst hs0; simp [readSecs?]
    · have : (s == 0) = false := by simpa using hs0
      simp only [bne_self_eq_false, Bool.false_eq_true, if_false, this]
      rw [readSecs?_whole base (natStr s) (fun _ hc => isDigit_of_mem_natStr hc) (natStr_ne_nil s), digitsVal_natStr, Nat.add_zero]
  · have : (f != 0) = true := by simpa using hf0
    simp only [this, if_true, List.append_assoc, List.cons_append]
    rw [readSecs?_frac base (natStr s) (pad 6 f) (fun _ hc => isDigit_of_mem_natStr hc) (natStr_ne_nil s)
      (fun _ hc => isDigit_of_mem_pad hc) hpne (by omega), digitsVal_natStr, fracMicros_pad6 hf]

/-- The duration text assembled from its components. -/
def durParts (d h m s f : Nat) : Str :=
  let datepart := unitPart 'D' d
  let timepart := unitPart 'H' h ++ unitPart 'M' m ++ secPart s f
  if timepart.isEmpty && !datepart.isEmpty then 'P' :: datepart
  else 'P' :: datepart ++ 'T' :: timepart

theorem durMagText_eq_durParts (us : Nat) :
    durMagText us = durParts (us / 86400000000) (us % 86400000000 / 1000000 / 3600)
      (us % 86400000000 / 1000000 % 3600 / 60) (us % 86400000000 / 1000000 % 3600 % 60)
      (us % 86400000000 % 1000000) := rfl

theorem readDurMag?_durParts (d h m s f : Nat) (hf : f < 1000000) :
    readDurMag? (durParts d h m s f) = some (d * 86400000000 + (h * 3600 + m * 60 + s) * 1000000 + f) := by
  unfold durParts
  simp only
  split
  · -- only a date part
    rename_i hc
    simp only [Bool.and_eq_true, List.isEmpty_iff, Bool.not_eq_true'] at hc
    obtain ⟨ht, hd⟩ := hc
    have hd0 : d ≠ 0 := by
      intro h0; subst h0; simp [unitPart] at hd
    simp only [List.append_eq_nil_iff] at ht
    obtain ⟨⟨hh, hm⟩, hs⟩ := ht
    have hh0 : h = 0 := by
      by_cases h0 : h = 0
      · exact h0
      · have : (h == 0) = false := by simpa using h0
        simp [unitPart, this, natStr_ne_nil] at hh
    have hm0 : m = 0 := by
      by_cases h0 : m = 0
      · exact h0
      · have : (m == 0) = false := by simpa using h0
        simp [unitPart, this, natStr_ne_nil] at hm
    have hsf : s = 0 ∧ f = 0 := by
      unfold secPart at hs
      by_cases hf0 : f = 0
      · subst hf0
        by_cases hs0 : s = 0
        · exact ⟨hs0, rfl⟩
        · have : (s == 0) = false := by simpa using hs0
          simp [this, natStr_ne_nil] at hs
      · have : (f != 0) = true := by simpa using hf0
        simp [this, natStr_ne_nil] at hs
    obtain ⟨hs0, hf0⟩ := hsf
    subst hh0 hm0 hs0 hf0
    have h1 := optUnit_unitPart 'D' (by decide) d [] (by rfl)
    simp only [List.append_nil] at h1
    have hne : (unitPart 'D' d).isEmpty = false := hd
    rw [readDurMag?_eq, h1]
    simp [hne]
  · rw [List.cons_append, readDurMag?_eq]
    have h1 := optUnit_unitPart 'D' (by decide) d ('T' :: (unitPart 'H' h ++ unitPart 'M' m ++ secPart s f))
      (readUnit?_stops 'D' rfl)
    have h3 : readUnit? 'H' (unitPart 'M' m ++ secPart s f) = none :=
      readUnit?_unitPart_other 'H' 'M' (by decide) (by decide) m _ (readUnit?_secPart 'H' (by decide) (by decide) s f)
    have h2 := optUnit_unitPart 'H' (by decide) h (unitPart 'M' m ++ secPart s f) h3
    have h4 := optUnit_unitPart 'M' (by decide) m (secPart s f) (readUnit?_secPart 'M' (by decide) (by decide) s f)
    simp only [List.append_assoc] at h1 h2 ⊢
    rw [h1]
    simp only [h2, h4, readSecs?_secPart _ s f hf]
    exact congrArg some (by omega)

theorem durmag_rt (n : Nat) : readDurMag? (durMagText n) = some n := by
  rw [durMagText_eq_durParts, readDurMag?_durParts _ _ _ _ _ (Nat.mod_lt _ (by decide))]
  exact congrArg some (by omega)

theorem durMagText_head (n : Nat) : ∃ r, durMagText n = 'P' :: r := by
  rw [durMagText_eq_durParts]
  unfold durParts
  simp only
  split <;> exact ⟨_, rfl⟩

/-- The sign-aware duration reader: what `parseTemporal?` does for a text starting with `P` or `-P`. -/
def readDur? (s : Str) : Option Int :=
  match s with
  | '-' :: 'P' :: _ =>
    match readDurMag? (s.drop 1) with
    | some m => some (-(m : Int))
    | none => none
  | 'P' :: _ =>
    match readDurMag? s with
    | some m => some (m : Int)
    | none => none
  | _ => none

theorem duration_rt (us : Int) : readDur? (durText us) = some us := by
  unfold durText
  split
  · rename_i hneg
    obtain ⟨r, hr⟩ := durMagText_head us.natAbs
    have h := durmag_rt us.natAbs
    rw [hr] at h ⊢
    simp only [readDur?, List.drop_succ_cons, List.drop_zero, h]
    exact congrArg some (by omega)
  · rename_i hpos
    obtain ⟨r, hr⟩ := durMagText_head us.toNat
    have h := durmag_rt us.toNat
    rw [hr] at h ⊢
    simp only [readDur?, h]
    exact congrArg some (by omega)

theorem parseTemporal?_of_readDur {s : Str} {us : Int} (h : readDur? s = some us) :
    parseTemporal? s = some (.duration us) := by
  unfold readDur? at h
  split at h
  · rename_i r
    have had : allDigits ('-' :: 'P' :: r) = false := by simp [allDigits, isDigit]
    simp only [parseTemporal?, had, Bool.false_eq_true, if_false]
    simp only [List.drop_succ_cons, List.drop_zero] at h ⊢
    split at h
    · rename_i m hm
      simp only [Option.some.injEq] at h
      simp [hm, h]
    · cases h
  · rename_i r
    have had : allDigits ('P' :: r) = false := by simp [allDigits, isDigit]
    simp only [parseTemporal?, had, Bool.false_eq_true, if_false]
    split at h
    · rename_i m hm
      simp only [Option.some.injEq] at h
      simp [hm, h]
    · cases h
  · cases h

theorem parseTemporal_dur (us : Int) : parseTemporal? (durText us) = some (.duration us) :=
  parseTemporal?_of_readDur (duration_rt us)

theorem umTimedelta_rt {us : Int} (h : tdOk us = true) :
    umTimedelta (.str (durText us)) = .ok (.timedelta us) := by
  simp [umTimedelta, secondsOf?, textOf?, parseTemporal_dur, h]

/-! ### An independent recogniser of ISO-8601 durations

`-?P(nD)?(T(nH)?(nM)?(n(.f{1,6})?S)?)?` with the two side conditions of ISO 8601: at least one
component is present, and a `T` is followed by at least one time component.  Written with
`dropWhile`/`takeWhile`, independently of `readDurMag?`/`spanDigits`. -/

/-- One or more ASCII digits; returns what follows. -/
def eatDigits1? : Str → Option Str
  | c :: r => if isDigit c then some (r.dropWhile isDigit) else none
  | [] => none

/-- `n<u>`: digits, then the designator `u`. -/
def eatComp? (u : Char) (s : Str) : Option Str :=
  match eatDigits1? s with
  | some (c :: r) => if c == u then some r else none
  | _ => none

/-- `n[.f{1,6}]S`. -/
def eatSec? (s : Str) : Option Str :=
  match eatDigits1? s with
  | some ('S' :: r) => some r
  | some ('.' :: r) =>
    match r.dropWhile isDigit with
    | 'S' :: r' =>
      if 1 ≤ (r.takeWhile isDigit).length && (r.takeWhile isDigit).length ≤ 6 then some r' else none
    | _ => none
  | _ => none

/-- An optional element: the rest, and whether it was present. -/
def optEat (f : Str → Option Str) (s : Str) : Str × Bool :=
  match f s with
  | some r => (r, true)
  | none => (s, false)

def isoDurMag (s : Str) : Bool :=
  match s with
  | 'P' :: r0 =>
    match (optEat (eatComp? 'D') r0).1 with
    | [] => (optEat (eatComp? 'D') r0).2
    | 'T' :: r2 =>
      let eH := optEat (eatComp? 'H') r2
      let eM := optEat (eatComp? 'M') eH.1
      let eS := optEat eatSec? eM.1
      eS.1.isEmpty && (eH.2 || eM.2 || eS.2)
    | _ => false
  | _ => false

/-- Strict ISO-8601(-2) duration text, optionally signed. -/
def isoDuration (s : Str) : Bool :=
  match s with
  | '-' :: r => isoDurMag r
  | _ => isoDurMag s

theorem eatDigits1?_append {ds rest : Str} (hd : ∀ c ∈ ds, isDigit c = true) (hne : ds ≠ [])
    (hr : stops rest = true) : eatDigits1? (ds ++ rest) = some rest := by
  cases ds with
  | nil => exact absurd rfl hne
  | cons c cs =>
    have hc : isDigit c = true := hd c (by simp)
    have := dropWhile_digits_append (ds := cs) (rest := rest) (fun d hd' => hd d (by simp [hd'])) hr
    simp [eatDigits1?, hc, this]

theorem eatDigits1?_stops {s : Str} (h : stops s = true) : eatDigits1? s = none := by
  cases s with
  | nil => rfl
  | cons c cs =>
    simp only [stops, Bool.not_eq_true'] at h
    simp [eatDigits1?, h]

theorem eatComp?_natStr (u : Char) (hu : isDigit u = false) (n : Nat) (rest : Str) :
    eatComp? u (natStr n ++ u :: rest) = some rest := by
  have hs : stops (u :: rest) = true := by simp [stops, hu]
  have := eatDigits1?_append (ds := natStr n) (rest := u :: rest) (fun _ hc => isDigit_of_mem_natStr hc)
    (natStr_ne_nil n) hs
  simp [eatComp?, this]

theorem eatComp?_stops (u : Char) {s : Str} (h : stops s = true) : eatComp? u s = none := by
  simp [eatComp?, eatDigits1?_stops h]

theorem eatComp?_other (u c : Char) (hc : isDigit c = false) (hne : c ≠ u) (n : Nat) (rest : Str) :
    eatComp? u (natStr n ++ c :: rest) = none := by
  have hs : stops (c :: rest) = true := by simp [stops, hc]
  have := eatDigits1?_append (ds := natStr n) (rest := c :: rest) (fun _ hc => isDigit_of_mem_natStr hc)
    (natStr_ne_nil n) hs
  simp [eatComp?, this, hne]

theorem optEat_unitPart (u : Char) (hu : isDigit u = false) (n : Nat) (rest : Str)
    (hrest : eatComp? u rest = none) : optEat (eatComp? u) (unitPart u n ++ rest) = (rest, n != 0) := by
  unfold unitPart
  by_cases h : n = 0
  · subst h
    simp [optEat, hrest]
  · have : (n == 0) = false := by simpa using h
    simp only [this, Bool.false_eq_true, if_false, List.append_assoc, List.cons_append, List.nil_append]
    simp [optEat, eatComp?_natStr u hu, h]

theorem eatComp?_unitPart_other (u c : Char) (hc : isDigit c = false) (hne : c ≠ u) (n : Nat) (rest : Str)
    (hrest : eatComp? u rest = none) : eatComp? u (unitPart c n ++ rest) = none := by
  unfold unitPart
  by_cases h : n = 0
  · subst h; simpa using hrest
  · have : (n == 0) = false := by simpa using h
    simp only [this, Bool.false_eq_true, if_false, List.append_assoc, List.cons_append, List.nil_append]
    exact eatComp?_other u c hc hne n rest

theorem eatComp?_secPart (u : Char) (hS : 'S' ≠ u) (hdot : '.' ≠ u) (s f : Nat) : eatComp? u (secPart s f) = none := by
  unfold secPart
  split
  · simp only [List.append_assoc, List.cons_append]
    exact eatComp?_other u '.' (by decide) hdot s _
  · split
    · exact eatComp?_stops u rfl
    · exact eatComp?_other u 'S' (by decide) hS s _

theorem eatSec?_whole (sd : Str) (hsd : ∀ c ∈ sd, isDigit c = true) (hne : sd ≠ []) :
    eatSec? (sd ++ ['S']) = some [] := by
  have := eatDigits1?_append (ds := sd) (rest := ['S']) hsd hne rfl
  simp [eatSec?, this]

theorem takeWhile_digits_append {ds rest : Str} (hd : ∀ c ∈ ds, isDigit c = true) (hr : stops rest = true) :
    (ds ++ rest).takeWhile isDigit = ds := by
  induction ds with
  | nil =>
    cases rest with
    | nil => rfl
    | cons c cs =>
      simp only [stops, Bool.not_eq_true'] at hr
      simp [hr]
  | cons c cs ih =>
    have hc : isDigit c = true := hd c (by simp)
    have := ih (fun d hd' => hd d (by simp [hd']))
    simp [hc, this]

theorem eatSec?_frac (sd fd : Str) (hsd : ∀ c ∈ sd, isDigit c = true) (hne : sd ≠ [])
    (hfd : ∀ c ∈ fd, isDigit c = true) (hfne : fd ≠ []) (hfl : fd.length ≤ 6) :
    eatSec? (sd ++ '.' :: (fd ++ ['S'])) = some [] := by
  have h1 := eatDigits1?_append (ds := sd) (rest := '.' :: (fd ++ ['S'])) hsd hne rfl
  have h2 := dropWhile_digits_append (ds := fd) (rest := ['S']) hfd rfl
  have h3 := takeWhile_digits_append (ds := fd) (rest := ['S']) hfd rfl
  have h4 : 1 ≤ fd.length := by
    cases fd with
    | nil => exact absurd rfl hfne
    | cons _ _ => simp
  simp [eatSec?, h1, h2, h3, h4, hfl]

theorem optEat_secPart (s f : Nat) (hf : f < 1000000) :
    optEat eatSec? (secPart s f) = ([], s != 0 || f != 0) := by
  have hl : (pad 6 f).length = 6 := pad_length (by decide) (by simpa using hf)
  have hpne : pad 6 f ≠ [] := by
    intro h; rw [h] at hl; cases hl
  unfold secPart
  by_cases hf0 : f = 0
  · subst hf0
    by_cases hs0 : s = 0
    · subst hs0; simp [optEat, eatSec?, eatDigits1?]
    · have : (s == 0) = false := by simpa using hs0
      simp only [bne_self_eq_false, Bool.false_eq_true, if_false, this]
      simp only [optEat, eatSec?_whole (natStr s) (fun _ hc => isDigit_of_mem_natStr hc) (natStr_ne_nil s)]
      simp [hs0]
  · have : (f != 0) = true := by simpa using hf0
    simp only [this, if_true, List.append_assoc, List.cons_append]
    simp only [optEat, eatSec?_frac (natStr s) (pad 6 f) (fun _ hc => isDigit_of_mem_natStr hc) (natStr_ne_nil s)
      (fun _ hc => isDigit_of_mem_pad hc) hpne (by omega)]
    simp

theorem isEmpty_append' (a b : Str) : (a ++ b).isEmpty = (a.isEmpty && b.isEmpty) := by
  cases a <;> simp

theorem isoDurMag_durParts (d h m s f : Nat) (hf : f < 1000000)
    (hnz : ¬(d = 0 ∧ h = 0 ∧ m = 0 ∧ s = 0 ∧ f = 0)) : isoDurMag (durParts d h m s f) = true := by
  have hH0 : ∀ n, (unitPart 'H' n).isEmpty = (n == 0) := by
    intro n; unfold unitPart; by_cases h0 : n = 0
    · subst h0; rfl
    · have : (n == 0) = false := by simpa using h0
      simp [this, natStr_ne_nil]
  have hM0 : ∀ n, (unitPart 'M' n).isEmpty = (n == 0) := by
    intro n; unfold unitPart; by_cases h0 : n = 0
    · subst h0; rfl
    · have : (n == 0) = false := by simpa using h0
      simp [this, natStr_ne_nil]
  have hD0 : ∀ n, (unitPart 'D' n).isEmpty = (n == 0) := by
    intro n; unfold unitPart; by_cases h0 : n = 0
    · subst h0; rfl
    · have : (n == 0) = false := by simpa using h0
      simp [this, natStr_ne_nil]
  have hS0 : (secPart s f).isEmpty = (s == 0 && f == 0) := by
    unfold secPart
    by_cases hf0 : f = 0
    · subst hf0
      by_cases hs0 : s = 0
      · subst hs0; rfl
      · have : (s == 0) = false := by simpa using hs0
        simp [this, natStr_ne_nil]
    · have h1 : (f != 0) = true := by simpa using hf0
      have h2 : (f == 0) = false := by simpa using hf0
      simp [h1, h2, natStr_ne_nil]
  unfold durParts
  simp only [isEmpty_append', hH0, hM0, hD0, hS0]
  split
  · rename_i hc
    have h1 := optEat_unitPart 'D' (by decide) d [] (by rfl)
    simp only [List.append_nil] at h1
    simp only [isoDurMag, h1]
    simp only [Bool.and_eq_true, Bool.not_eq_true', beq_eq_false_iff_ne] at hc
    simpa using hc.2
  · rename_i hc
    rw [List.cons_append]
    have h1 := optEat_unitPart 'D' (by decide) d ('T' :: (unitPart 'H' h ++ unitPart 'M' m ++ secPart s f))
      (eatComp?_stops 'D' rfl)
    have h3 : eatComp? 'H' (unitPart 'M' m ++ secPart s f) = none :=
      eatComp?_unitPart_other 'H' 'M' (by decide) (by decide) m _ (eatComp?_secPart 'H' (by decide) (by decide) s f)
    have h2 := optEat_unitPart 'H' (by decide) h (unitPart 'M' m ++ secPart s f) h3
    have h4 := optEat_unitPart 'M' (by decide) m (secPart s f) (eatComp?_secPart 'M' (by decide) (by decide) s f)
    simp only [List.append_assoc] at h1 h2 ⊢
    simp only [isoDurMag, h1, h2, h4, optEat_secPart s f hf, List.isEmpty_nil, Bool.true_and]
    simp only [Bool.and_eq_true, Bool.not_eq_true', beq_iff_eq, beq_eq_false_iff_ne, not_and, Classical.not_not] at hc
    simp only [Bool.or_eq_true, bne_iff_ne, ne_eq]
    by_cases hh : h = 0
    · by_cases hm : m = 0
      · by_cases hs : s = 0
        · by_cases hf0 : f = 0
          · exact absurd ⟨hc ⟨⟨hh, hm⟩, hs, hf0⟩, hh, hm, hs, hf0⟩ hnz
          · exact Or.inr (Or.inr hf0)
        · exact Or.inr (Or.inl hs)
      · exact Or.inl (Or.inr hm)
    · exact Or.inl (Or.inl hh)

theorem isoDurMag_durMagText {n : Nat} (h : n ≠ 0) : isoDurMag (durMagText n) = true := by
  rw [durMagText_eq_durParts]
  apply isoDurMag_durParts _ _ _ _ _ (Nat.mod_lt _ (by decide))
  omega

theorem isoDuration_durText {us : Int} (h : us ≠ 0) : isoDuration (durText us) = true := by
  unfold durText
  split
  · exact isoDurMag_durMagText (n := us.natAbs) (by omega)
  · obtain ⟨r, hr⟩ := durMagText_head us.toNat
    have := isoDurMag_durMagText (n := us.toNat) (by omega)
    rw [hr] at this ⊢
    simpa [isoDuration] using this

/-! ### Time of day and UTC offset -/

/-- What may follow a time of day whose fraction is absent: nothing, or neither a digit nor a dot. -/
def tailOk : Str → Bool
  | [] => true
  | c :: _ => !isDigit c && c != '.'

theorem tailOk_stops {r : Str} (h : tailOk r = true) : stops r = true := by
  cases r with
  | nil => rfl
  | cons c cs =>
    simp only [tailOk, Bool.and_eq_true] at h
    simpa [stops] using h.1

theorem readTod?_whole {h mi se : Nat} (hh : h < 24) (hmi : mi < 60) (hse : se < 60) (r3 : Str)
    (hr : tailOk r3 = true) :
    readTod? (pad 2 h ++ ':' :: (pad 2 mi ++ ':' :: (pad 2 se ++ r3)))
      = some ((h * 3600 + mi * 60 + se) * 1000000, r3) := by
  simp only [readTod?, take2?_pad2 (by omega : h < 100), take2?_pad2 (by omega : mi < 100),
    take2?_pad2 (by omega : se < 100), hh, hmi, hse, decide_true, Bool.and_self, if_true]
  cases r3 with
  | nil => rfl
  | cons c cs =>
    simp only [tailOk, Bool.and_eq_true, bne_iff_ne, ne_eq] at hr
    split
    · rename_i heq
      injection heq with h1 h2
      exact absurd h1 hr.2
    · rfl

theorem readTod?_frac {h mi se : Nat} (hh : h < 24) (hmi : mi < 60) (hse : se < 60) (fd r5 : Str)
    (hfd : ∀ c ∈ fd, isDigit c = true) (hne : fd ≠ []) (hl : fd.length ≤ 6) (hr : stops r5 = true) :
    readTod? (pad 2 h ++ ':' :: (pad 2 mi ++ ':' :: (pad 2 se ++ '.' :: (fd ++ r5))))
      = some ((h * 3600 + mi * 60 + se) * 1000000 + fracMicros fd, r5) := by
  have hsp : spanDigits (fd ++ r5) = (fd, r5) := spanDigits_append hfd hr
  have hl' : ¬ (6 < fd.length) := by omega
  simp only [readTod?, take2?_pad2 (by omega : h < 100), take2?_pad2 (by omega : mi < 100),
    take2?_pad2 (by omega : se < 100), hh, hmi, hse, decide_true, Bool.and_self, if_true, hsp]
  simp [hne, hl']

theorem readTod?_todText {us : Nat} (h : us < 86400000000) (rest : Str) (hr : tailOk rest = true) :
    readTod? (todText us ++ rest) = some (us, rest) := by
  have h1 : us / 1000000 / 3600 < 24 := by omega
  have h2 : us / 1000000 / 60 % 60 < 60 := by omega
  have h3 : us / 1000000 % 60 < 60 := by omega
  unfold todText
  by_cases hm : us % 1000000 = 0
  · have : (us % 1000000 == 0) = true := by simpa using hm
    simp only [this, if_true, List.append_assoc, List.cons_append]
    rw [readTod?_whole h1 h2 h3 rest hr]
    exact congrArg some (Prod.ext (by simp only; omega) rfl)
  · have : (us % 1000000 == 0) = false := by simpa using hm
    have hlt : us % 1000000 < 1000000 := Nat.mod_lt _ (by decide)
    have hl : (pad 6 (us % 1000000)).length = 6 := pad_length (by decide) (by simpa using hlt)
    have hpne : pad 6 (us % 1000000) ≠ [] := by
      intro h; rw [h] at hl; cases hl
    simp only [this, Bool.false_eq_true, if_false, List.append_assoc, List.cons_append]
    rw [readTod?_frac h1 h2 h3 (pad 6 (us % 1000000)) rest (fun _ hc => isDigit_of_mem_pad hc) hpne (by omega)
      (tailOk_stops hr), fracMicros_pad6 hlt]
    exact congrArg some (Prod.ext (by simp only; omega) rfl)

theorem todText_shape {us : Nat} (h : us < 86400000000) :
    ∃ a b tl, isDigit a = true ∧ isDigit b = true ∧ todText us = a :: b :: ':' :: tl := by
  have h1 : us / 1000000 / 3600 < 100 := by omega
  have hq : us / 1000000 / 3600 / 10 < 10 := by omega
  have hr : us / 1000000 / 3600 % 10 < 10 := by omega
  unfold todText
  simp only [pad2_eq h1]
  split
  · exact ⟨_, _, _, isDigit_digitChar hq, isDigit_digitChar hr, rfl⟩
  · exact ⟨_, _, _, isDigit_digitChar hq, isDigit_digitChar hr, rfl⟩

/-- The signed branch of `readOff?`. -/
def readOffBody (sg : Char) (r : Str) : Option (Option Int) :=
  if sg == '+' || sg == '-' then
    match take2? r with
    | some (h, ':' :: r1) =>
      match take2? r1 with
      | some (mi, []) =>
        if h < 24 && mi < 60 then
          let o : Int := h * 3600 + mi * 60
          some (some (if sg == '-' then -o else o))
        else none
      | _ => none
    | _ => none
  else none

theorem readOff?_cons (sg : Char) (hsg : sg ≠ 'Z') (r : Str) : readOff? (sg :: r) = readOffBody sg r := by
  unfold readOff?
  split
  · rename_i heq; cases heq
  · rename_i heq; injection heq with h1 _; exact absurd h1 hsg
  · rename_i heq; injection heq with h1 h2; subst h1 h2; rfl

theorem readOffBody_pads (sg : Char) (hsg : (sg == '+' || sg == '-') = true) {h mi : Nat}
    (hh : h < 24) (hmi : mi < 60) :
    readOffBody sg (pad 2 h ++ ':' :: pad 2 mi)
      = some (some (if sg == '-' then -((h : Int) * 3600 + (mi : Int) * 60) else (h : Int) * 3600 + (mi : Int) * 60)) := by
  have t1 := take2?_pad2 (by omega : h < 100) (':' :: pad 2 mi)
  have t2 := take2?_pad2 (by omega : mi < 100) []
  rw [List.append_nil] at t2
  simp only [readOffBody, hsg, if_true, t1, t2, hh, hmi, decide_true, Bool.and_self]

theorem readOff?_offText {off : Int} (hm : off % 60 = 0) (hlo : -86400 < off) (hhi : off < 86400) :
    readOff? (offText off) = some (some off) := by
  have h1 : off.natAbs / 3600 < 24 := by omega
  have h2 : off.natAbs / 60 % 60 < 60 := by omega
  unfold offText
  by_cases hneg : off < 0
  · simp only [hneg, if_true, List.cons_append]
    rw [readOff?_cons '-' (by decide), readOffBody_pads '-' (by decide) h1 h2]
    simp only [beq_self_eq_true, if_true]
    exact congrArg some (congrArg some (by omega))
  · simp only [hneg, if_false, List.cons_append]
    rw [readOff?_cons '+' (by decide), readOffBody_pads '+' (by decide) h1 h2]
    simp only [show ('+' == '-') = false by decide, Bool.false_eq_true, if_false]
    exact congrArg some (congrArg some (by omega))

theorem tailOk_offText (off : Int) : tailOk (offText off) = true := by
  unfold offText
  split <;> rfl

/-- The calendar branch of `parseTemporal?` (texts that are neither numbers nor durations). -/
def parseCal? (s : Str) : Option Parsed :=
  match readDate? s with
  | some (c, []) => if validYMD c then some (.dateOnly (ordOfCivil c)) else none
  | some (c, 'T' :: r) =>
    if !validYMD c then none else
    match readTod? r with
    | some (tod, r') =>
      match readOff? r' with
      | some off =>
        let o : Int := off.getD 0
        some (.dateTime (((ordOfCivil c : Int) - epochOrd) * usPerDay + tod - o * usPerSec) off)
      | none => none
    | none => none
  | some _ => none
  | none =>
    match readTod? s with
    | some (tod, r') =>
      match readOff? r' with
      | some off => some (.timeOnly tod off)
      | none => none
    | none => none

theorem parseTemporal?_digit {c : Char} {r : Str} (hc : isDigit c = true) (had : allDigits (c :: r) = false) :
    parseTemporal? (c :: r) = parseCal? (c :: r) := by
  unfold parseTemporal?
  rw [if_neg (by simp [had])]
  split
  · rename_i heq
    injection heq with h1 _
    subst h1
    exact absurd hc (by decide)
  · rename_i heq
    injection heq with h1 _
    subst h1
    exact absurd hc (by decide)
  · rfl

theorem readDate?_colon (a b : Char) (r : Str) : readDate? (a :: b :: ':' :: r) = none := by
  unfold readDate?
  split
  · rename_i heq
    injection heq with _ h2
    injection h2 with _ h3
    injection h3 with h4 _
    subst h4
    simp [isDigit]
  · rfl

theorem allDigits_colon (a b : Char) (r : Str) : allDigits (a :: b :: ':' :: r) = false := by
  simp [allDigits, isDigit]

theorem time_parse {us : Nat} {off : Int} (hus : us < 86400000000) (hm : off % 60 = 0)
    (hlo : -86400 < off) (hhi : off < 86400) :
    parseTemporal? (timeText us (some off)) = some (.timeOnly us (some off)) := by
  have hrd := readTod?_todText hus (offText off) (tailOk_offText off)
  have hro := readOff?_offText hm hlo hhi
  obtain ⟨a, b, tl, ha, _, hshape⟩ := todText_shape hus
  simp only [timeText]
  rw [hshape] at hrd ⊢
  simp only [List.cons_append] at hrd ⊢
  rw [parseTemporal?_digit ha (allDigits_colon a b _)]
  simp only [parseCal?, readDate?_colon, hrd, hro]

theorem umTime_rt (today : Int) {us : Nat} {off : Int} (hus : us < 86400000000) (hm : off % 60 = 0)
    (hlo : -86400 < off) (hhi : off < 86400) :
    umTime today (.str (timeText us (some off))) = .ok (.time us (some off)) := by
  simp [umTime, secondsOf?, textOf?, time_parse hus hm hlo hhi]

/-! ### The calendar law -/

/-- Civil date of a day number counted from 0000-03-01 (`z = ordinal + 305`). -/
def civZ (z : Nat) : YMD :=
  let era := z / 146097
  let doe := z % 146097
  let yoe := (doe - doe / 1460 + doe / 36524 - doe / 146096) / 365
  let y := yoe + era * 400
  let doy := doe - (365 * yoe + yoe / 4 - yoe / 100)
  let mp := (5 * doy + 2) / 153
  let d := doy - (153 * mp + 2) / 5 + 1
  let m := if mp < 10 then mp + 3 else mp - 9
  { y := if m ≤ 2 then y + 1 else y, m := m, d := d }

def ordZ (c : YMD) : Nat :=
  let y := if c.m ≤ 2 then c.y - 1 else c.y
  let era := y / 400
  let yoe := y - era * 400
  let mp := if c.m > 2 then c.m - 3 else c.m + 9
  let doy := (153 * mp + 2) / 5 + c.d - 1
  let doe := yoe * 365 + yoe / 4 - yoe / 100 + doy
  era * 146097 + doe

theorem civilOfOrd_eq (o : Nat) : civilOfOrd o = civZ (o + 305) := rfl
theorem ordOfCivil_eq (c : YMD) : ordOfCivil c = ordZ c - 305 := rfl

/-- First day (counted from March 1 of year 0 of the era) of the March-based year `y` of an era. -/
def yStart (y : Nat) : Nat := 365 * y + y / 4 - y / 100
/-- Last day of the March-based year `y` of an era. -/
def yEnd (y : Nat) : Nat := if y = 399 then 146096 else yStart (y + 1) - 1
/-- The year-of-era formula of `civilOfOrd`. -/
def yoeOf (doe : Nat) : Nat := (doe - doe / 1460 + doe / 36524 - doe / 146096) / 365

def yearOk (y : Nat) : Bool :=
  yoeOf (yStart y) == y && yoeOf (yEnd y) == y
    && yEnd y + 1 == yStart y + 365 + (if isLeap (y + 1) then 1 else 0)

def allBelow (p : Nat → Bool) : Nat → Bool
  | 0 => true
  | n + 1 => p n && allBelow p n

theorem allBelow_spec {p : Nat → Bool} : ∀ {n}, allBelow p n = true → ∀ k, k < n → p k = true := by
  intro n
  induction n with
  | zero => intro _ k hk; omega
  | succ n ih =>
    intro h k hk
    simp only [allBelow, Bool.and_eq_true] at h
    by_cases hkn : k = n
    · subst hkn; exact h.1
    · exact ih h.2 k (by omega)

theorem years_check : allBelow yearOk 400 = true := by decide +kernel

theorem yearOk_of_lt {y : Nat} (h : y < 400) :
    yoeOf (yStart y) = y ∧ yoeOf (yEnd y) = y
      ∧ yEnd y + 1 = yStart y + 365 + (if isLeap (y + 1) then 1 else 0) := by
  have := allBelow_spec years_check y h
  simpa [yearOk, and_assoc] using this

theorem yoeOf_mono {a b : Nat} (h : a ≤ b) : yoeOf a ≤ yoeOf b := by
  unfold yoeOf
  apply Nat.div_le_div_right
  have h1 : a - a / 1460 ≤ b - b / 1460 := by omega
  have h2 : a / 36524 ≤ b / 36524 := Nat.div_le_div_right h
  have h3 : a / 36524 - a / 146096 ≤ b / 36524 - b / 146096 := by omega
  omega

theorem yoe_bounds {doe : Nat} (h : doe < 146097) :
    yoeOf doe ≤ 399 ∧ yStart (yoeOf doe) ≤ doe ∧ doe ≤ yEnd (yoeOf doe) := by
  have hy : yoeOf doe ≤ 399 := by
    have := yoeOf_mono (show doe ≤ 146096 by omega)
    have h399 : yoeOf 146096 = 399 := by decide
    omega
  refine ⟨hy, ?_, ?_⟩
  · apply Classical.byContradiction
    intro hlt
    have hlt : doe < yStart (yoeOf doe) := by omega
    have hpos : 1 ≤ yoeOf doe := by
      apply Classical.byContradiction
      intro h0
      have h0 : yoeOf doe = 0 := by omega
      rw [h0] at hlt
      simp [yStart] at hlt
    obtain ⟨_, he, _⟩ := yearOk_of_lt (y := yoeOf doe - 1) (by omega)
    have hend : yEnd (yoeOf doe - 1) = yStart (yoeOf doe) - 1 := by
      unfold yEnd
      rw [if_neg (by omega), show yoeOf doe - 1 + 1 = yoeOf doe by omega]
    have := yoeOf_mono (show doe ≤ yEnd (yoeOf doe - 1) by omega)
    omega
  · apply Classical.byContradiction
    intro hgt
    have hgt : yEnd (yoeOf doe) < doe := by omega
    by_cases h399 : yoeOf doe = 399
    · simp [yEnd, h399] at hgt
      omega
    · obtain ⟨hs, _, _⟩ := yearOk_of_lt (y := yoeOf doe + 1) (by omega)
      have hend : yEnd (yoeOf doe) = yStart (yoeOf doe + 1) - 1 := by
        unfold yEnd
        rw [if_neg h399]
      have hpos : 1 ≤ yStart (yoeOf doe + 1) := by unfold yStart; omega
      have := yoeOf_mono (show yStart (yoeOf doe + 1) ≤ doe by omega)
      omega

theorem civZ_char (z : Nat) : ∃ y doy mp, y ≤ 399 ∧ yStart y + doy = z % 146097
    ∧ doy ≤ 364 + (if isLeap (y + 1) then 1 else 0)
    ∧ 153 * mp ≤ 5 * doy + 2 ∧ 5 * doy + 2 < 153 * mp + 153
    ∧ civZ z = ⟨(if mp < 10 then y + z / 146097 * 400 else y + z / 146097 * 400 + 1),
        (if mp < 10 then mp + 3 else mp - 9), doy - (153 * mp + 2) / 5 + 1⟩ := by
  obtain ⟨hy, hs, he⟩ := yoe_bounds (Nat.mod_lt z (by decide : 0 < 146097))
  obtain ⟨_, _, hlen⟩ := yearOk_of_lt (y := yoeOf (z % 146097)) (by omega)
  refine ⟨yoeOf (z % 146097), z % 146097 - yStart (yoeOf (z % 146097)),
    (5 * (z % 146097 - yStart (yoeOf (z % 146097))) + 2) / 153, hy, by omega, by omega, by omega, by omega, ?_⟩
  by_cases hmp : (5 * (z % 146097 - yStart (yoeOf (z % 146097))) + 2) / 153 < 10
  · simp only [hmp, if_true]
    unfold civZ
    simp only [yoeOf, yStart] at hmp ⊢
    simp only [hmp, if_true]
    rw [if_neg (by omega)]
  · simp only [hmp, if_false]
    unfold civZ
    simp only [yoeOf, yStart] at hmp ⊢
    simp only [hmp, if_false]
    rw [if_pos (by omega)]

theorem isLeap_era (y e : Nat) : isLeap (y + e * 400) = isLeap y := by
  unfold isLeap
  have h4 : (y + e * 400) % 4 = y % 4 := by omega
  have h100 : (y + e * 400) % 100 = y % 100 := by omega
  have h400 : (y + e * 400) % 400 = y % 400 := by omega
  rw [h4, h100, h400]

theorem civZ_spec (z : Nat) :
    ordZ (civZ z) = z ∧ 1 ≤ (civZ z).m ∧ (civZ z).m ≤ 12 ∧ 1 ≤ (civZ z).d
      ∧ (civZ z).d ≤ daysInMonth (civZ z).y (civZ z).m
      ∧ (306 ≤ z → 1 ≤ (civZ z).y) ∧ (z ≤ 3652364 → (civZ z).y ≤ 9999) := by
  obtain ⟨y, doy, mp, hy, hz, hdoy, hmp1, hmp2, hc⟩ := civZ_char z
  have hle : (if isLeap (y + 1) then 1 else 0) ≤ 1 := by split <;> omega
  have hmp11 : mp ≤ 11 := by omega
  have he : (y + z / 146097 * 400) / 400 = z / 146097 := by omega
  rw [hc]
  unfold yStart at hz
  by_cases hmp : mp < 10
  · simp only [hmp, if_true]
    refine ⟨?_, by omega, by omega, by omega, ?_, by omega, by omega⟩
    · unfold ordZ
      simp only []
      rw [if_neg (by omega), if_pos (by omega)]
      simp only [Nat.add_sub_cancel, he]
      have hg : (153 * mp + 2) / 5 ≤ doy := by omega
      omega
    · have hcases : mp = 0 ∨ mp = 1 ∨ mp = 2 ∨ mp = 3 ∨ mp = 4 ∨ mp = 5 ∨ mp = 6 ∨ mp = 7 ∨ mp = 8 ∨ mp = 9 := by
        omega
      rcases hcases with h | h | h | h | h | h | h | h | h | h <;> subst h <;> simp only [daysInMonth] <;> omega
  · simp only [hmp, if_false]
    refine ⟨?_, by omega, by omega, by omega, ?_, by omega, by omega⟩
    · unfold ordZ
      simp only []
      rw [if_pos (by omega), if_neg (by omega)]
      have h9 : mp - 9 + 9 = mp := by omega
      simp only [Nat.add_sub_cancel, he, h9]
      have hg : (153 * mp + 2) / 5 ≤ doy := by omega
      omega
    · have hcases : mp = 10 ∨ mp = 11 := by omega
      rcases hcases with h | h <;> subst h
      · simp only [daysInMonth]; omega
      · have hl := isLeap_era (y + 1) (z / 146097)
        rw [show y + 1 + z / 146097 * 400 = y + z / 146097 * 400 + 1 by omega] at hl
        simp only [daysInMonth, hl]
        split <;> simp_all <;> omega

/-- The calendar law the date texts rely on: on the supported range the ordinal ↔ civil-date
    conversions are mutually inverse and produce valid dates. -/
structure CalLaw : Prop where
  ord_civil : ∀ o : Nat, 1 ≤ o → o ≤ 3652059 →
    ordOfCivil (civilOfOrd o) = o ∧ validYMD (civilOfOrd o) = true

theorem calLaw : CalLaw := by
  constructor
  intro o h1 h2
  obtain ⟨ho, hm1, hm2, hd1, hd2, hy1, hy2⟩ := civZ_spec (o + 305)
  rw [civilOfOrd_eq, ordOfCivil_eq, ho]
  refine ⟨by omega, ?_⟩
  have hy1 := hy1 (by omega)
  have hy2 := hy2 (by omega)
  simp [validYMD, hm1, hm2, hd1, hd2, hy1, hy2]

/-! ### Dates and datetimes (relative to `CalLaw`) -/

theorem pad4_shape {y : Nat} (h : y ≤ 9999) :
    ∃ a b c d, pad 4 y = [a, b, c, d] ∧ isDigit a = true ∧ isDigit b = true ∧ isDigit c = true
      ∧ isDigit d = true ∧ digitsVal [a, b, c, d] 0 = y := by
  have hl : (pad 4 y).length = 4 := pad_length (by decide) (by omega)
  have hd : ∀ c ∈ pad 4 y, isDigit c = true := fun _ hc => isDigit_of_mem_pad hc
  have hv := digitsVal_pad 4 y
  generalize pad 4 y = p at hl hd hv
  rcases p with _ | ⟨a, _ | ⟨b, _ | ⟨c, _ | ⟨d, _ | ⟨e, t⟩⟩⟩⟩⟩ <;> simp at hl
  exact ⟨a, b, c, d, rfl, hd a (by simp), hd b (by simp), hd c (by simp), hd d (by simp), hv⟩

theorem readDate?_digits {a b c d : Char} (ha : isDigit a = true) (hb : isDigit b = true)
    (hc : isDigit c = true) (hd : isDigit d = true) {m dd : Nat} (hm : m < 100) (hdd : dd < 100) (rest : Str) :
    readDate? (a :: b :: c :: d :: '-' :: (pad 2 m ++ '-' :: (pad 2 dd ++ rest)))
      = some ({ y := digitsVal [a, b, c, d] 0, m := m, d := dd }, rest) := by
  simp only [readDate?, ha, hb, hc, hd, Bool.and_self, if_true, take2?_pad2 hm, take2?_pad2 hdd]

theorem daysInMonth_le (y m : Nat) : daysInMonth y m ≤ 31 := by
  unfold daysInMonth
  split <;> try omega
  split <;> omega

theorem allDigits_dash (a b c d : Char) (r : Str) : allDigits (a :: b :: c :: d :: '-' :: r) = false := by
  simp [allDigits, isDigit]

/-- Shape and read-back of a date text, for an ordinal in range. -/
theorem dateText_read (cal : CalLaw) {o : Int} (h : inDateRange o = true) (rest : Str) :
    ∃ a tl, isDigit a = true ∧ dateText o ++ rest = a :: tl ∧ allDigits (a :: tl) = false
      ∧ readDate? (a :: tl) = some (civilOfOrd o.toNat, rest)
      ∧ validYMD (civilOfOrd o.toNat) = true ∧ (ordOfCivil (civilOfOrd o.toNat) : Int) = o := by
  simp only [inDateRange, Bool.and_eq_true, decide_eq_true_eq] at h
  unfold maxOrd at h
  obtain ⟨hoc, hv⟩ := cal.ord_civil o.toNat (by omega) (by omega)
  have hv' := hv
  simp only [validYMD, Bool.and_eq_true, decide_eq_true_eq] at hv'
  obtain ⟨⟨⟨⟨⟨hy1, hy2⟩, hm1⟩, hm2⟩, hd1⟩, hd2⟩ := hv'
  have hd3 := daysInMonth_le (civilOfOrd o.toNat).y (civilOfOrd o.toNat).m
  obtain ⟨a, b, c, d, hp, ha, hb, hc, hd, hval⟩ := pad4_shape hy2
  refine ⟨a, b :: c :: d :: '-' :: (pad 2 (civilOfOrd o.toNat).m ++ '-' :: (pad 2 (civilOfOrd o.toNat).d ++ rest)),
    ha, ?_, allDigits_dash a b c d _, ?_, hv, by omega⟩
  · simp only [dateText, hp, List.append_assoc, List.cons_append, List.nil_append]
  · rw [readDate?_digits ha hb hc hd (by omega) (by omega), hval]

theorem date_parse (cal : CalLaw) {o : Int} (h : inDateRange o = true) :
    parseTemporal? (dateText o) = some (.dateOnly o) := by
  obtain ⟨a, tl, ha, hshape, had, hrd, hv, hord⟩ := dateText_read cal h []
  rw [List.append_nil] at hshape
  rw [hshape, parseTemporal?_digit ha had]
  simp only [parseCal?, hrd, hv, if_true, hord]

theorem umDate_rt (cal : CalLaw) (today : Int) {o : Int} (h : inDateRange o = true) :
    umDate today (.str (dateText o)) = .ok (.date o) := by
  simp [umDate, secondsOf?, textOf?, date_parse cal h]

theorem datetime_parse (cal : CalLaw) {us off : Int} (h : inDateRange (localOrd us off) = true)
    (hm : off % 60 = 0) (hlo : -86400 < off) (hhi : off < 86400) :
    parseTemporal? (datetimeText us off) = some (.dateTime us (some off)) := by
  have hpos : (0 : Int) < usPerDay := by decide
  have hnn := Int.fmod_nonneg_of_pos (us + off * usPerSec) hpos
  have hlt := Int.fmod_lt_of_pos (us + off * usPerSec) hpos
  have hsum := Int.fmod_add_fdiv_mul (us + off * usPerSec) usPerDay
  have htod : ((us + off * usPerSec).fmod usPerDay).toNat < 86400000000 := by
    unfold usPerDay at hlt hnn ⊢; omega
  obtain ⟨a, tl, ha, hshape, had, hrd, hv, hord⟩ := dateText_read cal h
    ('T' :: (todText ((us + off * usPerSec).fmod usPerDay).toNat ++ offText off))
  have hrt := readTod?_todText htod (offText off) (tailOk_offText off)
  have hro := readOff?_offText hm hlo hhi
  have htxt : datetimeText us off = a :: tl := by
    rw [← hshape]
    simp only [datetimeText, localOrd, List.append_assoc, List.cons_append]
  rw [htxt, parseTemporal?_digit ha had]
  simp only [parseCal?, hrd, hv, Bool.not_true, Bool.false_eq_true, if_false, hrt, hro, Option.getD_some, hord]
  refine congrArg some ?_
  have : (localOrd us off - epochOrd) * usPerDay + (((us + off * usPerSec).fmod usPerDay).toNat : Int)
      - off * usPerSec = us := by
    unfold localOrd
    unfold usPerDay usPerSec at *
    omega
  rw [this]

theorem umDatetime_rt (cal : CalLaw) (today : Int) {us off : Int} (h : inDateRange (localOrd us off) = true)
    (hm : off % 60 = 0) (hlo : -86400 < off) (hhi : off < 86400) :
    umDatetime today (.str (datetimeText us off)) = .ok (.datetime us off) := by
  simp [umDatetime, secondsOf?, textOf?, datetime_parse cal h hm hlo hhi, h]

/-! ### The leaf round-trip law for the temporal scalars of `pyLeaves` -/

/-- The core scalars plus the four temporal scalars. -/
def S1 : Scalar → Bool
  | .int | .bool | .float | .str | .date | .datetime | .time | .timedelta => true
  | _ => false

theorem S1_of_S0 {s : Scalar} (h : S0 s = true) : S1 s = true := by
  cases s <;> simp [S0] at h <;> rfl

theorem date_leaf_rt (cal : CalLaw) (env : Env) (today : Int) {o : Int} (h : inDateRange o = true) :
    ∃ m, (pyLeaves env today).mar .date (.date o) = .ok m ∧ (pyLeaves env today).um .date m = .ok (.date o)
      ∧ hashable m = true ∧ decode m ≠ .none :=
  ⟨.str (dateText o), by simp [pyLeaves, pyMar, marTemporal, isoText],
    by simp only [pyLeaves, pyUm]; exact umDate_rt cal today h, rfl, by simp [decode]⟩

theorem time_leaf_rt (env : Env) (today : Int) {us : Nat} {off : Int} (hus : us < 86400000000)
    (hm : off % 60 = 0) (hlo : -86400 < off) (hhi : off < 86400) :
    ∃ m, (pyLeaves env today).mar .time (.time us (some off)) = .ok m
      ∧ (pyLeaves env today).um .time m = .ok (.time us (some off))
      ∧ hashable m = true ∧ decode m ≠ .none :=
  ⟨.str (timeText us (some off)), by simp [pyLeaves, pyMar, marTemporal, isoText],
    by simp only [pyLeaves, pyUm]; exact umTime_rt today hus hm hlo hhi, rfl, by simp [decode]⟩

theorem timedelta_leaf_rt (env : Env) (today : Int) {us : Int} (h : tdOk us = true) :
    ∃ m, (pyLeaves env today).mar .timedelta (.timedelta us) = .ok m
      ∧ (pyLeaves env today).um .timedelta m = .ok (.timedelta us)
      ∧ hashable m = true ∧ decode m ≠ .none :=
  ⟨.str (durText us), by simp [pyLeaves, pyMar, marTemporal, isoText],
    by simp only [pyLeaves, pyUm]; exact umTimedelta_rt h, rfl, by simp [decode]⟩

theorem datetime_leaf_rt (cal : CalLaw) (env : Env) (today : Int) {us off : Int}
    (h : inDateRange (localOrd us off) = true) (hm : off % 60 = 0) (hlo : -86400 < off) (hhi : off < 86400) :
    ∃ m, (pyLeaves env today).mar .datetime (.datetime us off) = .ok m
      ∧ (pyLeaves env today).um .datetime m = .ok (.datetime us off)
      ∧ hashable m = true ∧ decode m ≠ .none :=
  ⟨.str (datetimeText us off), by simp [pyLeaves, pyMar, marTemporal, isoText],
    by simp only [pyLeaves, pyUm]; exact umDatetime_rt cal today h hm hlo hhi, rfl, by simp [decode]⟩

/-- `LeafLaws.rt` for `pyLeaves` on `S1`. -/
theorem pyLeaves_rt_temporal (cal : CalLaw) (env : Env) (today : Int) : ∀ s v, S1 s = true → hasScalar s v = true →
    ∃ m, (pyLeaves env today).mar s v = .ok m ∧ (pyLeaves env today).um s m = .ok v
      ∧ hashable m = true ∧ decode m ≠ .none := by
  intro s v hs hv
  by_cases h0 : S0 s = true
  · exact pyLeaves_rt env today s v h0 hv
  · cases s <;> simp [S1] at hs <;> simp [S0] at h0 <;> cases v <;> simp [hasScalar] at hv
    case date.date o => exact date_leaf_rt cal env today hv
    case datetime.datetime us off =>
      obtain ⟨⟨⟨h1, h2⟩, h3⟩, h4⟩ := hv
      exact datetime_leaf_rt cal env today h1 h2 h3 h4
    case time.time us off =>
      cases off with
      | none => simp at hv
      | some off =>
        simp only [Bool.and_eq_true, decide_eq_true_eq, beq_iff_eq] at hv
        obtain ⟨⟨⟨h1, h2⟩, h3⟩, h4⟩ := hv
        exact time_leaf_rt env today h1 h2 h3 h4
    case timedelta.timedelta us => exact timedelta_leaf_rt env today hv

/-- Pass-through: a valid value of a scalar type of `S1` is returned unchanged by its unmarshaller
    (for the temporal unmarshallers: the first match arm, a value of the target class). -/
theorem pyLeaves_pass_temporal (env : Env) (today : Int) : ∀ s v, S1 s = true → hasScalar s v = true →
    (pyLeaves env today).um s v = .ok v := by
  intro s v hs hv
  by_cases h0 : S0 s = true
  · exact pyLeaves_pass env today s v h0 hv
  · cases s <;> simp [S1] at hs <;> simp [S0] at h0 <;> cases v <;> simp [hasScalar] at hv
    all_goals simp [pyLeaves, pyUm, umDate, umDatetime, umTime, umTimedelta]

end Typelib
