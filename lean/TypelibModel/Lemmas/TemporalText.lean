/-
  Lemmas about the temporal text writers/readers of `Model/Temporal.lean` (served property: C04).
  Decimal numerals (`natStr`, `pad`) read back by `spanDigits`/`digitsVal`/`take2?`, the duration
  writer read back by `readDurMag?`, time-of-day and offset texts, the calendar law.
-/
import TypelibModel.Model.Temporal
import TypelibModel.Lemmas.LeafRT
namespace Typelib

/-! ### Decimal numerals -/

/-- The text does not continue a run of digits: it is empty or starts with a non-digit. -/
def stops : Str → Bool
  | [] => true
  | c :: _ => !isDigit c

theorem isDigit_of_mem_natStr {n : Nat} {c : Char} (h : c ∈ natStr n) : isDigit c = true :=
  Nat.isDigit_of_mem_toDigits (by decide) (by decide) h

theorem natStr_ne_nil (n : Nat) : natStr n ≠ [] := Nat.toDigits_ne_nil

theorem natStr_cons (n : Nat) : ∃ c cs, natStr n = c :: cs ∧ isDigit c = true ∧ ∀ d ∈ cs, isDigit d = true := by
  have h := natStr_ne_nil n
  have hd : ∀ c ∈ natStr n, isDigit c = true := fun c hc => isDigit_of_mem_natStr hc
  cases hs : natStr n with
  | nil => exact absurd hs h
  | cons c cs =>
    rw [hs] at hd
    exact ⟨c, cs, rfl, hd c (by simp), fun d hd' => hd d (by simp [hd'])⟩

theorem digitsVal_natStr (n : Nat) : digitsVal (natStr n) 0 = n := Nat.ofDigitChars_ten_toDigits

theorem spanDigits_stops {s : Str} (h : stops s = true) : spanDigits s = ([], s) := by
  cases s with
  | nil => rfl
  | cons c cs =>
    simp only [stops, Bool.not_eq_true'] at h
    simp [spanDigits, h]

theorem spanDigits_append {ds rest : Str} (hd : ∀ c ∈ ds, isDigit c = true) (hr : stops rest = true) :
    spanDigits (ds ++ rest) = (ds, rest) := by
  induction ds with
  | nil => simpa using spanDigits_stops hr
  | cons c cs ih =>
    have hc : isDigit c = true := hd c (by simp)
    have := ih (fun d hd' => hd d (by simp [hd']))
    simp [spanDigits, hc, this]

theorem spanDigits_natStr (n : Nat) {rest : Str} (hr : stops rest = true) :
    spanDigits (natStr n ++ rest) = (natStr n, rest) :=
  spanDigits_append (fun _ hc => isDigit_of_mem_natStr hc) hr

theorem dropWhile_digits_append {ds rest : Str} (hd : ∀ c ∈ ds, isDigit c = true) (hr : stops rest = true) :
    (ds ++ rest).dropWhile isDigit = rest := by
  induction ds with
  | nil =>
    cases rest with
    | nil => rfl
    | cons c cs =>
      simp only [stops, Bool.not_eq_true'] at hr
      simp [hr]
  | cons c cs ih =>
    have hc : isDigit c = true := hd c (by simp)
    have := ih (fun d hd' => hd d (by simp [hd']))
    simp [hc, this]

/-! ### Zero padding -/

theorem natStr_length_le {n w : Nat} (hw : 0 < w) (h : n < 10 ^ w) : (natStr n).length ≤ w :=
  (Nat.length_toDigits_le_iff (by decide) hw).2 h

theorem pad_length {n w : Nat} (hw : 0 < w) (h : n < 10 ^ w) : (pad w n).length = w := by
  have := natStr_length_le hw h
  simp only [pad, List.length_append, List.length_replicate]
  omega

theorem isDigit_of_mem_pad {w n : Nat} {c : Char} (h : c ∈ pad w n) : isDigit c = true := by
  simp only [pad, List.mem_append, List.mem_replicate] at h
  rcases h with ⟨_, rfl⟩ | h
  · rfl
  · exact isDigit_of_mem_natStr h

theorem digitsVal_pad (w n : Nat) : digitsVal (pad w n) 0 = n := by
  simp only [pad, digitsVal, Nat.ofDigitChars_append, Nat.ofDigitChars_replicate_zero, Nat.mul_zero]
  exact Nat.ofDigitChars_ten_toDigits

theorem fracMicros_pad6 {m : Nat} (h : m < 1000000) : fracMicros (pad 6 m) = m := by
  have hl : (pad 6 m).length = 6 := pad_length (by decide) (by simpa using h)
  have ht : (pad 6 m).take 6 = pad 6 m := by
    rw [List.take_of_length_le (by omega)]
  simp only [fracMicros, ht, hl, Nat.sub_self, List.replicate_zero, List.append_nil]
  exact digitsVal_pad 6 m

theorem digitVal_digitChar {k : Nat} (h : k < 10) : digitVal (Nat.digitChar k) = k :=
  Nat.toNat_digitChar_sub_48_of_lt_ten h

theorem isDigit_digitChar {k : Nat} (h : k < 10) : isDigit (Nat.digitChar k) = true := by
  simp [isDigit, Nat.isDigit_digitChar, h]

theorem pad2_eq {n : Nat} (h : n < 100) : pad 2 n = [Nat.digitChar (n / 10), Nat.digitChar (n % 10)] := by
  by_cases h10 : n < 10
  · have h0 : n / 10 = 0 := by omega
    have h1 : n % 10 = n := by omega
    simp [pad, natStr, Nat.toDigits_of_lt_base h10, h0, h1]
  · have hq : n / 10 < 10 := by omega
    simp [pad, natStr, Nat.toDigits_of_base_le (by decide : 1 < 10) (by omega : 10 ≤ n),
      Nat.toDigits_of_lt_base hq]

theorem take2?_pad2 {n : Nat} (h : n < 100) (rest : Str) : take2? (pad 2 n ++ rest) = some (n, rest) := by
  have hq : n / 10 < 10 := by omega
  have hr : n % 10 < 10 := by omega
  rw [pad2_eq h]
  simp only [List.cons_append, List.nil_append, take2?, isDigit_digitChar hq, isDigit_digitChar hr,
    Bool.and_self, if_true, digitVal_digitChar hq, digitVal_digitChar hr]
  congr 2
  omega

/-! ### Durations: `readDurMag?` reads `durMagText` back -/

theorem readUnit?_natStr (u : Char) (hu : isDigit u = false) (n : Nat) (rest : Str) :
    readUnit? u (natStr n ++ u :: rest) = some (n, rest) := by
  have hs : stops (u :: rest) = true := by simp [stops, hu]
  simp [readUnit?, spanDigits_natStr n hs, natStr_ne_nil, digitsVal_natStr]

theorem readUnit?_stops (u : Char) {s : Str} (h : stops s = true) : readUnit? u s = none := by
  simp only [readUnit?, spanDigits_stops h]
  cases s <;> simp

theorem readUnit?_other (u c : Char) (hc : isDigit c = false) (hne : c ≠ u) (n : Nat) (rest : Str) :
    readUnit? u (natStr n ++ c :: rest) = none := by
  have hs : stops (c :: rest) = true := by simp [stops, hc]
  simp [readUnit?, spanDigits_natStr n hs, hne]

/-- An optional `[n]u` component, as `readDurMag?` reads it. -/
def optUnit (u : Char) (s : Str) : Nat × Str :=
  match readUnit? u s with
  | some (d, r) => (d, r)
  | none => (0, s)

/-- The seconds tail of `readDurMag?`. -/
def readSecs? (base : Nat) (r4 : Str) : Option Nat :=
  match r4 with
  | [] => some base
  | _ =>
    let (sd, r5) := spanDigits r4
    if sd.isEmpty then none
    else match r5 with
      | ['S'] => some (base + digitsVal sd 0 * 1000000)
      | '.' :: r6 =>
        let (fd, r7) := spanDigits r6
        if r7 == ['S'] && !fd.isEmpty && fd.length ≤ 6 then
          some (base + digitsVal sd 0 * 1000000 + fracMicros fd)
        else none
      | _ => none

theorem readDurMag?_eq (r0 : Str) : readDurMag? ('P' :: r0) =
    match (optUnit 'D' r0).2 with
    | [] => if r0.isEmpty then none else some ((optUnit 'D' r0).1 * 86400000000)
    | 'T' :: r2 =>
      readSecs? ((optUnit 'D' r0).1 * 86400000000
          + ((optUnit 'H' r2).1 * 3600 + (optUnit 'M' (optUnit 'H' r2).2).1 * 60) * 1000000)
        (optUnit 'M' (optUnit 'H' r2).2).2
    | _ => none := by
  simp only [readDurMag?]
  delta optUnit readSecs?
  rfl

/-- The text of an optional component as the writer emits it. -/
def unitPart (u : Char) (n : Nat) : Str := if n == 0 then [] else natStr n ++ [u]

theorem optUnit_unitPart (u : Char) (hu : isDigit u = false) (n : Nat) (rest : Str)
    (hrest : readUnit? u rest = none) : optUnit u (unitPart u n ++ rest) = (n, rest) := by
  unfold unitPart
  by_cases h : n = 0
  · subst h
    simp [optUnit, hrest]
  · have : (n == 0) = false := by simpa using h
    simp only [this, Bool.false_eq_true, if_false, List.append_assoc, List.cons_append, List.nil_append]
    simp [optUnit, readUnit?_natStr u hu]

/-- The seconds component as the writer emits it. -/
def secPart (s f : Nat) : Str :=
  if f != 0 then natStr s ++ '.' :: pad 6 f ++ ['S']
  else if s == 0 then [] else natStr s ++ ['S']

theorem readUnit?_unitPart_other (u c : Char) (hc : isDigit c = false) (hne : c ≠ u) (n : Nat) (rest : Str)
    (hrest : readUnit? u rest = none) : readUnit? u (unitPart c n ++ rest) = none := by
  unfold unitPart
  by_cases h : n = 0
  · subst h; simpa using hrest
  · have : (n == 0) = false := by simpa using h
    simp only [this, Bool.false_eq_true, if_false, List.append_assoc, List.cons_append, List.nil_append]
    exact readUnit?_other u c hc hne n rest

theorem readUnit?_secPart (u : Char) (hS : 'S' ≠ u) (hdot : '.' ≠ u) (s f : Nat) : readUnit? u (secPart s f) = none := by
  unfold secPart
  split
  · simp only [List.append_assoc, List.cons_append]
    exact readUnit?_other u '.' (by decide) hdot s _
  · split
    · exact readUnit?_stops u rfl
    · exact readUnit?_other u 'S' (by decide) hS s _

theorem readSecs?_secPart (base s f : Nat) (hf : f < 1000000) :
    readSecs? base (secPart s f) = some (base + s * 1000000 + f) := by
  unfold secPart
  by_cases hf0 : f = 0
  · subst hf0
    by_cases hs0 : s = 0
    · subst hs0; simp [readSecs?]
    · have : (s == 0) = false := by simpa using hs0
      simp only [bne_self_eq_false, Bool.false_eq_true, if_false, this]
      obtain ⟨c, cs, hcs, _, _⟩ := natStr_cons s
      have hsp : spanDigits (natStr s ++ ['S']) = (natStr s, ['S']) := spanDigits_natStr s rfl
      have hne : natStr s ++ ['S'] ≠ [] := by simp
      unfold readSecs?
      split
      · contradiction
      · simp [hsp, natStr_ne_nil, digitsVal_natStr]
  · have : (f != 0) = true := by simpa using hf0
    simp only [this, if_true]
    have hsp : spanDigits (natStr s ++ '.' :: (pad 6 f ++ ['S'])) = (natStr s, '.' :: (pad 6 f ++ ['S'])) :=
      spanDigits_natStr s rfl
    have hsp2 : spanDigits (pad 6 f ++ ['S']) = (pad 6 f, ['S']) :=
      spanDigits_append (fun _ hc => isDigit_of_mem_pad hc) rfl
    have hl : (pad 6 f).length = 6 := pad_length (by decide) (by simpa using hf)
    have hpne : pad 6 f ≠ [] := by
      intro h; rw [h] at hl; cases hl
    have hne : natStr s ++ '.' :: (pad 6 f ++ ['S']) ≠ [] := by simp
    simp only [List.append_assoc, List.cons_append]
    unfold readSecs?
    split
    · contradiction
    · simp [hsp, hsp2, natStr_ne_nil, digitsVal_natStr, hl, hpne, fracMicros_pad6 hf]

/-- The duration text assembled from its components. -/
def durParts (d h m s f : Nat) : Str :=
  let datepart := unitPart 'D' d
  let timepart := unitPart 'H' h ++ unitPart 'M' m ++ secPart s f
  if timepart.isEmpty && !datepart.isEmpty then 'P' :: datepart
  else 'P' :: datepart ++ 'T' :: timepart

theorem durMagText_eq_durParts (us : Nat) :
    durMagText us = durParts (us / 86400000000) (us % 86400000000 / 1000000 / 3600)
      (us % 86400000000 / 1000000 % 3600 / 60) (us % 86400000000 / 1000000 % 3600 % 60)
      (us % 86400000000 % 1000000) := rfl

theorem readDurMag?_durParts (d h m s f : Nat) (hf : f < 1000000) :
    readDurMag? (durParts d h m s f) = some (d * 86400000000 + (h * 3600 + m * 60 + s) * 1000000 + f) := by
  unfold durParts
  simp only
  split
  · -- only a date part
    rename_i hc
    simp only [Bool.and_eq_true, List.isEmpty_iff, Bool.not_eq_true'] at hc
    obtain ⟨ht, hd⟩ := hc
    have hd0 : d ≠ 0 := by
      intro h0; subst h0; simp [unitPart] at hd
    simp only [List.append_eq_nil_iff] at ht
    obtain ⟨⟨hh, hm⟩, hs⟩ := ht
    have hh0 : h = 0 := by
      by_cases h0 : h = 0
      · exact h0
      · have : (h == 0) = false := by simpa using h0
        simp [unitPart, this, natStr_ne_nil] at hh
    have hm0 : m = 0 := by
      by_cases h0 : m = 0
      · exact h0
      · have : (m == 0) = false := by simpa using h0
        simp [unitPart, this, natStr_ne_nil] at hm
    have hsf : s = 0 ∧ f = 0 := by
      unfold secPart at hs
      by_cases hf0 : f = 0
      · subst hf0
        by_cases hs0 : s = 0
        · exact ⟨hs0, rfl⟩
        · have : (s == 0) = false := by simpa using hs0
          simp [this, natStr_ne_nil] at hs
      · have : (f != 0) = true := by simpa using hf0
        simp [this, natStr_ne_nil] at hs
    obtain ⟨hs0, hf0⟩ := hsf
    subst hh0 hm0 hs0 hf0
    have h1 := optUnit_unitPart 'D' (by decide) d [] (by rfl)
    simp only [List.append_nil] at h1
    have hne : (unitPart 'D' d).isEmpty = false := hd
    rw [readDurMag?_eq, h1]
    simp [hne]
  · rw [List.cons_append, readDurMag?_eq]
    have h1 := optUnit_unitPart 'D' (by decide) d ('T' :: (unitPart 'H' h ++ unitPart 'M' m ++ secPart s f))
      (readUnit?_stops 'D' rfl)
    have h3 : readUnit? 'H' (unitPart 'M' m ++ secPart s f) = none :=
      readUnit?_unitPart_other 'H' 'M' (by decide) (by decide) m _ (readUnit?_secPart 'H' (by decide) (by decide) s f)
    have h2 := optUnit_unitPart 'H' (by decide) h (unitPart 'M' m ++ secPart s f) h3
    have h4 := optUnit_unitPart 'M' (by decide) m (secPart s f) (readUnit?_secPart 'M' (by decide) (by decide) s f)
    simp only [List.append_assoc] at h1 h2 ⊢
    rw [h1]
    simp only [h2, h4, readSecs?_secPart _ s f hf]
    congr 1
    omega

theorem durmag_rt (n : Nat) : readDurMag? (durMagText n) = some n := by
  rw [durMagText_eq_durParts, readDurMag?_durParts _ _ _ _ _ (Nat.mod_lt _ (by decide))]
  congr 1
  omega

theorem durMagText_head (n : Nat) : ∃ r, durMagText n = 'P' :: r := by
  rw [durMagText_eq_durParts]
  unfold durParts
  simp only
  split <;> exact ⟨_, rfl⟩

/-- The sign-aware duration reader: what `parseTemporal?` does for a text starting with `P` or `-P`. -/
def readDur? (s : Str) : Option Int :=
  match s with
  | '-' :: 'P' :: _ =>
    match readDurMag? (s.drop 1) with
    | some m => some (-(m : Int))
    | none => none
  | 'P' :: _ =>
    match readDurMag? s with
    | some m => some (m : Int)
    | none => none
  | _ => none

theorem duration_rt (us : Int) : readDur? (durText us) = some us := by
  unfold durText
  split
  · rename_i hneg
    obtain ⟨r, hr⟩ := durMagText_head us.natAbs
    have h := durmag_rt us.natAbs
    rw [hr] at h ⊢
    simp only [readDur?, List.drop_succ_cons, List.drop_zero, h]
    congr 1
    omega
  · rename_i hpos
    obtain ⟨r, hr⟩ := durMagText_head us.toNat
    have h := durmag_rt us.toNat
    rw [hr] at h ⊢
    simp only [readDur?, h]
    congr 1
    omega

theorem parseTemporal?_of_readDur {s : Str} {us : Int} (h : readDur? s = some us) :
    parseTemporal? s = some (.duration us) := by
  unfold readDur? at h
  split at h
  · rename_i r
    have had : allDigits ('-' :: 'P' :: r) = false := by simp [allDigits, isDigit]
    simp only [parseTemporal?, had, Bool.false_eq_true, if_false]
    simp only [List.drop_succ_cons, List.drop_zero] at h ⊢
    split at h
    · rename_i m hm
      simp only [Option.some.injEq] at h
      simp [hm, h]
    · cases h
  · rename_i r
    have had : allDigits ('P' :: r) = false := by simp [allDigits, isDigit]
    simp only [parseTemporal?, had, Bool.false_eq_true, if_false]
    split at h
    · rename_i m hm
      simp only [Option.some.injEq] at h
      simp [hm, h]
    · cases h
  · cases h

theorem parseTemporal_dur (us : Int) : parseTemporal? (durText us) = some (.duration us) :=
  parseTemporal?_of_readDur (duration_rt us)

theorem umTimedelta_rt {us : Int} (h : tdOk us = true) :
    umTimedelta (.str (durText us)) = .ok (.timedelta us) := by
  simp [umTimedelta, secondsOf?, textOf?, parseTemporal_dur, h]

end Typelib
