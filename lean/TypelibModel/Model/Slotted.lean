/-
  Model of the bookkeeping of `typelib.py.classes.slotted` (src/typelib/py/classes.py:43-143).

  What is modelled (and tied to the real code by harness/props/c19.py on every run):
    * the class under decoration as a *description* (`Cls`): `repr(cls)` (the guard key), name /
      qualname / module, whether `dataclasses.fields(cls)` succeeds, the field names in order
      (inherited fields included, as `dataclasses.fields` returns them), the keys of `cls.__dict__`
      in order (so: which field names have a class-level default or a slot descriptor in the dict,
      whether `__getstate__` / `__setstate__` are defined by the class itself, whether the class already
      has a `__slots__` entry), whether a base other than `object` defines a state method, the
      `__slots__` of every class of `cls.mro()[1:]`, whether one of those
      classes has a non-zero `__dictoffset__` / `__weakrefoffset__`, the frozen flag of
      `__dataclass_params__`, and — for CPython's creation rule — the layout of `cls.__base__` (the
      "best base" of `type.__new__`): its dict / weakref offsets and whether it is variable-sized;
    * `slotsOf`   = the `__slots__` tuple computed at classes.py:107-112, in order;
    * `newDict`   = the keys of the namespace handed to the metaclass (classes.py:97-130);
    * `creationErr` = the part of `type.__new__` that looks at `__slots__`
      (Objects/typeobject.c `type_new_slots_impl`): nonempty slots on a variable-sized base,
      a `__dict__` / `__weakref__` slot the base already provides (or listed twice), a slot name
      that is still a key of the namespace.  NOT modelled: identifier check and private-name
      mangling of slot names (field names of a dataclass written in a class body are identifiers
      and already mangled), layout conflicts between several bases (same bases as the original
      class, which was created), `__init_subclass__` / `__set_name__` / anything else user code
      does during creation — that is the parameter `creationOk`;
    * the module-global re-entrancy guard `_stack` (classes.py:143) as the state `List Str`, and
      `wrap` / `_wrap` (classes.py:69-138) as `decorate` / `wrapInner`, including the `finally`
      clause; `decorateRe` is the same decoration under a metaclass whose `__new__` calls
      `slotted` again on the class it has just built (same repr) — what the guard is for.

  Outside the model: what a slot *is* (descriptors, instance layout), `pickle` / `copy`, the methods
  `dataclasses` generates.  The behavioural half of C19 is observed by the oracle, not proved.
-/
import TypelibModel.Model.Basic
namespace Typelib.Slotted
open Typelib

def kDict : Str := "__dict__".toList
def kWeakref : Str := "__weakref__".toList
def kSlots : Str := "__slots__".toList
def kSlotnames : Str := "__slotnames__".toList
def kGetstate : Str := "__getstate__".toList
def kSetstate : Str := "__setstate__".toList

/-- keyword arguments of `slotted` (classes.py:43-48; defaults `dict=False, weakref=True`). -/
structure Flags where
  dict : Bool := false
  weakref : Bool := true
  deriving DecidableEq, Repr, Inhabited

/-- Description of the class handed to `slotted`. -/
structure Cls where
  /-- `repr(cls)` — the key of the guard (classes.py:77) -/
  key : Str
  name : Str
  qualname : Str
  module : Str
  /-- `dataclasses.fields(cls)` does not raise (classes.py:107) -/
  isDataclass : Bool := true
  /-- names of `dataclasses.fields(cls)`, in order (inherited fields included) -/
  fields : List Str := []
  /-- keys of `cls.__dict__`, in order (classes.py:97) -/
  dictKeys : List Str := []
  /-- `getattr(b, "__slots__", ())` for every `b` of `cls.mro()[1:]` (classes.py:99-100) -/
  baseSlots : List (List Str) := []
  /-- `any(b.__dictoffset__ for b in cls.mro()[1:])` (classes.py:102) -/
  baseHasDict : Bool := false
  /-- `any(b.__weakrefoffset__ for b in cls.mro()[1:])` (classes.py:104) -/
  baseHasWeakref : Bool := false
  /-- `cls.__base__.__dictoffset__ != 0` — what `type.__new__` looks at (`may_add_dict`) -/
  solidDict : Bool := false
  /-- `cls.__base__.__weakrefoffset__ != 0` (`may_add_weak`) -/
  solidWeak : Bool := false
  /-- `cls.__base__.__itemsize__ != 0` (subclass of int / tuple / bytes) -/
  solidVar : Bool := false
  /-- `cls.__dataclass_params__.frozen` (classes.py:128) -/
  frozen : Bool := false
  /-- some class of `cls.__mro__[1:]` other than `object` has `__getstate__` or `__setstate__` in its
      `vars` (classes.py:125: `declared` ranges over the whole MRO but `object`) -/
  baseUserState : Bool := false
  /-- the class's own pre-existing `__slots__` (none when `"__slots__" ∉ cls.__dict__`); part of
      the description because the repaired code must ignore it (`cls.mro()[1:]`, classes.py:99) -/
  ownSlots : Option (List Str) := none
  deriving DecidableEq, Repr, Inhabited

/-! ### dictionaries as ordered key lists -/

/-- `d[k] = …` : a new key goes last, an existing key keeps its place. -/
def addKey (ks : List Str) (k : Str) : List Str := if k ∈ ks then ks else ks ++ [k]

def neKey (k x : Str) : Bool := !(x == k)

/-- `d.pop(k, None)` -/
def popKey (ks : List Str) (k : Str) : List Str := ks.filter (neKey k)

/-- `for f in names: d.pop(f, None)` (classes.py:115-116) -/
def popAll (ks names : List Str) : List Str := names.foldl popKey ks

def nonEmpty (s : Str) : Bool := !s.isEmpty

/-- `{f.name: ... for f in dataclasses.fields(cls) if f.name}` (classes.py:107) -/
def fieldKeys (c : Cls) : List Str := (c.fields.filter nonEmpty).foldl addKey []

/-- `field_names` after classes.py:108-111 -/
def fieldNames (c : Cls) (f : Flags) : List Str :=
  let a := fieldKeys c
  let b := if f.dict then addKey a kDict else a
  if f.weakref then addKey b kWeakref else b

/-- `inherited_slots` (classes.py:100-105), as a list standing for the set -/
def inheritedSlots (c : Cls) : List Str :=
  c.baseSlots.flatten ++ (if c.baseHasDict then [kDict] else []) ++ (if c.baseHasWeakref then [kWeakref] else [])

def notInherited (c : Cls) (n : Str) : Bool := !(inheritedSlots c).contains n

/-- `cls_dict["__slots__"]` (classes.py:112) -/
def slotsOf (c : Cls) (f : Flags) : List Str := (fieldNames c f).filter (notInherited c)

/-- the condition of classes.py:125-129: frozen, and neither state method is in `declared` — the names
    in `vars(k)` of the class itself (its ORIGINAL dict) and of every base but `object`. -/
def stateFix (c : Cls) : Bool :=
  c.frozen && !c.dictKeys.contains kGetstate && !c.dictKeys.contains kSetstate && !c.baseUserState

/-- keys of `cls_dict` when the new class is created (classes.py:97-130) -/
def newDict (c : Cls) (f : Flags) : List Str :=
  let d1 := addKey c.dictKeys kSlots
  let d2 := popAll d1 (fieldNames c f)
  let d3 := popKey (popKey (popKey d2 kDict) kWeakref) kSlotnames   -- classes.py: the stale copyreg cache is dropped too
  if stateFix c then addKey d3 kSetstate else d3

/-- Does this decoration install the pickle fix `_slots_setstate` as `__setstate__`? -/
def setstateFixed (c : Cls) (_f : Flags) : Bool := stateFix c

/-! ### CPython's rule for `__slots__` at class creation -/

inductive CErr
  | varsize      -- TypeError: nonempty __slots__ not supported for subtype of …
  | dictSlot     -- TypeError: __dict__ slot disallowed: we already got one
  | weakrefSlot  -- TypeError: __weakref__ slot disallowed: we already got one
  | conflict     -- ValueError: 'x' in __slots__ conflicts with class variable
  deriving DecidableEq, Repr, Inhabited

/-- `type_new_visit_slots`: a `__dict__` (`__weakref__`) slot is accepted once, and only when the
    best base does not provide one. -/
def visitSlots (mayD mayW : Bool) : List Str → Option CErr
  | [] => none
  | s :: rest =>
    if s = kDict then (if mayD then visitSlots false mayW rest else some .dictSlot)
    else if s = kWeakref then (if mayW then visitSlots mayD false rest else some .weakrefSlot)
    else visitSlots mayD mayW rest

def conflictsWith (dk : List Str) (s : Str) : Bool := !(s == kDict) && !(s == kWeakref) && dk.contains s

/-- `type_new_copy_slots`: a slot name (other than the two special ones) that is a key of the namespace. -/
def conflicts (slots dk : List Str) : Bool := slots.any (conflictsWith dk)

def creationErr (c : Cls) (slots dk : List Str) : Option CErr :=
  if !slots.isEmpty && c.solidVar then some .varsize
  else match visitSlots (!c.solidDict) (!c.solidWeak && !c.solidVar) slots with
    | some e => some e
    | none => if conflicts slots dk then some .conflict else none

/-- The decidable creation rule: `type.__new__` accepts these slots over this namespace. -/
def creationRule (c : Cls) (slots dk : List Str) : Bool := (creationErr c slots dk).isNone

/-! ### the decoration and the guard -/

structure Created where
  slots : List Str
  dict : List Str
  name : Str
  qualname : Str
  module : Str
  setstateFix : Bool
  deriving DecidableEq, Repr, Inhabited

inductive Outcome
  | created (r : Created)
  | metaclassError           -- the TypeError of classes.py:79-83
  | notDataclass             -- TypeError of `dataclasses.fields` (classes.py:107)
  | creationError (e : CErr) -- `type.__new__` rejects the slots (classes.py:133)
  | envError                 -- class creation raised for a reason outside `creationErr` (`creationOk = false`)
  deriving DecidableEq, Repr, Inhabited

def Outcome.isCreated : Outcome → Bool
  | .created _ => true
  | _ => false

/-- The module-global `_stack` (a set of reprs). -/
abbrev State := List Str

def guardAdd (st : State) (k : Str) : State := if k ∈ st then st else k :: st
def guardDiscard (st : State) (k : Str) : State := st.filter (neKey k)

/-- classes.py:133-135: the new class. -/
def build (c : Cls) (f : Flags) : Created :=
  { slots := slotsOf c f, dict := newDict c f, name := c.name, qualname := c.qualname,
    module := c.module, setstateFix := setstateFixed c f }

/-- `_wrap` (classes.py:76-138): guard state when `_wrap` returns or raises, and what it did. -/
def wrapInner (st : State) (c : Cls) (f : Flags) (creationOk : Bool) : State × Outcome :=
  if c.key ∈ st then (st, .metaclassError)
  else
    let st1 := guardAdd st c.key
    if !c.isDataclass then (st1, .notDataclass)
    else match creationErr c (slotsOf c f) (newDict c f) with
      | some e => (st1, .creationError e)
      | none => if creationOk then ([], .created (build c f)) else (st1, .envError)

/-- `wrap` (classes.py:69-74): `try: return _wrap(cls) finally: _stack.discard(repr(cls))`. -/
def decorate (st : State) (c : Cls) (f : Flags) (creationOk : Bool) : State × Outcome :=
  let r := wrapInner st c f creationOk
  (guardDiscard r.1 c.key, r.2)

/-- `_wrap` under a metaclass whose `__new__` builds the class with `type.__new__` and then calls
    `slotted` on it (same repr as the class being decorated): the inner call runs against the guard
    the outer one has set. -/
def wrapInnerRe (st : State) (c : Cls) (f : Flags) (creationOk : Bool) : State × Outcome :=
  if c.key ∈ st then (st, .metaclassError)
  else
    let st1 := guardAdd st c.key
    if !c.isDataclass then (st1, .notDataclass)
    else match creationErr c (slotsOf c f) (newDict c f) with
      | some e => (st1, .creationError e)
      | none =>
        let inner := decorate st1 c f creationOk
        if inner.2.isCreated then
          (if creationOk then ([], .created (build c f)) else (inner.1, .envError))
        else (inner.1, inner.2)          -- the inner exception propagates out of the class creation

def decorateRe (st : State) (c : Cls) (f : Flags) (creationOk : Bool) : State × Outcome :=
  let r := wrapInnerRe st c f creationOk
  (guardDiscard r.1 c.key, r.2)

/-- One decoration of a history. -/
structure Step where
  cls : Cls
  flags : Flags := {}
  creationOk : Bool := true
  /-- the class has the calling-back metaclass of `decorateRe` (false: plain metaclass) -/
  reentrant : Bool := false
  deriving DecidableEq, Repr, Inhabited

def stepRun (st : State) (s : Step) : State × Outcome :=
  if s.reentrant then decorateRe st s.cls s.flags s.creationOk else decorate st s.cls s.flags s.creationOk

/-- A history of top-level decorations: per step the outcome and the guard afterwards. -/
def run : State → List Step → List (Outcome × State)
  | _, [] => []
  | st, s :: rest => ((stepRun st s).2, (stepRun st s).1) :: run (stepRun st s).1 rest

/-- The decoration as it was without the `finally` clause (the guard is released on success only):
    used to show what the clause is for. -/
def runNoFinally : State → List Step → List (Outcome × State)
  | _, [] => []
  | st, s :: rest =>
    ((wrapInner st s.cls s.flags s.creationOk).2, (wrapInner st s.cls s.flags s.creationOk).1)
      :: runNoFinally (wrapInner st s.cls s.flags s.creationOk).1 rest

end Typelib.Slotted
