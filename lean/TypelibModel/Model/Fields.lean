/-
  Model of the FIELD SELECTION of `serdes._make_fields_iterator` (src/typelib/serdes.py:414-446) and
  of its memoised caller `get_items_iter` (serdes.py:376-407, last branch): which attribute names of
  a structured object are the keys of its (field, value) items.  Mappings, named tuples and iterables
  take other branches of `get_items_iter` and are not the subject of this file (Model/Serdes.lean).

  What is modelled (tied to the real code by harness/props/fields_corr.py on every run of C18):
    * the class as a *description* (`ClassShape`) of exactly what the function looks at:
        - `dataclasses.is_dataclass(tp)`  (= `hasattr(tp, "__dataclass_fields__")`, inherited too) and the
          entries of `tp.__dataclass_fields__` in order with their `_field_type`
          (`dataclasses.fields(tp)` keeps `_FIELD` only);
        - the result of `typing.get_type_hints(tp)` (resolved, whole MRO, base classes first; empty when
          there is nothing or when resolution raises NameError / TypeError, inspection.py:328-331), every
          hint reduced to what the code asks of it: is it the `KW_ONLY` sentinel (inspection.py:334),
          is it a `ClassVar` (`inspection.isclassvartype`, serdes.py:428);
        - `hasattr(tp, "__slots__")` and `list(tp.__slots__)`: ordinary attribute lookup, i.e. the
          `__slots__` of the NEAREST class of the MRO that defines one (serdes.py:431-432);
        - not read by the function, part of the description so that the theorems can talk about them:
          the names annotated by the class itself (`tp.__dict__["__annotations__"]`), the names annotated
          by the rest of its MRO, the `__slots__` of the classes behind the nearest one;
    * the instance as `instVars` = the keys of `vars(instance)` in order (serdes.py:444);
    * `makeIterator` = the function the real code returns (a closure over the attribute list, or the
      `vars()` reader); `get_items_iter` memoises it per class, so ONE `Iter` serves every instance:
      `selectAll`.  `selectNames c iv = (makeIterator c).run iv`.

  Outside the model: `getattr` on the selected names (the values), what `typing.get_type_hints` /
  `dataclasses` themselves do (CPython, trusted), `exhaustive=True` callers of `get_type_hints`.

  The section `Mutants` holds four WRONG implementations — the seeded changes C02f, C05f, C13f, C12f of
  /verif/seeded — used by Props/Fields.lean to show that its statements are not vacuous, and answered by
  the driver beside `selectNames` (harness demonstrations only; no check depends on them).
-/
import TypelibModel.Model.Basic
namespace Typelib.Fields
open Typelib

/-- `Field._field_type` (dataclasses.py: `_FIELD`, `_FIELD_CLASSVAR`, `_FIELD_INITVAR`). -/
inductive FieldKind
  | field | classVar | initVar
  deriving DecidableEq, Repr, Inhabited

/-- What the code distinguishes about a resolved hint. -/
inductive HintKind
  | inst       -- anything else: an instance attribute
  | classVar   -- `ClassVar` / `ClassVar[...]`
  | kwOnly     -- the `dataclasses.KW_ONLY` sentinel
  deriving DecidableEq, Repr, Inhabited

structure ClassShape where
  /-- `dataclasses.is_dataclass(tp)` (serdes.py:418) -/
  isDataclass : Bool := false
  /-- items of `tp.__dataclass_fields__`, in order (inherited entries first, as dataclasses builds it) -/
  dcFields : List (Str × FieldKind) := []
  /-- items of `typing.get_type_hints(tp)`, in order; `[]` when it raises NameError / TypeError -/
  hints : List (Str × HintKind) := []
  /-- names annotated by the classes of `tp.__mro__[1:]`, merged base-most first (first occurrence counts) -/
  baseAnnotations : List Str := []
  /-- names annotated by the class itself (`inspect.get_annotations(tp)`), in order -/
  ownAnnotations : List Str := []
  /-- `hasattr(tp, "__slots__")` (serdes.py:431) -/
  hasSlots : Bool := false
  /-- `list(tp.__slots__)`: the `__slots__` of the nearest class of the MRO that has one (serdes.py:432) -/
  slots : List Str := []
  /-- `__slots__` of the classes behind that one, base-most first -/
  baseSlots : List Str := []
  deriving DecidableEq, Repr, Inhabited

/-- `not name.startswith("_")` -/
def isPublic : Str → Bool
  | '_' :: _ => false
  | _ => true

def publicOf (xs : List Str) : List Str := xs.filter isPublic

/-! ### the two declaration branches (serdes.py:418-429) -/

def isFieldEntry (p : Str × FieldKind) : Bool := p.2 == .field

/-- names of `dataclasses.fields(tp)` -/
def dcNames (c : ClassShape) : List Str := (c.dcFields.filter isFieldEntry).map Prod.fst

/-- serdes.py:419-421 -/
def dcPublic (c : ClassShape) : List Str := publicOf (dcNames c)

def notKwOnly (p : Str × HintKind) : Bool := p.2 != .kwOnly

/-- `inspection.get_type_hints(tp, exhaustive=False)` (inspection.py:328-337) -/
def typeHints (c : ClassShape) : List (Str × HintKind) := c.hints.filter notKwOnly

/-- the condition of the comprehension at serdes.py:425-429 -/
def isInstHint (p : Str × HintKind) : Bool := isPublic p.1 && p.2 != .classVar

/-- serdes.py:424-429 -/
def hintPublic (c : ClassShape) : List Str := ((typeHints c).filter isInstHint).map Prod.fst

/-- `public_attribs` after serdes.py:418-429 -/
def declared (c : ClassShape) : List Str := if c.isDataclass then dcPublic c else hintPublic c

/-- `public_attribs` after serdes.py:431-432 -/
def attribs (c : ClassShape) : List Str :=
  if (declared c).isEmpty && c.hasSlots then publicOf c.slots else declared c

/-- What `_make_fields_iterator` returns: `_iterfields` closed over the names (serdes.py:435-440) or
    `_itervars` (serdes.py:443-446). -/
inductive Iter
  | fields (names : List Str)
  | vars
  deriving DecidableEq, Repr, Inhabited

def makeIterator (c : ClassShape) : Iter :=
  if (attribs c).isEmpty then .vars else .fields (attribs c)

/-- the keys the returned function yields for an instance whose `vars()` has the keys `instVars` -/
def Iter.run : Iter → List Str → List Str
  | .fields names, _ => names
  | .vars, instVars => publicOf instVars

/-- keys of `iteritems(instance)` for a structured object that is no mapping / named tuple / iterable -/
def selectNames (c : ClassShape) (instVars : List Str) : List Str := (makeIterator c).run instVars

/-- `get_items_iter` is `compat.cache`d: the iterator is made once per class and serves every instance. -/
def selectAll (c : ClassShape) (instances : List (List Str)) : List (List Str) :=
  instances.map (makeIterator c).run

/-- which source the names come from (reported by the driver; the harness needs it to know when `vars()`
    is called on an object without `__dict__`) -/
inductive Tier
  | declared | slots | vars
  deriving DecidableEq, Repr, Inhabited

def tierOf (c : ClassShape) : Tier :=
  if !(declared c).isEmpty then .declared
  else if c.hasSlots && !(publicOf c.slots).isEmpty then .slots
  else .vars

/-! ### what Python guarantees about a description -/

def keysOf {α : Type} (l : List (Str × α)) : List Str := l.map Prod.fst

/-- kind of a name according to the resolved hints -/
def kindOf (c : ClassShape) (x : Str) : Option HintKind := c.hints.lookup x

def notIn (xs : List Str) (x : Str) : Bool := !xs.contains x

/-- key order of a dict filled base-most class first: an overriding annotation keeps the place of the
    overridden one (`typing.get_type_hints`: `for base in reversed(cls.__mro__): hints[name] = value`) -/
def mergeDecl (base own : List Str) : List Str := base ++ own.filter (notIn base)

def nodupB : List Str → Bool
  | [] => true
  | x :: xs => !xs.contains x && nodupB xs

/-- Decidable well-formedness of a description: dict keys are distinct, and the resolved hints — when
    there are any — have the names of the MRO's annotations, base classes first, then the names the
    class adds. -/
def wf (c : ClassShape) : Bool :=
  nodupB (keysOf c.dcFields) && nodupB (keysOf c.hints)
    && nodupB c.baseAnnotations && nodupB c.ownAnnotations
    && (c.hints.isEmpty || keysOf c.hints == mergeDecl c.baseAnnotations c.ownAnnotations)

/-- An instance, as far as `getattr` is concerned: `attrs` = every name stored on it (filled slots of
    the whole MRO and keys of `vars()`).  `instOk`: what a constructor normally establishes — every
    declared instance field, every public slot the function would read and every key of `vars()` is
    stored. -/
def instOk (c : ClassShape) (instVars attrs : List Str) : Bool :=
  (declared c).all attrs.contains && (publicOf c.slots).all attrs.contains && instVars.all attrs.contains

/-- Instance storage the function does not read: with nothing declared, the object has public slots behind
    the nearest `__slots__`, or public `vars()` beside public slots.  (C18 excludes these classes from
    its quantifier — "only the most derived `__slots__` is read"; `Props/Fields.lean` proves `select_spec`
    outside this predicate and its negation inside, at a witness.) -/
def storageBeyondSlots (c : ClassShape) (instVars : List Str) : Bool :=
  (declared c).isEmpty &&
    (!(publicOf c.baseSlots).isEmpty
      || (c.hasSlots && !(publicOf c.slots).isEmpty && !(publicOf instVars).isEmpty))

/-! ### Mutants: the seeded regressions of this function, as models -/
section Mutants

/-- C02f: non-empty `__slots__` consulted first. -/
def slotsFirstAttribs (c : ClassShape) : List Str :=
  if c.hasSlots && !c.slots.isEmpty then publicOf c.slots else declared c

def slotsFirst (c : ClassShape) (instVars : List Str) : List Str :=
  if (slotsFirstAttribs c).isEmpty then publicOf instVars else slotsFirstAttribs c

/-- C05f: `tp.__dataclass_fields__` instead of `dataclasses.fields(tp)`. -/
def rawDcDeclared (c : ClassShape) : List Str :=
  if c.isDataclass then publicOf (keysOf c.dcFields) else hintPublic c

def rawDc (c : ClassShape) (instVars : List Str) : List Str :=
  let a := if (rawDcDeclared c).isEmpty && c.hasSlots then publicOf c.slots else rawDcDeclared c
  if a.isEmpty then publicOf instVars else a

def ownKept (c : ClassShape) (x : Str) : Bool := isPublic x && kindOf c x != some .classVar

/-- C13f: `inspect.get_annotations(tp)` — the class's own annotations only. -/
def ownOnlyDeclared (c : ClassShape) : List Str :=
  if c.isDataclass then dcPublic c else c.ownAnnotations.filter (ownKept c)

def ownOnly (c : ClassShape) (instVars : List Str) : List Str :=
  let a := if (ownOnlyDeclared c).isEmpty && c.hasSlots then publicOf c.slots else ownOnlyDeclared c
  if a.isEmpty then publicOf instVars else a

/-- C12f: `_itervars` fills the (empty) attribute list from the first instance and keeps it.
    State = the memo (`public_attribs` of the closure). -/
def memoStep (memo instVars : List Str) : List Str × List Str :=
  let m := if memo.isEmpty then publicOf instVars else memo
  (m, m)

def memoRun : List Str → List (List Str) → List (List Str)
  | _, [] => []
  | memo, iv :: rest => (memoStep memo iv).1 :: memoRun (memoStep memo iv).2 rest

def memoAll (c : ClassShape) (instances : List (List Str)) : List (List Str) :=
  match makeIterator c with
  | .fields names => instances.map (Iter.fields names).run
  | .vars => memoRun [] instances

end Mutants

end Typelib.Fields
