/-
  Model of `typelib.py.future` (src/typelib/py/future.py): the source-to-source rewriting of
  annotation expressions for interpreters without PEP 604 / PEP 585.

      transform(s) = ast.unparse(TransformAnnotation().generic_visit(ast.parse(s, mode="eval")))

  `Expr` is the syntax tree `ast.parse` produces (the node kinds the transformer treats specially are
  constructors of their own, every other node kind is `other tag children`: `generic_visit` only
  recurses into its children).  `rawTransform` is `TransformAnnotation` node by node;
  `normalize` is the effect of `ast.unparse` followed by a re-parse on the trees the transformer
  produces: the transformer creates `ast.Name` nodes whose id is a dotted path
  (`Name(id='typing.Union')`), which `ast.unparse` prints as `typing.Union` and which reads back
  as an `Attribute` chain.  The function under test maps strings to strings, so the model's
  `transform` is `normalize ∘ rawTransform` (tree of the output string).

  Imports nothing outside Init (linked natively into the driver).  Text is `List Char`.
-/
import TypelibModel.Model.Basic
namespace Typelib.Future
open Typelib

/-! ### Syntax trees -/

/-- `ast.operator` -/
inductive Op
  | add | sub | mult | matmult | div | mod | pow | lshift | rshift | bitor | bitxor | bitand | floordiv
  deriving DecidableEq, Repr, Inhabited

/-- `ast.unaryop` -/
inductive UOp | invert | not | uadd | usub
  deriving DecidableEq, Repr, Inhabited

/-- `ast.Constant.value`; `other` carries the `repr` of a float / complex / bytes constant. -/
inductive Const
  | str (s : Str) | int (i : Int) | none | ellipsis | bool (b : Bool) | other (repr : Str)
  deriving DecidableEq, Repr, Inhabited

/-- Expression nodes (all in `Load` context; `Store` targets of `:=` and comprehensions are outside
    the model, the driver answers `unsupported`).  `call`'s keywords are `other "keyword(arg=…)" [value]`
    nodes.  `other` is every node kind without a `visit_*` method: `generic_visit` maps over its
    child nodes and keeps everything else (`tag` = class name and non-node fields). -/
inductive Expr
  | name (id : Str)
  | attribute (value : Expr) (attr : Str)
  | subscript (value : Expr) (slice : Expr)
  | tuple (elts : List Expr)
  | list (elts : List Expr)
  | binop (op : Op) (left : Expr) (right : Expr)
  | unaryop (op : UOp) (operand : Expr)
  | constant (c : Const)
  | call (func : Expr) (args : List Expr) (keywords : List Expr)
  | other (tag : Str) (children : List Expr)
  deriving Repr, Inhabited

/-- `_GENERICS` (future.py:109-115); the live table is `Typelib.Gen.futureGenerics`. -/
abbrev Table := List (Str × Str)

def lookup : Table → Str → Option Str
  | [], _ => none
  | (k, v) :: t, x => if k = x then some v else lookup t x

def isKey (g : Table) (x : Str) : Bool := (lookup g x).isSome

/-- default of the `union` parameter, future.py:26/49 -/
def unionName : Str := "typing.Union".toList

/-! ### The transformer -/

/-- `visit_Name`, future.py:76-84. -/
def visitName (g : Table) (id : Str) : Expr :=
  match lookup g id with
  | some v => .name v
  | none => .name id

/-- The `ast.Subscript` built at future.py:67-71 (`ast.Index(value=x)` is `x` since 3.9). -/
def mkUnion (elts : List Expr) : Expr := .subscript (.name unionName) (.tuple elts)

/-- `isinstance(left, ast.BinOp) and isinstance(left.op, ast.BitOr)`, future.py:60 -/
def isPipe : Expr → Bool
  | .binop .bitor _ _ => true
  | _ => false

/-- The `while` loop of `visit_BinOp` (future.py:58-63) for the left operand: the operands of the
    left spine of `|`, leftmost first. -/
def collect : Expr → List Expr
  | .binop .bitor l r => collect l ++ [r]
  | e => [e]

/-- elements of a node built by `mkUnion` -/
def unionElts : Expr → List Expr
  | .subscript _ (.tuple es) => es
  | e => [e]

/-- `[self.visit(n) for n in collect l]` expressed through the already transformed `l`
    (`rl = visit l`): when `l` is itself a `|`, `visit l = mkUnion [visit n for n in collect l]`, so the
    visited spine is the element list of `rl`; otherwise the spine is `[l]`.  This keeps the
    recursion structural; `Typelib.C20.rawTransform_binop_code` proves the literal form
    `rawTransform g (l | r) = mkUnion ((collect l ++ [r]).map (rawTransform g))`. -/
def spineOf (l rl : Expr) : List Expr := if isPipe l then unionElts rl else [rl]

mutual
/-- `TransformAnnotation.visit`, future.py:46-106. -/
def rawTransform (g : Table) : Expr → Expr
  | .name id => visitName g id                                                -- visit_Name
  | .attribute v a => .attribute (rawTransform g v) a                         -- generic_visit
  | .subscript v s => .subscript (rawTransform g v) (rawTransform g s)        -- visit_Subscript :86-97
  | .tuple es => .tuple (rawTransformL g es)                                  -- visit_Tuple :99-106
  | .list es => .list (rawTransformL g es)                                    -- generic_visit
  | .binop op l r =>                                                          -- visit_BinOp :52-74
    if op = .bitor then mkUnion (spineOf l (rawTransform g l) ++ [rawTransform g r])
    else .binop op (rawTransform g l) (rawTransform g r)                      -- :55-56 generic_visit
  | .unaryop op e => .unaryop op (rawTransform g e)                           -- generic_visit
  | .constant c => .constant c
  | .call f as ks => .call (rawTransform g f) (rawTransformL g as) (rawTransformL g ks)
  | .other tag cs => .other tag (rawTransformL g cs)
termination_by structural e => e
def rawTransformL (g : Table) : List Expr → List Expr
  | [] => []
  | e :: es => rawTransform g e :: rawTransformL g es
termination_by structural es => es
end

/-! ### unparse → parse on dotted `Name` ids -/

/-- `"a.b.c"` ↦ `("a", ["b", "c"])` -/
def splitDots : Str → Str × List Str
  | [] => ([], [])
  | c :: cs =>
    if c = '.' then ([], (splitDots cs).1 :: (splitDots cs).2)
    else (c :: (splitDots cs).1, (splitDots cs).2)

def dotless (s : Str) : Bool := s.all (fun c => decide (c ≠ '.'))

/-- `a.b.c` parses as `Attribute(Attribute(Name a, b), c)` -/
def attrChain (h : Str) (t : List Str) : Expr := t.foldl Expr.attribute (.name h)

def normName (id : Str) : Expr := attrChain (splitDots id).1 (splitDots id).2

mutual
/-- tree of `ast.parse(ast.unparse(e))`: every `Name` with a dotted id reads back as an
    `Attribute` chain, everything else as itself (trusted for the trees `ast.parse` yields, checked
    by the harness on every case). -/
def normalize : Expr → Expr
  | .name id => normName id
  | .attribute v a => .attribute (normalize v) a
  | .subscript v s => .subscript (normalize v) (normalize s)
  | .tuple es => .tuple (normalizeL es)
  | .list es => .list (normalizeL es)
  | .binop op l r => .binop op (normalize l) (normalize r)
  | .unaryop op e => .unaryop op (normalize e)
  | .constant c => .constant c
  | .call f as ks => .call (normalize f) (normalizeL as) (normalizeL ks)
  | .other tag cs => .other tag (normalizeL cs)
termination_by structural e => e
def normalizeL : List Expr → List Expr
  | [] => []
  | e :: es => normalize e :: normalizeL es
termination_by structural es => es
end

/-- `future.transform` on syntax trees: tree of the returned string. -/
def transform (g : Table) (e : Expr) : Expr := normalize (rawTransform g e)

/-! ### Observations -/

mutual
/-- no PEP 604 `|` anywhere outside constants -/
def noPipe : Expr → Bool
  | .name _ => true
  | .attribute v _ => noPipe v
  | .subscript v s => noPipe v && noPipe s
  | .tuple es => noPipeL es
  | .list es => noPipeL es
  | .binop op l r => decide (op ≠ .bitor) && noPipe l && noPipe r
  | .unaryop _ e => noPipe e
  | .constant _ => true
  | .call f as ks => noPipe f && noPipeL as && noPipeL ks
  | .other _ cs => noPipeL cs
termination_by structural e => e
def noPipeL : List Expr → Bool
  | [] => true
  | e :: es => noPipe e && noPipeL es
termination_by structural es => es
end

mutual
/-- the trees `ast.parse` can produce: `Name` ids are identifiers (no dot) -/
def wf : Expr → Bool
  | .name id => dotless id
  | .attribute v _ => wf v
  | .subscript v s => wf v && wf s
  | .tuple es => wfL es
  | .list es => wfL es
  | .binop _ l r => wf l && wf r
  | .unaryop _ e => wf e
  | .constant _ => true
  | .call f as ks => wf f && wfL as && wfL ks
  | .other _ cs => wfL cs
termination_by structural e => e
def wfL : List Expr → Bool
  | [] => true
  | e :: es => wf e && wfL es
termination_by structural es => es
end

mutual
/-- none of the constructs the transformer rewrites: no `|`, no `Name` of the table
    (and the tree is one `ast.parse` produces) -/
def noConstructs (g : Table) : Expr → Bool
  | .name id => dotless id && !isKey g id
  | .attribute v _ => noConstructs g v
  | .subscript v s => noConstructs g v && noConstructs g s
  | .tuple es => noConstructsL g es
  | .list es => noConstructsL g es
  | .binop op l r => decide (op ≠ .bitor) && noConstructs g l && noConstructs g r
  | .unaryop _ e => noConstructs g e
  | .constant _ => true
  | .call f as ks => noConstructs g f && noConstructsL g as && noConstructsL g ks
  | .other _ cs => noConstructsL g cs
termination_by structural e => e
def noConstructsL (g : Table) : List Expr → Bool
  | [] => true
  | e :: es => noConstructs g e && noConstructsL g es
termination_by structural es => es
end

/-! ### Denotation: the structure of the type an annotation evaluates to -/

/-- Origin and arguments, recursively (`typing.get_origin` / `typing.get_args`).  `atom` is a
    (dotted) name up to the aliasing of the table; `opaque` is a non-annotation node. -/
inductive TyStruct
  | atom (path : List Str)
  | const (c : Const)
  | app (origin : TyStruct) (args : List TyStruct)
  | union (members : List TyStruct)
  | list (elts : List TyStruct)
  | tuple (elts : List TyStruct)
  | opaque (tag : Str) (parts : List TyStruct)
  deriving Repr, Inhabited

def pathOf (s : Str) : List Str := (splitDots s).1 :: (splitDots s).2

/-- a builtin name of the table and its `typing` alias are the same origin -/
def canonHead (g : Table) (h : Str) : List Str :=
  match lookup g h with
  | some v => pathOf v
  | none => [h]

def unionPath : List Str := pathOf unionName

def isUnionOrigin : TyStruct → Bool
  | .atom p => p == unionPath || p == ["Union".toList]
  | _ => false

/-- `typing` flattens nested unions when the expression is evaluated -/
def members : TyStruct → List TyStruct
  | .union ms => ms
  | t => [t]

def flatMembers : List TyStruct → List TyStruct
  | [] => []
  | t :: ts => members t ++ flatMembers ts

/-- `X[a, b]` has the arguments `a, b`; `X[a]` has the argument `a` -/
def argsOf : TyStruct → List TyStruct
  | .tuple ts => ts
  | t => [t]

def attrT (t : TyStruct) (a : Str) : TyStruct :=
  match t with
  | .atom p => .atom (p ++ [a])
  | t => .opaque ('.' :: a) [t]

def subT (f : TyStruct) (args : List TyStruct) : TyStruct :=
  if isUnionOrigin f then .union (flatMembers args) else .app f args

def Op.tag : Op → Str
  | .add => "+".toList | .sub => "-".toList | .mult => "*".toList | .matmult => "@".toList
  | .div => "/".toList | .mod => "%".toList | .pow => "**".toList | .lshift => "<<".toList
  | .rshift => ">>".toList | .bitor => "|".toList | .bitxor => "^".toList | .bitand => "&".toList
  | .floordiv => "//".toList

def UOp.tag : UOp → Str
  | .invert => "~".toList | .not => "not".toList | .uadd => "u+".toList | .usub => "u-".toList

mutual
def denoteTy (g : Table) : Expr → TyStruct
  | .name id => .atom (canonHead g (splitDots id).1 ++ (splitDots id).2)
  | .attribute v a => attrT (denoteTy g v) a
  | .subscript v s => subT (denoteTy g v) (argsOf (denoteTy g s))
  | .tuple es => .tuple (denoteTyL g es)
  | .list es => .list (denoteTyL g es)
  | .binop op l r =>
    if op = .bitor then .union (members (denoteTy g l) ++ members (denoteTy g r))
    else .opaque op.tag [denoteTy g l, denoteTy g r]
  | .unaryop op e => .opaque op.tag [denoteTy g e]
  | .constant c => .const c
  | .call f as ks => .opaque "call".toList [denoteTy g f, .list (denoteTyL g as), .list (denoteTyL g ks)]
  | .other tag cs => .opaque tag (denoteTyL g cs)
termination_by structural e => e
def denoteTyL (g : Table) : List Expr → List TyStruct
  | [] => []
  | e :: es => denoteTy g e :: denoteTyL g es
termination_by structural es => es
end

/-! ### Soundness of the identification made by `canonHead` -/

/-- CPython's `typing` aliases of the builtin generics (`typing.get_origin(typing.List) is list`, …;
    `Pattern` is `typing.Pattern` in the namespace `refs.evaluate` builds).  A fact about the
    interpreter, not about typelib: the harness re-checks every row on the running interpreter. -/
def typingAlias : Table :=
  [("dict".toList, "typing.Dict".toList), ("list".toList, "typing.List".toList),
   ("set".toList, "typing.Set".toList), ("frozenset".toList, "typing.FrozenSet".toList),
   ("tuple".toList, "typing.Tuple".toList), ("type".toList, "typing.Type".toList),
   ("Pattern".toList, "typing.Pattern".toList), ("Match".toList, "typing.Match".toList)]

/-- every pair of the table is a builtin name and *its* typing alias: identifying the two in
    `denoteTy` is sound -/
def aliasSound (g : Table) : Bool := g.all (fun kv => lookup typingAlias kv.1 == some kv.2)

/-! ### The annotation grammar -/

/-- a (dotted) name -/
def isDotted : Expr → Bool
  | .name id => dotless id
  | .attribute v _ => isDotted v
  | _ => false

/-- `Literal` / `typing.Literal` / `typing_extensions.Literal` -/
def isLiteralHead : Expr → Bool
  | .name id => id == "Literal".toList
  | .attribute _ a => a == "Literal".toList
  | _ => false

def isConstLike : Expr → Bool
  | .constant _ => true
  | .unaryop _ (.constant _) => true      -- `-1`
  | _ => false

/-- the slice of `Literal[...]`: constants only -/
def constOnly : Expr → Bool
  | .tuple es => es.all isConstLike
  | e => isConstLike e

/-- what may stand left or right of a PEP 604 `|`: a type expression, `None` or a forward reference -/
def isTypeOperand : Expr → Bool
  | .constant .none => true
  | .constant (.str _) => true
  | .constant _ => false
  | .tuple _ => false
  | .list _ => false
  | _ => true

mutual
/-- Annotation expressions: names, dotted names, constants (None, `...`, forward references, Literal and
    Annotated arguments), subscripts of (dotted) names by annotations / tuples of annotations / lists
    of annotations (`Callable[[...], r]`), `Literal[...]` with constants only, and `|` between type
    operands, nested in any way. -/
def annot : Expr → Bool
  | .name id => dotless id
  | .attribute v _ => isDotted v
  | .subscript v s => isDotted v && (if isLiteralHead v then constOnly s else annot s)
  | .tuple es => annotL es
  | .list es => annotL es
  | .binop op l r => decide (op = .bitor) && annot l && annot r && isTypeOperand l && isTypeOperand r
  | .unaryop _ e => isConstLike (.unaryop .usub e)          -- a signed constant (`Annotated[int, -3]`)
  | .constant _ => true
  | .call _ _ _ => false
  | .other _ _ => false
termination_by structural e => e
def annotL : List Expr → Bool
  | [] => true
  | e :: es => annot e && annotL es
termination_by structural es => es
end

end Typelib.Future
