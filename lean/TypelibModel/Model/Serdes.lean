/-
  Model of `typelib.serdes`: decode / load and the generic item / value iteration
  (`serdes.py` decode 65-86, load/strload 415-467, iteritems/itervalues/_is_iterable_of_pairs/
  get_items_iter/_make_fields_iterator 264-412), as of the repaired tree (known_findings.json).
-/
import TypelibModel.Model.Basic
namespace Typelib

/-- The leaf conversions the composite semantics is parametric in.  `sl` is `serdes.strload`
    on the text, `um`/`mar` the scalar routines.  The executable instance is `pyLeaves`
    (Model/Leaf.lean); theorems quantify over any `Leaves` satisfying the stated laws. -/
structure Leaves where
  sl  : Str → R Val
  um  : Scalar → Val → R Val
  mar : Scalar → Val → R Val

/-- `serdes.decode`: bytes-like ↦ str, everything else unchanged. -/
def decode : Val → Val
  | .text _ s => .str s
  | v => v

/-- The value of an enum member. -/
def memberValue (env : Env) (c i : Nat) : Option Val :=
  match env.cls c with
  | some ci => (ci.members[i]?).map Prod.snd
  | none => none

def isStrMixin (env : Env) (c : Nat) : Bool :=
  match env.cls c with
  | some ci => ci.mixin == .str
  | none => false

/-- `inspection.istexttype(val.__class__)`: str / bytes / bytearray / memoryview and subclasses
    (a member of a `str`-mixin enum is a `str`). -/
def isText (env : Env) : Val → Bool
  | .str _ => true
  | .text _ _ => true
  | .member c _ => isStrMixin env c
  | _ => false

/-- `serdes.load`: text-like inputs go through `strload`, anything else is returned unchanged. -/
def load (env : Env) (L : Leaves) : Val → R Val
  | .str s => L.sl s
  | .text _ s => L.sl s
  | .member c i =>
    if isStrMixin env c then
      match memberValue env c i with
      | some (.str s) => L.sl s
      | _ => .error .unsupported
    else .ok (.member c i)
  | v => .ok v

/-- The integer a value is numerically equal to, for the classes whose `==` with an `int` the model
    can decide: bool, int, integral float reprs, integral fractions, int-mixin enum members. -/
def intVal? (env : Env) : Val → Option Int
  | .bool b => some (if b then 1 else 0)
  | .int i => some i
  | .frac n d => if d == 1 then some n else none
  | .float r =>
    -- "123.0" / "-0.0"
    let (neg, body) := match r with
      | '-' :: b => (true, b)
      | b => (false, b)
    let ip := body.takeWhile (fun c => '0' ≤ c && c ≤ '9')
    if !ip.isEmpty && body.drop ip.length == ['.', '0'] then
      let n : Int := ip.foldl (fun a c => a * 10 + (c.toNat - '0'.toNat)) (0 : Nat)
      some (if neg then -n else n)
    else none
  | .member c i =>
    match env.cls c with
    | some ci =>
      if ci.mixin == .int then
        match (ci.members[i]?).map Prod.snd with
        | some (.int v) => some v
        | _ => none
      else none
    | none => none
  | _ => none

/-- Python `==` between a `Literal` / enum-value primitive `w` (None, bool, int or str) and an
    arbitrary value `v`; `none` where the model cannot decide it (Decimal against an int). -/
def pyEq? (env : Env) (w v : Val) : Option Bool :=
  match w with
  | .none => some (v == .none)
  | .str s =>
    match v with
    | .str t => some (s == t)
    | .member c i =>
      if isStrMixin env c then
        match memberValue env c i with
        | some (.str t) => some (s == t)
        | _ => none
      else some false
    | _ => some false
  | .bool _ | .int _ =>
    match v with
    | .dec _ => none
    | _ =>
      match intVal? env w, intVal? env v with
      | some a, some b => some (a == b)
      | _, _ => some false
  | _ => none

/-- `v in values` of the `Literal` routines (tuple membership is by `==`). -/
def pyMem? (env : Env) (v : Val) : List Val → Option Bool
  | [] => some false
  | w :: ws =>
    match pyEq? env w v with
    | none => none
    | some true => some true
    | some false => pyMem? env v ws

def isPrivate (n : Str) : Bool :=
  match n with
  | '_' :: _ => true
  | _ => false

def flavourOf (env : Env) (c : Nat) : Option Flavour := (env.cls c).map (·.flavour)

/-- Values that are not hashable: using one as a `dict` key / in `f in fields` raises TypeError. -/
def hashable : Val → Bool
  | .list _ | .dict _ | .set _ | .deque _ | .iter _ => false
  | _ => true

def enumerateFrom : Nat → List Val → List (Val × Val)
  | _, [] => []
  | n, x :: xs => (.int n, x) :: enumerateFrom (n + 1) xs

def chars (s : Str) : List Val := s.map fun c => .str [c]

/-- `itervalues`: `get_items_iter(cls)` then the second component. -/
def itervalues (env : Env) : Val → R (List Val)
  | .dict kvs => .ok (kvs.map Prod.snd)
  | .list xs | .tuple xs | .set xs | .frozenset xs | .deque xs | .iter xs => .ok xs
  | .str s => .ok (chars s)
  | .inst c fs =>
    match flavourOf env c with
    | some .namedtuple => .ok (fs.map Prod.snd)
    | some _ => .ok ((fs.filter fun f => !isPrivate f.1).map Prod.snd)
    | none => .error .unsupported
  | .member c i =>
    if isStrMixin env c then
      match memberValue env c i with
      | some (.str s) => .ok (chars s)
      | _ => .error .unsupported
    else .ok []          -- `vars(member)` holds private names only
  | .opaque _ => .ok []  -- `vars(obj)` of an attribute-less instance
  | .none | .bool _ | .int _ | .float _ | .dec _ | .frac _ _ | .path _ | .pattern _
  | .date _ | .datetime _ _ | .time _ _ | .timedelta _ => .error .type   -- `vars(x)` raises TypeError
  | .text _ _ | .uuid _ => .error .unsupported

/-- `iscollectiontype(peek.__class__) and len(peek) == 2`; `none` = outside the modelled fragment. -/
def pairShaped (env : Env) : Val → Option Bool
  | .list xs | .tuple xs | .deque xs | .set xs | .frozenset xs => some (xs.length == 2)
  | .str s => some (s.length == 2)
  | .dict kvs => some (kvs.length == 2)
  | .inst c fs =>
    match flavourOf env c with
    | some .namedtuple => some (fs.length == 2)
    | some _ => some false
    | none => none
  | .member c i =>
    if isStrMixin env c then
      match memberValue env c i with
      | some (.str s) => some (s.length == 2)
      | _ => none
    else some false
  | .text _ _ | .uuid _ | .iter _ => none
  | _ => some false

/-- What `for k, v in ...` binds when the item is `x`. -/
def unpackPair (env : Env) : Val → R (Val × Val)
  | .list [a, b] | .tuple [a, b] | .deque [a, b] => .ok (a, b)
  | .str [a, b] => .ok (.str [a], .str [b])
  | .dict [(a, _), (b, _)] => .ok (a, b)
  | .inst c [(_, a), (_, b)] =>
    match flavourOf env c with
    | some .namedtuple => .ok (a, b)
    | _ => .error .type
  | .list _ | .tuple _ | .deque _ | .str _ | .dict _ => .error .value    -- too many / not enough values
  | .set _ | .frozenset _ | .text _ _ | .uuid _ | .iter _ | .member _ _ => .error .unsupported
  | .inst c _ =>
    match flavourOf env c with
    | some .namedtuple => .error .value
    | _ => .error .type
  | _ => .error .type                                                     -- cannot unpack non-iterable

abbrev Item := R (Val × Val)

def itemsOfSeq (env : Env) (xs : List Val) : R (List Item) :=
  match xs with
  | [] => .ok []
  | x :: _ =>
    match pairShaped env x with
    | none => .error .unsupported
    | some true => .ok (xs.map (unpackPair env))
    | some false => .ok ((enumerateFrom 0 xs).map .ok)

/-- A set has no defined first element: only sets whose elements all have the same shape are modelled. -/
def itemsOfSet (env : Env) (xs : List Val) : R (List Item) :=
  match xs with
  | [] => .ok []
  | x :: _ =>
    if xs.all (fun y => pairShaped env y == pairShaped env x) then
      -- (index, element) pairs of a set depend on its hash order
      if pairShaped env x == some false && xs.length ≥ 2 then .error .unsupported
      else itemsOfSeq env xs
    else .error .unsupported

/-- `iteritems`: pairs of a mapping, (field, value) of a structured object or named tuple, the
    given pairs of an iterable of pairs, (index, element) otherwise.  Items are delivered
    lazily, so each carries its own unpacking outcome. -/
def iteritems (env : Env) : Val → R (List Item)
  | .dict kvs => .ok (kvs.map .ok)
  | .inst c fs =>
    match flavourOf env c with
    | some .namedtuple => .ok (fs.map fun f => .ok (.str f.1, f.2))
    | some _ => .ok ((fs.filter fun f => !isPrivate f.1).map fun f => .ok (.str f.1, f.2))
    | none => .error .unsupported
  | .list xs | .tuple xs | .deque xs | .iter xs => itemsOfSeq env xs
  | .set xs | .frozenset xs => itemsOfSet env xs
  | .str s => .ok ((enumerateFrom 0 (chars s)).map .ok)
  | .member c i =>
    if isStrMixin env c then
      match memberValue env c i with
      | some (.str s) => .ok ((enumerateFrom 0 (chars s)).map .ok)
      | _ => .error .unsupported
    else .ok []
  | .opaque _ => .ok []
  | .none | .bool _ | .int _ | .float _ | .dec _ | .frac _ _ | .path _ | .pattern _
  | .date _ | .datetime _ _ | .time _ _ | .timedelta _ => .error .type
  | .text _ _ | .uuid _ => .error .unsupported

end Typelib
