/-
  Core datatypes of the typelib model: errors, values, annotations, class environments.
  Imports nothing outside Init/Std so that the driver links natively (DESIGN.md §2.1).

  Text is `List Char` (abbrev `Str`) inside the model: core `String` functions do not reduce in
  the kernel (DESIGN.md §4.0); the driver converts at the boundary.
-/
namespace Typelib

abbrev Str := List Char

/-- Exception *classes* the library distinguishes, plus `unsupported`: the input lies outside the
    executable fragment of the model (never compared by the correspondence) and `fuel`:
    the model ran out of recursion fuel (the interpreter's RecursionError has no counterpart). -/
inductive Err
  | value | type | key | attribute | syntax | arithmetic | overflow
  | stopIteration | zeroDivision | recursion | other
  | unsupported | fuel
  deriving DecidableEq, Repr, Inhabited

abbrev R := Except Err

/-- Text carriers (`serdes.decode`): bytes, bytearray, memoryview over bytes / over bytearray. -/
inductive Carrier | bytes | bytearray | mview | mviewW
  deriving DecidableEq, Repr, Inhabited

/-- Python values as far as the properties speak about them.  `float` is identified by its
    shortest `repr`; `dec` by `str(Decimal)`; sets are lists (order and duplicates are
    canonicalised by the harness on both sides, DESIGN.md §5). -/
inductive Val
  | none
  | bool (b : Bool)
  | int (i : Int)
  | float (repr : Str)
  | str (s : Str)
  | text (c : Carrier) (s : Str)
  | list (xs : List Val)
  | tuple (xs : List Val)
  | set (xs : List Val)
  | frozenset (xs : List Val)
  | deque (xs : List Val)
  | dict (kvs : List (Val × Val))
  | dec (s : Str)
  | frac (n : Int) (d : Nat)
  | uuid (n : Nat)
  | path (s : Str)
  | pattern (s : Str)
  | date (ord : Int)
  | datetime (us : Int) (off : Int)
  | time (us : Nat) (off : Option Int)
  | timedelta (us : Int)
  | member (c : Nat) (i : Nat)
  | inst (c : Nat) (fs : List (Str × Val))
  | iter (xs : List Val)            -- a fresh one-shot iterator over xs
  | opaque (tag : Str)              -- instance of an unrelated attribute-less class
  deriving Repr, Inhabited

inductive Scalar
  | int | bool | float | str | decimal | fraction | uuid | path | pattern
  | date | datetime | time | timedelta | bytes
  deriving DecidableEq, Repr, Inhabited

/-- Result class of a homogeneous collection annotation after `inspection.origin`. -/
inductive Coll | list | set | frozenset | deque | vartuple
  deriving DecidableEq, Repr, Inhabited

inductive Wrapper | newtype | alias | final | classvar
  deriving DecidableEq, Repr, Inhabited

/-- Annotations of the universe U (DESIGN.md §3).  Spelling (`typing.List[int]` vs `list[int]`)
    is deliberately not represented: the harness varies it while the model term stays fixed. -/
inductive Ty
  | scalar (s : Scalar)
  | none
  | any
  | enum (c : Nat)
  | literal (vs : List Val)
  | coll (k : Coll) (e : Ty)
  | tuple (es : List Ty)
  | dict (k v : Ty)
  | union (ms : List Ty)
  | cls (c : Nat)
  | wrap (w : Wrapper) (t : Ty)
  deriving Repr, Inhabited

inductive Flavour | dataclass | namedtuple | typeddict | plain | slots
  deriving DecidableEq, Repr, Inhabited

inductive Mixin | none | int | str
  deriving DecidableEq, Repr, Inhabited

structure ClassInfo where
  flavour  : Flavour := .dataclass
  fields   : List (Str × Ty) := []
  required : List Str := []          -- TypedDict required keys / constructor params without default
  defaults : List (Str × Val) := []  -- constructor defaults (default_factory results as values)
  members  : List (Str × Val) := []  -- enum members (name, value)
  mixin    : Mixin := .none
  deriving Repr, Inhabited

abbrev Env := List ClassInfo

def Env.cls (env : Env) (c : Nat) : Option ClassInfo := env[c]?

/-! ### Structural boolean equality (hand-written: nested inductive, no derive handler) -/

mutual
  def Val.beq : Val → Val → Bool
    | .none, .none => true
    | .bool a, .bool b => a == b
    | .int a, .int b => a == b
    | .float a, .float b => a == b
    | .str a, .str b => a == b
    | .text c a, .text d b => c == d && a == b
    | .list a, .list b => Val.beqList a b
    | .tuple a, .tuple b => Val.beqList a b
    | .set a, .set b => Val.beqList a b
    | .frozenset a, .frozenset b => Val.beqList a b
    | .deque a, .deque b => Val.beqList a b
    | .dict a, .dict b => Val.beqPairs a b
    | .dec a, .dec b => a == b
    | .frac a b, .frac c d => a == c && b == d
    | .uuid a, .uuid b => a == b
    | .path a, .path b => a == b
    | .pattern a, .pattern b => a == b
    | .date a, .date b => a == b
    | .datetime a b, .datetime c d => a == c && b == d
    | .time a b, .time c d => a == c && b == d
    | .timedelta a, .timedelta b => a == b
    | .member a b, .member c d => a == c && b == d
    | .inst a fs, .inst b gs => a == b && Val.beqFields fs gs
    | .iter a, .iter b => Val.beqList a b
    | .opaque a, .opaque b => a == b
    | _, _ => false
  termination_by structural x => x
  def Val.beqList : List Val → List Val → Bool
    | [], [] => true
    | x :: xs, y :: ys => Val.beq x y && Val.beqList xs ys
    | _, _ => false
  termination_by structural x => x
  def Val.beqPairs : List (Val × Val) → List (Val × Val) → Bool
    | [], [] => true
    | (a, b) :: xs, (c, d) :: ys => Val.beq a c && Val.beq b d && Val.beqPairs xs ys
    | _, _ => false
  termination_by structural x => x
  def Val.beqFields : List (Str × Val) → List (Str × Val) → Bool
    | [], [] => true
    | (a, b) :: xs, (c, d) :: ys => a == c && Val.beq b d && Val.beqFields xs ys
    | _, _ => false
  termination_by structural x => x
end

instance : BEq Val := ⟨Val.beq⟩

/-- Exact (class-aware) membership, as `LiteralMarshaller` checks it. -/
def Val.exactMem (v : Val) (vs : List Val) : Bool := vs.any (fun w => w == v)

end Typelib
