/-
  Compositional semantics of the routine pair typelib builds for an annotation
  (`unmarshals/routines.py`, `marshals/routines.py` as of the repaired tree):
  `um env L fuel T x` is `unmarshal(T, x)`, `mar env L fuel T v` is `marshal(v, t=T)`.
  Recursion is structural on `fuel` (DESIGN.md §4.0); helpers over lists are higher-order.
-/
import TypelibModel.Model.Serdes
namespace Typelib

def mapR {α β : Type} (f : α → R β) : List α → R (List β)
  | [] => .ok []
  | x :: xs =>
    match f x with
    | .error e => .error e
    | .ok y =>
      match mapR f xs with
      | .error e => .error e
      | .ok ys => .ok (y :: ys)

/-- `zip(routines, values)` consumed left to right; stops at the shorter. -/
def zipR : List (Val → R Val) → List Val → R (List Val)
  | f :: fs, x :: xs =>
    match f x with
    | .error e => .error e
    | .ok y =>
      match zipR fs xs with
      | .error e => .error e
      | .ok ys => .ok (y :: ys)
  | _, _ => .ok []

/-- Is this error a *rejection* a union routine moves on from?  `unsupported` and `fuel` are
    artefacts of the model and must surface. -/
def Err.isRejection : Err → Bool
  | .unsupported | .fuel => false
  | _ => true

/-- The ordered try/suppress loop of both union routines; all members rejecting ⇒ ValueError. -/
def firstOk : List (Val → R Val) → Val → R Val
  | [], _ => .error .value
  | f :: fs, v =>
    match f v with
    | .ok r => .ok r
    | .error e => if e.isRejection then firstOk fs v else .error e

def mkColl : Coll → List Val → Val
  | .list, xs => .list xs
  | .set, xs => .set xs
  | .frozenset, xs => .frozenset xs
  | .deque, xs => .deque xs
  | .vartuple, xs => .tuple xs

/-- Does the member name None — directly or through an alias / NewType chain
    (`isnonetype(unwrap(a))`)? -/
def Ty.isNone : Ty → Bool
  | .none => true
  | .wrap _ t => Ty.isNone t
  | _ => false

/-- `inspection.isoptionaltype` on a union: some argument is None. -/
def nullable (ms : List Ty) : Bool := ms.any Ty.isNone

/-- Order in which `UnionUnmarshaller` tries its members: None first (wherever declared), the
    rest in declaration order. -/
def unionOrder (ms : List Ty) : List Ty :=
  if nullable ms then .none :: ms.filter (fun m => !m.isNone) else ms

def isMemberOf (c : Nat) : Val → Bool
  | .member c' _ => c' == c
  | _ => false

def findIdxFrom {α : Type} (p : α → Bool) : Nat → List α → Option Nat
  | _, [] => none
  | n, x :: xs => if p x then some n else findIdxFrom p (n + 1) xs

/-- `E(d)`: the first member whose value `==` d. -/
def lookupByValue (env : Env) (c : Nat) (d : Val) : Option Val :=
  match env.cls c with
  | some ci =>
    match findIdxFrom (fun m => (pyEq? env m.2 d).getD false) 0 ci.members with
    | some i => some (.member c i)
    | none => none
  | none => none

/-- `CastUnmarshaller` for an enum class (`unmarshals/routines.py:583-606`).  A member of a
    text-like target (`isinstance(val, E) and istexttype(E)`: a `str`-mixin enum) is returned
    before any decoding (9645d73); members of the other enums pass through `load` untouched and
    are caught by the `isinstance(decoded, E)` short-circuit. -/
def umEnum (env : Env) (L : Leaves) (c : Nat) (v : Val) : R Val :=
  if isMemberOf c v && isStrMixin env c then .ok v else
  match load env L v with
  | .error e => .error e
  | .ok d =>
  if isMemberOf c d then .ok d
  else match lookupByValue env c d with
    | some m => .ok m
    | none =>
      if isText env v then
        let t := decode v
        if isMemberOf c t then .ok t
        else match lookupByValue env c t with
          | some m => .ok m
          | none => .error .value
      else .error .value

def insertKw (k : Str) (v : Val) : List (Str × Val) → List (Str × Val)
  | [] => [(k, v)]
  | (k', v') :: rest => if k' == k then (k', v) :: rest else (k', v') :: insertKw k v rest

def lookupKw (k : Str) : List (Str × Val) → Option Val
  | [] => none
  | (k', v) :: rest => if k' == k then some v else lookupKw k rest

/-- `{f: fields[f](v) for f, v in items if f in fields}` with the items delivered lazily. -/
def buildKwargs (conv : Str → Option (Val → R Val)) : List Item → List (Str × Val) → R (List (Str × Val))
  | [], acc => .ok acc
  | it :: rest, acc =>
    match it with
    | .error e => .error e
    | .ok (k, v) =>
      if !hashable k then .error .type
      else match k with
        | .str name =>
          match conv name with
          | none => buildKwargs conv rest acc
          | some f =>
            match f v with
            | .error e => .error e
            | .ok r => buildKwargs conv rest (insertKw name r acc)
        | _ => buildKwargs conv rest acc

/-- The argument the constructor binds to field `f`: the keyword, else the default, else TypeError. -/
def fieldArg (ci : ClassInfo) (kw : List (Str × Val)) (f : Str × Ty) : R (Str × Val) :=
  match lookupKw f.1 kw with
  | some v => .ok (f.1, v)
  | none =>
    match lookupKw f.1 ci.defaults with
    | some d => .ok (f.1, d)
    | none => .error .type

/-- `t(**kwargs)` for dataclasses, named tuples and keyword-constructible classes. -/
def construct (ci : ClassInfo) (c : Nat) (kw : List (Str × Val)) : R Val :=
  match mapR (fieldArg ci kw) ci.fields with
  | .error e => .error e
  | .ok fs => .ok (.inst c fs)

def umStruct (env : Env) (c : Nat) (conv : Str → Option (Val → R Val)) (decoded : Val) : R Val :=
  match env.cls c with
  | none => .error .unsupported
  | some ci =>
    match iteritems env decoded with
    | .error e => .error e
    | .ok items =>
      match buildKwargs conv items [] with
      | .error e => .error e
      | .ok kw =>
        match ci.flavour with
        | .typeddict =>
          if ci.required.all (fun r => (lookupKw r kw).isSome) then
            .ok (.dict (kw.map fun p => (.str p.1, p.2)))
          else .error .type
        | _ => construct ci c kw

def convOf (fields : List (Str × Ty)) (f : Ty → Val → R Val) (name : Str) : Option (Val → R Val) :=
  match fields.find? (fun p => p.1 == name) with
  | some p => some (f p.2)
  | none => none

def fieldsOf (env : Env) (c : Nat) : List (Str × Ty) :=
  match env.cls c with
  | some ci => ci.fields
  | none => []

/-- `(keys(k), values(v))` for one delivered item; an unhashable converted key fails the dict build. -/
def convPair (fk fv : Val → R Val) (it : Item) : R (Val × Val) :=
  match it with
  | .error er => .error er
  | .ok (a, b) =>
    match fk a with
    | .error er => .error er
    | .ok a' =>
      match fv b with
      | .error er => .error er
      | .ok b' => if hashable a' then .ok (a', b') else .error .type

/-- `NoneTypeUnmarshaller`. -/
def umNone (v : Val) : R Val :=
  match decode v with
  | .none => .ok .none
  | _ => .error .value

/-- `UnionMarshaller`: None passes through when the union is nullable; otherwise the first accepting
    member in declaration order, the (no-op) routine of a None member excluded. -/
def marUnion (ms : List Ty) (f : Ty → Val → R Val) (v : Val) : R Val :=
  if nullable ms then
    match v with
    | .none => .ok .none
    | _ => firstOk ((ms.filter (fun m => !m.isNone)).map f) v
  else firstOk (ms.map f) v

/-- `unmarshal(T, x)`. -/
def um (env : Env) (L : Leaves) : Nat → Ty → Val → R Val
  | 0, _, _ => .error .fuel
  | n + 1, t, v =>
    match t with
    | .scalar s => L.um s v
    | .none => umNone v
    | .any => .ok v
    | .literal vs =>
      match pyMem? env v vs with
      | none => .error .unsupported
      | some true => .ok v
      | some false =>
        match pyMem? env (decode v) vs with
        | none => .error .unsupported
        | some true => .ok (decode v)
        | some false =>
        match load env L v with
        | .error er => .error er
        | .ok d =>
          match pyMem? env d vs with
          | none => .error .unsupported
          | some true => .ok d
          | some false => .error .value
    | .enum c => umEnum env L c v
    | .coll k e =>
      match (load env L v).bind (itervalues env) with
      | .error er => .error er
      | .ok xs =>
        match mapR (um env L n e) xs with
        | .error er => .error er
        | .ok ys => .ok (mkColl k ys)
    | .tuple es =>
      match (load env L v).bind (itervalues env) with
      | .error er => .error er
      | .ok xs =>
        match zipR (es.map (um env L n)) xs with
        | .error er => .error er
        | .ok ys => if ys.length == es.length then .ok (.tuple ys) else .error .value
    | .dict k e =>
      match (load env L v).bind (iteritems env) with
      | .error er => .error er
      | .ok items =>
        match mapR (convPair (um env L n k) (um env L n e)) items with
        | .error er => .error er
        | .ok kvs => .ok (.dict kvs)
    | .union ms => firstOk ((unionOrder ms).map (um env L n)) v
    | .cls c => (load env L v).bind (umStruct env c (convOf (fieldsOf env c) (um env L n)))
    | .wrap _ t' => um env L n t' v

/-- `marshal(v, t=T)`. -/
def mar (env : Env) (L : Leaves) : Nat → Ty → Val → R Val
  | 0, _, _ => .error .fuel
  | n + 1, t, v =>
    match t with
    | .scalar s => L.mar s v
    | .none =>
      match v with
      | .none => .ok .none
      | _ => .error .value
    | .any => .ok v
    | .literal vs => if Val.exactMem v vs then .ok v else .error .value
    | .enum _ =>
      match v with
      | .member c' i =>
        match memberValue env c' i with
        | some x => .ok x
        | none => .error .unsupported
      | _ => .error .attribute
    | .coll _ e =>
      match itervalues env v with
      | .error er => .error er
      | .ok xs =>
        match mapR (mar env L n e) xs with
        | .error er => .error er
        | .ok ys => .ok (.list ys)
    | .tuple es =>
      match itervalues env v with
      | .error er => .error er
      | .ok xs =>
        match zipR (es.map (mar env L n)) xs with
        | .error er => .error er
        | .ok ys => .ok (.list ys)
    | .dict k e =>
      match iteritems env v with
      | .error er => .error er
      | .ok items =>
        match mapR (convPair (mar env L n k) (mar env L n e)) items with
        | .error er => .error er
        | .ok kvs => .ok (.dict kvs)
    | .union ms => marUnion ms (mar env L n) v
    | .cls c =>
      match env.cls c with
      | none => .error .unsupported
      | some ci =>
        match iteritems env v with
        | .error er => .error er
        | .ok items =>
          -- `{f: fields[f](v) for f, v in iteritems(val) if f in fields}`: the same comprehension
          match buildKwargs (convOf ci.fields (mar env L n)) items [] with
          | .error er => .error er
          | .ok kw => .ok (.dict (kw.map fun p => (.str p.1, p.2)))
    | .wrap _ t' => mar env L n t' v

/-- Boolean comparison of outcomes (for `decide`-checked examples: the kernel evaluates it, whereas
    `rfl` on large model terms goes through the elaborator's much slower unifier). -/
def resEq : R Val → R Val → Bool
  | .ok a, .ok b => a == b
  | .error e, .error f => e == f
  | _, _ => false

end Typelib
