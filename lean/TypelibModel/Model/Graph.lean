/-
  Model of `typelib.graph` (C09): the breadth-first construction of the type graph
  (`get_type_graph`, graph.py:88-188) over an ABSTRACT annotation graph, and graphlib's
  `TopologicalSorter.static_order` (insertion-ordered Kahn) on the produced `add` calls.

  An annotation graph gives every type object an id (objects that are `==` / hash-equal share an id,
  exactly like the `visited` set and graphlib's dict identify them) and, per id, what the code asks
  about the object:

    named      `inspect.isclass(t) or istypealiastype(t) or hasattr(t, "__supertype__")`  graph.py:139-143
    stdlib     `isstdlibtype(unwrap(t))`                                                   graph.py:144
    leaf       `isliteral(unwrap(t)) or isunresolvable(unwrap(t))`                         graph.py:118-121
    unwrapped  id of `unwrap(t)`                                                            graph.py:131
    qualified  `not named and unwrap(t) is not t and inspect.isclass(unwrap(t))`: a qualified spelling of a
               class (`ClassVar[Node]`, `Final[Node]`)                                      graph.py:153-155
    ucls       `inspect.isclass(unwrap(t))`                                                 graph.py:171
    children   `_level(unwrap(t))` minus `constants.empty` / `typing.Any`                   graph.py:126-129

  The harness extracts this structure from the real objects with the real helpers, so the model runs on
  the real child relation.  Types are assumed hashable (an unhashable one raises TypeError at
  graph.py:138 before anything is built); `visited.add(unwrapped)` (graph.py:177-180) therefore always adds.
-/
import TypelibModel.Model.Basic
namespace Typelib.Graph

structure TyInfo where
  named : Bool
  qualified : Bool
  stdlib : Bool
  leaf : Bool
  unwrapped : Nat
  ucls : Bool
  children : List (Option Str × Nat)
  deriving Repr, DecidableEq

structure TyGraph where
  tys : List TyInfo
  deriving Repr

namespace TyGraph
variable (g : TyGraph)

def size : Nat := g.tys.length

def named (t : Nat) : Bool := match g.tys[t]? with | some i => i.named | none => false
def qualified (t : Nat) : Bool := match g.tys[t]? with | some i => i.qualified | none => false
def stdlib (t : Nat) : Bool := match g.tys[t]? with | some i => i.stdlib | none => false
def leaf (t : Nat) : Bool := match g.tys[t]? with | some i => i.leaf | none => false
def unw (t : Nat) : Nat := match g.tys[t]? with | some i => i.unwrapped | none => t
def ucls (t : Nat) : Bool := match g.tys[t]? with | some i => i.ucls | none => false

/-- The members the loop at graph.py:126 iterates over (none for literal / unresolvable parents). -/
def kids (t : Nat) : List (Option Str × Nat) :=
  match g.tys[t]? with
  | some i => if i.leaf then [] else i.children
  | none => []

/-- `can_be_cyclic` (graph.py:157): a named type, or a qualified spelling of a class, outside the standard library. -/
def cuttable (t : Nat) : Bool := (g.named t || g.qualified t) && !g.stdlib t

def kidTys (t : Nat) : List Nat := (g.kids t).map Prod.snd

end TyGraph

/-- `TypeNode` (graph.py:203): identity = (type, unwrapped, var, cyclic).
    `isRef`: the node is DEFERRED by a forward reference built by graph.py and not walked: either its `type`
    field is `ForwardRef(ty)` (graph.py:166, `qual = false`) or — for a qualified spelling of a class — it keeps
    the annotation `ty` itself as `type` and only its `unwrapped` field is `ForwardRef(unwrap(ty))`
    (graph.py:161-164, `qual = true`).  The abstract model keeps the ids of the types the references stand for;
    the harness checks `refs.evaluate` of the real references gives those objects. -/
structure Node where
  ty : Nat
  unwrapped : Nat
  var : Option Str
  cyclic : Bool
  isRef : Bool
  qual : Bool
  deriving Repr, DecidableEq

/-- `is_visited` (graph.py:138). -/
def seen (g : TyGraph) (vis : List Nat) (c : Nat) : Bool := vis.contains c || vis.contains (g.unw c)

/-- The deferred node of graph.py:160-175: for a qualified class the annotation itself with a reference to the
    class as `unwrapped`; otherwise a reference to the type, `uref` naming the unwrapped type only if it is a class. -/
def refNode (g : TyGraph) (v : Option Str) (c : Nat) : Node :=
  { ty := c, unwrapped := if g.qualified c then g.unw c else if g.ucls c then g.unw c else c, var := v,
    cyclic := true, isRef := true, qual := g.qualified c }

/-- The walked node of graph.py:181-184 (`cyclic = is_rewalk`). -/
def plainNode (g : TyGraph) (v : Option Str) (c : Nat) (cyc : Bool) : Node :=
  { ty := c, unwrapped := g.unw c, var := v, cyclic := cyc, isRef := false, qual := false }

/-- Result of the inner loop over one parent's members. -/
structure Exp where
  vis : List Nat
  preds : List Node
  pushed : List Node
  deriving Repr

/-- graph.py:126-184 for one parent: the members in order, threading `visited`. -/
def expand (g : TyGraph) : List Nat → List (Option Str × Nat) → Exp
  | vis, [] => { vis := vis, preds := [], pushed := [] }
  | vis, (v, c) :: rest =>
    if seen g vis c && g.cuttable c then
      let r := expand g vis rest
      { vis := r.vis, preds := refNode g v c :: r.preds, pushed := r.pushed }
    else
      let n := plainNode g v c (seen g vis c && !g.stdlib c)
      let r := expand g (vis ++ [c, g.unw c]) rest
      { vis := r.vis, preds := n :: r.preds, pushed := n :: r.pushed }

abbrev Adds := List (Node × List Node)

structure State where
  vis : List Nat
  queue : List Node
  adds : Adds
  deriving Repr

def rootNode (g : TyGraph) (root : Nat) : Node := plainNode g none root false

/-- graph.py:111-115. -/
def init (g : TyGraph) (root : Nat) : State :=
  { vis := [root, g.unw root], queue := [rootNode g root], adds := [] }

/-- One iteration of `while stack:` (graph.py:116-186) for the popped parent `p`. -/
def stepWith (g : TyGraph) (s : State) (p : Node) (rest : List Node) : State :=
  let r := expand g s.vis (g.kids p.ty)
  { vis := r.vis, queue := rest ++ r.pushed, adds := s.adds ++ [(p, r.preds)] }

/-- The loop with fuel: `none` = out of fuel (the real loop would not have finished in that many pops). -/
def run (g : TyGraph) : Nat → State → Option State
  | 0, s => match s.queue with
    | [] => some s
    | _ :: _ => none
  | f + 1, s => match s.queue with
    | [] => some s
    | p :: rest => run g f (stepWith g s p rest)

def build (g : TyGraph) (root : Nat) (fuel : Nat) : Option Adds :=
  (run g fuel (init g root)).map State.adds

/-! ### graphlib.TopologicalSorter (Lib/graphlib.py): `add`, `prepare`, `static_order` -/

def insertNew (l : List Node) (n : Node) : List Node := if l.contains n then l else l ++ [n]

def addNodes (acc : List Node) (a : Node × List Node) : List Node := a.2.foldl insertNew (insertNew acc a.1)

/-- Keys of `_node2info` in insertion order (`_get_nodeinfo`: the node first, then its predecessors). -/
def nodesOf (adds : Adds) : List Node := adds.foldl addNodes []

/-- `npredecessors` after all `add` calls (multi-edges count). -/
def npred (adds : Adds) (n : Node) : Nat :=
  ((adds.filter (fun a => a.1 == n)).map (fun a => a.2.length)).sum

/-- `successors` of a node, in the order they were appended. -/
def succs (adds : Adds) (n : Node) : List Node :=
  adds.flatMap (fun a => (a.2.filter (fun c => c == n)).map (fun _ => a.1))

/-- `done(node)`: decrement one successor; report whether it became ready. -/
def decr : List (Node × Nat) → Node → List (Node × Nat) × Bool
  | [], _ => ([], false)
  | (m, k) :: rest, s =>
    if m == s then ((m, k - 1) :: rest, k == 1)
    else let r := decr rest s; ((m, k) :: r.1, r.2)

def decrAll : List (Node × Nat) → List Node → List Node → List (Node × Nat) × List Node
  | cnt, [], newly => (cnt, newly)
  | cnt, s :: ss, newly =>
    let r := decr cnt s
    decrAll r.1 ss (if r.2 then newly ++ [s] else newly)

/-- `static_order`: ready nodes leave in the order they became ready (a batch of `get_ready` followed by
    `done` on each of its members, in order, is the same as a FIFO queue). -/
def kahn (adds : Adds) : Nat → List (Node × Nat) → List Node → List Node → List Node
  | 0, _, _, out => out
  | f + 1, cnt, ready, out =>
    match ready with
    | [] => out
    | n :: rest =>
      let r := decrAll cnt (succs adds n) []
      kahn adds f r.1 (rest ++ r.2) (out ++ [n])

/-- The sequence `static_order()` yields; `none` = `CycleError` (some node never becomes ready). -/
def staticOrder (adds : Adds) : Option (List Node) :=
  let ns := nodesOf adds
  let cnt := ns.map (fun n => (n, npred adds n))
  let ready := ns.filter (fun n => npred adds n == 0)
  let out := kahn adds (ns.length + 1) cnt ready []
  if out.length == ns.length then some out else none

/-- Boolean certificate that `o` is a topological order of the `add` calls (proved sound in Props/C09). -/
def checkTopo (adds : Adds) (o : List Node) : Bool :=
  decide o.Nodup
  && (nodesOf adds).all (fun n => o.contains n)
  && o.all (fun n => (nodesOf adds).contains n)
  && adds.all (fun a => a.2.all (fun c => decide (o.idxOf c < o.idxOf a.1)))

/-! ### Well-formedness of an annotation graph (decidable) -/

def notCut (g : TyGraph) (vc : Option Str × Nat) : Bool := !g.cuttable vc.2

/-- Members at which the walk is never cut. -/
def anonKids (g : TyGraph) (t : Nat) : List (Option Str × Nat) := (g.kids t).filter (notCut g)

def heightStep (h : Nat → Nat) (vc : Option Str × Nat) (acc : Nat) : Nat := max (h vc.2 + 1) acc

/-- Length of the longest path from `t` that never enters a cuttable type, explored to depth `k`. -/
def height (g : TyGraph) : Nat → Nat → Nat
  | 0, _ => 0
  | k + 1, t => (anonKids g t).foldr (heightStep (height g k)) 0

def rank (g : TyGraph) (t : Nat) : Nat := height g g.size t

def rankOKAt (g : TyGraph) (rk : Nat → Nat) (t : Nat) : Bool :=
  (g.kids t).all (fun vc => g.cuttable vc.2 || decide (rk vc.2 < rk t))

def stdlibClosedAt (g : TyGraph) (t : Nat) : Bool :=
  !g.stdlib t || (g.kids t).all (fun vc => g.stdlib vc.2)

def subKids (g : TyGraph) (a b : Nat) : Bool := (g.kidTys a).all (fun c => (g.kidTys b).contains c)

/-- `unwrap` is idempotent and a type has the member types of its unwrapped type (as sets: `unwrap` is
    memoised on `==`, and equal unions may list their members in different orders). -/
def unwOKAt (g : TyGraph) (t : Nat) : Bool :=
  subKids g (g.unw t) t && subKids g t (g.unw t) && g.unw (g.unw t) == g.unw t

/-- Every cycle of the member relation passes through a named or qualified non-stdlib type (certified by `rank`),
    members of stdlib types are stdlib types, `unwrap` is idempotent and members are those of the unwrapped type. -/
def wf (g : TyGraph) : Bool :=
  (List.range g.size).all (fun t => rankOKAt g (rank g) t && stdlibClosedAt g t && unwOKAt g t)

/-! ### Explicit fuel bound -/

def costOf (c : Nat → Nat) (vc : Option Str × Nat) : Nat := c vc.2

/-- Pops caused by one queue entry of type `t` if no further named type were cut (`k` = unfolding depth). -/
def cost (g : TyGraph) : Nat → Nat → Nat
  | 0, _ => 1
  | k + 1, t => 1 + ((anonKids g t).map (costOf (cost g k))).sum

def rankSum (g : TyGraph) (rk : Nat → Nat) : Nat := ((List.range g.size).map rk).sum

def costAll (g : TyGraph) (rk : Nat → Nat) : Nat :=
  1 + ((List.range g.size).map (cost g (rankSum g rk))).sum

/-- Enough fuel for the loop: (number of type ids + 1) × (1 + Σ_t cost t) + 1. -/
def fuelBound (g : TyGraph) : Nat := (g.size + 1) * costAll g (rank g) + 1

end Typelib.Graph
