/-
  Text helpers over `List Char`: decimal integers, Python's `int(str)` / `str(int)`, and the
  model of `serdes.strload` on an explicit fragment (JSON documents and plain words).
-/
import TypelibModel.Model.Basic
namespace Typelib

def natStr (n : Nat) : Str := Nat.toDigits 10 n

/-- `str(i)` for a Python int. -/
def intStr (i : Int) : Str :=
  match i with
  | .ofNat n => natStr n
  | .negSucc n => '-' :: natStr (n + 1)

/-- ASCII digit (core's `Char.isDigit`, so that the `Nat.toDigits` lemmas of core apply). -/
def isDigit (c : Char) : Bool := c.isDigit

def digitVal (c : Char) : Nat := c.toNat - '0'.toNat

/-- Value of a digit string continuing from `acc` (core's `Nat.ofDigitChars 10`, for which
    `Nat.ofDigitChars_ten_toDigits : ofDigitChars 10 (toDigits 10 n) 0 = n` is a library theorem). -/
def digitsVal (s : Str) (acc : Nat) : Nat := Nat.ofDigitChars 10 s acc

/-- Non-empty, all ASCII digits. -/
def allDigits (s : Str) : Bool := !s.isEmpty && s.all isDigit

def parseNat? (s : Str) : Option Nat := if allDigits s then some (digitsVal s 0) else none

def isAscii (s : Str) : Bool := s.all fun c => c.toNat < 128

def isPyWs (c : Char) : Bool :=
  c == ' ' || c == '\t' || c == '\n' || c == '\r' || c == '\x0b' || c == '\x0c'

def stripL : Str → Str
  | c :: cs => if isPyWs c then stripL cs else c :: cs
  | [] => []

def strip (s : Str) : Str := (stripL (stripL s).reverse).reverse

/-- Remove single underscores between digits (`int("1_000")`); `none` if misplaced. -/
def dropUnderscores : Str → Option Str
  | [] => some []
  | [c] => if isDigit c then some [c] else none
  | c :: '_' :: d :: rest =>
    if isDigit c && isDigit d then (dropUnderscores (d :: rest)).map (c :: ·) else none
  | c :: rest => if isDigit c then (dropUnderscores rest).map (c :: ·) else none

/-- Python's `int(s)` for ASCII text, base 10: surrounding whitespace, optional sign, digits with
    single underscores.  Outer `none`: outside the fragment (non-ASCII text, e.g. Unicode digits). -/
def pyIntOfStr (s : Str) : Option (Option Int) :=
  if !isAscii s then none else
  let t := strip s
  let (neg, body) :=
    match t with
    | '-' :: r => (true, r)
    | '+' :: r => (false, r)
    | r => (false, r)
  match dropUnderscores body with
  | some ds =>
    if ds.isEmpty then some none
    else
      let n := digitsVal ds 0
      some (some (if neg then -(n : Int) else (n : Int)))
  | none => some none

def hexVal? (c : Char) : Option Nat :=
  if isDigit c then some (digitVal c)
  else if 'a' ≤ c && c ≤ 'f' then some (c.toNat - 'a'.toNat + 10)
  else none

def hexDigit (n : Nat) : Char :=
  if n < 10 then Char.ofNat ('0'.toNat + n) else Char.ofNat ('a'.toNat + (n - 10))

def hexFixed : Nat → Nat → Str → Str
  | 0, _, acc => acc
  | w + 1, n, acc => hexFixed w (n / 16) (hexDigit (n % 16) :: acc)

def hexParse : Str → Nat → Option Nat
  | [], acc => some acc
  | c :: cs, acc =>
    match hexVal? c with
    | some d => hexParse cs (acc * 16 + d)
    | none => none

/-- `str(uuid.UUID(int=n))`: 8-4-4-4-12 lowercase hex. -/
def uuidStr (n : Nat) : Str :=
  let h := hexFixed 32 n []
  h.take 8 ++ '-' :: (h.drop 8).take 4 ++ '-' :: (h.drop 12).take 4 ++ '-' :: (h.drop 16).take 4
    ++ '-' :: h.drop 20

/-- The canonical text of a UUID, and nothing else. -/
def uuidParse? (s : Str) : Option Nat :=
  if s.length == 36 && s[8]? == some '-' && s[13]? == some '-' && s[18]? == some '-'
      && s[23]? == some '-' then
    hexParse (s.take 8 ++ (s.drop 9).take 4 ++ (s.drop 14).take 4 ++ (s.drop 19).take 4 ++ s.drop 24) 0
  else none

/-! ### JSON (the fragment of `strload` the model executes)

`strload(s)` = `json.loads(s)` if that succeeds, else `ast.literal_eval(s)` if that succeeds, else
`s`.  The executable model covers: JSON documents made of objects with string keys, arrays, strings
with the escapes `\" \\ \/ \b \f \n \r \t`, `true/false/null`, integers within 64 bits and float
tokens in plain decimal notation; and *plain words* — text that is provably neither JSON nor a
Python literal because its first non-blank character cannot start either (a letter other than the
keywords, handled conservatively).  Anything else is reported as outside the fragment. -/

inductive Tok
  | lbrace | rbrace | lbrack | rbrack | colon | comma
  | str (s : Str) | int (i : Int) | float (r : Str) | tru | fls | nul
  deriving Repr, Inhabited

def isJsonWs (c : Char) : Bool := c == ' ' || c == '\t' || c == '\n' || c == '\r'

/-- Read the body of a JSON string after the opening quote. -/
def lexString : Str → Str → Option (Str × Str)
  | [], _ => none
  | '"' :: rest, acc => some (acc.reverse, rest)
  | '\\' :: c :: rest, acc =>
    match c with
    | '"' => lexString rest ('"' :: acc)
    | '\\' => lexString rest ('\\' :: acc)
    | '/' => lexString rest ('/' :: acc)
    | 'b' => lexString rest ('\x08' :: acc)
    | 'f' => lexString rest ('\x0c' :: acc)
    | 'n' => lexString rest ('\n' :: acc)
    | 'r' => lexString rest ('\r' :: acc)
    | 't' => lexString rest ('\t' :: acc)
    | _ => none            -- \uXXXX is outside the fragment
  | c :: rest, acc => if c.toNat < 32 then none else lexString rest (c :: acc)

def spanDigits : Str → Str × Str
  | c :: cs => if isDigit c then let (a, b) := spanDigits cs; (c :: a, b) else ([], c :: cs)
  | [] => ([], [])

/-- A JSON number token: `-?(0|[1-9][0-9]*)(\.[0-9]+)?`; exponents are outside the fragment. -/
def lexNumber (s : Str) : Option (Tok × Str) :=
  let (neg, r) := match s with
    | '-' :: r => (true, r)
    | r => (false, r)
  let (ip, r1) := spanDigits r
  if ip.isEmpty then none
  else if ip.length > 1 && ip.head? == some '0' then none
  else match r1 with
    | '.' :: r2 =>
      let (fp, r3) := spanDigits r2
      if fp.isEmpty then none
      else match r3 with
        | 'e' :: _ | 'E' :: _ => none
        | _ => some (.float ((if neg then ['-'] else []) ++ ip ++ '.' :: fp), r3)
    | 'e' :: _ | 'E' :: _ => none
    | _ =>
      let n := digitsVal ip 0
      some (.int (if neg then -(n : Int) else n), r1)

def lexFuel : Nat → Str → List Tok → Option (List Tok)
  | 0, _, _ => none
  | _ + 1, [], acc => some acc.reverse
  | n + 1, c :: cs, acc =>
    if isJsonWs c then lexFuel n cs acc
    else match c with
      | '{' => lexFuel n cs (.lbrace :: acc)
      | '}' => lexFuel n cs (.rbrace :: acc)
      | '[' => lexFuel n cs (.lbrack :: acc)
      | ']' => lexFuel n cs (.rbrack :: acc)
      | ':' => lexFuel n cs (.colon :: acc)
      | ',' => lexFuel n cs (.comma :: acc)
      | '"' =>
        match lexString cs [] with
        | some (s, rest) => lexFuel n rest (.str s :: acc)
        | none => none
      | 't' => match cs with
        | 'r' :: 'u' :: 'e' :: rest => lexFuel n rest (.tru :: acc)
        | _ => none
      | 'f' => match cs with
        | 'a' :: 'l' :: 's' :: 'e' :: rest => lexFuel n rest (.fls :: acc)
        | _ => none
      | 'n' => match cs with
        | 'u' :: 'l' :: 'l' :: rest => lexFuel n rest (.nul :: acc)
        | _ => none
      | _ =>
        match lexNumber (c :: cs) with
        | some (t, rest) => lexFuel n rest (t :: acc)
        | none => none

def lex (s : Str) : Option (List Tok) := lexFuel (s.length + 1) s []

/-- orjson: integers beyond 64 bits are outside the fragment (they come back as floats). -/
def int64 (i : Int) : Bool := -9223372036854775808 ≤ i && i ≤ 18446744073709551615

/-- Later duplicates of an object key override earlier ones, keeping the first position. -/
def dedupKeys : List (Val × Val) → List (Val × Val) → List (Val × Val)
  | [], acc => acc
  | (k, v) :: rest, acc =>
    if acc.any (fun p => p.1 == k) then
      dedupKeys rest (acc.map fun p => if p.1 == k then (k, v) else p)
    else dedupKeys rest (acc ++ [(k, v)])

/-- Drop trailing zeros of a fraction, keeping at least one digit. -/
def trimFrac (fp : Str) : Str :=
  let t := (fp.reverse.dropWhile (· == '0')).reverse
  if t.isEmpty then ['0'] else t

/-- `repr(float(tok))` for a plain decimal token `-?int.frac` when that is certain: at most 15
    significant digits and a magnitude for which `repr` uses positional notation. -/
def normFloatTok (f : Str) : Option Str :=
  let (neg, r) := match f with
    | '-' :: r => (true, r)
    | r => (false, r)
  let (ip, r1) := spanDigits r
  match r1 with
  | '.' :: fp =>
    let fp' := trimFrac fp
    let ip' := let t := ip.dropWhile (· == '0'); if t.isEmpty then ['0'] else t
    let sig := (ip' ++ fp').dropWhile (· == '0')
    -- positional notation: 1e-4 <= |x| < 1e16 (or zero)
    let small := ip' == ['0'] && (fp'.takeWhile (· == '0')).length ≥ 4 && fp' != ['0']
    if sig.length ≤ 15 && ip'.length ≤ 16 && !small && fp.all isDigit && !fp.isEmpty then
      some ((if neg then ['-'] else []) ++ ip' ++ '.' :: fp')
    else none
  | _ => none

mutual
  /-- Parse one value; returns the value and the remaining tokens. -/
  def parseVal : Nat → List Tok → Option (Val × List Tok)
    | 0, _ => none
    | n + 1, toks =>
      match toks with
      | .nul :: r => some (.none, r)
      | .tru :: r => some (.bool true, r)
      | .fls :: r => some (.bool false, r)
      | .int i :: r => if int64 i then some (.int i, r) else none
      | .float f :: r =>
        match normFloatTok f with
        | some f' => some (.float f', r)
        | none => none
      | .str s :: r => some (.str s, r)
      | .lbrack :: .rbrack :: r => some (.list [], r)
      | .lbrack :: r =>
        match parseElems n r with
        | some (xs, r') => some (.list xs, r')
        | none => none
      | .lbrace :: .rbrace :: r => some (.dict [], r)
      | .lbrace :: r =>
        match parseMembers n r with
        | some (kvs, r') => some (.dict (dedupKeys kvs []), r')
        | none => none
      | _ => none
  def parseElems : Nat → List Tok → Option (List Val × List Tok)
    | 0, _ => none
    | n + 1, toks =>
      match parseVal n toks with
      | some (v, .comma :: r) =>
        match parseElems n r with
        | some (vs, r') => some (v :: vs, r')
        | none => none
      | some (v, .rbrack :: r) => some ([v], r)
      | _ => none
  def parseMembers : Nat → List Tok → Option (List (Val × Val) × List Tok)
    | 0, _ => none
    | n + 1, toks =>
      match toks with
      | .str k :: .colon :: r =>
        match parseVal n r with
        | some (v, .comma :: r') =>
          match parseMembers n r' with
          | some (kvs, r'') => some ((.str k, v) :: kvs, r'')
          | none => none
        | some (v, .rbrace :: r') => some ([(.str k, v)], r')
        | _ => none
      | _ => none
end

/-- `json.loads` on the fragment. `none`: not in the fragment *or* not JSON. -/
def jsonParse (s : Str) : Option Val :=
  match lex s with
  | some toks =>
    match parseVal (toks.length + 1) toks with
    | some (v, []) => some v
    | _ => none
  | none => none

def isAlpha (c : Char) : Bool := ('a' ≤ c && c ≤ 'z') || ('A' ≤ c && c ≤ 'Z')

/-- Text that neither `json.loads` nor `ast.literal_eval` accepts, decided conservatively:
    ASCII letters, digits, `_`, `-`, `.`, `/`, `:`, `+` and single inner spaces only, starting with a letter,
    containing at least one of `- / : .` followed by a non-digit … kept simple: a word of
    letters/digits/underscore starting with a letter is a Python *name*, which `literal_eval`
    rejects unless it is `None/True/False`; JSON rejects it unless it is `null/true/false`. -/
def isPlainWord (s : Str) : Bool :=
  match s with
  | c :: _ =>
    isAlpha c && s.all (fun d => isAlpha d || isDigit d || d == '_')
      && s != "None".toList && s != "True".toList && s != "False".toList
      && s != "null".toList && s != "true".toList && s != "false".toList
  | [] => false

/-- Result of the modelled `strload`; `none` = outside the executable fragment. -/
def strload? (s : Str) : Option Val :=
  match jsonParse s with
  | some v => some v
  | none =>
    if isPlainWord s then some (.str s)
    else if s == "None".toList then some .none
    else if s == "True".toList then some (.bool true)
    else if s == "False".toList then some (.bool false)
    else none

end Typelib
