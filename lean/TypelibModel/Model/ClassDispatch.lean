/-
  Model of CLASS DISPATCH: which routine a user-defined class gets from the ordered handler tables
  `_HANDLERS` of src/typelib/unmarshals/api.py:103-149 and src/typelib/marshals/api.py:109-151 (first
  predicate that holds wins, api.py:65-71; fallback `StructuredType(Un)marshaller`), which classes the
  graph walks into (`inspection.isstructuredtype`, inspection.py:1320-1351), and how `serdes.iteritems`
  reads an INSTANCE of the class (`_is_iterable_of_pairs`, serdes.py:333-351, `get_items_iter`,
  serdes.py:376-407) — all as a function of a FEATURE RECORD `Rec` of the class:

      flavour   what kind of class statement it is (dataclass, annotated, ..., subclass of a builtin)
      mapping   `collections.abc.Mapping` among its bases | `Mapping.register(C)` only | neither
      iter getitem keys len contains call next items
                the class body defines `__iter__`, `__getitem__`, `keys()`, `__len__`, `__contains__`,
                `__call__`, `__next__`, `items()`

  What is modelled (tied to the real code by harness/props/classdispatch_corr.py on every run of C03, for
  ALL records Python can realise):
    * the predicates of src/typelib/py/inspection.py the tables call, reduced to what they ask of a class:
      `issubclass(C, X)` for a builtin / stdlib X is a property of the flavour (what is in the MRO);
      `issubclass(C, Iterable)` is `Iterable.__subclasshook__`: some class of the MRO has `__iter__` in its
      `__dict__` (the flavour's base, the abstract `Mapping.__iter__`, or the body), OR the class is a virtual
      subclass of an ABC below Iterable (here: registered with Mapping); `issubclass(C, Iterator)` is
      `__iter__` and `__next__` in the MRO; `issubclass(C, Mapping)` has NO hook: a real or registered
      subclass only (or dict in the MRO).  `__getitem__`, `keys()`, `__len__`, `__contains__`, `__call__`,
      `items()` are looked at by NO predicate of the tables (theorems `*_irrelevant` of Props/ClassDispatch);
      `items()` only decides whether the mapping reading finds the method it calls;
    * the two tables as lists of (predicate, entry) rows in source order; rows that can never hold for a
      bare class (forward references, None, Literal, Union, the temporal / uuid / pattern / path / decimal /
      fraction classes, fixed tuples `tuple[X, Y]`, subscripted generics) are kept, with predicate `no`;
    * the table entries are NAMES of module `routines`; several are aliases of one class
      (`MappingUnmarshaller = CastUnmarshaller[Mapping]`, ...): `className` gives what
      `type(unmarshaller(C)).__name__` reports, `entryName` the name written in the table;
    * the instance: its class is the class itself, except for a TypedDict, whose instances are plain dicts
      (`instanceIsDict`; the methods of the class body do not exist on them).

  Outside the model: user classes registered with numbers.Number / derived from the stdlib classes with
  their own rows (datetime, Decimal, UUID, Path, ...), `__iter__ = None`, metaclass tricks, what the chosen
  routine then does (Model/Routine.lean), which names the `fields` reading selects (Model/Fields.lean).

  The section `Mutants` holds four WRONG variants — the seeded changes C03l, C05l, C18k, C18l of
  /verif/seeded — used by Props/ClassDispatch.lean to show that its statements are not vacuous.
-/
namespace Typelib.ClassDispatch

inductive ClassFlavour
  | dataclass    -- @dataclasses.dataclass class C: x: int = 0 ...
  | annotated    -- class C: x: int ...
  | initHinted   -- class C: def __init__(self, x: int, ...)
  | plain        -- class C: pass
  | typedNT      -- class C(typing.NamedTuple): x: int ...
  | collNT       -- class C(collections.namedtuple("B", [...])): ...
  | typedDict    -- class C(typing.TypedDict): x: int ...
  | enumPlain    -- class C(enum.Enum)
  | enumInt      -- class C(int, enum.Enum)
  | enumStr      -- class C(str, enum.Enum)
  | subInt | subStr | subFloat | subList | subDict | subTuple | subSet | subBytes | subComplex
  deriving DecidableEq, Repr, Inhabited

inductive MappingBase
  | none | inherits | registered
  deriving DecidableEq, Repr, Inhabited

structure Rec where
  flavour : ClassFlavour
  mapping : MappingBase
  iter : Bool
  getitem : Bool
  keys : Bool
  len : Bool
  contains : Bool
  call : Bool
  next : Bool
  items : Bool
  deriving DecidableEq, Repr, Inhabited

/-! ### what the flavour puts into the MRO -/

/-- The MRO (without `Mapping`) contains a class with `__iter__` in its `__dict__`: str, list, dict, tuple, set, bytes. -/
def ClassFlavour.hasIter : ClassFlavour → Bool
  | .subStr | .subList | .subDict | .subTuple | .subSet | .subBytes
  | .typedNT | .collNT | .typedDict | .enumStr => true
  | _ => false

/-- dict in the MRO. -/
def ClassFlavour.isDict : ClassFlavour → Bool
  | .subDict | .typedDict => true
  | _ => false

def ClassFlavour.isEnum : ClassFlavour → Bool
  | .enumPlain | .enumInt | .enumStr => true
  | _ => false

/-- A tuple subclass with `_fields` (`inspection.isnamedtuple`, inspection.py:1070). -/
def ClassFlavour.isNamedTuple : ClassFlavour → Bool
  | .typedNT | .collNT => true
  | _ => false

/-- `issubclass(resolve_supertype(C), STDLIB_TYPES_TUPLE)` (inspection.py:555): `complex` and `enum.Enum` are NOT in that tuple. -/
def ClassFlavour.isStdlibSub : ClassFlavour → Bool
  | .typedNT | .collNT | .typedDict | .enumInt | .enumStr
  | .subInt | .subStr | .subFloat | .subList | .subDict | .subTuple | .subSet | .subBytes => true
  | _ => false

/-! ### the predicates of inspection.py, for a class -/

/-- `__iter__` is found in the `__dict__` of some class of the MRO (`collections.abc._check_methods`). -/
def hasIter (r : Rec) : Bool := r.iter || r.flavour.hasIter || r.mapping == .inherits
/-- `__next__` likewise (no flavour of the universe brings one). -/
def hasNext (r : Rec) : Bool := r.next
/-- `items` is an attribute of the class (body, dict, or the mixin method of `Mapping`). -/
def hasItems (r : Rec) : Bool := r.items || r.flavour.isDict || r.mapping == .inherits

def isEnumType (r : Rec) : Bool := r.flavour.isEnum
/-- `issubclass(C, numbers.Number)`: int, float, complex are registered there.  IntEnum never gets here (enum row first). -/
def isNumberType (r : Rec) : Bool :=
  match r.flavour with | .subInt | .subFloat | .subComplex | .enumInt => true | _ => false
def isIntegerType (r : Rec) : Bool := match r.flavour with | .subInt | .enumInt => true | _ => false
def isFloatType (r : Rec) : Bool := match r.flavour with | .subFloat => true | _ => false
def isStringType (r : Rec) : Bool := match r.flavour with | .subStr | .enumStr => true | _ => false
def isBytesType (r : Rec) : Bool := match r.flavour with | .subBytes => true | _ => false
/-- class ∧ dict in the MRO ∧ `hasattr(C, "__total__")`. -/
def isTypedDict (r : Rec) : Bool := match r.flavour with | .typedDict => true | _ => false
/-- class ∧ tuple subclass ∧ non-empty `__annotations__`. -/
def isTypedTuple (r : Rec) : Bool := match r.flavour with | .typedNT => true | _ => false
def isNamedTuple (r : Rec) : Bool := r.flavour.isNamedTuple
/-- `issubclass(C, (dict, sqlite3.Row, MappingProxyType)) or issubclass(C, Mapping)` (inspection.py:919): no
    subclass hook on Mapping — a real base, a registration, or dict. -/
def isMappingType (r : Rec) : Bool := r.flavour.isDict || r.mapping != .none
/-- `issubclass(C, Iterable)`: the hook (`__iter__` in the MRO), or a virtual subclass of an ABC below Iterable. -/
def isIterableType (r : Rec) : Bool := hasIter r || r.mapping == .registered
/-- `issubclass(C, Iterator)`: the hook (`__iter__` and `__next__` in the MRO); Mapping is not below Iterator. -/
def isIteratorType (r : Rec) : Bool := hasIter r && hasNext r
/-- A row whose predicate cannot hold for a bare (unsubscripted, user-defined) class of the universe. -/
def no (_ : Rec) : Bool := false

/-! ### the tables -/

/-- Entries of the two tables (names of `routines` without the `Unmarshaller` / `Marshaller` suffix). -/
inductive Handler
  | delayed | noOp | noneType | literal | union | enum | dateTime | date | time | timeDelta | uuid | pattern
  | path | decimal | fraction | number | integer | float | string | bytes | structuredType | fixedTuple
  | subscriptedMapping | subscriptedIterator | subscriptedIterable | mapping | iterable
  deriving DecidableEq, Repr, Inhabited

abbrev Table := List ((Rec → Bool) × Handler)

/-- unmarshals/api.py:103-149, in source order. -/
def unmarshalTable : Table :=
  [ (no, .delayed), (no, .noOp) /- isunresolvable -/, (no, .noneType), (no, .literal), (no, .union),
    (isEnumType, .enum),
    (no, .dateTime), (no, .date), (no, .time), (no, .timeDelta), (no, .uuid), (no, .pattern), (no, .path),
    (no, .decimal), (no, .fraction),
    (isNumberType, .number), (isStringType, .string), (isBytesType, .bytes),
    (isTypedDict, .structuredType), (isTypedTuple, .structuredType), (isNamedTuple, .structuredType),
    (no, .fixedTuple), (no, .subscriptedMapping), (no, .subscriptedIterator), (no, .subscriptedIterable),
    (isMappingType, .mapping), (isIteratorType, .noOp), (isIterableType, .iterable) ]

/-- marshals/api.py:109-151, in source order: `isintegertype` / `isfloattype` instead of `isnumbertype`, no iterator rows. -/
def marshalTable : Table :=
  [ (no, .delayed), (no, .noOp), (no, .noneType), (no, .literal), (no, .union),
    (isEnumType, .enum),
    (no, .dateTime), (no, .date), (no, .time), (no, .timeDelta), (no, .uuid), (no, .pattern), (no, .path),
    (no, .decimal), (no, .fraction),
    (isIntegerType, .integer), (isFloatType, .float), (isStringType, .string), (isBytesType, .bytes),
    (isTypedDict, .structuredType), (isTypedTuple, .structuredType), (isNamedTuple, .structuredType),
    (no, .fixedTuple), (no, .subscriptedMapping), (no, .subscriptedIterable),
    (isMappingType, .mapping), (isIterableType, .iterable) ]

/-- `for check, cls in _HANDLERS.items(): if check(t): return cls(...)`, then the structured fallback. -/
def firstMatch : Table → Rec → Handler
  | [], _ => .structuredType
  | (p, h) :: rest, r => if p r then h else firstMatch rest r

def unmarshalHandler (r : Rec) : Handler := firstMatch unmarshalTable r
def marshalHandler (r : Rec) : Handler := firstMatch marshalTable r

inductive Dir | unmarshal | marshal
  deriving DecidableEq, Repr

def Handler.stem : Handler → String
  | .delayed => "Delayed" | .noOp => "NoOp" | .noneType => "NoneType" | .literal => "Literal" | .union => "Union"
  | .enum => "Enum" | .dateTime => "DateTime" | .date => "Date" | .time => "Time" | .timeDelta => "TimeDelta"
  | .uuid => "UUID" | .pattern => "Pattern" | .path => "Path" | .decimal => "Decimal" | .fraction => "Fraction"
  | .number => "Number" | .integer => "Integer" | .float => "Float" | .string => "String" | .bytes => "Bytes"
  | .structuredType => "StructuredType" | .fixedTuple => "FixedTuple" | .subscriptedMapping => "SubscriptedMapping"
  | .subscriptedIterator => "SubscriptedIterator" | .subscriptedIterable => "SubscriptedIterable"
  | .mapping => "Mapping" | .iterable => "Iterable"

def Dir.suffix : Dir → String
  | .unmarshal => "Unmarshaller" | .marshal => "Marshaller"

/-- The name written in the table. -/
def entryName (d : Dir) (h : Handler) : String := h.stem ++ d.suffix

/-- The class behind the name (`type(routine).__name__`): unmarshals/routines.py:230-233, 634-638
    (`Mapping/Iterable/EnumUnmarshaller = CastUnmarshaller[...]`, `Decimal/FractionUnmarshaller = NumberUnmarshaller[...]`),
    marshals/routines.py:111, 144-145, 160-172, 226-235. -/
def classStem : Dir → Handler → String
  | .unmarshal, .mapping | .unmarshal, .iterable | .unmarshal, .enum => "Cast"
  | .unmarshal, .decimal | .unmarshal, .fraction => "Number"
  | .marshal, .bytes => "NoOp"
  | .marshal, .integer | .marshal, .float => "Cast"
  | .marshal, .string | .marshal, .decimal | .marshal, .fraction | .marshal, .uuid | .marshal, .path => "ToString"
  | .marshal, .date | .marshal, .dateTime | .marshal, .time | .marshal, .timeDelta => "ToISOTime"
  | _, h => h.stem

def className (d : Dir) (h : Handler) : String := classStem d h ++ d.suffix

def unmarshallerName (r : Rec) : String := className .unmarshal (unmarshalHandler r)
def marshallerName (r : Rec) : String := className .marshal (marshalHandler r)

/-- `inspection.isstructuredtype(C)`: isfixedtupletype ∨ isnamedtuple ∨ istypeddict ∨ ¬ isstdlibsubtype(origin(C))
    (a class is neither a Union nor a Literal) — the graph walks the members of exactly these classes. -/
def walksMembers (r : Rec) : Bool := isNamedTuple r || isTypedDict r || !r.flavour.isStdlibSub

/-! ### how an instance is read (serdes.iteritems) -/

inductive Reading
  | mapping       -- `val.items()`                                  (serdes.py:401-402, 533)
  | namedFields   -- `zip(val._fields, val)`                        (serdes.py:403-404, 410-411)
  | iterable      -- the given pairs if the first element is a 2-element collection, else `enumerate(val)`  (serdes.py:343-351, 405-406)
  | fields        -- public declared fields / `__slots__` / `vars()` (serdes.py:407, 414-446; Model/Fields.lean)
  deriving DecidableEq, Repr, Inhabited

/-- `type(instance) is dict`: an "instance" of a TypedDict is a plain dict. -/
def instanceIsDict (r : Rec) : Bool := isTypedDict r

/-- The record of the CLASS OF THE INSTANCE: `dict` itself for a TypedDict (none of the body's methods, no registration). -/
def instanceClass (r : Rec) : Rec :=
  if instanceIsDict r then
    { flavour := .subDict, mapping := .none, iter := false, getitem := false, keys := false, len := false,
      contains := false, call := false, next := false, items := false }
  else r

/-- `_is_iterable_of_pairs` answers False for non-iterables, mappings and named tuples; otherwise it peeks — the
    `iterable` reading; then `get_items_iter`: mapping, named tuple, iterable, fields, in this order. -/
def readingOfClass (c : Rec) : Reading :=
  if isMappingType c then .mapping
  else if isNamedTuple c then .namedFields
  else if isIterableType c then .iterable
  else .fields

def reading (r : Rec) : Reading := readingOfClass (instanceClass r)

/-- The mapping reading calls a method the class does not have: AttributeError (a class only REGISTERED as a Mapping). -/
def itemsMissing (r : Rec) : Bool := reading r == .mapping && !hasItems (instanceClass r)

def Reading.name : Reading → String
  | .mapping => "mapping" | .namedFields => "namedFields" | .iterable => "iterable" | .fields => "fields"

/-! ### Mutants (seeded changes; NOT the library) -/
section Mutants

/-- C03l: `ismappingtype` also accepts every class that has `keys` and `__getitem__` (`{"keys", "__getitem__"} <= dir(C)`). -/
def isMappingType_C03l (r : Rec) : Bool :=
  isMappingType r || ((r.keys || r.flavour.isDict || r.mapping == .inherits)
                      && (r.getitem || r.mapping == .inherits
                          || (match r.flavour with
                              | .subStr | .subList | .subDict | .subTuple | .subBytes | .typedNT | .collNT | .typedDict | .enumStr => true
                              | _ => false)))

/-- C18k: `ismappingtype` scans the MRO for `collections.abc.Mapping` instead of `issubclass`: registrations are not seen. -/
def isMappingType_C18k (r : Rec) : Bool := r.flavour.isDict || r.mapping == .inherits

/-- C18l: `isiterabletype` also accepts every class with `__getitem__` in the `__dict__` of a class of its MRO. -/
def isIterableType_C18l (r : Rec) : Bool :=
  isIterableType r || r.getitem || r.mapping == .inherits
    || (match r.flavour with
        | .subStr | .subList | .subDict | .subTuple | .subBytes | .typedNT | .collNT | .typedDict | .enumStr => true
        | _ => false)

def tailRows (mp it ib : Rec → Bool) (un : Bool) : Table :=
  (mp, .mapping) :: (if un then [(it, Handler.noOp)] else []) ++ [(ib, .iterable)]

/-- Both tables with the three generic predicates replaced (the rows before them are untouched by these changes). -/
def unmarshalHandlerWith (mp it ib : Rec → Bool) (r : Rec) : Handler :=
  firstMatch (unmarshalTable.take 25 ++ tailRows mp it ib true) r
def marshalHandlerWith (mp ib : Rec → Bool) (r : Rec) : Handler :=
  firstMatch (marshalTable.take 25 ++ tailRows mp (fun _ => false) ib false) r

def readingWith (mp ib : Rec → Bool) (r : Rec) : Reading :=
  let c := instanceClass r
  if mp c then .mapping else if isNamedTuple c then .namedFields else if ib c then .iterable else .fields

/-- C05l: `isstructuredtype` is False for everything `iscallable` accepts — every class that defines `__call__`
    (named tuples and typed dicts are tested before). -/
def walksMembers_C05l (r : Rec) : Bool :=
  isNamedTuple r || isTypedDict r || (!r.call && !r.flavour.isStdlibSub)

end Mutants

end Typelib.ClassDispatch
