/-
  The executable leaf conversions (`pyLeaves`): the scalar unmarshallers
  (`unmarshals/routines.py:141-236, 505-603`) and marshallers (`marshals/routines.py:99-252`)
  on the fragment of inputs whose CPython conversion the model can state exactly; everything
  else is `unsupported` (counted by the correspondence, never compared).
-/
import TypelibModel.Model.Serdes
import TypelibModel.Model.Text
import TypelibModel.Model.Temporal
namespace Typelib

def isIntMixin (env : Env) (c : Nat) : Bool :=
  match env.cls c with
  | some ci => ci.mixin == .int
  | none => false

/-- Elements when the value is an iterable that is *not* text and not a mapping
    (`isiterabletype and not istexttype` in `NumberUnmarshaller`). -/
def seqElems (env : Env) : Val → Option (List Val)
  | .list xs | .tuple xs | .set xs | .frozenset xs | .deque xs | .iter xs => some xs
  | .inst c fs =>
    match flavourOf env c with
    | some .namedtuple => some (fs.map Prod.snd)
    | _ => none
  | _ => none

/-- Integer part of a positional float repr (`int(float)` truncates toward zero). -/
def floatTrunc? (r : Str) : Option Int :=
  let (neg, body) := match r with
    | '-' :: b => (true, b)
    | b => (false, b)
  let (ip, rest) := spanDigits body
  match rest with
  | '.' :: fp =>
    if !ip.isEmpty && allDigits fp then
      let n := digitsVal ip 0
      some (if neg then -(n : Int) else n)
    else none
  | _ => none

/-- `int(x)` for a single non-container argument. -/
def castInt (env : Env) : Val → R Val
  | .int i => .ok (.int i)
  | .bool b => .ok (.int (if b then 1 else 0))
  | .str s =>
    match pyIntOfStr s with
    | some (some i) => .ok (.int i)
    | some none => .error .value
    | none => .error .unsupported
  | .float r =>
    match floatTrunc? r with
    | some i => .ok (.int i)
    | none => .error .unsupported
  | .frac n d => .ok (.int (Int.tdiv n d))
  | .uuid n => .ok (.int n)
  | .member c i =>
    match memberValue env c i with
    | some (.int v) => if isIntMixin env c then .ok (.int v) else .error .type
    | some (.str s) =>
      if isStrMixin env c then
        match pyIntOfStr s with
        | some (some i) => .ok (.int i)
        | some none => .error .value
        | none => .error .unsupported
      else .error .type
    | _ => .error .type
  | .none | .path _ | .pattern _ | .date _ | .datetime _ _ | .time _ _ | .timedelta _
  | .opaque _ | .inst _ _ | .list _ | .tuple _ | .set _ | .frozenset _ | .deque _ | .dict _
  | .iter _ => .error .type
  | .dec _ | .text _ _ => .error .unsupported

/-- Seconds since the epoch as `unixtime()` returns them, truncated by `int()`; only where the
    float arithmetic is certainly exact (|seconds| < 2^32). -/
def unixSeconds? : Val → Option Int
  | .date o => some ((o - epochOrd) * 86400)
  | .datetime us _ => let s := Int.tdiv us 1000000; if s.natAbs < 4294967296 then some s else none
  | .timedelta us => let s := Int.tdiv us 1000000; if s.natAbs < 4294967296 then some s else none
  | _ => none

def isTemporal : Val → Bool
  | .date _ | .datetime _ _ | .time _ _ | .timedelta _ => true
  | _ => false

/-- `NumberUnmarshaller[int]`. -/
def umInt (env : Env) (v : Val) : R Val :=
  match decode v with
  | .int i => .ok (.int i)
  | .bool b => .ok (.bool b)                      -- isinstance(True, int)
  | .dict [] => .ok (.int 0)
  | .dict _ => .error .type
  | d =>
    match d with
    | .member c i =>
      if isIntMixin env c then .ok (.member c i) else castInt env d
    | _ =>
    if isTemporal d then
      match unixSeconds? d with
      | some s => .ok (.int s)
      | none => .error .unsupported
    else match seqElems env d with
      | some [] => .ok (.int 0)
      | some [x] => castInt env x
      | some [_, _] => .error .unsupported        -- int(x, base)
      | some _ => .error .type
      | none => castInt env d

/-- `CastMarshaller[int]`: `int(val)`. -/
def marInt (env : Env) (v : Val) : R Val :=
  match v with
  | .text _ _ => .error .unsupported
  | _ => castInt env v

/-- Python truthiness, `none` outside the fragment. -/
def truthy : Val → Option Bool
  | .none => some false
  | .bool b => some b
  | .int i => some (i != 0)
  | .float r => some (r != "0.0".toList && r != "-0.0".toList)
  | .str s => some (!s.isEmpty)
  | .text _ s => some (!s.isEmpty)
  | .list xs | .tuple xs | .set xs | .frozenset xs | .deque xs => some (!xs.isEmpty)
  | .dict kvs => some (!kvs.isEmpty)
  | .frac n _ => some (n != 0)
  | .timedelta us => some (us != 0)
  | .uuid _ | .path _ | .pattern _ | .date _ | .datetime _ _ | .time _ _ | .opaque _ | .iter _ => some true
  | .dec _ | .member _ _ | .inst _ _ => none

def umBool (env : Env) (v : Val) : R Val :=
  match decode v with
  | .bool b => .ok (.bool b)
  | .dict [] => .ok (.bool false)
  | .dict _ => .error .type
  | d =>
    if isTemporal d then .error .unsupported
    else match seqElems env d with
      | some [] => .ok (.bool false)
      | some [x] =>
        match truthy x with
        | some b => .ok (.bool b)
        | none => .error .unsupported
      | some _ => .error .type
      | none =>
        match truthy d with
        | some b => .ok (.bool b)
        | none => .error .unsupported

def marBool (v : Val) : R Val :=
  match truthy v with
  | some b => .ok (.bool b)
  | none => .error .unsupported

/-- `repr(float(i))` where that is certain. -/
def floatOfInt? (i : Int) : Option Str :=
  if i.natAbs < 1000000000000000 then some (intStr i ++ ".0".toList) else none

/-- `float(s)` for text in plain decimal notation with at most 15 significant digits. -/
def floatOfStr? (s : Str) : Option (Option Str) :=
  if !isAscii s then none else
  let t := strip s
  let t := match t with
    | '+' :: r => r
    | r => r
  let body := match t with
    | '-' :: r => r
    | r => r
  if allDigits body then
    -- integer text
    match pyIntOfStr t with
    | some (some i) => (floatOfInt? i).map some
    | _ => none
  else match normFloatTok t with
    | some r => some (some r)
    | none =>
      -- certainly not a float: only letters (but not inf/nan/infinity) …
      if isPlainWord t && t.map Char.toLower != "inf".toList && t.map Char.toLower != "nan".toList
          && t.map Char.toLower != "infinity".toList then some none
      else if t.isEmpty then some none
      else none

def castFloat : Val → R Val
  | .float r => .ok (.float r)
  | .int i =>
    match floatOfInt? i with
    | some r => .ok (.float r)
    | none => .error .unsupported
  | .bool b => .ok (.float (if b then "1.0".toList else "0.0".toList))
  | .str s =>
    match floatOfStr? s with
    | some (some r) => .ok (.float r)
    | some none => .error .value
    | none => .error .unsupported
  | .none | .path _ | .pattern _ | .date _ | .datetime _ _ | .time _ _ | .timedelta _
  | .opaque _ | .inst _ _ | .list _ | .tuple _ | .set _ | .frozenset _ | .deque _ | .dict _
  | .iter _ | .uuid _ => .error .type
  | _ => .error .unsupported

def umFloat (env : Env) (v : Val) : R Val :=
  match decode v with
  | .float r => .ok (.float r)
  | .dict [] => .ok (.float "0.0".toList)
  | .dict _ => .error .type
  | d =>
    if isTemporal d then .error .unsupported
    else match seqElems env d with
      | some [] => .ok (.float "0.0".toList)
      | some [x] => castFloat x
      | some _ => .error .type
      | none => castFloat d

def marFloat (v : Val) : R Val :=
  match v with
  | .text _ _ => .error .unsupported
  | _ => castFloat v

/-- `str(x)` where the model can print it. -/
def pyStr (env : Env) : Val → R Val
  | .str s => .ok (.str s)
  | .int i => .ok (.str (intStr i))
  | .bool b => .ok (.str (if b then "True".toList else "False".toList))
  | .none => .ok (.str "None".toList)
  | .float r => .ok (.str r)
  | .dec s => .ok (.str s)
  | .frac n d => .ok (.str (if d == 1 then intStr n else intStr n ++ '/' :: natStr d))
  | .uuid n => .ok (.str (uuidStr n))
  | .path s => .ok (.str s)
  | .member c _ =>
    if isStrMixin env c then
      -- `str()` of a str-mixin member: Enum.__str__ is 'Cls.name' (needs the class name)
      .error .unsupported
    else .error .unsupported
  | .date o => .ok (.str (dateText o))      -- `str(date)` is the ISO text; the other temporals print differently
  | _ => .error .unsupported

/-- `StringUnmarshaller`. -/
def umStr (env : Env) (v : Val) : R Val :=
  match decode v with
  | .str s => .ok (.str s)
  | .member c i => if isStrMixin env c then .ok (.member c i) else .error .unsupported
  | d => if isTemporal d then .ok (.str (isoText d)) else pyStr env d

def marStr (env : Env) (v : Val) : R Val :=
  match v with
  | .text _ _ => .error .unsupported
  | .member _ _ => .error .unsupported
  | _ => pyStr env v

/-- Text that `str(Decimal(text))` reproduces exactly: `-?int(.frac)?` without superfluous leading
    zeros, and with an adjusted exponent for which `Decimal.__str__` uses positional notation. -/
def decCanon (s : Str) : Bool :=
  let body := match s with
    | '-' :: r => r
    | r => r
  let (ip, rest) := spanDigits body
  let fp := match rest with
    | '.' :: f => some f
    | [] => some []
    | _ => none
  match fp with
  | none => false
  | some f =>
    let hasDot := rest != []
    if ip.isEmpty || (hasDot && !allDigits f) then false
    else if ip.length > 1 && ip.head? == some '0' then false
    else
      -- coefficient digits = (ip ++ f) without leading zeros (at least one digit)
      let coef := (ip ++ f).dropWhile (· == '0')
      let ndig := if coef.isEmpty then 1 else coef.length
      -- leftdigits = ndig + exp, exp = -|f|; positional iff leftdigits > -6
      decide ((ndig : Int) - (f.length : Int) > -6)

def castDecimal : Val → R Val
  | .dec s => .ok (.dec s)
  | .int i => .ok (.dec (intStr i))
  | .bool b => .ok (.dec (if b then ['1'] else ['0']))
  | .str s =>
    if decCanon s then .ok (.dec s)
    else if isPlainWord s && s.map Char.toLower != "inf".toList && s.map Char.toLower != "nan".toList
        && s.map Char.toLower != "infinity".toList && s.map Char.toLower != "snan".toList then .error .arithmetic
    else .error .unsupported
  | .none | .path _ | .pattern _ | .date _ | .datetime _ _ | .time _ _ | .timedelta _
  | .opaque _ | .inst _ _ | .dict _ | .uuid _ | .iter _ | .set _ | .frozenset _ | .deque _ => .error .type
  | _ => .error .unsupported

def umDecimal (env : Env) (v : Val) : R Val :=
  match decode v with
  | .dec s => .ok (.dec s)
  | .dict [] => .ok (.dec ['0'])
  | .dict _ => .error .unsupported
  | d =>
    if isTemporal d then .error .unsupported
    else match seqElems env d with
      | some [] => .ok (.dec ['0'])
      | some [x] => castDecimal x
      | some _ => .error .unsupported
      | none => castDecimal d

def gcdNorm (n : Int) (d : Nat) : Val :=
  let g := Nat.gcd n.natAbs d
  if g == 0 then .frac n d else .frac (n / g) (d / g)

/-- `Fraction(text)` for `-?digits(/digits)?`. -/
def fracOfStr (s : Str) : R Val :=
  if !isAscii s then .error .unsupported else
  let t := strip s
  let (neg, body) := match t with
    | '-' :: r => (true, r)
    | '+' :: r => (false, r)
    | r => (false, r)
  let (np, rest) := spanDigits body
  if np.isEmpty then (if isPlainWord t then .error .value else .error .unsupported)
  else
    let n : Int := if neg then -(digitsVal np 0 : Int) else digitsVal np 0
    match rest with
    | [] => .ok (.frac n 1)
    | '/' :: dp =>
      if allDigits dp then
        let d := digitsVal dp 0
        if d == 0 then .error .zeroDivision else .ok (gcdNorm n d)
      else .error .unsupported
    | _ => .error .unsupported

def castFraction : Val → R Val
  | .frac n d => .ok (.frac n d)
  | .int i => .ok (.frac i 1)
  | .bool b => .ok (.frac (if b then 1 else 0) 1)
  | .str s => fracOfStr s
  | .none | .path _ | .pattern _ | .date _ | .datetime _ _ | .time _ _ | .timedelta _
  | .opaque _ | .inst _ _ | .dict _ | .uuid _ | .iter _ | .set _ | .frozenset _ | .deque _
  | .list _ | .tuple _ => .error .type
  | _ => .error .unsupported

def umFraction (env : Env) (v : Val) : R Val :=
  match decode v with
  | .frac n d => .ok (.frac n d)
  | .dict [] => .ok (.frac 0 1)
  | .dict _ => .error .unsupported
  | d =>
    if isTemporal d then .error .unsupported
    else match seqElems env d with
      | some [] => .ok (.frac 0 1)
      | some [x] => castFraction x
      | some [.int n, .int m] =>
        if m == 0 then .error .zeroDivision
        else .ok (if m < 0 then gcdNorm (-n) m.natAbs else gcdNorm n m.natAbs)
      | some _ => .error .unsupported
      | none => castFraction d

def marToStr (env : Env) (v : Val) : R Val := marStr env v

/-- `UUIDUnmarshaller` (after `serdes.load`). -/
def umUuid (env : Env) (L : Leaves) (v : Val) : R Val :=
  match load env L v with
  | .error e => .error e
  | .ok d =>
    match d with
    | .int n => if 0 ≤ n && n < 340282366920938463463374607431768211456 then .ok (.uuid n.toNat) else .error .value
    | .bool b => .ok (.uuid (if b then 1 else 0))
    | .uuid n => .ok (.uuid n)
    | .str s =>
      match uuidParse? s with
      | some n => .ok (.uuid n)
      | none => if isPlainWord s && s.length != 32 then .error .value else .error .unsupported
    | .none => .error .type
    | .float _ | .list _ | .dict _ | .tuple _ => .error .attribute     -- hex.replace(...)
    | _ => .error .unsupported

/-- Path text that `str(PurePosixPath(text))` reproduces. -/
def pathCanon (s : Str) : Bool :=
  !s.isEmpty && isAscii s && s.all (fun c => isAlpha c || isDigit c || c == '_' || c == '/' || c == '.' || c == '-')
    && !(hasSub "//".toList s) && !(hasSub "/./".toList s) && (s.getLast? != some '/' || s == ['/'])
    && !(s.take 2 == "./".toList) && !(s.drop (s.length - 2) == "/.".toList) && s != ['.', '.'] |> fun b => b
where
  hasSub (pat s : Str) : Bool := (List.range (s.length + 1)).any fun i => (s.drop i).take pat.length == pat

/-- `PathUnmarshaller`: an instance passes, otherwise `PurePath(decode(val))` — the text of a path is
    the path, it is never read as JSON or a literal. -/
def umPath (_env : Env) (_L : Leaves) (v : Val) : R Val :=
  match v with
  | .path p => .ok (.path p)
  | _ =>
    match decode v with
    | .str s => if pathCanon s then .ok (.path s) else .error .unsupported
    | .member _ _ | .inst _ _ | .opaque _ => .error .unsupported   -- may define __fspath__
    | _ => .error .type

/-- `PatternUnmarshaller`: `re.compile(decode(val))`; only literal patterns are modelled. -/
def umPattern (v : Val) : R Val :=
  match decode v with
  | .pattern p => .ok (.pattern p)
  | .str s => if s.all (fun c => isAlpha c || isDigit c || c == ' ' || c == '_') then .ok (.pattern s) else .error .unsupported
  | .member _ _ => .error .unsupported
  | _ => .error .type

def marPattern : Val → R Val
  | .pattern p => .ok (.str p)
  | .inst _ _ | .opaque _ | .member _ _ => .error .unsupported
  | _ => .error .attribute

/-- The modelled `serdes.strload`: the JSON / plain-word fragment `strload?`, plus the canonical
    UUID text (exactly what `uuidParse?` accepts: 8-4-4-4-12 lowercase hex), which neither
    `json.loads` nor `ast.literal_eval` accepts (a chain of binary `-` whose right operand is never
    complex, a name, or a leading-zero SyntaxError) and which therefore loads to itself. -/
def pySl (s : Str) : R Val :=
  match strload? s with
  | some v => .ok v
  | none => if (uuidParse? s).isSome then .ok (.str s) else .error .unsupported

/-- `pySl` as an option (`none` = outside the executable fragment). -/
def pySl? (s : Str) : Option Val :=
  match strload? s with
  | some v => some v
  | none => if (uuidParse? s).isSome then some (.str s) else none

def pyUm (env : Env) (L : Leaves) (today : Int) : Scalar → Val → R Val
  | .int => umInt env
  | .bool => umBool env
  | .float => umFloat env
  | .str => umStr env
  | .decimal => umDecimal env
  | .fraction => umFraction env
  | .uuid => umUuid env L
  | .path => umPath env L
  | .pattern => umPattern
  | .date => umDate today
  | .datetime => umDatetime today
  | .time => umTime today
  | .timedelta => umTimedelta
  | .bytes => fun _ => .error .unsupported

def pyMar (env : Env) : Scalar → Val → R Val
  | .int => marInt env
  | .bool => marBool
  | .float => marFloat
  | .str => marStr env
  | .decimal | .fraction | .uuid | .path => marToStr env
  | .pattern => marPattern
  | .date | .datetime | .time | .timedelta => marTemporal
  | .bytes => fun v => .ok v

/-- The executable instance.  `um` for uuid / path consults `sl` only. -/
def pyLeaves (env : Env) (today : Int := 0) : Leaves :=
  let base : Leaves := { sl := pySl, um := fun _ _ => .error .unsupported, mar := pyMar env }
  { base with um := pyUm env base today }

end Typelib
