/-
  Model of `typelib.ctx.TypeContext` (src/typelib/ctx.py:16-45), generic over the key type.

  A `TypeContext` is a `dict` subclass whose only state is the dict contents.  Keys are types,
  type aliases and forward references; the model is generic over a key type `K` with decidable
  equality (dict keys are compared with `==` after hashing) and the three operations ctx.py uses
  on keys, bundled in `KeyOps`:

    unwrap : `inspection.unwrap`            (src/typelib/py/inspection.py:1490-1516)
    fwd    : `refs.forwardref`              (src/typelib/py/refs.py:28-61)
    isRef  : `isinstance(k, refs.ForwardRef)`

  `Ctx K V`  = the concrete dict, *including* the alias entries `__missing__` writes back.
  `Spec K V` = the reference model of property C16: a plain dict holding only the user's
               insertions, with `lookup S k = S[k] <|> S[unwrap k] <|> S[fwd k]`
               (forward-reference keys are found only under themselves).

  The second half of the file is the concrete key family of C16 (3 base types ×
  {itself, NewType, TypeAliasType, string-valued alias, Final[…], ForwardRef to it}), closed under
  `unwrap` and `fwd`.

  Imports nothing: the driver links this file natively.
-/
namespace Typelib.TCtx

/-! ### Keys -/

/-- What ctx.py does with keys. -/
structure KeyOps (K : Type) where
  /-- `inspection.unwrap(k)`: strip NewType / TypeAliasType / Final / ClassVar. -/
  unwrap : K → K
  /-- `refs.forwardref(k)`: the forward reference naming `k`. -/
  fwd : K → K
  /-- `isinstance(k, refs.ForwardRef)`. -/
  isRef : K → Bool

/-- The facts about the key operations the refinement proof uses.  Each is checked on the real
    functions for every key of the family on every run (harness/props/c16.py) and proved for the
    Lean mirror of the family (`Props/C16.lean: familyLaws`). -/
structure KeyLaws {K : Type} (o : KeyOps K) : Prop where
  /-- `unwrap` runs to a fixpoint (inspection.py:1493 `while lt is not t`). -/
  unwrap_idem : ∀ k, o.unwrap (o.unwrap k) = o.unwrap k
  /-- a ForwardRef is none of the unwrappable forms. -/
  ref_unwrap : ∀ k, o.isRef k = true → o.unwrap k = k
  /-- `refs.forwardref` always returns a `ForwardRef` (refs.py:56). -/
  fwd_ref : ∀ k, o.isRef (o.fwd k) = true

/-! ### Plain dict -/

/-- Association list = dict contents in insertion order, at most one entry per key. -/
abbrev Ctx (K V : Type) := List (K × V)
/-- The reference model's state: the user's insertions only. -/
abbrev Spec (K V : Type) := List (K × V)

variable {K V : Type} [DecidableEq K]

/-- `dict.__getitem__` without `__missing__` / `dict.get(k)`: the entry stored under `k`. -/
def find : List (K × V) → K → Option V
  | [], _ => none
  | (k', v) :: r, k => if k' = k then some v else find r k

/-- `dict.__setitem__`: replace in place or append. -/
def put : List (K × V) → K → V → List (K × V)
  | [], k, v => [(k, v)]
  | (k', v') :: r, k, v => if k' = k then (k, v) :: r else (k', v') :: put r k v

/-- `k in d` (plain dict membership, `TypeContext` does not override `__contains__`). -/
def mem (d : List (K × V)) (k : K) : Bool := (find d k).isSome

/-! ### Observable outputs and operations -/

/-- What one operation lets its caller observe. -/
inductive Out (V : Type)
  | unit                    -- `ctx[k] = v`
  | ok (v : V)              -- a lookup returned the stored value
  | keyError                -- `ctx[k]` raised KeyError
  | dflt (d : V)            -- `ctx.get(k, d)` returned the default
  | bool (b : Bool)         -- `k in ctx`
  | recursionError          -- the interpreter's recursion limit (never reached under `KeyLaws`)
  deriving DecidableEq, Repr

inductive Op (K V : Type)
  | insert (k : K) (v : V)  -- `ctx[k] = v`
  | getitem (k : K)         -- `ctx[k]`
  | get (k : K) (d : V)     -- `ctx.get(k, d)`
  | contains (k : K)        -- `k in ctx`
  deriving DecidableEq, Repr

/-! ### The concrete context (ctx.py) -/

/-- Depth of nested `__missing__` activations the interpreter allows (`sys.getrecursionlimit()`
    is 1000; each re-entry `self[ref]` costs one Python frame). -/
def recursionLimit : Nat := 1000

/-- `TypeContext.__getitem__` = `dict.__getitem__` + `__missing__` (ctx.py:25-45).  The fuel is
    the remaining recursion depth: `self[ref]` on ctx.py:45 re-enters `__getitem__`, hence
    `__missing__`, on the forward reference. -/
def getitemF (o : KeyOps K) : Nat → Ctx K V → K → Ctx K V × Out V
  | 0, C, _ => (C, .recursionError)
  | n + 1, C, k =>
    match find C k with
    | some v => (C, .ok v)                                  -- dict hit
    | none =>                                               -- __missing__(key)
      if o.isRef k then (C, .keyError)                      -- ctx.py:34-35
      else
        match find C (o.unwrap k) with                      -- ctx.py:37-38 `unwrapped in self`
        | some v => (put C k v, .ok v)                      -- ctx.py:39-42 memoise, return
        | none => getitemF o n C (o.fwd k)                  -- ctx.py:44-45 `self[ref]`

/-- `ctx[k]`. -/
def getitem (o : KeyOps K) (C : Ctx K V) (k : K) : Ctx K V × Out V :=
  getitemF o recursionLimit C k

/-- What `contextlib.suppress(KeyError)` + `return default` make of the outcome of `self[key]`
    (ctx.py:19-23): only KeyError is suppressed. -/
def suppressKeyError (d : V) : Out V → Out V
  | .keyError => .dflt d
  | r => r

/-- `ctx.get(k, d)` (ctx.py:19-23). -/
def getOr (o : KeyOps K) (C : Ctx K V) (k : K) (d : V) : Ctx K V × Out V :=
  ((getitem o C k).1, suppressKeyError d (getitem o C k).2)

/-- One operation on the concrete context. -/
def stepC (o : KeyOps K) (C : Ctx K V) : Op K V → Ctx K V × Out V
  | .insert k v => (put C k v, .unit)
  | .getitem k => getitem o C k
  | .get k d => getOr o C k d
  | .contains k => (C, .bool (mem C k))

/-- Run a list of operations; final state and the outputs in order. -/
def runC (o : KeyOps K) : Ctx K V → List (Op K V) → Ctx K V × List (Out V)
  | C, [] => (C, [])
  | C, op :: ops => ((runC o (stepC o C op).1 ops).1, (stepC o C op).2 :: (runC o (stepC o C op).1 ops).2)

/-! ### The reference model of the statement -/

/-- `S[k] <|> S[unwrap k] <|> S[fwd k]`; a forward reference is found only under itself. -/
def lookup (o : KeyOps K) (S : Spec K V) (k : K) : Option V :=
  (find S k).or (if o.isRef k then none else (find S (o.unwrap k)).or (find S (o.fwd k)))

def outOfLookup : Option V → Out V
  | some v => .ok v
  | none => .keyError

/-- One operation on the reference model: lookups never change the state. -/
def stepS (o : KeyOps K) (S : Spec K V) : Op K V → Spec K V × Out V
  | .insert k v => (put S k v, .unit)
  | .getitem k => (S, outOfLookup (lookup o S k))
  | .get k d => (S, suppressKeyError d (outOfLookup (lookup o S k)))
  | .contains k => (S, .bool (mem S k))

def runS (o : KeyOps K) : Spec K V → List (Op K V) → Spec K V × List (Out V)
  | S, [] => (S, [])
  | S, op :: ops => ((runS o (stepS o S op).1 ops).1, (stepS o S op).2 :: (runS o (stepS o S op).1 ops).2)

/-! ### The operation sequences of the property -/

/-- write-once: an insertion uses a key the user has not inserted before (a key that is in the
    concrete dict only as a memoised alias *is* fresh); `in` is asked for stored keys only. -/
def okOp (S : Spec K V) : Op K V → Bool
  | .insert k _ => !(mem S k)
  | .contains k => mem S k
  | _ => true

/-- Decidable predicate on the operation list (relative to the insertions made so far). -/
def okOps (o : KeyOps K) : Spec K V → List (Op K V) → Bool
  | _, [] => true
  | S, op :: ops => okOp S op && okOps o (stepS o S op).1 ops

/-- `okOps` without the restriction on `in` (used to state what fails without it). -/
def freshOps (o : KeyOps K) : Spec K V → List (Op K V) → Bool
  | _, [] => true
  | S, .insert k v :: ops => !(mem S k) && freshOps o (put S k v) ops
  | S, _ :: ops => freshOps o S ops

/-! ### The key family of C16 -/

/-- `int`, `str`, and a dataclass `Foo` defined in the module of the aliases. -/
inductive Base | int | str | foo
  deriving DecidableEq, Repr

/-- Wrappers that are objects with a name of their own in the defining module. -/
inductive Wrap
  | nt   -- `typing.NewType(name, T)`
  | al   -- `typing.TypeAliasType(name, T)`
  | sa   -- `typing.TypeAliasType(name, "T")` (string-valued)
  deriving DecidableEq, Repr

/-- `__forward_arg__` of the forward references that occur. -/
inductive FArg
  | base (b : Base)             -- "int" / "str" / "Foo"
  | wrapper (b : Base) (w : Wrap)  -- "IntNT", "FooSA", …
  | final                       -- "Final" (qualname of every `typing.Final[…]`, inspection.py:261-263)
  deriving DecidableEq, Repr

/-- `__forward_module__`. -/
inductive Mod | builtins | keys | typing
  deriving DecidableEq, Repr

inductive Key
  | base (b : Base)             -- the class itself
  | named (b : Base) (w : Wrap) -- NewType / TypeAliasType / string-valued TypeAliasType of it
  | final (b : Base)            -- `typing.Final[T]`
  | ref (n : FArg) (m : Mod)    -- `ForwardRef(n, module=m)`; equality = (arg, module), typing.py
  deriving DecidableEq, Repr

/-- `T.__module__`. -/
def Base.home : Base → Mod
  | .int => .builtins
  | .str => .builtins
  | .foo => .keys

/-- `inspection.unwrap` on the family.  A string-valued alias yields
    `refs.forwardref(value, module=alias.__module__)` (inspection.py:1500-1501). -/
def Key.unwrap : Key → Key
  | .base b => .base b
  | .named b .nt => .base b
  | .named b .al => .base b
  | .named b .sa => .ref (.base b) .keys
  | .final b => .base b
  | .ref n m => .ref n m

/-- `refs.forwardref` on the family: qualname of the object and its `__module__`; for a
    `ForwardRef` instance `__module__` is the class attribute `"typing"`. -/
def Key.fwd : Key → Key
  | .base b => .ref (.base b) b.home
  | .named b w => .ref (.wrapper b w) .keys
  | .final _ => .ref .final .typing
  | .ref n _ => .ref n .typing

def Key.isRef : Key → Bool
  | .ref _ _ => true
  | _ => false

def keyOps : KeyOps Key := { unwrap := Key.unwrap, fwd := Key.fwd, isRef := Key.isRef }

/-- The 6 keys the property draws from for one base type. -/
def familyOf (b : Base) : List Key :=
  [.base b, .named b .nt, .named b .al, .named b .sa, .final b, .ref (.base b) b.home]

def family : List Key := familyOf .int ++ familyOf .str ++ familyOf .foo

end Typelib.TCtx
