/-
  Validity (`hasType`: the annotated classes exactly), conformance (`conforms`: what C03 demands of a
  result) and JSON-plainness of values, as executable predicates (DESIGN.md §3 "Valid values").
-/
import TypelibModel.Model.Denote
import TypelibModel.Model.Temporal
namespace Typelib

def uuidMax : Nat := 340282366920938463463374607431768211456

/-- A valid value of a scalar type: exactly the annotated class, in its full range. -/
def hasScalar : Scalar → Val → Bool
  | .int, .int _ => true
  | .bool, .bool _ => true
  | .float, .float _ => true
  | .str, .str _ => true
  | .decimal, .dec _ => true
  | .fraction, .frac _ d => d != 0
  | .uuid, .uuid n => n < uuidMax
  | .path, .path _ => true
  | .pattern, .pattern _ => true
  | .date, .date o => inDateRange o
  | .datetime, .datetime us off =>
    inDateRange (localOrd us off) && off % 60 == 0 && -86400 < off && off < 86400
  | .time, .time us (some off) => us < 86400000000 && off % 60 == 0 && -86400 < off && off < 86400
  | .timedelta, .timedelta us => tdOk us
  | .bytes, .text .bytes _ => true
  | _, _ => false

def isPrim : Val → Bool
  | .none | .bool _ | .int _ | .str _ => true
  | _ => false

def all2 {α β : Type} (p : α → β → Bool) : List α → List β → Bool
  | [], [] => true
  | a :: as, b :: bs => p a b && all2 p as bs
  | _, _ => false

def collOf : Coll → Val → Option (List Val)
  | .list, .list xs => some xs
  | .set, .set xs => some xs
  | .frozenset, .frozenset xs => some xs
  | .deque, .deque xs => some xs
  | .vartuple, .tuple xs => some xs
  | _, _ => none

def keyNames (kvs : List (Val × Val)) : Option (List Str) :=
  kvs.foldr (fun kv acc =>
    match kv.1, acc with
    | .str s, some ns => some (s :: ns)
    | _, _ => none) (some [])

def nodupStr : List Str → Bool
  | [] => true
  | x :: xs => !xs.contains x && nodupStr xs

/-- Validity, parametric in the scalar and literal checks (`hasType` and `conforms` are instances). -/
def hasTypeG (leaf : Scalar → Val → Bool) (lit : List Val → Val → Bool) (env : Env) : Nat → Ty → Val → Bool
  | 0, _, _ => false
  | n + 1, t, v =>
    match t with
    | .scalar s => leaf s v
    | .none => v == .none
    | .any => true
    | .enum c =>
      match v with
      | .member c' i => c' == c && (memberValue env c i).isSome
      | _ => false
    | .literal vs => lit vs v
    | .coll k e =>
      match collOf k v with
      | some xs => xs.all (hasTypeG leaf lit env n e)
      | none => false
    | .tuple es =>
      match v with
      | .tuple xs => all2 (hasTypeG leaf lit env n) es xs
      | _ => false
    | .dict k e =>
      match v with
      | .dict kvs => kvs.all (fun kv => hasTypeG leaf lit env n k kv.1 && hasTypeG leaf lit env n e kv.2 && hashable kv.1)
      | _ => false
    | .union ms => ms.any (fun m => hasTypeG leaf lit env n m v)
    | .cls c =>
      match env.cls c with
      | none => false
      | some ci =>
        match ci.flavour, v with
        | .typeddict, .dict kvs =>
          match keyNames kvs with
          | none => false
          | some names =>
            nodupStr names && ci.required.all (fun r => names.contains r)
              && kvs.all (fun kv =>
                match kv.1 with
                | .str name =>
                  match ci.fields.find? (fun f => f.1 == name) with
                  | some f => hasTypeG leaf lit env n f.2 kv.2
                  | none => false
                | _ => false)
        | .typeddict, _ => false
        | _, .inst c' fs => c' == c && all2 (fun (f : Str × Ty) (g : Str × Val) => f.1 == g.1 && hasTypeG leaf lit env n f.2 g.2) ci.fields fs
        | _, _ => false
    | .wrap _ t' => hasTypeG leaf lit env n t' v

/-- `v` is a valid instance of `T` made of exactly the annotated classes. -/
def hasType (env : Env) : Nat → Ty → Val → Bool := hasTypeG hasScalar (fun vs v => Val.exactMem v vs) env

/-- What a scalar position may hold in a *result* (C03): the annotated class or a subclass of it
    (`True` for `int`, an `IntEnum` member for `int`, a str-mixin member for `str`). -/
def conformsScalar (env : Env) : Scalar → Val → Bool
  | .int, .bool _ => true
  | .int, .member c _ => (env.cls c).any (·.mixin == .int)
  | .str, .member c _ => (env.cls c).any (·.mixin == .str)
  | .fraction, .frac _ _ => true
  | .uuid, .uuid _ => true
  | .date, .date _ => true
  | .datetime, .datetime _ _ => true
  | .time, .time _ _ => true
  | .timedelta, .timedelta _ => true
  | s, v => hasScalar s v

/-- Structural conformance of a result to `T` (C03). Literal membership is Python's `in`. -/
def conforms (env : Env) : Nat → Ty → Val → Bool :=
  hasTypeG (conformsScalar env) (fun vs v => (pyMem? env v vs).getD false) env

mutual
  /-- None / bool / int / float / str / list / dict of exact builtin classes, primitive dict keys. -/
  def jsonPlain : Val → Bool
    | .none | .bool _ | .int _ | .float _ | .str _ => true
    | .list xs => jsonPlainList xs
    | .dict kvs => jsonPlainPairs kvs
    | _ => false
  termination_by structural x => x
  def jsonPlainList : List Val → Bool
    | [] => true
    | x :: xs => jsonPlain x && jsonPlainList xs
  termination_by structural x => x
  def jsonPlainPairs : List (Val × Val) → Bool
    | [] => true
    | (k, v) :: rest => (isPrim k || (match k with | .float _ => true | _ => false)) && jsonPlain v && jsonPlainPairs rest
  termination_by structural x => x
end

end Typelib
