/-
  A generic memo-table state machine over a heap — the model of typelib's process-wide caches for
  property C12 ("results depend only on (type, input), never on call history").

  Every `@compat.cache` / `@compat.lru_cache` / `functools.cache` site of /repo/src/typelib
  (serdes.py:201 `dateparse`, :376 `get_items_iter`, :507 `_strload` behind `strload` :471-504;
  marshals/api.py:37 `marshaller`; unmarshals/api.py:32 `unmarshaller`; codecs.py:17 `codec`;
  graph.py:32 `static_order`; py/inspection.py (57 sites); py/refs.py:140; py/future.py:25;
  binding.py:115; the `TypeContext` memo ctx.py:25-45; `Delayed*._resolved`) is an instance of one
  mechanism:

    * a table `(site, keyClass) ↦ ref` into a heap of objects with identities;
    * `keyOf : Arg → KeyClass` — what Python's `==`/`hash` make of the argument: arguments in one
      class hit the same entry (`Union[int, str] == Union[str, int]`, `SE.a == 'null'`,
      equal instants with different offsets, `1 == 1.0 == True`);
    * `pure : Arg → Val` — what the undecorated function returns for that very argument;
    * `returnsShared` — does the caller get the cached object itself (`functools.cache` always
      does) or a fresh copy (`strload` deep-copies containers since a8d48a3);
    * `resultMutable` — can the holder of the object change it in place (list / dict / set).

  The user's operations: `call site arg` (the argument object and the result object both become
  objects the user holds), `mutate i` (deep-mutate the i-th object the user holds: a previously
  passed input or a previously returned result), `read i` (look at it again), `clear`
  (`cache_clear()` on every site).

  `runCached` runs a history with the tables; `runCold` runs each call as in a cold process: the
  pure result in a brand-new object.  Both produce *values*, never refs.

  Outside the model: LRU eviction (tables are unbounded; evicting an entry only removes sharing —
  it is `clear` restricted to one entry), threads.  Cache keys are snapshots (`keyOf a` at call
  time): Python's caches require hashable, hence in practice immutable, keys.

  Imports nothing: the driver links this file natively.
-/
namespace Typelib.Cache

/-- A heap object: its current value and whether its holder can change it in place. -/
structure Obj (Val : Type) where
  val : Val
  mutable : Bool
  deriving DecidableEq, Repr

/-- One memoised function. -/
structure SiteSpec (Arg Key Val : Type) where
  /-- the class of the argument under the cache's key equality (`==` + `hash`) -/
  keyOf : Arg → Key
  /-- the undecorated function -/
  pure : Arg → Val
  /-- the caller receives the cached object itself (not a copy) -/
  returnsShared : Bool
  /-- results are objects that can be changed in place -/
  resultMutable : Bool

/-- All sites, how an argument looks as an object of its own, and what a deep mutation does. -/
structure Machine (Site Arg Key Val : Type) where
  site : Site → SiteSpec Arg Key Val
  /-- the argument as a heap object (a `str` is immutable, a `list` is not) -/
  inputObj : Arg → Obj Val
  /-- deep mutation of a mutable object (append to lists, set dict keys, recursively) -/
  deepMut : Val → Val

/-- What the user can do. -/
inductive Op (Site Arg : Type)
  | call (s : Site) (a : Arg)   -- holds two more objects afterwards: the input, then the result
  | mutate (i : Nat)            -- deep-mutate the i-th held object (no-op on immutable objects)
  | read (i : Nat)              -- observe the i-th held object now
  | clear                       -- `cache_clear()` everywhere
  deriving DecidableEq, Repr

/-- What one operation lets the user observe. -/
inductive Out (Val : Type)
  | value (v : Val)   -- the result of a call at the time it returns / the object read
  | unit
  deriving DecidableEq, Repr

/-! ### Finite maps as functions -/

def updHeap {Val : Type} (h : Nat → Obj Val) (r : Nat) (o : Obj Val) : Nat → Obj Val :=
  fun r' => if r' = r then o else h r'

def updHeld (f : Nat → Nat) (i r : Nat) : Nat → Nat :=
  fun j => if j = i then r else f j

def updTable {Site Key : Type} [DecidableEq Site] [DecidableEq Key]
    (t : Site → Key → Option Nat) (s : Site) (k : Key) (r : Nat) : Site → Key → Option Nat :=
  fun s' k' => if s' = s ∧ k' = k then some r else t s' k'

def emptyTable {Site Key : Type} : Site → Key → Option Nat := fun _ _ => none

/-- `mutate` on one object. -/
def mutObj {Val : Type} (f : Val → Val) (o : Obj Val) : Obj Val :=
  if o.mutable then { o with val := f o.val } else o

/-! ### The machine with memo tables -/

structure State (Site Key Val : Type) where
  /-- refs are natural numbers; objects are never freed -/
  heap : Nat → Obj Val
  /-- the next unused ref -/
  next : Nat
  /-- the memo tables of all sites -/
  table : Site → Key → Option Nat
  /-- the objects the user holds, in the order he got them -/
  held : Nat → Nat
  nheld : Nat

variable {Site Arg Key Val : Type}

def State.init [Inhabited Val] : State Site Key Val :=
  { heap := fun _ => ⟨default, false⟩, next := 0, table := emptyTable, held := fun _ => 0, nheld := 0 }

/-- A new object, handed to the user. -/
def State.allocHold (σ : State Site Key Val) (o : Obj Val) : State Site Key Val :=
  { σ with heap := updHeap σ.heap σ.next o, next := σ.next + 1,
           held := updHeld σ.held σ.nheld σ.next, nheld := σ.nheld + 1 }

/-- An existing object, handed to the user. -/
def State.holdRef (σ : State Site Key Val) (r : Nat) : State Site Key Val :=
  { σ with held := updHeld σ.held σ.nheld r, nheld := σ.nheld + 1 }

section
variable [DecidableEq Site] [DecidableEq Key]

/-- A new object, entered into the table of `s` under `k` (not handed to anybody). -/
def State.fill (σ : State Site Key Val) (s : Site) (k : Key) (o : Obj Val) : State Site Key Val :=
  { σ with heap := updHeap σ.heap σ.next o, next := σ.next + 1, table := updTable σ.table s k σ.next }

/-- The object the site's undecorated function would return for `a`. -/
def resultObj (M : Machine Site Arg Key Val) (s : Site) (a : Arg) : Obj Val :=
  ⟨(M.site s).pure a, (M.site s).resultMutable⟩

/-- Cache lookup; on a miss compute the result and store it (`functools` wrapper). -/
def lookupOrFill (M : Machine Site Arg Key Val) (σ : State Site Key Val) (s : Site) (a : Arg) :
    State Site Key Val × Nat :=
  match σ.table s ((M.site s).keyOf a) with
  | some r => (σ, r)
  | none => (σ.fill s ((M.site s).keyOf a) (resultObj M s a), σ.next)

/-- What the caller gets: the cached object itself, or a copy of its *current* value. -/
def handOut (M : Machine Site Arg Key Val) (σ : State Site Key Val) (s : Site) (r : Nat) :
    State Site Key Val :=
  if (M.site s).returnsShared then σ.holdRef r
  else σ.allocHold ⟨(σ.heap r).val, (M.site s).resultMutable⟩

def callCached (M : Machine Site Arg Key Val) (σ : State Site Key Val) (s : Site) (a : Arg) :
    State Site Key Val × Out Val :=
  (handOut M (lookupOrFill M (σ.allocHold (M.inputObj a)) s a).1 s
      (lookupOrFill M (σ.allocHold (M.inputObj a)) s a).2,
   .value ((lookupOrFill M (σ.allocHold (M.inputObj a)) s a).1.heap
      (lookupOrFill M (σ.allocHold (M.inputObj a)) s a).2).val)

def mutateCached (M : Machine Site Arg Key Val) (σ : State Site Key Val) (i : Nat) : State Site Key Val :=
  if i < σ.nheld then { σ with heap := updHeap σ.heap (σ.held i) (mutObj M.deepMut (σ.heap (σ.held i))) } else σ

def readCached (σ : State Site Key Val) (i : Nat) : Out Val :=
  if i < σ.nheld then .value (σ.heap (σ.held i)).val else .unit

def stepCached (M : Machine Site Arg Key Val) (σ : State Site Key Val) : Op Site Arg → State Site Key Val × Out Val
  | .call s a => callCached M σ s a
  | .mutate i => (mutateCached M σ i, .unit)
  | .read i => (σ, readCached σ i)
  | .clear => ({ σ with table := emptyTable }, .unit)

/-- Run a history from a state: final state, outputs in order. -/
def runCachedFrom (M : Machine Site Arg Key Val) : State Site Key Val → List (Op Site Arg) → State Site Key Val × List (Out Val)
  | σ, [] => (σ, [])
  | σ, op :: ops =>
    ((runCachedFrom M (stepCached M σ op).1 ops).1, (stepCached M σ op).2 :: (runCachedFrom M (stepCached M σ op).1 ops).2)

def runCached [Inhabited Val] (M : Machine Site Arg Key Val) (ops : List (Op Site Arg)) : State Site Key Val × List (Out Val) :=
  runCachedFrom M State.init ops

/-! ### The reference: every call alone in a cold process -/

/-- The user's objects, each one his alone. -/
structure Cold (Val : Type) where
  objs : Nat → Obj Val
  n : Nat

def Cold.init [Inhabited Val] : Cold Val := { objs := fun _ => ⟨default, false⟩, n := 0 }

def Cold.push (c : Cold Val) (o : Obj Val) : Cold Val := { objs := updHeap c.objs c.n o, n := c.n + 1 }

def stepCold (M : Machine Site Arg Key Val) (c : Cold Val) : Op Site Arg → Cold Val × Out Val
  | .call s a => ((c.push (M.inputObj a)).push (resultObj M s a), .value ((M.site s).pure a))
  | .mutate i => (if i < c.n then { c with objs := updHeap c.objs i (mutObj M.deepMut (c.objs i)) } else c, .unit)
  | .read i => (c, if i < c.n then .value (c.objs i).val else .unit)
  | .clear => (c, .unit)

def runColdFrom (M : Machine Site Arg Key Val) : Cold Val → List (Op Site Arg) → Cold Val × List (Out Val)
  | c, [] => (c, [])
  | c, op :: ops =>
    ((runColdFrom M (stepCold M c op).1 ops).1, (stepCold M c op).2 :: (runColdFrom M (stepCold M c op).1 ops).2)

def runCold [Inhabited Val] (M : Machine Site Arg Key Val) (ops : List (Op Site Arg)) : Cold Val × List (Out Val) :=
  runColdFrom M Cold.init ops

/-! ### Side conditions of a history (decidable) -/

/-- The `(site, arg)` pairs a history calls. -/
def callsOf : List (Op Site Arg) → List (Site × Arg)
  | [] => []
  | .call s a :: ops => (s, a) :: callsOf ops
  | _ :: ops => callsOf ops

/-- Two calls of the history hit the same entry of a site in `sites` with different arguments
    ("aliased keys").  With `sites` = the routine caches and `Arg` = annotations this is the
    exclusion predicate of known finding `unionOrderKey`: the history contains two annotations that
    are `==` but whose unions list their members in different orders. -/
def aliasedKeys [DecidableEq Arg] (M : Machine Site Arg Key Val) (sites : Site → Bool)
    (ops : List (Op Site Arg)) : Bool :=
  (callsOf ops).any fun p => (callsOf ops).any fun q =>
    sites p.1 && decide (p.1 = q.1) && decide ((M.site p.1).keyOf p.2 = (M.site p.1).keyOf q.2) && !decide (p.2 = q.2)

/-- Every call goes to a site that returns a fresh copy or immutable results. -/
def callsFreshOrImmutable (M : Machine Site Arg Key Val) (ops : List (Op Site Arg)) : Bool :=
  (callsOf ops).all fun p => !(M.site p.1).returnsShared || !(M.site p.1).resultMutable

end

/-! ### The abstract universe of the driver and of the witnesses

  Sites are numbered; an argument is `(class, variant)`: `class` is what Python's `==` sees,
  `variant` tells apart the equal-but-distinct spellings (`Union[int, str]` = variant 0,
  `Union[str, int]` = variant 1; `'null'` / `SE.a`; two offsets of one instant).  A value is a list of
  numbers; a deep mutation appends `99`. -/

/-- An abstract site. -/
structure AbsSite where
  /-- returns the cached object itself -/
  shared : Bool
  /-- results can be changed in place -/
  mutable : Bool
  /-- the key forgets the variant (Python `==` identifies the spellings) -/
  keyForgets : Bool
  /-- the undecorated function's result depends on the variant -/
  pureUsesVariant : Bool
  deriving DecidableEq, Repr

abbrev AArg := Nat × Nat
abbrev AKey := Nat × Nat
abbrev AVal := List Nat

def absKeyOf (d : AbsSite) (a : AArg) : AKey := if d.keyForgets then (a.1, 0) else a
def absPure (d : AbsSite) (a : AArg) : AVal := if d.pureUsesVariant then [a.1, a.2] else [a.1]

def absSpec (d : AbsSite) : SiteSpec AArg AKey AVal :=
  { keyOf := absKeyOf d, pure := absPure d, returnsShared := d.shared, resultMutable := d.mutable }

/-- a site nobody declared: uncached -/
def absDefault : AbsSite := { shared := false, mutable := true, keyForgets := false, pureUsesVariant := true }

def absInput (a : AArg) : Obj AVal := ⟨[a.1, a.2], true⟩
def absMut (v : AVal) : AVal := v ++ [99]
def absSiteAt (sites : List AbsSite) (i : Nat) : SiteSpec AArg AKey AVal := absSpec (sites.getD i absDefault)

def absMachine (sites : List AbsSite) : Machine Nat AArg AKey AVal :=
  { site := absSiteAt sites, inputObj := absInput, deepMut := absMut }

abbrev AOp := Op Nat AArg

/-- Is the site key-congruent (`keyOf a = keyOf b → pure a = pure b`)?  Decidable on abstract sites. -/
def AbsSite.congruent (d : AbsSite) : Bool := !d.keyForgets || !d.pureUsesVariant
def AbsSite.freshOrImmutable (d : AbsSite) : Bool := !d.shared || !d.mutable
def AbsSite.good (d : AbsSite) : Bool := d.congruent && d.freshOrImmutable

/-! ### The real sites and their declared classification

  One entry per cache site of /repo/src/typelib (the boolean / name-valued predicates of
  py/inspection.py share an entry).  `harness/props/c12.py` discovers the sites of the imported
  library (every module attribute with `cache_clear`), maps each to its entry, and CHECKS the
  declared classification on the real functions on every run:
    * `congruent = true`  — equal-but-distinct keys give, warm, the result a cold process gives;
    * `congruent = false` — the recorded witness (a union in both member orders, …) still differs;
    * `shared` / `mutable` — identity and class of the object returned twice.
  `public` = reached directly by an operation of C12's alphabet (build / marshal / unmarshal /
  encode / decode); the others are called by library code only, which must not mutate what it
  gets (checked) and does not hand it out. -/

inductive RealSite
  | strload            -- serdes.py:471 `strload` = normalise key; `_strload`; deep copy of containers
  | strloadRaw         -- serdes.py:507 `_strload` itself (lru_cache 100 000)
  | dateparse          -- serdes.py:201 (lru_cache 100 000), keyed by (text, class)
  | getItemsIter       -- serdes.py:376, keyed by class
  | marshaller         -- marshals/api.py:37, keyed by annotation
  | unmarshaller       -- unmarshals/api.py:32, keyed by annotation
  | codec              -- codecs.py:17, keyed by annotation (+ keyword arguments)
  | staticOrder        -- graph.py `_static_order` behind `static_order`, keyed by annotation; the memo is a tuple, callers get a fresh list (dd76572)
  | typeContext        -- ctx.py:25-45: per-routine dict keyed by annotation, `__missing__` memo
  | delayedResolved    -- marshals/api.py:90-99, unmarshals/api.py:84-93: one-slot memo, no key
  | typingGenericCache -- typing.py `_tp_cache` behind `typing.List[...]`, `typing.Union[...]`
  | inspectPredicate   -- py/inspection.py: the `is…type` predicates, `name`, `qualname`, `cached_issubclass`, …
  | inspectUnwrap      -- py/inspection.py: `unwrap`, `origin`, `resolve_supertype`, `normalize_typevar`: return annotations
  | cachedTypeHints    -- py/inspection.py:355 `cached_type_hints`, :434 `safe_get_params`: return the cached `dict`
  | cachedSignature    -- py/inspection.py:304 (`inspect.Signature`)
  | cachedSimpleAttrs  -- py/inspection.py:384 (tuple of names)
  | resolveModuleName  -- py/refs.py:140: result depends on the caller's stack frame
  | futureTransform    -- py/future.py:25, keyed by annotation *text*
  | getBinding         -- binding.py:115, keyed by the callable
  deriving DecidableEq, Repr

structure SiteClass where
  /-- `keyOf a = keyOf b → pure a = pure b` -/
  congruent : Bool
  returnsShared : Bool
  resultMutable : Bool
  /-- reached directly by an operation of C12's alphabet -/
  «public» : Bool
  deriving DecidableEq, Repr

def RealSite.all : List RealSite :=
  [.strload, .strloadRaw, .dateparse, .getItemsIter, .marshaller, .unmarshaller, .codec, .staticOrder,
   .typeContext, .delayedResolved, .typingGenericCache, .inspectPredicate, .inspectUnwrap, .cachedTypeHints,
   .cachedSignature, .cachedSimpleAttrs, .resolveModuleName, .futureTransform, .getBinding]

def RealSite.name : RealSite → String
  | .strload => "strload" | .strloadRaw => "strloadRaw" | .dateparse => "dateparse"
  | .getItemsIter => "getItemsIter" | .marshaller => "marshaller" | .unmarshaller => "unmarshaller"
  | .codec => "codec" | .staticOrder => "staticOrder" | .typeContext => "typeContext"
  | .delayedResolved => "delayedResolved" | .typingGenericCache => "typingGenericCache"
  | .inspectPredicate => "inspectPredicate" | .inspectUnwrap => "inspectUnwrap"
  | .cachedTypeHints => "cachedTypeHints" | .cachedSignature => "cachedSignature"
  | .cachedSimpleAttrs => "cachedSimpleAttrs" | .resolveModuleName => "resolveModuleName"
  | .futureTransform => "futureTransform" | .getBinding => "getBinding"

/-- The declared classification (checked on the real code by the harness, every run). -/
def classify : RealSite → SiteClass
  -- value caches
  | .strload            => ⟨true,  false, true,  true⟩   -- fresh deep copy of dict/list/set/tuple (a8d48a3), key normalised (14a93ad)
  | .strloadRaw         => ⟨false, true,  true,  false⟩  -- `SE.a == 'null'` but decode(SE.a) ≠ decode('null'); hands out its list
  | .dateparse          => ⟨true,  true,  false, true⟩   -- date / time / datetime / timedelta objects
  | .getItemsIter       => ⟨true,  true,  false, true⟩   -- a function object
  -- routine caches: keyed by annotation equality, `Union[int, str] == Union[str, int]` (finding unionOrderKey)
  | .marshaller         => ⟨false, true,  false, true⟩
  | .unmarshaller       => ⟨false, true,  false, true⟩
  | .codec              => ⟨false, true,  false, true⟩
  | .staticOrder        => ⟨false, true,  false, false⟩  -- the memoised tuple (immutable); `static_order` copies it into a new list per call
  | .typeContext        => ⟨false, true,  false, false⟩
  | .delayedResolved    => ⟨true,  true,  false, false⟩
  | .typingGenericCache => ⟨false, true,  false, false⟩
  -- inspection
  | .inspectPredicate   => ⟨false, true,  false, false⟩  -- bool / str; `int | str == Union[int, str]` but `name` says "int | str" / "Union"
  | .inspectUnwrap      => ⟨false, true,  false, false⟩  -- returns the first-seen spelling of the annotation
  | .cachedTypeHints    => ⟨true,  true,  true,  false⟩  -- the cached dict; only read by the structured routines
  | .cachedSignature    => ⟨true,  true,  false, false⟩
  | .cachedSimpleAttrs  => ⟨true,  true,  false, false⟩
  | .resolveModuleName  => ⟨false, true,  false, false⟩  -- hidden argument: the stack of the first caller
  | .futureTransform    => ⟨true,  true,  false, false⟩
  | .getBinding         => ⟨true,  true,  false, false⟩

def SiteClass.freshOrImmutable (c : SiteClass) : Bool := !c.returnsShared || !c.resultMutable
def SiteClass.good (c : SiteClass) : Bool := c.congruent && c.freshOrImmutable

end Typelib.Cache
