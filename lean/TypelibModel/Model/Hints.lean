/-
  Model of how the library obtains the MEMBER HINTS of a class or callable (src/typelib/py/inspection.py):
    `get_type_hints(obj, exhaustive)` (314-337), `_hints_from_signature` (340-359), `signature` (298-308) with
    `typed_dict_signature` (394-414), `tuple_signature` (417-438) and the named-tuple exception (306),
    `cached_type_hints` / `cached_signature` (362 / 311), and — because the binder reads it — which annotation
    `binding._get_binding` takes for a parameter (binding.py:117-131).

  What is modelled (tied to the real code by harness/props/hints_corr.py on every run of C17):
    * an object as a DESCRIPTION of exactly what these functions and CPython's `typing.get_type_hints` /
      `inspect.signature` look at:
        - a class: its kind (what `istypeddict` / `istupletype` / `isnamedtuple` answer), its `__mro__` from the
          most derived class to `object`, every entry with its `__module__`, its own namespace (`vars(base)`, the
          fallback scope of a string annotation), its OWN annotations (`base.__dict__["__annotations__"]`, in order)
          and the signature of the `__init__` / `__new__` it defines ITSELF (`None` when it defines neither);
        - a function or bound method: module, `__annotations__` (parameters, then `return`), parameters;
        - an instance of a class with `__call__`; a `tuple[...]` / `Tuple[...]` alias;
    * an annotation as `AnnExpr`: a NAME still to be looked up (a string annotation, e.g. every annotation of a
      module with `from __future__ import annotations`), `ClassVar[...]` text, an object that was evaluated when the
      class body ran, or a `ForwardRef(name, module=m)` object (what `typing.TypedDict` stores);
    * the interpreter's namespaces as `Env`: `sys.modules[m].__dict__` per module and `builtins`; a name is bound to
      a hint value or to something `typing` rejects (`Bound.invalid`, e.g. a tuple: TypeError);
    * `typingGetTypeHints` = CPython 3.12's `typing.get_type_hints(obj)`:
        class: `for base in reversed(obj.__mro__)`: every own annotation of `base` evaluated with
          `sys.modules[base.__module__].__dict__` first, then `vars(base)`, then builtins (typing.py swaps globals and
          locals); later classes override earlier names IN PLACE (dict update); the first NameError / TypeError
          aborts the whole call.  A `ForwardRef` carrying a module is evaluated with the module dict of the class
          BEING WALKED as locals and the dict of its own module as globals (`ForwardRef._evaluate`);
        function / method: `__annotations__` in `__globals__`; a top-level `ClassVar` is a TypeError;
        instance: `instance.__annotations__` is found on the nearest annotated class, evaluated with builtins only;
          no annotations: TypeError; a `tuple[...]` alias: TypeError;
    * `getTypeHints`, `hintsFromSignature`, `signatureOf`, `typedDictSignature`, `tupleSignature`, `realSignature`
      follow the code branch by branch (as of /repo f5b21b1: `typed_dict_signature` reads the hints of the class itself,
      87eadd9, and `__required_keys__`, 629e6a2).  `Fail.recursion` is the RecursionError of the mutual recursion
      `get_type_hints -> _hints_from_signature -> signature -> typed_dict_signature -> cached_type_hints -> get_type_hints`
      which the code before 87eadd9 entered for a TypedDict without any resolvable hint; the present functions never
      produce it (Props/Hints.lean `signature_never_recurses`, `get_type_hints_total`), the mutant `…Pre87eadd9` does;
    * `bindAnnotations` / `bindTargets`: the annotation `binding._get_binding` asks an unmarshaller for, per parameter
      (a string becomes `refs.forwardref(text, module=obj.__module__)`, f5b21b1), and what that reference evaluates to;
    * `runSeq` / `cachedStep`: a sequence of calls through a memo keyed by object identity (`compat.cache`).

  Outside the model: what an annotation object IS (hints are opaque identities `ty id`), `Annotated` / `Required` /
  `NotRequired` stripping, generics with forward references inside, metaclass `__call__`, a pre-existing
  `__signature__`, frame walking when an object has no `__module__`, `__wrapped__` chains.

  The section `Mutants` holds the seeded regressions C05h, C18g, C12h, C15h, C10g of /verif/seeded and the code before
  the repairs 87eadd9, 629e6a2, f5b21b1 (`…Pre87eadd9`, `…Pre629e6a2`, `…PreF5b21b1`) as WRONG implementations; Props/Hints.lean uses them to show its statements are not vacuous, the driver answers them beside
  the real functions (harness demonstrations only).
-/
import TypelibModel.Model.Naming
namespace Typelib.Hints
open Typelib

abbrev TypeId := Nat

/-- A hint as the library hands it out (the harness numbers runtime objects by identity). -/
inductive Hint
  | ty (id : TypeId)            -- a resolved runtime object (class, alias, NoneType, ...)
  | any                         -- `typing.Any` (inspection.py:349)
  | kwOnly                      -- the `dataclasses.KW_ONLY` sentinel
  | classVar (inner : Hint)     -- `ClassVar[inner]`
  | fwd (text module : Str)     -- `refs.forwardref(text, module=module)` (inspection.py:353)
  deriving DecidableEq, Repr, Inhabited

/-- What a name is bound to in a namespace. -/
inductive Bound
  | val (h : Hint)
  | invalid                     -- an object `typing._type_check` refuses (a tuple): TypeError
  deriving DecidableEq, Repr, Inhabited

abbrev Dict (α : Type) := List (Str × α)

def keys {α : Type} (d : Dict α) : List Str := d.map Prod.fst

/-- The interpreter's namespaces, restricted to the names the annotations use. -/
structure Env where
  /-- `sys.modules[m].__dict__`; a module that is not imported has the empty dict (typing.py: `getattr(.., '__dict__', {})`) -/
  mods : Dict (Dict Bound) := []
  builtins : Dict Bound := []
  deriving DecidableEq, Repr, Inhabited

inductive AnnExpr
  | name (s : Str)              -- a string annotation that is a bare name
  | classVar (e : AnnExpr)      -- the text `ClassVar[e]` (`ClassVar` itself importable where it is written)
  | obj (h : Hint)              -- evaluated when the class body / `def` ran
  | ref (s m : Str)             -- a `typing.ForwardRef(s, module=m)` object (fields of a `typing.TypedDict`)
  deriving DecidableEq, Repr, Inhabited

inductive PKind
  | posOnly | posOrKw | varPos | kwOnly | varKw
  deriving DecidableEq, Repr, Inhabited

/-- `inspect.Parameter.annotation`: `Parameter.empty`, a string, anything else -/
inductive PAnn
  | missing
  | text (s : Str)
  | obj (h : Hint)
  deriving DecidableEq, Repr, Inhabited

/-- `inspect.Parameter.default`: `Parameter.empty`, the `...` of `typed_dict_signature`, a value -/
inductive PDefault
  | none | ellipsis | value
  deriving DecidableEq, Repr, Inhabited

structure Param where
  name : Str
  kind : PKind := .posOrKw
  ann : PAnn := .missing
  dflt : PDefault := .none
  deriving DecidableEq, Repr, Inhabited

/-- One class of an `__mro__`. -/
structure ClassEntry where
  /-- identity of the class object -/
  id : Nat := 0
  /-- `base.__module__` -/
  module : Str := []
  /-- `vars(base)` restricted to names of interest (nested classes, class attributes) -/
  ns : Dict Bound := []
  /-- `base.__dict__.get("__annotations__", {})`, in order -/
  anns : Dict AnnExpr := []
  /-- signature of the `__init__` / `__new__` found in `vars(base)` (without the bound first parameter) -/
  ctor : Option (List Param) := none
  deriving DecidableEq, Repr, Inhabited

inductive Kind
  | plain
  | dataclass
  /-- `istypeddict` (a dict subclass with `__total__`): `__total__`, `__required_keys__` (`none`: the class has no such
      attribute — not a real `typing.TypedDict`), the keys `x` with `hasattr(cls, x)` (read by the code before 629e6a2 only) -/
  | typedDict (total : Bool) (required : Option (List Str)) (attrs : List Str)
  /-- `isnamedtuple`: a tuple subclass with `_fields` (typing.NamedTuple, or a hint-less `collections.namedtuple`) -/
  | namedTuple
  /-- `istupletype and not isnamedtuple`: `tuple` itself, a plain tuple subclass -/
  | tupleSub
  deriving DecidableEq, Repr, Inhabited

structure ClassDesc where
  kind : Kind := .plain
  /-- most derived first; the head is the class itself -/
  mro : List ClassEntry := []
  /-- what `inspect.signature(cls)` answers when no class of the MRO defines `__init__` / `__new__`:
      `()` for subclasses of `object`, ValueError (`none`) for most builtin bases -/
  fallback : Option (List Param) := some []
  deriving DecidableEq, Repr, Inhabited

structure FuncDesc where
  /-- `__module__`; `__globals__` is that module's dict -/
  module : Str := []
  /-- `__annotations__`: parameters in order, then `return` -/
  anns : Dict AnnExpr := []
  /-- `inspect.signature(f).parameters` (a bound method: without `self`) -/
  params : List Param := []
  deriving DecidableEq, Repr, Inhabited

inductive Obj
  | cls (c : ClassDesc)
  | func (f : FuncDesc)
  /-- an instance of `c`; `call` = parameters of the bound `__call__` (`none`: not callable) -/
  | inst (c : ClassDesc) (call : Option (List Param))
  /-- `tuple[a, b]` / `Tuple[a, ...]`: `module` = its `__module__`, `args` without the trailing `...` -/
  | tupleAlias (module : Str) (args : List Hint) (variadic : Bool)
  deriving DecidableEq, Repr, Inhabited

/-- errors of `typing.get_type_hints` the wrapper catches (inspection.py:330) -/
inductive TErr
  | nameError | typeError
  deriving DecidableEq, Repr, Inhabited

/-- errors of `signature` / `get_type_hints` -/
inductive Fail
  | recursion | valueError | typeError
  deriving DecidableEq, Repr, Inhabited

/-! ### namespaces -/

def modDict (env : Env) (m : Str) : Dict Bound := (env.mods.lookup m).getD []

/-- the first binding of a name along a chain of namespaces -/
def lookupChain : List (Dict Bound) → Str → Option Bound
  | [], _ => none
  | d :: ds, s =>
    match d.lookup s with
    | some b => some b
    | none => lookupChain ds s

/-- `eval(name, globals, locals)` + `typing._type_check` -/
def resolve (scope : List (Dict Bound)) (s : Str) : Except TErr Hint :=
  match lookupChain scope s with
  | none => .error .nameError
  | some .invalid => .error .typeError
  | some (.val h) => .ok h

/-- scope of a string annotation of class `e` (typing.py, `get_type_hints`, class branch: module dict, `vars(base)`, builtins) -/
def classScope (env : Env) (e : ClassEntry) : List (Dict Bound) := [modDict env e.module, e.ns, env.builtins]

/-- scope of a `ForwardRef(.., module=m)` met while walking a class / function whose module dict is `loc`
    (`ForwardRef._evaluate`: the caller's locals first, then the dict of the reference's own module) -/
def refScope (env : Env) (loc : Dict Bound) (m : Str) : List (Dict Bound) := [loc, modDict env m, env.builtins]

def funcScope (env : Env) (m : Str) : List (Dict Bound) := [modDict env m, env.builtins]

/-- `typing._eval_type` of one annotation; `loc` = the locals a module-carrying reference sees -/
def evalAnn (env : Env) (loc : Dict Bound) (scope : List (Dict Bound)) : AnnExpr → Except TErr Hint
  | .name s => resolve scope s
  | .classVar e =>
    match evalAnn env loc scope e with
    | .ok h => .ok (.classVar h)
    | .error x => .error x
  | .obj h => .ok h
  | .ref s m => resolve (refScope env loc m) s

def isObjAnn : AnnExpr → Bool
  | .obj _ => true
  | _ => false

def isClassVarHint : Hint → Bool
  | .classVar _ => true
  | _ => false

/-- annotations of a function / of an instance: a string that evaluates to a top-level `ClassVar` is a TypeError
    (`ForwardRef(.., is_class=False)`) -/
def evalFuncAnn (env : Env) (loc : Dict Bound) (scope : List (Dict Bound)) (a : AnnExpr) : Except TErr Hint :=
  match evalAnn env loc scope a with
  | .ok h => if !isObjAnn a && isClassVarHint h then .error .typeError else .ok h
  | .error x => .error x

/-- `{name: eval(value) for name, value in ann.items()}`, the first failure aborts -/
def evalItems (ev : AnnExpr → Except TErr Hint) : Dict AnnExpr → Except TErr (Dict Hint)
  | [] => .ok []
  | p :: ps =>
    match ev p.2 with
    | .error x => .error x
    | .ok h =>
      match evalItems ev ps with
      | .error x => .error x
      | .ok rest => .ok ((p.1, h) :: rest)

/-- `d[n] = h` on an insertion-ordered dict -/
def upsert (d : Dict Hint) (n : Str) (h : Hint) : Dict Hint :=
  match d with
  | [] => [(n, h)]
  | (k, v) :: rest => if k == n then (k, h) :: rest else (k, v) :: upsert rest n h

def updateAll (d : Dict Hint) : Dict Hint → Dict Hint
  | [] => d
  | p :: rest => updateAll (upsert d p.1 p.2) rest

def evalEntry (env : Env) (e : ClassEntry) : Except TErr (Dict Hint) :=
  evalItems (evalAnn env (modDict env e.module) (classScope env e)) e.anns

/-- `typing.get_type_hints(cls)`: the MRO walked from `object` to the class (so: the tail first) -/
def hintsOfMro (env : Env) : List ClassEntry → Except TErr (Dict Hint)
  | [] => .ok []
  | e :: rest =>
    match hintsOfMro env rest with
    | .error x => .error x
    | .ok base =>
      match evalEntry env e with
      | .error x => .error x
      | .ok own => .ok (updateAll base own)

/-- `instance.__annotations__`: ordinary attribute lookup finds the dict of the nearest annotated class -/
def nearestAnns : List ClassEntry → Option (Dict AnnExpr)
  | [] => none
  | e :: rest => if e.anns.isEmpty then nearestAnns rest else some e.anns

/-- `typing.get_type_hints(obj)` (CPython 3.12) -/
def typingGetTypeHints (env : Env) : Obj → Except TErr (Dict Hint)
  | .cls c => hintsOfMro env c.mro
  | .func f => evalItems (evalFuncAnn env (modDict env f.module) (funcScope env f.module)) f.anns
  | .inst c _ =>
    match nearestAnns c.mro with
    | none => .error .typeError
    | some anns => evalItems (evalFuncAnn env [] [env.builtins]) anns
  | .tupleAlias _ _ _ => .error .typeError

/-! ### signatures -/

def headModule : List ClassEntry → Str
  | [] => []
  | e :: _ => e.module

/-- `getattr(obj, "__module__", None)` (inspection.py:354) -/
def objModule : Obj → Str
  | .cls c => headModule c.mro
  | .func f => f.module
  | .inst c _ => headModule c.mro
  | .tupleAlias m _ _ => m

/-- the `__init__` / `__new__` of the first class of the MRO that defines one (inspect.py, `_signature_from_callable`) -/
def firstCtor : List ClassEntry → Option (List Param)
  | [] => none
  | e :: rest =>
    match e.ctor with
    | some ps => some ps
    | none => firstCtor rest

/-- `inspect.signature(cls)` -/
def realSignature (c : ClassDesc) : Except Fail (List Param) :=
  match firstCtor c.mro with
  | some ps => .ok ps
  | none =>
    match c.fallback with
    | some ps => .ok ps
    | none => .error .valueError

def argsName : Str := ['a', 'r', 'g', 's']
def argName (i : Nat) : Str := ['a', 'r', 'g'] ++ Nat.toDigits 10 i

def firstOrAny : List Hint → Hint
  | [] => .any
  | h :: _ => h

def tupleParams : Nat → List Hint → List Param
  | _, [] => []
  | i, h :: hs => { name := argName i, kind := .posOnly, ann := .obj h, dflt := .none } :: tupleParams (i + 1) hs

/-- `tuple_signature` (inspection.py:417-438); `args` = `args(t)` without a trailing `...` -/
def tupleSignature (args : List Hint) (variadic : Bool) : List Param :=
  if args.isEmpty || variadic then
    [{ name := argsName, kind := .varPos, ann := .obj (firstOrAny args), dflt := .none }]
  else tupleParams 0 args

/-- `required` of `typed_dict_signature`: `__required_keys__`; without that attribute every key / no key by `__total__` -/
def requiredOf (total : Bool) (required : Option (List Str)) (hints : Dict Hint) : List Str :=
  match required with
  | some r => r
  | none => if total then keys hints else []

/-- one parameter of `typed_dict_signature`: `default=Parameter.empty if x in required else ...` -/
def tdParam (req : List Str) (p : Str × Hint) : Param :=
  { name := p.1, kind := .kwOnly, ann := .obj p.2, dflt := if req.contains p.1 then .none else .ellipsis }

/-- `typed_dict_signature(obj)` given `hints = get_type_hints(obj, exhaustive=False)` -/
def typedDictSignature (total : Bool) (required : Option (List Str)) (hints : Dict Hint) : List Param :=
  hints.map (tdParam (requiredOf total required hints))

def notKwOnly (p : Str × Hint) : Bool := p.2 != .kwOnly

/-- inspection.py:328-334: typing's answer, `{}` on NameError / TypeError, without the `KW_ONLY` sentinel -/
def baseHints (env : Env) (o : Obj) : Dict Hint :=
  match typingGetTypeHints env o with
  | .ok h => h.filter notKwOnly
  | .error _ => []

/-- `inspection.signature(obj)`.  For a TypedDict `typed_dict_signature` asks `get_type_hints(obj, exhaustive=False)`: the
    hints of the class itself, which never come back to the signature. -/
def signatureOf (env : Env) : Obj → Except Fail (List Param)
  | .cls c =>
    match c.kind with
    | .typedDict total required _ => .ok (typedDictSignature total required (baseHints env (.cls c)))
    | .tupleSub => .ok (tupleSignature [] false)
    | _ => realSignature c
  | .func f => .ok f.params
  | .inst _ call =>
    match call with
    | some ps => .ok ps
    | none => .error .typeError
  | .tupleAlias _ args v => .ok (tupleSignature args v)

def annHint (module : Str) : PAnn → Hint
  | .missing => .any
  | .text s => .fwd (Naming.forwardrefOfText s module).text (Naming.forwardrefOfText s module).module
  | .obj h => h

/-- one entry of `_hints_from_signature` (inspection.py:346-358) -/
def paramHint (module : Str) (p : Param) : Str × Hint := (p.name, annHint module p.ann)

/-- `_hints_from_signature(obj)`: TypeError / ValueError of `signature` give `{}` (anything else would propagate) -/
def hintsFromSignature (env : Env) (o : Obj) : Except Fail (Dict Hint) :=
  match signatureOf env o with
  | .ok ps => .ok (ps.map (paramHint (objModule o)))
  | .error .recursion => .error .recursion
  | .error _ => .ok []

/-- `inspection.get_type_hints(obj, exhaustive)` (314-337) -/
def getTypeHints (env : Env) (o : Obj) (exhaustive : Bool) : Except Fail (Dict Hint) :=
  if (baseHints env o).isEmpty && exhaustive then hintsFromSignature env o else .ok (baseHints env o)

/-- `cached_type_hints(obj)`: one argument, so `exhaustive=True` -/
def cachedTypeHintsValue (env : Env) (o : Obj) : Except Fail (Dict Hint) := getTypeHints env o true

def paramAnn (p : Param) : Str × PAnn := (p.name, p.ann)

/-- `param.annotation` of `cached_signature(obj)` per parameter: where `binding._get_binding` starts from -/
def paramAnnotations (env : Env) (o : Obj) : Except Fail (Dict PAnn) :=
  match signatureOf env o with
  | .ok ps => .ok (ps.map paramAnn)
  | .error e => .error e

/-- binding.py `_get_binding`: a string annotation becomes `refs.forwardref(annotation, is_argument=True, module=obj.__module__)` -/
def bindAnn (module : Str) : PAnn → PAnn
  | .text s => .obj (.fwd (Naming.forwardrefOfText s module).text (Naming.forwardrefOfText s module).module)
  | a => a

def bindParamAnn (module : Str) (p : Param) : Str × PAnn := (p.name, bindAnn module p.ann)

/-- the annotation each parameter's unmarshaller is asked for -/
def bindAnnotations (env : Env) (o : Obj) : Except Fail (Dict PAnn) :=
  match signatureOf env o with
  | .ok ps => .ok (ps.map (bindParamAnn (objModule o)))
  | .error e => .error e

/-- why building a binding fails: the signature, or a reference that cannot be evaluated -/
inductive BErr
  | sig (f : Fail)
  | eval (e : TErr)
  deriving DecidableEq, Repr, Inhabited

/-- `refs.evaluate(ref)`: the text in the globals of the module the reference carries (then builtins) -/
def evalRef (env : Env) : Hint → Except TErr Hint
  | .fwd t m => resolve (funcScope env m) t
  | h => .ok h

/-- the type the unmarshaller of one parameter is built for (`none`: no annotation, `NoOpUnmarshaller`).  A bare string
    that reaches `unmarshaller(..)` is resolved in the module of whoever CALLS the library (frame walking): `caller`. -/
def bindTarget (env : Env) (caller : Str) : PAnn → Except TErr (Option Hint)
  | .missing => .ok none
  | .text s => match resolve (funcScope env caller) s with
    | .ok h => .ok (some h)
    | .error e => .error e
  | .obj h => match evalRef env h with
    | .ok v => .ok (some v)
    | .error e => .error e

/-- every parameter in order, the first failure aborts the binding -/
def bindItems (f : PAnn → Except TErr (Option Hint)) : Dict PAnn → Except BErr (Dict (Option Hint))
  | [] => .ok []
  | p :: ps =>
    match f p.2 with
    | .error e => .error (.eval e)
    | .ok t =>
      match bindItems f ps with
      | .error e => .error e
      | .ok rest => .ok ((p.1, t) :: rest)

/-- `binding._get_binding(obj)` called from module `caller`: the type each parameter is converted to -/
def bindTargets (env : Env) (caller : Str) (o : Obj) : Except BErr (Dict (Option Hint)) :=
  match bindAnnotations env o with
  | .error e => .error (.sig e)
  | .ok d => bindItems (bindTarget env caller) d

/-! ### sequences of calls -/

/-- results of a sequence of calls threading a state -/
def runSeq {σ α β : Type} (step : σ → α → σ × β) : σ → List α → List β
  | _, [] => []
  | s, x :: xs => (step s x).2 :: runSeq step (step s x).1 xs

/-- identity of the object a call is about (the class object, i.e. the head of the MRO) -/
def headId : List ClassEntry → Nat
  | [] => 0
  | e :: _ => e.id

/-- identity of a class (other objects are not told apart here: `0`) -/
def classId : Obj → Nat
  | .cls c => headId c.mro
  | _ => 0

/-- `compat.cache(f)`: a memo keyed by the identity of the argument -/
def cachedStep {α β : Type} (f : α → β) (key : α → Nat) (memo : List (Nat × β)) (o : α) : List (Nat × β) × β :=
  match memo.lookup (key o) with
  | some r => (memo, r)
  | none => ((key o, f o) :: memo, f o)

/-- `inspection.signature` keeps no state -/
def realSigStep (env : Env) (s : List (Nat × List Param)) (o : Obj) : List (Nat × List Param) × Except Fail (List Param) :=
  (s, signatureOf env o)

/-! ### names a description annotates -/

def mroAnnotated : List ClassEntry → List Str
  | [] => []
  | e :: rest => keys e.anns ++ mroAnnotated rest

/-- the names annotated on the object itself: on some class of the MRO, on the function -/
def annotatedNames : Obj → List Str
  | .cls c => mroAnnotated c.mro
  | .func f => keys f.anns
  | .inst c _ => mroAnnotated c.mro
  | .tupleAlias _ _ _ => []

/-! ### well-formed descriptions (what Python guarantees) -/

def nodupB : List Str → Bool
  | [] => true
  | x :: xs => !xs.contains x && nodupB xs

def annNotSentinel (p : Param) : Bool := p.ann != .obj .kwOnly

/-- a parameter list: distinct names, no parameter annotated with the `KW_ONLY` sentinel -/
def paramsOk (ps : List Param) : Bool := nodupB (ps.map Param.name) && ps.all annNotSentinel

def ctorOk : Option (List Param) → Bool
  | none => true
  | some ps => paramsOk ps

def entryOk (e : ClassEntry) : Bool := nodupB (keys e.anns) && ctorOk e.ctor

def isTypedDict : Kind → Bool
  | .typedDict _ _ _ => true
  | _ => false

def classOk (c : ClassDesc) : Bool := !c.mro.isEmpty && c.mro.all entryOk && ctorOk c.fallback

def notSentinel (h : Hint) : Bool := h != .kwOnly

def wf : Obj → Bool
  | .cls c => classOk c
  | .func f => nodupB (keys f.anns) && paramsOk f.params
  | .inst c call => classOk c && ctorOk call
  | .tupleAlias _ args v => args.all notSentinel && (!v || !args.isEmpty)

/-! ### Mutants: the seeded regressions, as models -/
section Mutants

/-- C05h: `typing.get_type_hints(obj, globalns=<dict of the OBJECT's module>)`: every class of the MRO is evaluated
    with `vars(base)` first, then the module of the derived class. -/
def c05hScope (env : Env) (m : Str) (e : ClassEntry) : List (Dict Bound) := [e.ns, modDict env m, env.builtins]

def hintsOfMroC05h (env : Env) (m : Str) : List ClassEntry → Except TErr (Dict Hint)
  | [] => .ok []
  | e :: rest =>
    match hintsOfMroC05h env m rest with
    | .error x => .error x
    | .ok base =>
      match evalItems (evalAnn env e.ns (c05hScope env m e)) e.anns with
      | .error x => .error x
      | .ok own => .ok (updateAll base own)

def typingC05h (env : Env) : Obj → Except TErr (Dict Hint)
  | .cls c => hintsOfMroC05h env (headModule c.mro) c.mro
  | o => typingGetTypeHints env o

def getTypeHintsC05h (env : Env) (o : Obj) (exhaustive : Bool) : Except Fail (Dict Hint) :=
  let h := match typingC05h env o with
    | .ok h => h.filter notKwOnly
    | .error _ => []
  if h.isEmpty && exhaustive then hintsFromSignature env o else .ok h

/-- C18g: on NameError the hints are read from the signature, whatever `exhaustive` says. -/
def getTypeHintsC18g (env : Env) (o : Obj) (exhaustive : Bool) : Except Fail (Dict Hint) :=
  match typingGetTypeHints env o with
  | .error .nameError =>
    match hintsFromSignature env o with
    | .error e => .error e
    | .ok h =>
      if (h.filter notKwOnly).isEmpty && exhaustive then hintsFromSignature env o else .ok (h.filter notKwOnly)
  | _ => getTypeHints env o exhaustive

/-- `istypedtuple` for a tuple class: truthy own `__annotations__` -/
def headAnnotated : List ClassEntry → Bool
  | [] => false
  | e :: _ => !e.anns.isEmpty

/-- C15h: `istupletype(obj) and not istypedtuple(obj)` decides who gets the fake tuple signature. -/
def signatureOfC15h (env : Env) : Obj → Except Fail (List Param)
  | .cls c =>
    match c.kind with
    | .namedTuple => if headAnnotated c.mro then realSignature c else .ok (tupleSignature [] false)
    | .tupleSub => if headAnnotated c.mro then realSignature c else .ok (tupleSignature [] false)
    | _ => signatureOf env (.cls c)
  | o => signatureOf env o

/-- `obj.__signature__` by ordinary attribute lookup: the nearest class of the MRO that has one stored -/
def storedSig (s : List (Nat × List Param)) : List ClassEntry → Option (List Param)
  | [] => none
  | e :: rest =>
    match s.lookup e.id with
    | some ps => some ps
    | none => storedSig s rest

def reachesInspect : Kind → Bool
  | .typedDict _ _ _ => false
  | .tupleSub => false
  | _ => true

/-- C12h: `signature` stores what it resolved as `obj.__signature__`, which `inspect.signature` honours — and which
    subclasses inherit.  State = the stored signatures by class identity. -/
def c12hStep (env : Env) (s : List (Nat × List Param)) (o : Obj) : List (Nat × List Param) × Except Fail (List Param) :=
  match o with
  | .cls c =>
    if reachesInspect c.kind then
      match storedSig s c.mro with
      | some ps => ((headId c.mro, ps) :: s, .ok ps)
      | none =>
        match realSignature c with
        | .ok ps => ((headId c.mro, ps) :: s, .ok ps)
        | .error e => (s, .error e)
    else (s, signatureOf env o)
  | _ => (s, signatureOf env o)

def c10gAnn (hints : Dict Hint) (p : Param) : Str × PAnn :=
  match hints.lookup p.name with
  | some h => (p.name, .obj h)
  | none => (p.name, p.ann)

/-- C10g: `_get_binding` takes `cached_type_hints(obj).get(name, param.annotation)`. -/
def paramAnnotationsC10g (env : Env) (o : Obj) : Except Fail (Dict PAnn) :=
  match signatureOf env o with
  | .error e => .error e
  | .ok ps =>
    match getTypeHints env o true with
    | .error e => .error e
    | .ok hints => .ok (ps.map (c10gAnn hints))

/-- before 87eadd9: `typed_dict_signature` asked `cached_type_hints(obj)` (exhaustive), which comes back to the signature
    when the class has no resolvable hint: RecursionError. -/
def signatureOfPre87eadd9 (env : Env) : Obj → Except Fail (List Param)
  | .cls c =>
    match c.kind with
    | .typedDict total required _ =>
      if (baseHints env (.cls c)).isEmpty then .error .recursion
      else .ok (typedDictSignature total required (baseHints env (.cls c)))
    | _ => signatureOf env (.cls c)
  | o => signatureOf env o

def hintsFromSignaturePre87eadd9 (env : Env) (o : Obj) : Except Fail (Dict Hint) :=
  match signatureOfPre87eadd9 env o with
  | .ok ps => .ok (ps.map (paramHint (objModule o)))
  | .error .recursion => .error .recursion
  | .error _ => .ok []

def getTypeHintsPre87eadd9 (env : Env) (o : Obj) (exhaustive : Bool) : Except Fail (Dict Hint) :=
  if (baseHints env o).isEmpty && exhaustive then hintsFromSignaturePre87eadd9 env o else .ok (baseHints env o)

/-- before 629e6a2: `default=getattr(obj, x, empty if total else ...)` — `__total__` only, and an attribute of the class
    named like the key (a method of `dict`) as the default. -/
def tdParamPre629e6a2 (total : Bool) (attrs : List Str) (p : Str × Hint) : Param :=
  { name := p.1, kind := .kwOnly, ann := .obj p.2,
    dflt := if attrs.contains p.1 then .value else if total then .none else .ellipsis }

def signatureOfPre629e6a2 (env : Env) : Obj → Except Fail (List Param)
  | .cls c =>
    match c.kind with
    | .typedDict total _ attrs => .ok ((baseHints env (.cls c)).map (tdParamPre629e6a2 total attrs))
    | _ => signatureOf env (.cls c)
  | o => signatureOf env o

/-- before f5b21b1: `_get_binding` handed `param.annotation` to `unmarshaller(..)` as it was — a string is then resolved in
    the module of the caller. -/
def bindTargetsPreF5b21b1 (env : Env) (caller : Str) (o : Obj) : Except BErr (Dict (Option Hint)) :=
  match paramAnnotations env o with
  | .error e => .error (.sig e)
  | .ok d => bindItems (bindTarget env caller) d

end Mutants

end Typelib.Hints
