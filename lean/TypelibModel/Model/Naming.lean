/-
  Model of how typelib NAMES a type by a forward reference and finds it again:

    * `inspection.qualname` / `inspection.name`              (src/typelib/py/inspection.py:226-278)
    * `refs.forwardref(<object or text>, module=…)`           (src/typelib/py/refs.py:30-70, as of befc63c)
      with `_resolve_module_name` when the module is known      (refs.py:139-143: returns it unchanged)
    * `refs.evaluate(ref)`                                     (refs.py:83-110 → `typing.ForwardRef._evaluate`:
      `eval(text, sys.modules[ref.__forward_module__].__dict__)`)

  What is modelled (tied to the real code by harness/props/naming_corr.py on every run of C16):

    * A namespace (`NS`) is the finite edge-labelled graph that `vars()` shows: a heap of objects, each with
      an identity (`id : Nat`), and bindings `(scope, name) ↦ id` where a scope is a module (by its name —
      dotted names are one `Str`) or a class object.  In a well-formed namespace (`Props/Naming.lean: wf`)
      the bindings made by class statements form the tree of those statements; other bindings may bind an
      object again under another name, in another scope or in another module (`Z = A.B`, `from a import A`,
      `RenamedRef = NewType("RenamedId", int)`).  Because a scope is an object and not a path, `Z.C` finds
      what `A.B.C` finds — as in Python.
    * An object (`Obj`) is what the code reads of it: `__name__`, `__qualname__` split at its dots (`none`
      for an object that has none: `typing.TypeAliasType`), `__module__`, and its kind: a class, a function
      (it owns no bindings; the `<locals>` marker follows the name of one), or a NewType / TypeAliasType
      (`alias`: a named object that no statement binds under its declared name).
    * Texts are `List Char`; `str.replace(pat, "")` is `stripAll pat` (left to right, non-overlapping, at
      CHARACTER level); `re.sub(rf"(?<![\w.]){re.escape(module)}\.", "", text)` (refs.py:61, befc63c) is
      `stripQual module`: left to right, non-overlapping, a match only where the character before it IN THE ORIGINAL
      text is not `[A-Za-z0-9_.]` (`\w` of Python also takes non-ASCII letters and digits: identifiers outside ASCII are
      outside the model); `str.split(".")` is `splitDots`; `".".join` is `joinDots`.
    * `evaluateRef` resolves the dotted text segment by segment: the first segment in the `__dict__` of the
      reference's module (`NameError` when missing), every further one among the bindings owned by the
      object reached (`AttributeError`); an empty segment is a `SyntaxError`.

  Outside the model (never produced by the correspondence): the builtins behind a module's globals, base
  classes and metaclass attributes in attribute lookup, texts that are not dotted names (C11 covers type
  expressions), `forwardref` without a module (frame walking, `frames.py`), `typing._type_check` of the
  value found (every modelled object passes it).

  The section `Mutants` holds WRONG ways of naming — the tree before befc63c (`str.replace` of every `"<module>."`), the
  tree before c0135c0 and the seeded changes C09g, C16g of /verif/seeded — used by Props/Naming.lean to show that its statements are not vacuous and
  answered by the driver beside `forwardrefOfClass` (demonstrations only; no check depends on them).
-/
import TypelibModel.Model.Basic
namespace Typelib.Naming
open Typelib

/-! ### text: `".".join`, `str.split(".")`, `str.replace(pat, "")` -/

/-- `".".join(segs)` -/
def joinDots : List Str → Str
  | [] => []
  | [s] => s
  | s :: t :: rest => s ++ '.' :: joinDots (t :: rest)

/-- put a character in front of the first segment -/
def consHead (c : Char) : List Str → List Str
  | [] => [[c]]
  | s :: ss => (c :: s) :: ss

/-- `text.split(".")`: never empty, `"".split(".") == [""]` -/
def splitDots : Str → List Str
  | [] => [[]]
  | c :: cs => if c = '.' then [] :: splitDots cs else consHead c (splitDots cs)

/-- `stripGo pat k s`: skip `k` characters, then copy `s` leaving out every occurrence of `pat`, left to right. -/
def stripGo (pat : Str) : Nat → Str → Str
  | _, [] => []
  | k + 1, _ :: cs => stripGo pat k cs
  | 0, c :: cs => if pat.isPrefixOf (c :: cs) then stripGo pat (pat.length - 1) cs else c :: stripGo pat 0 cs

/-- `s.replace(pat, "")` for a non-empty `pat` (every pattern of the code ends in a dot). -/
def stripAll (pat s : Str) : Str := if pat.isEmpty then s else stripGo pat 0 s

/-- `pat` occurs nowhere in `s` (as a substring). -/
def noOcc (pat : Str) : Str → Bool
  | [] => true
  | c :: cs => !pat.isPrefixOf (c :: cs) && noOcc pat cs

def dotFree (s : Str) : Bool := !s.contains '.'

/-- `\w` of the regex, ASCII part -/
def isWordChar (c : Char) : Bool := c.isAlphanum || c == '_'

/-- the class `[\w.]` of the lookbehind of refs.py:61 -/
def isQualChar (c : Char) : Bool := isWordChar c || c == '.'

/-- an (ASCII) Python identifier, as far as this model cares: not empty, word characters only -/
def identLike (s : Str) : Bool := !s.isEmpty && s.all isWordChar

/-- `stripQGo pat k blocked s`: skip `k` characters, then copy `s` leaving out every occurrence of `pat` that is not
    preceded — in the original text — by a character of `[\w.]`; `blocked` says whether the previous character is one. -/
def stripQGo (pat : Str) : Nat → Bool → Str → Str
  | _, _, [] => []
  | k + 1, _, c :: cs => stripQGo pat k (isQualChar c) cs
  | 0, blocked, c :: cs =>
    if !blocked && pat.isPrefixOf (c :: cs) then stripQGo pat (pat.length - 1) (isQualChar c) cs
    else c :: stripQGo pat 0 (isQualChar c) cs

/-- the segment Python puts after the name of a function in the `__qualname__` of what is defined inside it -/
def localsMarker : Str := ['<', 'l', 'o', 'c', 'a', 'l', 's', '>']

/-- `"<locals>."` (inspection.py:275) -/
def localsPat : Str := localsMarker ++ ['.']

/-- `f"{module}."`: what `re.escape(module) + r"\."` matches -/
def modulePat (m : Str) : Str := m ++ ['.']

/-- `re.sub(rf"(?<![\w.]){re.escape(m)}\.", "", s)` (refs.py:61): the module qualifier is removed only where it is a whole
    dotted name. -/
def stripQual (m s : Str) : Str := stripQGo (modulePat m) 0 false s

/-! ### namespaces -/

inductive Kind
  | cls     -- made by a class statement
  | func    -- made by a def statement
  | alias   -- made by a call: `typing.NewType(name, …)`, `TypeAliasType(name, …)`, `type name = …`
  deriving DecidableEq, Repr, Inhabited

structure Obj where
  id : Nat
  kind : Kind := .cls
  /-- `__name__` -/
  name : Str
  /-- `__qualname__.split(".")`; `none`: the object has no `__qualname__` (TypeAliasType) -/
  qual : Option (List Str)
  /-- `__module__` -/
  module : Str
  deriving DecidableEq, Repr, Inhabited

inductive Scope
  | modl (m : Str)   -- `sys.modules[m].__dict__`
  | obj (id : Nat)   -- `vars(<the object>)`
  deriving DecidableEq, Repr, Inhabited

structure Binding where
  scope : Scope
  name : Str
  target : Nat
  deriving DecidableEq, Repr, Inhabited

structure NS where
  objs : List Obj
  binds : List Binding
  deriving Repr, Inhabited

def bindsAt (sc : Scope) (s : Str) (b : Binding) : Bool := b.scope == sc && b.name == s

def findBinding (bs : List Binding) (sc : Scope) (s : Str) : Option Nat :=
  (bs.find? (bindsAt sc s)).map (·.target)

/-- `vars(scope).get(s)` -/
def lookup (ns : NS) (sc : Scope) (s : Str) : Option Nat := findBinding ns.binds sc s

def hasId (i : Nat) (o : Obj) : Bool := o.id == i

/-- the object with identity `i` -/
def objOf (ns : NS) (i : Nat) : Option Obj := ns.objs.find? (hasId i)

/-- The exceptions of `refs.evaluate` on a dotted name. -/
inductive NErr
  | nameError        -- the first segment is not a global of the module
  | attributeError   -- a later segment is not an attribute of the object reached
  | syntaxError      -- an empty segment (`""`, `"A..B"`, `"A."`): `compile` refuses the text
  deriving DecidableEq, Repr, Inhabited

instance : DecidableEq (Except NErr Nat)
  | .ok a, .ok b => if h : a = b then isTrue (by rw [h]) else isFalse (fun e => h (by cases e; rfl))
  | .error a, .error b => if h : a = b then isTrue (by rw [h]) else isFalse (fun e => h (by cases e; rfl))
  | .ok _, .error _ => isFalse (fun e => by cases e)
  | .error _, .ok _ => isFalse (fun e => by cases e)

def missing : Scope → NErr
  | .modl _ => .nameError
  | .obj _ => .attributeError

/-- one name / attribute lookup -/
def step (ns : NS) (sc : Scope) (s : Str) : Except NErr Nat :=
  match lookup ns sc s with
  | some i => .ok i
  | none => .error (missing sc)

/-- `resolveSegs ns sc [s₁, …, sₙ]`: `sc.s₁.….sₙ` -/
def resolveSegs (ns : NS) : Scope → List Str → Except NErr Nat
  | _, [] => .error .syntaxError
  | sc, [s] => step ns sc s
  | sc, s :: t :: rest =>
    match step ns sc s with
    | .ok i => resolveSegs ns (.obj i) (t :: rest)
    | .error e => .error e

/-! ### naming -/

/-- `typing.ForwardRef(text, module=module)`; equality of references is equality of both (typing.py). -/
structure Ref where
  text : Str
  module : Str
  deriving DecidableEq, Repr, Inhabited

/-- `str(obj.__qualname__)` when there is one -/
def rawQualname (o : Obj) : Option Str := o.qual.map joinDots

/-- `inspection.qualname(obj)` for a named, non-generic object (inspection.py:272-277):
    `__qualname__` without every `"<locals>."`, else `__name__`. -/
def qualnameOf (o : Obj) : Str :=
  match o.qual with
  | some segs => stripAll localsPat (joinDots segs)
  | none => o.name

def lastSeg : List Str → Str
  | [] => []
  | [s] => s
  | _ :: t :: rest => lastSeg (t :: rest)

/-- `inspection.name(obj)` = `qualname(obj).rsplit(".")[-1]` (inspection.py:242-243) -/
def nameOf (o : Obj) : Str := lastSeg (splitDots (qualnameOf o))

/-- refs.py:50 `qualified = name != getattr(ref, "__qualname__", None)`: the name is NOT the object's own
    `__qualname__` (it lost a `<locals>.`, or there is no `__qualname__` at all). -/
def isQualified (o : Obj) : Bool := rawQualname o != some (qualnameOf o)

/-- `refs.forwardref(obj)` for an object that is not a `str` (refs.py:45-60; `module` not given, so it is
    `obj.__module__`; `_resolve_module_name` returns a given module unchanged). -/
def forwardrefOfClass (o : Obj) : Ref :=
  { text := if isQualified o then stripQual o.module (qualnameOf o) else qualnameOf o,
    module := o.module }

/-- `refs.forwardref(text, module=m)` (refs.py:52-61): every `"<m>."` that is a whole dotted name is removed from the text. -/
def forwardrefOfText (text m : Str) : Ref :=
  { text := stripQual m text, module := m }

def hasEmptySeg (segs : List Str) : Bool := segs.any List.isEmpty

/-- `refs.evaluate(ref)` on a fresh reference: the identity of the object found, or the exception. -/
def evaluateRef (ns : NS) (r : Ref) : Except NErr Nat :=
  if hasEmptySeg (splitDots r.text) then .error .syntaxError
  else resolveSegs ns (.modl r.module) (splitDots r.text)

/-- The path at which an object's own name says it lives: `__qualname__`, else `[__name__]`. -/
def declaredPath (o : Obj) : List Str :=
  match o.qual with
  | some segs => segs
  | none => [o.name]

def isOkId (r : Except NErr Nat) (i : Nat) : Bool :=
  match r with
  | .ok j => j == i
  | .error _ => false

/-- `o` is bound at its declared path in its module. -/
def boundAtDeclared (ns : NS) (o : Obj) : Bool :=
  isOkId (resolveSegs ns (.modl o.module) (declaredPath o)) o.id

/-! ### what Python guarantees about a namespace (the hypothesis `wf` of Props/Naming.lean) -/

def nodupB {α : Type} [DecidableEq α] : List α → Bool
  | [] => true
  | x :: xs => !xs.contains x && nodupB xs

def segOk (s : Str) : Bool := identLike s || s == localsMarker
def hasLocals (segs : List Str) : Bool := segs.contains localsMarker
def notMarker (s : Str) : Bool := s != localsMarker
/-- the object was made inside a function: its `__qualname__` has the marker -/
def isLocal (o : Obj) : Bool :=
  match o.qual with
  | some segs => hasLocals segs
  | none => false
def isCls (o : Obj) : Bool := o.kind == .cls
def isFunc (o : Obj) : Bool := o.kind == .func

/-- `o` is the class whose body holds the statement `class <last>` that made `c`: a class of the same module whose
    `__qualname__` is `init`, and the statement bound `c` in its body under `last`. -/
def ownerBinds (ns : NS) (c : Obj) (init : List Str) (last : Str) (o : Obj) : Bool :=
  isCls o && o.module == c.module && o.qual == some init && lookup ns (.obj o.id) last == some c.id

/-- The class statement that made `c` bound it, under its `__name__`, in the scope it sits in: the module when
    the `__qualname__` has one segment, else the class named by the segments before the last. -/
def declBound (ns : NS) (c : Obj) (segs : List Str) : Bool :=
  match segs.dropLast with
  | [] => lookup ns (.modl c.module) c.name == some c.id
  | i :: is => ns.objs.any (ownerBinds ns c (i :: is) c.name)

/-- the value found (if any) is a function -/
def funcOrNothing (ns : NS) (r : Except NErr Nat) : Bool :=
  match r with
  | .ok i => (objOf ns i).any isFunc
  | .error _ => true

/-- A class made inside a function: the marker follows the name of something, and that name — where it is still
    bound — is bound to the function (no class took its place). -/
def localsOk (ns : NS) (c : Obj) (segs : List Str) : Bool :=
  !(segs.takeWhile notMarker).isEmpty
    && funcOrNothing ns (resolveSegs ns (.modl c.module) (segs.takeWhile notMarker))

/-- A class statement at path `p` of module `m` made an object with `__module__ = m`, `__qualname__ = p`,
    `__name__ = p[-1]`, bound where the statement sits. -/
def clsOk (ns : NS) (c : Obj) : Bool :=
  match c.qual with
  | none => false
  | some segs =>
    segs.all segOk && identLike c.name && segs.getLast? == some c.name
      && (if hasLocals segs then localsOk ns c segs else declBound ns c segs)

def objOk (ns : NS) (o : Obj) : Bool :=
  match o.kind with
  | .cls => clsOk ns o
  | _ => true

def ownerIsClass (ns : NS) : Scope → Bool
  | .modl _ => true
  | .obj j => (objOf ns j).any isCls

/-- a binding binds an object of the heap; only classes own bindings -/
def bindOk (ns : NS) (b : Binding) : Bool := (objOf ns b.target).isSome && ownerIsClass ns b.scope

def keyOf (b : Binding) : Scope × Str := (b.scope, b.name)

/-- identities are distinct, a scope binds a name once, every class sits where its statement put it -/
def wf (ns : NS) : Bool :=
  nodupB (ns.objs.map Obj.id) && nodupB (ns.binds.map keyOf) && ns.objs.all (objOk ns) && ns.binds.all (bindOk ns)

/-! ### Mutants -/
section Mutants

/-- refs.forwardref(text, module=m) before befc63c: `text.replace(f"{m}.", "")`, every occurrence, at character level. -/
def forwardrefOfTextPreBefc63c (text m : Str) : Ref :=
  { text := stripAll (modulePat m) text, module := m }

/-- refs.forwardref(obj) before befc63c (after c0135c0): the same replacement where the name is not the `__qualname__`. -/
def forwardrefPreBefc63c (o : Obj) : Ref :=
  { text := if isQualified o then stripAll (modulePat o.module) (qualnameOf o) else qualnameOf o,
    module := o.module }

/-- refs.forwardref before c0135c0: every `"<module>."` is removed from the name of a class, too. -/
def forwardrefPreFix (o : Obj) : Ref :=
  { text := stripAll (modulePat o.module) (qualnameOf o), module := o.module }

/-- seeded C09g (on the tree before c0135c0): `name = inspection.name(ref)`. -/
def forwardrefByName (o : Obj) : Ref :=
  { text := stripAll (modulePat o.module) (nameOf o), module := o.module }

/-- seeded C16g (same base): `name = getattr(ref, "__name__", None) or inspection.qualname(ref)`. -/
def forwardrefByDunderName (o : Obj) : Ref :=
  { text := stripAll (modulePat o.module) (if o.name.isEmpty then qualnameOf o else o.name), module := o.module }

end Mutants

end Typelib.Naming
