/-
  Integer-only model of the temporal conversions: `serdes.isoformat / dateparse / unixtime`
  (`serdes.py:89-270`) and the four temporal unmarshallers (`unmarshals/routines.py:239-499`),
  as of the repaired tree.  Instants are microseconds since the Unix epoch (UTC), offsets are
  seconds, dates are Python ordinals (0001-01-01 = 1), durations are microseconds.  No floats.

  Text is modelled on the ISO-8601 forms that `isoformat()` itself emits (plus `Z`, a missing
  offset, and all-digit epoch strings); any other spelling is `unsupported`.
-/
import TypelibModel.Model.Text
namespace Typelib

def epochOrd : Int := 719163           -- date(1970,1,1).toordinal()
def maxOrd : Int := 3652059            -- date(9999,12,31).toordinal()
def usPerSec : Int := 1000000
def usPerDay : Int := 86400000000
def maxTdUs : Int := 86399999999999999999   -- timedelta.max in µs
def minTdUs : Int := -86399999913600000000  -- timedelta.min in µs

/-! ### Calendar (proleptic Gregorian; days-from-civil / civil-from-days) -/

structure YMD where
  y : Nat
  m : Nat
  d : Nat
  deriving DecidableEq, Repr, Inhabited

/-- (year, month, day) of a Python ordinal ≥ 1. -/
def civilOfOrd (o : Nat) : YMD :=
  let z := o + 305
  let era := z / 146097
  let doe := z % 146097
  let yoe := (doe - doe / 1460 + doe / 36524 - doe / 146096) / 365
  let y := yoe + era * 400
  let doy := doe - (365 * yoe + yoe / 4 - yoe / 100)
  let mp := (5 * doy + 2) / 153
  let d := doy - (153 * mp + 2) / 5 + 1
  let m := if mp < 10 then mp + 3 else mp - 9
  { y := if m ≤ 2 then y + 1 else y, m := m, d := d }

/-- Python ordinal of a civil date (year ≥ 1). -/
def ordOfCivil (c : YMD) : Nat :=
  let y := if c.m ≤ 2 then c.y - 1 else c.y
  let era := y / 400
  let yoe := y - era * 400
  let mp := if c.m > 2 then c.m - 3 else c.m + 9
  let doy := (153 * mp + 2) / 5 + c.d - 1
  let doe := yoe * 365 + yoe / 4 - yoe / 100 + doy
  era * 146097 + doe - 305

def isLeap (y : Nat) : Bool := y % 4 == 0 && (y % 100 != 0 || y % 400 == 0)

def daysInMonth (y m : Nat) : Nat :=
  match m with
  | 1 | 3 | 5 | 7 | 8 | 10 | 12 => 31
  | 4 | 6 | 9 | 11 => 30
  | 2 => if isLeap y then 29 else 28
  | _ => 0

def validYMD (c : YMD) : Bool :=
  1 ≤ c.y && c.y ≤ 9999 && 1 ≤ c.m && c.m ≤ 12 && 1 ≤ c.d && c.d ≤ daysInMonth c.y c.m

/-! ### ISO writers -/

def pad (w : Nat) (n : Nat) : Str :=
  let ds := natStr n
  List.replicate (w - ds.length) '0' ++ ds

def dateText (o : Int) : Str :=
  let c := civilOfOrd o.toNat
  pad 4 c.y ++ '-' :: pad 2 c.m ++ '-' :: pad 2 c.d

/-- `HH:MM:SS[.ffffff]` of a time of day in µs. -/
def todText (us : Nat) : Str :=
  let secs := us / 1000000
  let micro := us % 1000000
  let base := pad 2 (secs / 3600) ++ ':' :: pad 2 (secs / 60 % 60) ++ ':' :: pad 2 (secs % 60)
  if micro == 0 then base else base ++ '.' :: pad 6 micro

/-- `±HH:MM` (whole-minute offsets only; the universe excludes others). -/
def offText (off : Int) : Str :=
  let a := off.natAbs
  (if off < 0 then '-' else '+') :: pad 2 (a / 3600) ++ ':' :: pad 2 (a / 60 % 60)

/-- `isoformat()` of an aware datetime. -/
def datetimeText (us off : Int) : Str :=
  let loc := us + off * usPerSec
  let day := loc.fdiv usPerDay
  let tod := (loc.fmod usPerDay).toNat
  dateText (epochOrd + day) ++ 'T' :: todText tod ++ offText off

def timeText (us : Nat) (off : Option Int) : Str :=
  match off with
  | some o => todText us ++ offText o
  | none => todText us

/-- The duration writer of `serdes.isoformat` for a non-negative magnitude, integer arithmetic. -/
def durMagText (us : Nat) : Str :=
  let days := us / 86400000000
  let rem := us % 86400000000
  let secs := rem / 1000000
  let micro := rem % 1000000
  let hours := secs / 3600
  let minutes := secs % 3600 / 60
  let seconds := secs % 3600 % 60
  let datepart := if days == 0 then [] else natStr days ++ ['D']
  let hpart := if hours == 0 then [] else natStr hours ++ ['H']
  let mpart := if minutes == 0 then [] else natStr minutes ++ ['M']
  let spart :=
    if micro != 0 then natStr seconds ++ '.' :: pad 6 micro ++ ['S']
    else if seconds == 0 then [] else natStr seconds ++ ['S']
  let timepart := hpart ++ mpart ++ spart
  if timepart.isEmpty && !datepart.isEmpty then 'P' :: datepart
  else 'P' :: datepart ++ 'T' :: timepart

def durText (us : Int) : Str :=
  if us < 0 then '-' :: durMagText us.natAbs else durMagText us.toNat

/-- `serdes.isoformat(v)` for the four temporal kinds. -/
def isoText : Val → Str
  | .date o => dateText o
  | .datetime us off => datetimeText us off
  | .time us off => timeText us off
  | .timedelta us => durText us
  | _ => []

/-! ### ISO readers (the fragment) -/

def take2? (s : Str) : Option (Nat × Str) :=
  match s with
  | a :: b :: r => if isDigit a && isDigit b then some (digitVal a * 10 + digitVal b, r) else none
  | _ => none

/-- `YYYY-MM-DD` prefix. -/
def readDate? (s : Str) : Option (YMD × Str) :=
  match s with
  | a :: b :: c :: d :: '-' :: r =>
    if isDigit a && isDigit b && isDigit c && isDigit d then
      match take2? r with
      | some (m, '-' :: r2) =>
        match take2? r2 with
        | some (dd, r3) => some ({ y := digitsVal [a, b, c, d] 0, m := m, d := dd }, r3)
        | none => none
      | _ => none
    else none
  | _ => none

/-- Up to six fraction digits → microseconds. -/
def fracMicros (ds : Str) : Nat := digitsVal (ds.take 6 ++ List.replicate (6 - (ds.take 6).length) '0') 0

/-- `HH:MM:SS[.f+]` prefix → time of day in µs. -/
def readTod? (s : Str) : Option (Nat × Str) :=
  match take2? s with
  | some (h, ':' :: r1) =>
    match take2? r1 with
    | some (mi, ':' :: r2) =>
      match take2? r2 with
      | some (se, r3) =>
        if h < 24 && mi < 60 && se < 60 then
          let base := (h * 3600 + mi * 60 + se) * 1000000
          match r3 with
          | '.' :: r4 =>
            let (fd, r5) := spanDigits r4
            if fd.isEmpty || fd.length > 6 then none else some (base + fracMicros fd, r5)
          | _ => some (base, r3)
        else none
      | none => none
    | _ => none
  | _ => none

/-- `Z`, `±HH:MM`, or nothing (→ `none`), consuming the whole rest. -/
def readOff? (s : Str) : Option (Option Int) :=
  match s with
  | [] => some none
  | ['Z'] => some (some 0)
  | sg :: r =>
    if sg == '+' || sg == '-' then
      match take2? r with
      | some (h, ':' :: r1) =>
        match take2? r1 with
        | some (mi, []) =>
          if h < 24 && mi < 60 then
            let o : Int := h * 3600 + mi * 60
            some (some (if sg == '-' then -o else o))
          else none
        | _ => none
      | _ => none
    else none

inductive Parsed
  | dateOnly (ord : Int)
  | dateTime (us : Int) (off : Option Int)    -- instant given the offset (UTC if absent)
  | timeOnly (us : Nat) (off : Option Int)
  | duration (us : Int)
  | number (secs : Nat)
  deriving Repr, Inhabited

/-- `[n]D` etc.: a run of digits followed by the unit letter. -/
def readUnit? (u : Char) (s : Str) : Option (Nat × Str) :=
  let (ds, r) := spanDigits s
  match r with
  | c :: r' => if c == u && !ds.isEmpty then some (digitsVal ds 0, r') else none
  | [] => none

/-- The duration grammar the writer emits and pendulum reads back: `P[nD][T[nH][nM][n[.f]S]]`. -/
def readDurMag? (s : Str) : Option Nat :=
  match s with
  | 'P' :: r0 =>
    let (days, r1) := match readUnit? 'D' r0 with
      | some (d, r) => (d, r)
      | none => (0, r0)
    match r1 with
    | [] => if r0.isEmpty then none else some (days * 86400000000)
    | 'T' :: r2 =>
      let (h, r3) := match readUnit? 'H' r2 with
        | some (x, r) => (x, r)
        | none => (0, r2)
      let (mi, r4) := match readUnit? 'M' r3 with
        | some (x, r) => (x, r)
        | none => (0, r3)
      let base := days * 86400000000 + (h * 3600 + mi * 60) * 1000000
      match r4 with
      | [] => some base
      | _ =>
        let (sd, r5) := spanDigits r4
        if sd.isEmpty then none
        else match r5 with
          | ['S'] => some (base + digitsVal sd 0 * 1000000)
          | '.' :: r6 =>
            let (fd, r7) := spanDigits r6
            if r7 == ['S'] && !fd.isEmpty && fd.length ≤ 6 then
              some (base + digitsVal sd 0 * 1000000 + fracMicros fd)
            else none
          | _ => none
    | _ => none
  | _ => none

/-- Classify a text as `pendulum.parse` + the digit fallback of `dateparse` would, on the
    fragment; `none` = outside the fragment. -/
def parseTemporal? (s : Str) : Option Parsed :=
  if allDigits s then
    if s.length ≤ 3 || (9 ≤ s.length && s.length ≤ 11) then some (.number (digitsVal s 0)) else none
  else match s with
    | '-' :: 'P' :: _ =>
      match readDurMag? (s.drop 1) with
      | some m => some (.duration (-(m : Int)))
      | none => none
    | 'P' :: _ =>
      match readDurMag? s with
      | some m => some (.duration m)
      | none => none
    | _ =>
      match readDate? s with
      | some (c, []) => if validYMD c then some (.dateOnly (ordOfCivil c)) else none
      | some (c, 'T' :: r) =>
        if !validYMD c then none else
        match readTod? r with
        | some (tod, r') =>
          match readOff? r' with
          | some off =>
            let o : Int := off.getD 0
            some (.dateTime (((ordOfCivil c : Int) - epochOrd) * usPerDay + tod - o * usPerSec) off)
          | none => none
        | none => none
      | some _ => none
      | none =>
        match readTod? s with
        | some (tod, r') =>
          match readOff? r' with
          | some off => some (.timeOnly tod off)
          | none => none
        | none => none

def inDateRange (o : Int) : Bool := 1 ≤ o && o ≤ maxOrd

/-- `datetime.fromtimestamp(secs, utc)` must stay within year 1..9999. -/
def instantOk (us : Int) : Bool :=
  let day := us.fdiv usPerDay
  inDateRange (epochOrd + day)

def localOrd (us off : Int) : Int := epochOrd + (us + off * usPerSec).fdiv usPerDay
def localTod (us off : Int) : Nat := ((us + off * usPerSec).fmod usPerDay).toNat

/-- Whole seconds of a number input (`int`/`bool`; floats only when integral). -/
def secondsOf? : Val → Option Int
  | .int i => some i
  | .bool b => some (if b then 1 else 0)
  | _ => none

/-- Microseconds of a float repr with at most six decimals and a small magnitude (exact). -/
def floatMicros? (r : Str) : Option Int :=
  let (neg, body) := match r with
    | '-' :: b => (true, b)
    | b => (false, b)
  let (ip, rest) := spanDigits body
  match rest with
  | '.' :: fp =>
    if !ip.isEmpty && allDigits fp && fp.length ≤ 6 && ip.length ≤ 9 then
      let n : Int := digitsVal ip 0 * 1000000 + fracMicros fp
      some (if neg then -n else n)
    else none
  | _ => none

def textOf? : Val → Option Str
  | .str s => some s
  | .text _ s => some s
  | _ => none

/-- `DateUnmarshaller`. -/
def umDate (_today : Int) (v : Val) : R Val :=
  match v with
  | .date o => .ok (.date o)
  | .datetime us off => .ok (.date (localOrd us off))
  | .time _ _ => .error .unsupported                    -- "today"
  | .float r =>
    match floatMicros? r with
    | some us => if instantOk us then .ok (.date (epochOrd + us.fdiv usPerDay)) else .error .unsupported
    | none => .error .unsupported
  | _ =>
    match secondsOf? v with
    | some s =>
      if instantOk (s * usPerSec) then .ok (.date (epochOrd + (s * usPerSec).fdiv usPerDay)) else .error .unsupported
    | none =>
      match textOf? v with
      | some s =>
        match parseTemporal? s with
        | some (.dateOnly o) => .ok (.date o)
        | some (.dateTime us off) => .ok (.date (localOrd us (off.getD 0)))
        | some (.number n) =>
          if instantOk ((n : Int) * usPerSec) then .ok (.date (epochOrd + ((n : Int) * usPerSec).fdiv usPerDay))
          else .error .unsupported
        | some (.duration _) => .error .value
        | some (.timeOnly _ _) => .error .unsupported
        | none => .error .unsupported
      | none =>
        match v with
        | .timedelta _ | .none | .list _ | .dict _ | .tuple _ | .dec _ | .frac _ _ | .uuid _ | .path _
        | .pattern _ | .set _ | .frozenset _ | .deque _ | .opaque _ | .iter _ => .error .attribute
        | _ => .error .unsupported

/-- `DateTimeUnmarshaller`. -/
def umDatetime (_today : Int) (v : Val) : R Val :=
  match v with
  | .datetime us off => .ok (.datetime us off)
  | .date o => .ok (.datetime ((o - epochOrd) * usPerDay) 0)
  | .time _ _ => .error .unsupported
  | .float r =>
    match floatMicros? r with
    | some us => if instantOk us then .ok (.datetime us 0) else .error .unsupported
    | none => .error .unsupported
  | _ =>
    match secondsOf? v with
    | some s => if instantOk (s * usPerSec) then .ok (.datetime (s * usPerSec) 0) else .error .unsupported
    | none =>
      match textOf? v with
      | some s =>
        match parseTemporal? s with
        | some (.dateOnly o) => .ok (.datetime ((o - epochOrd) * usPerDay) 0)
        | some (.dateTime us off) =>
          -- the text carries the local wall clock: only the *local* date must be within 0001..9999
          if inDateRange (localOrd us (off.getD 0)) then .ok (.datetime us (off.getD 0)) else .error .unsupported
        | some (.number n) =>
          if instantOk ((n : Int) * usPerSec) then .ok (.datetime ((n : Int) * usPerSec) 0) else .error .unsupported
        | some (.duration _) => .error .value
        | some (.timeOnly _ _) => .error .unsupported
        | none => .error .unsupported
      | none =>
        match v with
        | .timedelta _ | .none | .list _ | .dict _ | .tuple _ | .dec _ | .frac _ _ | .uuid _ | .path _
        | .pattern _ | .set _ | .frozenset _ | .deque _ | .opaque _ | .iter _ => .error .attribute
        | _ => .error .unsupported

/-- `TimeUnmarshaller`. -/
def umTime (_today : Int) (v : Val) : R Val :=
  match v with
  | .time us off => .ok (.time us off)
  | .datetime us off => .ok (.time (localTod us off) (some off))
  | .date _ => .ok (.time 0 (some 0))
  | .float r =>
    match floatMicros? r with
    | some us => if instantOk us then .ok (.time (localTod us 0) (some 0)) else .error .unsupported
    | none => .error .unsupported
  | _ =>
    match secondsOf? v with
    | some s => if instantOk (s * usPerSec) then .ok (.time (localTod (s * usPerSec) 0) (some 0)) else .error .unsupported
    | none =>
      match textOf? v with
      | some s =>
        match parseTemporal? s with
        | some (.timeOnly us (some off)) => .ok (.time us (some off))
        | some (.timeOnly us none) => .ok (.time us (some 0))
        | some (.dateOnly _) => .ok (.time 0 (some 0))
        | some (.dateTime us off) => .ok (.time (localTod us (off.getD 0)) (some (off.getD 0)))
        | some (.number n) =>
          if instantOk ((n : Int) * usPerSec) then .ok (.time (localTod ((n : Int) * usPerSec) 0) (some 0))
          else .error .unsupported
        | some (.duration _) => .error .value
        | none => .error .unsupported
      | none =>
        match v with
        | .timedelta _ | .none | .list _ | .dict _ | .tuple _ | .dec _ | .frac _ _ | .uuid _ | .path _
        | .pattern _ | .set _ | .frozenset _ | .deque _ | .opaque _ | .iter _ => .error .attribute
        | _ => .error .unsupported

def tdOk (us : Int) : Bool := minTdUs ≤ us && us ≤ maxTdUs

/-- `TimeDeltaUnmarshaller`. -/
def umTimedelta (v : Val) : R Val :=
  match v with
  | .timedelta us => .ok (.timedelta us)
  | .float r =>
    match floatMicros? r with
    | some us => .ok (.timedelta us)
    | none => .error .unsupported
  | _ =>
    match secondsOf? v with
    | some s => if tdOk (s * usPerSec) then .ok (.timedelta (s * usPerSec)) else .error .overflow
    | none =>
      match textOf? v with
      | some s =>
        match parseTemporal? s with
        | some (.duration us) => if tdOk us then .ok (.timedelta us) else .error .unsupported
        | some (.number n) => if tdOk ((n : Int) * usPerSec) then .ok (.timedelta ((n : Int) * usPerSec)) else .error .unsupported
        | some (.dateOnly _) | some (.dateTime _ _) => .error .value
        | some (.timeOnly _ _) => .error .value
        | none => .error .unsupported
      | none =>
        match v with
        | .date _ | .datetime _ _ | .time _ _ | .none | .list _ | .dict _ | .tuple _ | .dec _ | .frac _ _
        | .uuid _ | .path _ | .pattern _ | .set _ | .frozenset _ | .deque _ | .opaque _ | .iter _ => .error .attribute
        | _ => .error .unsupported

/-- `ToISOTimeMarshaller`: `serdes.isoformat(val)`. -/
def marTemporal (v : Val) : R Val :=
  match v with
  | .date _ | .datetime _ _ | .time _ _ | .timedelta _ => .ok (.str (isoText v))
  | .int _ | .bool _ | .float _ | .str _ | .none | .list _ | .dict _ | .tuple _ | .text _ _ => .error .type
  | _ => .error .unsupported

end Typelib
