/-
  Model of typelib's routine COMPILER: `typelib.unmarshaller(t)` / `typelib.marshaller(t)`
  (`unmarshals/api.py:32-72`, `marshals/api.py:37-78`) as a function annotation ↦ routine tree.

  What the code does: `graph.static_order(t)` lists the type graph members-first; every node gets the
  routine class of the first matching `_HANDLERS` predicate applied to `node.unwrapped`
  (`_get_unmarshaller`, api.py:58-71) and is stored in the per-root context under `node.type` and
  `node.unwrapped`; each composite constructor then looks its members up in the context
  (`routines.py`: union `stack` 691-700 / 294-305, iterable `values`, mapping `keys`/`values`,
  tuple `ordered_routines`, struct `_fields_by_var`).  Read as a function of the annotation:

    * wrappers first: NewType / alias / Final / ClassVar are unwrapped (`node.unwrapped`), the wrapped
      annotation shares the routine of what it stands for (`compileWith (.wrap _ t) = compileWith t`);
    * one routine kind per annotation kind (`_HANDLERS` order; `Props/C05.lean` re-decides the pairing
      against the regenerated dispatch tables: `compile_dispatch_*`);
    * `UnionUnmarshaller.stack`: one None routine first if some member names None (directly or through
      a wrapper), then the other members in declaration order; `UnionMarshaller.stack`: the members not
      naming None, `nullable` set — `unionRoutines`, `unionFlag`;
    * `StructuredType*._fields_by_var`: one entry per type hint, in hint order; `required` is the
      TypedDict's `__required_keys__` on the unmarshal side — `compileCls`, `reqFor`.

  CYCLES — the rule chosen here and why it matches `graph.py`.  `get_type_graph` (graph.py:105-201)
  walks breadth-first with ONE `visited` set and replaces a member by a `ForwardRef` node
  (⇒ a `Delayed*` routine) when it is *named* (class, NewType, alias), outside the stdlib and already
  visited.  The routine a parent finally holds for such a member is the real routine if that class's own
  node happened to be built earlier in graphlib's order, else the `Delayed` proxy: the placement of
  proxies depends on graphlib's insertion-ordered Kahn queue (Model/Graph.lean, C09) and is not a
  function of the path.  What IS forced: a class reached again *below itself* (an ancestor on the path,
  or the root) can only be a proxy — its own routine does not exist yet when its descendants are
  built.  The model cuts exactly there: `compileCls` keeps the list `seen` of the classes being compiled
  on the current path and emits `.delayed (.cls c)` for `c ∈ seen`; every other class reference is
  compiled in place.  The real tree may hold additional proxies (diamonds: a class, enum or alias met
  a second time on another branch); a proxy is interchangeable with the tree of its target
  (`Props/C05.graph_sound_*`), so real and model trees are compared *up to Delayed targets*: equal
  node by node, except that the real tree may have `Delayed → X` where the model has the tree of `X`
  (harness/props/c05.py, `compile:*` statistics).

  Recursion: `compileWith` is structural on the annotation (class references delegated to `F`),
  `compileCls` structural on a fuel that bounds the number of class unfoldings along a path; started
  with `env.length + 1` it cannot run out for declared classes (every unfolding adds a new class to
  `seen`); if it did, the class reference would be deferred (`.delayed`), which is still adequate.
-/
import TypelibModel.Model.Routine
namespace Typelib

/-- The routines of the members that do not name None (zip-filter of `stack` and the context lookups). -/
def keepNonNone : List Ty → List Routine → List Routine
  | t :: ts, r :: rs => if t.isNone then keepNonNone ts rs else r :: keepNonNone ts rs
  | _, _ => []

/-- `.ordered_routines` of the union routine from the members' routines
    (`unmarshals/routines.py:691-700`, `marshals/routines.py:294-305`). -/
def unionRoutines (d : Dir) (ms : List Ty) (rs : List Routine) : List Routine :=
  match d with
  | .u => if nullable ms then Routine.none :: keepNonNone ms rs else rs
  | .m => if nullable ms then keepNonNone ms rs else rs

/-- `UnionMarshaller.nullable` (no such attribute on the unmarshal side). -/
def unionFlag (d : Dir) (ms : List Ty) : Bool :=
  match d with
  | .u => false
  | .m => nullable ms

mutual
  /-- The routine tree of an annotation, class references compiled by `F`. -/
  def compileWith (d : Dir) (F : Nat → Routine) : Ty → Routine
    | .scalar s => .leaf s
    | .none => .none
    | .any => .noop
    | .enum c => .enumCast c
    | .literal vs => .literal vs
    | .coll k e => .coll k (compileWith d F e)
    | .tuple es => .tuple (compileList d F es)
    | .dict k v => .dict (compileWith d F k) (compileWith d F v)
    | .union ms => .union (unionFlag d ms) (unionRoutines d ms (compileList d F ms))
    | .cls c => F c
    | .wrap _ t => compileWith d F t
  termination_by structural t => t
  def compileList (d : Dir) (F : Nat → Routine) : List Ty → List Routine
    | [] => []
    | t :: ts => compileWith d F t :: compileList d F ts
  termination_by structural ts => ts
end

/-- `StructuredTypeUnmarshaller.required` (`unmarshals/routines.py:996-1000`); the marshaller has none. -/
def reqFor (d : Dir) (ci : ClassInfo) : List Str :=
  match d with
  | .u => if ci.flavour == .typeddict then ci.required else []
  | .m => []

def compileField (G : Ty → Routine) (p : Str × Ty) : Str × Routine := (p.1, G p.2)

/-- The routine of a class reference: a `Delayed` proxy below itself, else the structured routine whose
    field map is compiled with the class added to the path. -/
def compileCls (d : Dir) (env : Env) : Nat → List Nat → Nat → Routine
  | 0, _, c => .delayed (.cls c)
  | n + 1, seen, c =>
    if seen.contains c then .delayed (.cls c)
    else
      match env.cls c with
      | none => .unknown "undeclared class".toList
      | some ci =>
        .struct c (ci.fields.map (compileField (compileWith d (compileCls d env n (c :: seen))))) (reqFor d ci)

/-- `unmarshaller(t)` / `marshaller(t)` as a tree. -/
def compile (d : Dir) (env : Env) (t : Ty) : Routine :=
  compileWith d (compileCls d env (env.length + 1) []) t

def compileU (env : Env) (t : Ty) : Routine := compile .u env t
def compileM (env : Env) (t : Ty) : Routine := compile .m env t

/-- The routine graph of a root: the root's tree and the tree of every class of the environment as a root of
    its own — what `unmarshaller(ForwardRef(X))` builds when a proxy for `X` is first called. -/
def classKeys (d : Dir) (env : Env) : Nat → RGraph
  | 0 => []
  | c + 1 => (.cls c, compile d env (.cls c)) :: classKeys d env c

def compileGraph (d : Dir) (env : Env) (t : Ty) : RGraph :=
  (erase t, compile d env t) :: classKeys d env env.length

/-! ### Decidable side conditions of the adequacy theorem -/

mutual
  /-- Everything the annotation mentions exists: classes are declared, Literal members are primitives. -/
  def compilable (env : Env) : Ty → Bool
    | .literal vs => vs.all isPrim
    | .coll _ e => compilable env e
    | .tuple es => compilableList env es
    | .dict k v => compilable env k && compilable env v
    | .union ms => compilableList env ms
    | .cls c => (env.cls c).isSome
    | .wrap _ t => compilable env t
    | .scalar _ => true
    | .none => true
    | .any => true
    | .enum _ => true
  termination_by structural t => t
  def compilableList (env : Env) : List Ty → Bool
    | [] => true
    | t :: ts => compilable env t && compilableList env ts
  termination_by structural ts => ts
end

def compilableField (env : Env) (f : Str × Ty) : Bool := compilable env f.2
def compilableClass (env : Env) (ci : ClassInfo) : Bool := ci.fields.all (compilableField env)

/-- … and so does every field annotation of the environment. -/
def compilableEnv (env : Env) : Bool := env.all (compilableClass env)

mutual
  /-- Does the tree contain a node of an unrecognised class? -/
  def Routine.hasUnknown : Routine → Bool
    | .unknown _ => true
    | .union _ rs => Routine.hasUnknownL rs
    | .coll _ r => Routine.hasUnknown r
    | .tuple rs => Routine.hasUnknownL rs
    | .dict a b => Routine.hasUnknown a || Routine.hasUnknown b
    | .struct _ fs _ => Routine.hasUnknownF fs
    | _ => false
  termination_by structural r => r
  def Routine.hasUnknownL : List Routine → Bool
    | [] => false
    | r :: rs => Routine.hasUnknown r || Routine.hasUnknownL rs
  termination_by structural rs => rs
  def Routine.hasUnknownF : List (Str × Routine) → Bool
    | [] => false
    | (_, r) :: rs => Routine.hasUnknown r || Routine.hasUnknownF rs
  termination_by structural rs => rs
end

/-! ### Class names, for the tie to the dispatch tables and for the driver's encoder -/

/-- The class of the routine object a node stands for. -/
def routineClass (d : Dir) : Routine → String
  | .leaf s => match d with | .u => leafClassU s | .m => leafClassM s
  | .none => match d with | .u => "NoneTypeUnmarshaller" | .m => "NoneTypeMarshaller"
  | .noop => match d with | .u => "NoOpUnmarshaller" | .m => "NoOpMarshaller"
  | .literal _ => match d with | .u => "LiteralUnmarshaller" | .m => "LiteralMarshaller"
  | .enumCast _ => match d with | .u => "CastUnmarshaller" | .m => "EnumMarshaller"
  | .union _ _ => match d with | .u => "UnionUnmarshaller" | .m => "UnionMarshaller"
  | .coll _ _ => match d with | .u => "SubscriptedIterableUnmarshaller" | .m => "SubscriptedIterableMarshaller"
  | .tuple _ => match d with | .u => "FixedTupleUnmarshaller" | .m => "FixedTupleMarshaller"
  | .dict _ _ => match d with | .u => "SubscriptedMappingUnmarshaller" | .m => "SubscriptedMappingMarshaller"
  | .struct _ _ _ => match d with | .u => "StructuredTypeUnmarshaller" | .m => "StructuredTypeMarshaller"
  | .delayed _ => match d with | .u => "DelayedUnmarshaller" | .m => "DelayedMarshaller"
  | .unknown _ => "unknown"

/-- Row of the dispatch catalogue (`harness/_extract_child.py`) an annotation of U falls under. -/
def kindKey (env : Env) : Ty → String
  | .scalar s => scalarKey s
  | .none => "none"
  | .any => "any"
  | .enum _ => "enum"
  | .literal _ => "literal"
  | .coll k _ =>
    match k with
    | .list => "list" | .set => "set" | .frozenset => "frozenset" | .deque => "deque" | .vartuple => "vartuple"
  | .tuple _ => "fixedtuple"
  | .dict _ _ => "dict"
  | .union _ => "union"
  | .cls c =>
    match flavourOf env c with
    | some Flavour.namedtuple => "namedtuple"
    | some Flavour.typeddict => "typeddict"
    | some Flavour.plain => "plainclass"
    | some Flavour.slots => "plainclass"
    | _ => "dataclass"
  | .wrap _ t => kindKey env t

end Typelib
