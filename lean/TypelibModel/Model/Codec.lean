/-
  Model of the three encode/decode entry points (`codecs.py:17-120`, `api.py:29-62`): a configured
  encoder/decoder pair is a parameter; bytes-like types are carried verbatim.
-/
import TypelibModel.Model.Denote
namespace Typelib

/-- `inspection.isbytestype(t)` on the annotation as the entry points see it (no unwrapping). -/
def isBytesTy : Ty → Bool
  | .scalar .bytes => true
  | _ => false

structure Coder where
  enc : Val → R Val      -- wire value ↦ encoded payload
  dec : Val → R Val      -- payload ↦ wire value

def idCoder : Coder := { enc := fun v => .ok v, dec := fun v => .ok v }

/-- The coder `codec(t, encoder=…, decoder=…)` installs: identity for bytes-like `t`. -/
def coderFor (t : Ty) (c : Coder) : Coder := if isBytesTy t then idCoder else c

/-- `Codec.encode`. -/
def codecEncode (env : Env) (L : Leaves) (n : Nat) (t : Ty) (c : Coder) (v : Val) : R Val :=
  match mar env L n t v with
  | .error e => .error e
  | .ok m => (coderFor t c).enc m

/-- `Codec.decode`. -/
def codecDecode (env : Env) (L : Leaves) (n : Nat) (t : Ty) (c : Coder) (b : Val) : R Val :=
  match (coderFor t c).dec b with
  | .error e => .error e
  | .ok m => um env L n t m

/-- `typelib.encode(value, t=…, encoder=…)` (api.py). -/
def apiEncode (env : Env) (L : Leaves) (n : Nat) (t : Ty) (c : Coder) (v : Val) : R Val :=
  match mar env L n t v with
  | .error e => .error e
  | .ok m => if isBytesTy t then .ok m else c.enc m

/-- `typelib.decode(t, value, decoder=…)` (api.py). -/
def apiDecode (env : Env) (L : Leaves) (n : Nat) (t : Ty) (c : Coder) (b : Val) : R Val :=
  match (if isBytesTy t then Except.ok b else c.dec b) with
  | .error e => .error e
  | .ok m => um env L n t m

/-- The explicit composition `encoder(marshal(v, t=T))` / `unmarshal(T, decoder(b))` for a non-bytes T. -/
def composeEncode (env : Env) (L : Leaves) (n : Nat) (t : Ty) (c : Coder) (v : Val) : R Val :=
  (mar env L n t v).bind c.enc

def composeDecode (env : Env) (L : Leaves) (n : Nat) (t : Ty) (c : Coder) (b : Val) : R Val :=
  (c.dec b).bind (um env L n t)

end Typelib
