/-
  Model of `typelib/py/inspection.py` (C17): `origin`, `resolve_supertype`, `unwrap`, the class-valued
  `is*type` family and the special-form predicates, written over a TABLE of runtime facts.

  The runtime's class lattice is data (`Lattice`, regenerated into `Gen/Lattice.lean` from the Python
  runtime on every run); what is modelled, and proved about, is typelib's handling of WRAPPERS
  (NewType / TypeAliasType chains, ClassVar / Final, TypeVars) and SPELLINGS (`typing.List[int]` vs
  `list[int]`, `Optional[X]` vs `Union[X, None]` vs `X | None`) over that table.

  Results: `Option Bool` for the predicates that call `builtins.issubclass` unguarded (`none` = raises
  TypeError), `Bool` for the ones going through `_safe_issubclass`, `Option Ann` for `unwrap`
  (`none` = AttributeError on `t.__args__`).
-/
import TypelibModel.Model.Basic
namespace Typelib.Inspect
open Typelib

/-! ## 1. The table -/

/-- The second argument of each `issubclass` call in inspection.py. -/
inductive Target
  | date | datetime | time | timedelta | decimal | fraction | uuid
  | iterable | iterator | tuple | sequence | collection | mapping
  | enum | text | str | bytes | number | int | float | pattern | purepath
  | callable | generic | mappingTypes | builtinSub | stdlibSub | typeSub
  deriving DecidableEq, Repr, Inhabited

/-- Column of the target in `Row.sub` (the order of `harness/_extract_inspect.py: targets`). -/
def Target.idx : Target → Nat
  | .date => 0 | .datetime => 1 | .time => 2 | .timedelta => 3 | .decimal => 4 | .fraction => 5 | .uuid => 6
  | .iterable => 7 | .iterator => 8 | .tuple => 9 | .sequence => 10 | .collection => 11 | .mapping => 12
  | .enum => 13 | .text => 14 | .str => 15 | .bytes => 16 | .number => 17 | .int => 18 | .float => 19
  | .pattern => 20 | .purepath => 21 | .callable => 22 | .generic => 23 | .mappingTypes => 24
  | .builtinSub => 25 | .stdlibSub => 26 | .typeSub => 27

def allTargets : List Target :=
  [.date, .datetime, .time, .timedelta, .decimal, .fraction, .uuid, .iterable, .iterator, .tuple, .sequence,
   .collection, .mapping, .enum, .text, .str, .bytes, .number, .int, .float, .pattern, .purepath, .callable,
   .generic, .mappingTypes, .builtinSub, .stdlibSub, .typeSub]

/-- One base object of the catalogue. -/
structure Row where
  name : String                 -- key used by the harness; no theorem looks at it
  origin : Option Nat           -- `typing.get_origin(o)` as a base id
  sub : List Nat                -- per target: `issubclass(o, X)` = 0 False | 1 True | 2 raises TypeError
  str : Str                     -- `str(o)`
  qualname : Option Str         -- `getattr(o, "__qualname__", None)`
  nm : Option Str               -- `getattr(o, "__name__", None)`
  pfx : Str                  -- what `str(o[...])` starts with
  isClass : Bool                -- `isinstance(o, type)`
  routine : Bool                -- `inspect.isroutine(o)`
  instantiable : Bool           -- `o()` / `o([])` / `o(0)` / `o(b"")` works and `o` is not abstract
  isAbstract : Bool               -- `inspect.isabstract(o)`
  stdColl : Bool                -- builtin / collections / collections.abc class that is Iterable
  isNone : Bool                 -- `o is None or o is NoneType`
  inspectIsClass : Bool
  dictInMro : Bool
  hasTotal : Bool
  hasFields : Bool
  hasAnnotations : Bool
  hasFromDict : Bool
  isTypedDict : Bool            -- `typing.is_typeddict(o)`
  isDataclass : Bool
  inCollections : Bool          -- typelib: `o in _COLLECTIONS`
  builtin : Bool                -- typelib: `o in BUILTIN_TYPES`
  builtinTy : Bool              -- typelib: `type(o) in BUILTIN_TYPES`
  stdlib : Bool
  stdlibTy : Bool
  unresolvable : Bool           -- typelib: `o in _UNRESOLVABLE`
  deriving Repr, Inhabited

structure Lattice where
  rows : List Row
  gtm : List (Nat × Nat × Bool)   -- GENERIC_TYPE_MAP: (key, value, issubclass(value, key))
  tupleId : Nat
  unionId : Nat        -- typing.Union
  unionTypeId : Nat    -- types.UnionType
  optionalId : Nat     -- typing.Optional (bare)
  literalId : Nat
  finalId : Nat
  classVarId : Nat
  callableId : Nat     -- typing.Callable
  abcCallableId : Nat  -- collections.abc.Callable
  anyId : Nat
  noneId : Nat         -- the object None
  noneTypeId : Nat
  ellipsisId : Nat     -- the object Ellipsis

namespace Lattice
variable (L : Lattice)

def row (i : Nat) : Option Row := L.rows[i]?

def getOrigin (i : Nat) : Option Nat :=
  match L.row i with
  | some r => r.origin
  | none => none

/-- `typing.get_origin(o) or o` on a base. -/
def originOr (i : Nat) : Nat :=
  match L.getOrigin i with
  | some o => o
  | none => i

def flag (f : Row → Bool) (i : Nat) : Bool :=
  match L.row i with
  | some r => f r
  | none => false

def isClass (i : Nat) : Bool := L.flag (·.isClass) i

/-- `issubclass(base i, X)`: 0 / 1 / 2 (raises). Unknown ids raise. -/
def tri (X : Target) (i : Nat) : Nat :=
  match L.row i with
  | some r => r.sub.getD X.idx 2
  | none => 2

/-- `GENERIC_TYPE_MAP.get(k)`. -/
def gtmGet (k : Nat) : Option Nat :=
  match L.gtm.find? (fun e => e.1 == k) with
  | some e => some e.2.1
  | none => none

/-- `GENERIC_TYPE_MAP.get(k, k)`. -/
def gtmOr (k : Nat) : Nat :=
  match L.gtmGet k with
  | some v => v
  | none => k

/-- `iscallable(o)` on a base: `inspect.isroutine(o) or o is typing.Callable or _safe_issubclass(o, abc.Callable)`
    (inspection.py:1398). -/
def callable (i : Nat) : Bool :=
  L.flag (·.routine) i || i == L.callableId || L.tri .callable i == 1

end Lattice

/-! ## 2. Annotations -/

/-- How a union is written. `optional`: `Optional[Union[ms]]`, i.e. `None` is added as last member. -/
inductive USp | typing | pipe | optional
  deriving DecidableEq, Repr, Inhabited

/-- Annotation syntax.  `sub g args`: the generic `g` (a class such as `list`, or a typing alias such as
    `typing.List` — the two SPELLINGS) subscripted with `args`. -/
inductive Ann
  | base (id : Nat)
  | sub (g : Nat) (args : List Ann)
  | union (sp : USp) (ms : List Ann)
  | literal (hasNone : Bool)
  | final (a : Ann)
  | classvar (a : Ann)
  | newtype (a : Ann)
  | alias (a : Ann)
  | tvarBound (b : Ann)
  | tvarConstr (cs : List Ann)
  | tvarFree
  | fref (lit : Bool) (br : Bool)   -- ForwardRef(arg); `lit`: arg.startswith("Literal"); `br`: "[" in arg
  deriving Repr, Inhabited

namespace Ann

def isBase : Ann → Bool | .base _ => true | _ => false
def isUnion : Ann → Bool | .union _ _ => true | _ => false
def isFref : Ann → Bool | .fref _ _ => true | _ => false
def isAlias : Ann → Bool | .alias _ => true | _ => false
def isNewtype : Ann → Bool | .newtype _ => true | _ => false

/-- Is this the base object `i`? (`x is o` for an interned base.) -/
def isBaseId (i : Nat) : Ann → Bool
  | .base j => j == i
  | _ => false

end Ann

variable (L : Lattice)

/-! ## 3. `resolve_supertype`, `args`, `origin` (inspection.py:88-134, 159-215, 274-288) -/

/-- `resolve_supertype`: `while hasattr(annotation, "__supertype__")`. -/
def resolveSupertype : Ann → Ann
  | .newtype a => resolveSupertype a
  | a => a

/-- `normalize_typevar` applied to an argument that may be a TypeVar (inspection.py:193-215). -/
def normTv : Ann → Ann
  | .tvarBound b => b
  | .tvarConstr cs => .union .typing cs
  | .tvarFree => .base L.anyId
  | a => a

/-- `isclassvartype` (inspection.py:923-934): `getattr(resolve_supertype(obj), "__origin__", obj) is ClassVar`. -/
def isClassVarResolved : Ann → Bool
  | .classvar _ => true
  | .base i => i == L.classVarId
  | _ => false

def isclassvartypeM (a : Ann) : Bool := isClassVarResolved L (resolveSupertype a)

/-- `a = args(actual); actual = a[0] if a else actual` for a ClassVar (inspection.py:114-116). -/
def classVarArg : Ann → Ann
  | .classvar x => normTv L x
  | a => a

/-- Strip NewType and alias layers, in any interleaving and of any length. -/
def strip : Ann → Ann
  | .newtype a => strip a
  | .alias a => strip a
  | a => a

/-- `while istypealiastype(actual): actual = resolve_supertype(actual.__value__)` (inspection.py:118-120): each round
    takes the value of the alias and strips the NewTypes in front of it, until something that is neither is reached —
    i.e. `strip` of the alias's value. -/
def aliasLoop : Ann → Ann
  | .alias v => strip v
  | a => a

/-- `tp.get_origin(actual) or actual`. -/
def getOriginOr : Ann → Ann
  | .base i => .base (L.originOr i)
  | .sub g _ => .base (L.originOr g)
  | .union .pipe _ => .base L.unionTypeId
  | .union _ _ => .base L.unionId
  | .literal _ => .base L.literalId
  | .final _ => .base L.finalId
  | .classvar _ => .base L.classVarId
  | a => a

/-- `isbuiltintype(obj)`: `resolve_supertype(obj) in BUILTIN_TYPES or resolve_supertype(type(obj)) in BUILTIN_TYPES`. -/
def inBuiltin : Ann → Bool
  | .base i => L.flag (·.builtin) i
  | _ => false

def isbuiltintypeM (a : Ann) : Bool :=
  inBuiltin L (resolveSupertype a) ||
    (match a with
     | .base i => L.flag (·.builtinTy) i
     | _ => false)

/-- `_check_generics`: `GENERIC_TYPE_MAP.get(hint, hint)`. -/
def checkGenerics : Ann → Ann
  | .base i => .base (L.gtmOr i)
  | a => a

def iscallableM : Ann → Bool
  | .base i => L.callable i
  | _ => false

def genericsStep (a : Ann) : Ann := if isbuiltintypeM L a then a else checkGenerics L a

/-- `iscallable(actual) and (actual is abc_Callable or not inspect.isclass(actual) or issubclass(actual, type))`
    (inspection.py:128-135): `type[...]` and metaclasses stay `typing.Callable`; an ordinary class which merely defines
    `__call__` is still that class. -/
def toTypingCallable : Ann → Bool
  | .base i => L.callable i &&
      (i == L.abcCallableId || !L.flag (·.inspectIsClass) i || L.tri .typeSub i == 1)
  | _ => false

def callableStep (a : Ann) : Ann := if toTypingCallable L a then .base L.callableId else a

/-- `origin(annotation)` (inspection.py:88-130). -/
def originM (a : Ann) : Ann :=
  callableStep L (genericsStep L (getOriginOr L (aliasLoop (classVarArg L (resolveSupertype a)))))

/-! ## 4. Class-valued predicates -/

/-- `builtins.issubclass(o, X)` where `o` is what `origin` returned: 0 / 1 / 2 (TypeError). -/
def issubTri (X : Target) : Ann → Nat
  | .base i => L.tri X i
  | _ => 2

def triToOpt : Nat → Option Bool
  | 0 => some false
  | 1 => some true
  | _ => none

/-- Group A: `builtins.issubclass(origin(obj), X)` (isdatetype … isiteratortype). -/
def predA (X : Target) (a : Ann) : Option Bool := triToOpt (issubTri L X (originM L a))

def isdatetypeM := predA L .date
def isdatetimetypeM := predA L .datetime
def istimetypeM := predA L .time
def istimedeltatypeM := predA L .timedelta
def isdecimaltypeM := predA L .decimal
def isfractiontypeM := predA L .fraction
def isuuidtypeM := predA L .uuid
def isiterabletypeM := predA L .iterable
def isiteratortypeM := predA L .iterator

/-- `obj is tuple or issubclass(obj, tuple)` (inspection.py:793-794). -/
def istupletypeM (a : Ann) : Option Bool :=
  if (originM L a).isBaseId L.tupleId then some true else predA L .tuple a

def inCollections : Ann → Bool
  | .base i => L.flag (·.inCollections) i
  | _ => false

/-- `obj in _COLLECTIONS or issubclass(obj, tp.Sequence)` (inspection.py:818-819). -/
def issequencetypeM (a : Ann) : Option Bool :=
  if inCollections L (originM L a) then some true else predA L .sequence a

/-- `obj in _COLLECTIONS or issubclass(obj, tp.Collection)` (inspection.py:843-844). -/
def iscollectiontypeM (a : Ann) : Option Bool :=
  if inCollections L (originM L a) then some true else predA L .collection a

def orMapping : Nat → Nat → Option Bool
  | 1, _ => some true
  | 0, t => triToOpt t
  | _, _ => none

/-- `issubclass(obj, _MAPPING_TYPES) or issubclass(obj, tp.Mapping)` (inspection.py:898-901). -/
def ismappingtypeM (a : Ann) : Option Bool :=
  orMapping (issubTri L .mappingTypes (originM L a)) (issubTri L .mapping (originM L a))

/-- Group B: `_safe_issubclass(origin(t), X)` — like Group A, but a TypeError is answered `False`
    (isenumtype, istexttype, isstringtype, isbytestype, isnumbertype, isintegertype, isfloattype,
    ispatterntype, ispathtype). -/
def predB (X : Target) (a : Ann) : Bool := issubTri L X (originM L a) == 1

def isenumtypeM := predB L .enum
def istexttypeM := predB L .text
def isstringtypeM := predB L .str
def isbytestypeM := predB L .bytes
def isnumbertypeM := predB L .number
def isintegertypeM := predB L .int
def isfloattypeM := predB L .float
def ispatterntypeM := predB L .pattern
def ispathtypeM := predB L .purepath

/-- `isbuiltinsubtype` / `isstdlibsubtype`: `issubclass(resolve_supertype(t), …_TUPLE)`, the second one guarded. -/
def isbuiltinsubtypeM (a : Ann) : Option Bool := triToOpt (issubTri L .builtinSub (resolveSupertype a))
def isstdlibsubtypeM (a : Ann) : Bool := issubTri L .stdlibSub (resolveSupertype a) == 1

/-! ## 5. Names (inspection.py:218-271) -/

-- literals as explicit character lists: `"…".toList` costs ~0.4 s per string in the kernel
def typingDot : Str := ['t', 'y', 'p', 'i', 'n', 'g', '.']
def typingExtDot : Str := ['t', 'y', 'p', 'i', 'n', 'g', '_', 'e', 'x', 't', 'e', 'n', 's', 'i', 'o', 'n', 's', '.']
def localsDot : Str := ['<', 'l', 'o', 'c', 'a', 'l', 's', '>', '.']

def startsTyping (s : Str) : Bool := typingDot.isPrefixOf s || typingExtDot.isPrefixOf s
def hasBracket (s : Str) : Bool := s.contains '['

/-- `isgeneric(strobj)` for a `str` argument: `str(s)` is `s`, and `issubclass(s, Generic)` raises. -/
def isGenericStr (s : Str) : Bool := startsTyping s || hasBracket s

def beforeBracket : Str → Str
  | [] => []
  | c :: cs => if c == '[' then [] else c :: beforeBracket cs

/-- `s.replace("<locals>.", "")`. -/
def dropLocals : Nat → Str → Str
  | 0, s => s
  | _, [] => []
  | n + 1, c :: cs =>
    if localsDot.isPrefixOf (c :: cs) then dropLocals n ((c :: cs).drop localsDot.length)
    else c :: dropLocals n cs

/-- `s.rsplit(".")[-1]`: the text after the last dot. -/
def lastSegment (s : Str) : Str :=
  s.foldl (fun acc c => if c == '.' then [] else acc ++ [c]) []

/-- `qualname(o)` for a base (never a ForwardRef). -/
def qualnameRow (r : Row) : Str :=
  if isGenericStr r.str then beforeBracket r.str
  else match r.qualname with
    | some q => dropLocals q.length q
    | none => match r.nm with
      | some n => n
      | none => r.str

def nameRow (r : Row) : Str := lastSegment (qualnameRow r)

/-- `name(o)` where `o` is a result of `origin`: known for bases; the synthesised NewType / alias / TypeVar /
    ForwardRef objects are assumed not to be called Union / UnionType / Optional / Literal (`none`). -/
def nameOf : Ann → Option Str
  | .base i => (L.row i).map nameRow
  | _ => none

def nameIn (names : List Str) (n : Option Str) : Bool :=
  match n with
  | some s => names.contains s
  | none => false

def nUnion : Str := ['U', 'n', 'i', 'o', 'n']
def nUnionType : Str := ['U', 'n', 'i', 'o', 'n', 'T', 'y', 'p', 'e']
def nOptional : Str := ['O', 'p', 't', 'i', 'o', 'n', 'a', 'l']
def nLiteral : Str := ['L', 'i', 't', 'e', 'r', 'a', 'l']
def nFinal : Str := ['F', 'i', 'n', 'a', 'l']
def unionNames : List Str := [nUnion, nUnionType]
def optionalNames : List Str := [nOptional]
def nullableNames : List Str := [nUnion, nUnionType, nLiteral]

/-! ## 6. Special-form predicates -/

/-- `a in (type(None), None)`. -/
def isNoneAnn : Ann → Bool
  | .base i => L.flag (·.isNone) i
  | _ => false

def isnonetypeM (a : Ann) : Bool := isNoneAnn L a

/-- `isuniontype` (inspection.py:584-587). -/
def isuniontypeM (a : Ann) : Bool := nameIn unionNames (nameOf L (originM L a))

/-- `isliteral` (inspection.py:605-614). -/
def isliteralM (a : Ann) : Bool :=
  (originM L a).isBaseId L.literalId ||
    (match a with
     | .fref lit _ => lit
     | _ => false)

/-- `isfinal` (inspection.py:590-602). -/
def isfinalM (a : Ann) : Bool := (originM L a).isBaseId L.finalId

/-- `should_unwrap`: `any(x(obj) for x in (isclassvartype, isfinal))` (inspection.py:955-964). -/
def shouldUnwrapM (a : Ann) : Bool := isclassvartypeM L a || isfinalM L a

def isforwardrefM (a : Ann) : Bool := a.isFref
def istypealiastypeM (a : Ann) : Bool := a.isAlias

def inUnresolvable : Ann → Bool
  | .base i => L.flag (·.unresolvable) i
  | _ => false

/-- `isunresolvable` (inspection.py:1401-1415). -/
def isunresolvableM (a : Ann) : Bool := inUnresolvable L a || inUnresolvable L (originM L a)

/-- `(str(t).startswith("typing."…), "[" in str(t))` for a member of a `|` union. -/
def memberTyping : Ann → Bool
  | .base i => match L.row i with
    | some r => startsTyping r.pfx
    | none => false
  | .sub g _ => match L.row g with
    | some r => startsTyping r.pfx
    | none => false
  | .literal _ => true
  | .final _ => true
  | .classvar _ => true
  | .union .pipe _ => false
  | .union _ _ => true
  | _ => false

def memberBracket : Ann → Bool
  | .base i => match L.row i with
    | some r => hasBracket r.pfx
    | none => false
  | .sub _ _ => true
  | .literal _ => true
  | .final _ => true
  | .classvar _ => true
  | .union .pipe _ => false
  | .union _ _ => true
  | _ => false

/-- `str(t).startswith("typing.") or str(t).startswith("typing_extensions.")`. -/
def reprTyping : Ann → Bool
  | .base i => match L.row i with
    | some r => startsTyping r.str
    | none => false
  | .union .pipe ms => match ms with
    | m :: _ => memberTyping L m
    | [] => false
  | a => memberTyping L a

/-- `"[" in str(t)`. -/
def reprBracket : Ann → Bool
  | .base i => match L.row i with
    | some r => hasBracket r.str
    | none => false
  | .union .pipe ms => ms.any (memberBracket L)
  | .fref _ br => br                    -- repr: ForwardRef('arg')
  | a => memberBracket L a

/-- `isgeneric` (inspection.py:1331-1355). -/
def isgenericM (a : Ann) : Bool :=
  reprTyping L a || reprBracket L a ||
    (match a with
     | .base i => L.tri .generic i == 1
     | _ => false)

/-- `issubscriptedgeneric` (inspection.py:1358-1379). -/
def issubscriptedgenericM (a : Ann) : Bool :=
  (isgenericM L (getOriginOr L a) || isgenericM L a) && reprBracket L a

/-- `args(obj)` as far as `isfixedtupletype` looks at it: the list of arguments (TypeVars normalised). -/
def argsOf : Ann → List Ann
  | .sub _ args => args.map (normTv L)
  | .union .optional ms => ms.map (normTv L) ++ [.base L.noneTypeId]
  | .union _ ms => ms.map (normTv L)
  | .literal _ => [.base L.anyId]        -- the values of a Literal: non-empty, never `...`
  | .final x => [normTv L x]
  | .classvar x => [normTv L x]
  | _ => []

def lastIsEllipsis (as : List Ann) : Bool :=
  match as.getLast? with
  | some x => x.isBaseId L.ellipsisId
  | none => false

/-- `tp.get_origin(obj)` (no fallback). -/
def typingOrigin : Ann → Option Nat
  | .base i => L.getOrigin i
  | .sub g _ => some (L.originOr g)
  | .union .pipe _ => some L.unionTypeId
  | .union _ _ => some L.unionId
  | .literal _ => some L.literalId
  | .final _ => some L.finalId
  | .classvar _ => some L.classVarId
  | _ => none

/-- `isfixedtupletype` (inspection.py:1050-1067). -/
def isfixedtupletypeM (a : Ann) : Bool :=
  if (argsOf L a).isEmpty || lastIsEllipsis L (argsOf L a) then false
  else match typingOrigin L a with
    | some o => L.tri .tuple o == 1
    | none => false

/-- Structural predicates on classes (inspection.py:996-1047). -/
def istypeddictM : Ann → Bool
  | .base i => L.flag (·.inspectIsClass) i && L.flag (·.dictInMro) i && L.flag (·.hasTotal) i
  | _ => false

def isnamedtupleM : Ann → Bool
  | .base i => L.flag (·.inspectIsClass) i && L.tri .tuple i == 1 && L.flag (·.hasFields) i
  | _ => false

def istypedtupleM : Ann → Bool
  | .base i => L.flag (·.inspectIsClass) i && L.tri .tuple i == 1 && L.flag (·.hasAnnotations) i
  | _ => false

/-! ## 7. `unwrap` (inspection.py:1490-1516) -/

/-- One `Option` layer: `none` = `AttributeError` (`t.__args__` on an object that has none). -/
def unwrapM : Ann → Option Ann
  | .final a => if shouldUnwrapM L (.final a) then unwrapM a else some (.final a)
  | .classvar a => if shouldUnwrapM L (.classvar a) then unwrapM a else some (.classvar a)
  | .alias a => if shouldUnwrapM L (.alias a) then none else unwrapM a
  | .newtype a => if shouldUnwrapM L (.newtype a) then none else unwrapM a
  | .tvarBound b => unwrapM b
  | .tvarConstr cs => some (.union .typing cs)
  | .tvarFree => some (.base L.anyId)
  | .base i => if shouldUnwrapM L (.base i) then none else some (.base i)
  | a => some a

/-! ## 7b. `isoptionaltype` (inspection.py:560-585; it calls `unwrap` on every argument) -/

/-- `getattr(obj, "__args__", ())`. -/
def rawArgs : Ann → List Ann
  | .sub _ args => args
  | .union .optional ms => ms ++ [.base L.noneTypeId]
  | .union _ ms => ms
  | .final x => [x]
  | .classvar x => [x]
  | _ => []

/-- `next((a for a in args if unwrap(a) in (type(None), None)), ...) is not ...`; `none`: `unwrap` raised. -/
def nullScan : List Ann → Option Bool
  | [] => some false
  | a :: as =>
    match unwrapM L a with
    | none => none
    | some u => if isNoneAnn L u then some true else nullScan as

/-- The arguments of a Literal are values, not annotations: only whether `None` is one of them matters. -/
def nullArg : Ann → Option Bool
  | .literal hn => some hn
  | a => nullScan L (rawArgs L a)

def isoptionalWith (a : Ann) (nullarg : Bool) : Bool :=
  nameIn optionalNames (nameOf L (originM L a)) || (nullarg && nameIn nullableNames (nameOf L (originM L a)))

def isoptionaltypeM (a : Ann) : Option Bool := (nullArg L a).map (isoptionalWith L a)

/-! ## 8. The runtime oracle -/

/-- `typing.get_origin(x) or x` as a base id, for the class-like forms. -/
def tyOrigin : Ann → Option Nat
  | .base i => some (L.originOr i)
  | .sub g _ => some (L.originOr g)
  | _ => none

/-- The class an annotation resolves to: typing origin after NewType and alias resolution, then the
    library's documented abstract→builtin map. -/
def resolvedClass (a : Ann) : Option Nat := (tyOrigin L (strip a)).map L.gtmOr

/-- The runtime's answer `issubclass(resolved class, X)`; `none` outside the domain (no class). -/
def specSub (X : Target) (a : Ann) : Option Bool :=
  match resolvedClass L a with
  | some c => if L.isClass c then some (L.tri X c == 1) else none
  | none => none

/-- What all wrappers (ClassVar / Final / NewType / alias / TypeVar) stand for. -/
def core : Ann → Ann
  | .final a => core a
  | .classvar a => core a
  | .alias a => core a
  | .newtype a => core a
  | .tvarBound b => core b
  | .tvarConstr cs => .union .typing cs
  | .tvarFree => .base L.anyId
  | a => a

def isWrapper : Ann → Bool
  | .final _ => true | .classvar _ => true | .alias _ => true | .newtype _ => true
  | .tvarBound _ => true | .tvarConstr _ => true | .tvarFree => true
  | _ => false

/-! ## 9. Spelling erasure -/

mutual
/-- Canonical spelling: every subscripted generic on its runtime origin class, every union as
    `typing.Union[...]` with an explicit `None` member. -/
def erase : Ann → Ann
  | .base i => .base i
  | .sub g args => .sub (L.originOr g) (eraseList args)
  | .union .optional ms => .union .typing (eraseList ms ++ [.base L.noneTypeId])
  | .union _ ms => .union .typing (eraseList ms)
  | .literal h => .literal h
  | .final a => .final (erase a)
  | .classvar a => .classvar (erase a)
  | .newtype a => .newtype (erase a)
  | .alias a => .alias (erase a)
  | .tvarBound b => .tvarBound (erase b)
  | .tvarConstr cs => .tvarConstr (eraseList cs)
  | .tvarFree => .tvarFree
  | .fref l b => .fref l b
termination_by structural a => a
def eraseList : List Ann → List Ann
  | [] => []
  | a :: as => erase a :: eraseList as
termination_by structural as => as
end

end Typelib.Inspect
