/-
  A compact JSON *printer* for plain wire values, the inverse direction of the `strload` fragment of
  `Model/Text.lean`.

  `renderJson w`   mirrors `json.dumps(w, separators=(",", ":"), ensure_ascii=False)`,
  `renderJsonSp w` mirrors `json.dumps(w, ensure_ascii=False)` (separators `", "` and `": "`),
  on None / bool / int / str / list / dict-with-str-keys (`json/encoder.py`: ESCAPE / ESCAPE_DCT escape
  exactly `"`, `\` and the control characters U+0000..U+001F, the five of them with a short form as
  `\n \r \t \b \f`, the others as `\u00XX`; U+007F and non-ASCII text are emitted raw).

  `plainWire w` (decidable) is the printer's domain *inside the fragment the lexer/parser of
  `Model/Text.lean` executes*: integers within `int64`, strings whose control characters are among
  the five short escapes (the lexer does not read `\uXXXX`), lists / dicts of plain wires, dict keys
  strings and pairwise distinct; floats are excluded.  `Lemmas/JsonRT.lean` proves
  `jsonParse (renderJson w) = some w` on it.  Nothing here changes an existing definition.
-/
import TypelibModel.Model.Text
namespace Typelib

/-- `json.encoder.ESCAPE_DCT` (with `ensure_ascii=False`). -/
def escChar (c : Char) : Str :=
  if c = '"' then ['\\', '"']
  else if c = '\\' then ['\\', '\\']
  else if c = '\n' then ['\\', 'n']
  else if c = '\r' then ['\\', 'r']
  else if c = '\t' then ['\\', 't']
  else if c = '\x08' then ['\\', 'b']
  else if c = '\x0c' then ['\\', 'f']
  else if c.toNat < 32 then '\\' :: 'u' :: hexFixed 4 c.toNat []
  else [c]

def escBody : Str → Str
  | [] => []
  | c :: cs => escChar c ++ escBody cs

/-- `json.dumps(s, ensure_ascii=False)` for a `str`. -/
def quoteJson (s : Str) : Str := '"' :: (escBody s ++ ['"'])

/-- An object key: only `str` keys are in the printer's domain. -/
def renderKey : Val → Str
  | .str s => quoteJson s
  | _ => []

mutual
  /-- The printer, parametric in the blank text `pad` that follows `,` and `:`. -/
  def renderWith (pad : Str) : Val → Str
    | .none => ['n', 'u', 'l', 'l']
    | .bool true => ['t', 'r', 'u', 'e']
    | .bool false => ['f', 'a', 'l', 's', 'e']
    | .int i => intStr i
    | .str s => quoteJson s
    | .list [] => ['[', ']']
    | .list (x :: xs) => '[' :: (renderWith pad x ++ renderTail pad xs)
    | .dict [] => ['{', '}']
    | .dict ((k, v) :: kvs) =>
      '{' :: (renderKey k ++ ':' :: (pad ++ (renderWith pad v ++ renderMTail pad kvs)))
    | _ => []                      -- outside the printer's domain (`plainWire` is false)
  termination_by structural w => w
  /-- The remaining elements of an array, up to and including the closing bracket. -/
  def renderTail (pad : Str) : List Val → Str
    | [] => [']']
    | x :: xs => ',' :: (pad ++ (renderWith pad x ++ renderTail pad xs))
  termination_by structural xs => xs
  /-- The remaining members of an object, up to and including the closing brace. -/
  def renderMTail (pad : Str) : List (Val × Val) → Str
    | [] => ['}']
    | (k, v) :: kvs =>
      ',' :: (pad ++ (renderKey k ++ ':' :: (pad ++ (renderWith pad v ++ renderMTail pad kvs))))
  termination_by structural kvs => kvs
end

/-- `json.dumps(w, separators=(",", ":"), ensure_ascii=False)`. -/
def renderJson (w : Val) : Str := renderWith [] w

/-- `json.dumps(w, ensure_ascii=False)` (Python's default separators `", "` and `": "`). -/
def renderJsonSp (w : Val) : Str := renderWith [' '] w

/-! ### The printer's domain inside the lexer's fragment -/

/-- A character the lexer reads back from its `json.dumps` spelling: not a control character, or
    one of the five with a short escape. -/
def okChar (c : Char) : Bool :=
  decide (32 ≤ c.toNat) || c == '\n' || c == '\r' || c == '\t' || c == '\x08' || c == '\x0c'

def okStr (s : Str) : Bool := s.all okChar

def keyOk : Val → Bool
  | .str s => okStr s
  | _ => false

/-- Pairwise distinct (an earlier key is never `==` a later one). -/
def distinctKeys : List Val → Bool
  | [] => true
  | k :: ks => !(ks.any (fun k' => k == k')) && distinctKeys ks

mutual
  def plainWire : Val → Bool
    | .none => true
    | .bool _ => true
    | .int i => int64 i
    | .str s => okStr s
    | .list xs => plainList xs
    | .dict kvs => plainPairs kvs && distinctKeys (kvs.map Prod.fst)
    | _ => false
  termination_by structural w => w
  def plainList : List Val → Bool
    | [] => true
    | x :: xs => plainWire x && plainList xs
  termination_by structural xs => xs
  def plainPairs : List (Val × Val) → Bool
    | [] => true
    | (k, v) :: kvs => keyOk k && plainWire v && plainPairs kvs
  termination_by structural kvs => kvs
end

example : renderJson (.dict [(.str ['a'], .list [.int (-1), .none])]) = "{\"a\":[-1,null]}".toList := by decide
example : renderJsonSp (.dict [(.str ['a'], .list [.int (-1), .none])]) = "{\"a\": [-1, null]}".toList := by decide
example : renderJson (.str ['"', '\n', 'é']) = ['"', '\\', '"', '\\', 'n', 'é', '"'] := by decide
example : plainWire (.dict [(.str ['a'], .list [.int (-1), .none])]) = true := by decide
example : plainWire (.dict [(.str ['a'], .none), (.str ['a'], .none)]) = false := by decide
example : plainWire (.str ['\x01']) = false ∧ plainWire (.float ['1', '.', '0']) = false := by decide

end Typelib
