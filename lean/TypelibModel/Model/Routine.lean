/-
  Routine trees as data, and a decidable *validator* relating a routine tree to an annotation
  (DESIGN.md §1 item 3 "Structural extraction", §5 C05).

  `typelib.unmarshaller(T)` / `typelib.marshaller(T)` (`unmarshals/api.py:32-55`,
  `marshals/api.py:37-61`) compile an annotation into a tree of routine objects: `static_order`
  lists the type graph edges-to-root, every node is given the first matching `_HANDLERS` class, and
  each composite routine's constructor looks its members up in the per-root `TypeContext`
  (`unmarshals/routines.py:700,765-766,823,935,1002-1019`, `marshals/routines.py:299,376-377,411,
  447,484-501`).  The objects built are plain data: class, `.values`, `.keys`,
  `.ordered_routines`, `.nullable`, `.fields_by_var`, `.required`, and, for a `Delayed*` proxy, the
  reference `.t` it resolves with `unmarshaller(self.t)` on first call (`unmarshals/api.py:88-99`).

  * `Routine` mirrors those classes; `runUW` / `runMW` give every node the semantics of its class's
    `__call__`, built from the very helpers `Model/Denote.lean` uses, and spend fuel at the same
    positions as `um` / `mar`.
  * `adequate d K env T r` is the validator: a decidable simulation between an annotation and a tree
    (`K`: the admissible targets of `Delayed` nodes — any annotation for a single tree, the keys of
    the graph for `graphOk`).
    `Props/C05.lean` proves it sound (`adequate … = true → run r = um T` on *every* input), the
    harness evaluates it on the tree extracted from the real library for every generated program.

  Wrappers.  `um (n+1) (.wrap w t) = um n t` spends one unit of fuel on a NewType / alias / Final,
  while the real context stores ONE routine under `node.type` and `node.unwrapped`
  (`unmarshals/api.py:52-53`).  The validator therefore works on WRAPPER-ERASED annotations and
  environments: `erase` drops every `.wrap`, `eraseEnv` erases the field annotations, and everything
  here targets `um (eraseEnv env) L n (erase T)`.  Relating `T` and `erase T` is C11's statement.
-/
import TypelibModel.Model.Denote
import TypelibModel.Model.Typing
namespace Typelib

/-! ### Wrapper erasure and structural equality of annotations -/

mutual
  /-- Drop every NewType / alias / Final / ClassVar layer (`inspection.unwrap` at every depth). -/
  def erase : Ty → Ty
    | .coll k e => .coll k (erase e)
    | .tuple es => .tuple (eraseList es)
    | .dict k v => .dict (erase k) (erase v)
    | .union ms => .union (eraseList ms)
    | .wrap _ t => erase t
    | .scalar s => .scalar s
    | .none => .none
    | .any => .any
    | .enum c => .enum c
    | .literal vs => .literal vs
    | .cls c => .cls c
  termination_by structural t => t
  def eraseList : List Ty → List Ty
    | [] => []
    | t :: ts => erase t :: eraseList ts
  termination_by structural ts => ts
end

def eraseField (p : Str × Ty) : Str × Ty := (p.1, erase p.2)

def eraseClass (ci : ClassInfo) : ClassInfo := { ci with fields := ci.fields.map eraseField }

/-- The class environment with every field annotation erased (flavours, defaults, members kept). -/
def eraseEnv (env : Env) : Env := env.map eraseClass

/-- Equality of `Literal` member lists; members are primitives (None / bool / int / str), anything
    else compares unequal (so that `litEq vs ws = true → vs = ws` needs no general `Val` lemma). -/
def litEq : List Val → List Val → Bool
  | [], [] => true
  | v :: vs, w :: ws => isPrim v && v == w && litEq vs ws
  | _, _ => false

mutual
  /-- Structural equality of annotations (nested inductive: no derive handler). -/
  def Ty.beq : Ty → Ty → Bool
    | .scalar a, .scalar b => a == b
    | .none, .none => true
    | .any, .any => true
    | .enum a, .enum b => a == b
    | .literal a, .literal b => litEq a b
    | .coll k a, .coll l b => k == l && Ty.beq a b
    | .tuple a, .tuple b => Ty.beqList a b
    | .dict a b, .dict c d => Ty.beq a c && Ty.beq b d
    | .union a, .union b => Ty.beqList a b
    | .cls a, .cls b => a == b
    | .wrap w a, .wrap x b => w == x && Ty.beq a b
    | _, _ => false
  termination_by structural t => t
  def Ty.beqList : List Ty → List Ty → Bool
    | [], [] => true
    | a :: as, b :: bs => Ty.beq a b && Ty.beqList as bs
    | _, _ => false
  termination_by structural ts => ts
end

/-! ### Routine trees -/

/-- The routine classes of `unmarshals/routines.py` / `marshals/routines.py` as data.  One type for
    both directions: a node's class is the pair (constructor, direction). -/
inductive Routine
  /-- The scalar routine the dispatch table pairs with `s` (`Props/Dispatch.lean`): Number / String /
      Bytes / UUID / Pattern / Date / DateTime / Time / TimeDelta / Cast[Path] unmarshallers,
      Cast / ToString / ToISOTime / Pattern / NoOp[bytes] marshallers. -/
  | leaf (s : Scalar)
  /-- `NoneTypeUnmarshaller` (`unmarshals/routines.py:112`) / `NoneTypeMarshaller` (`marshals/routines.py:114`). -/
  | none
  /-- `NoOpUnmarshaller` / `NoOpMarshaller`. -/
  | noop
  /-- `LiteralUnmarshaller` / `LiteralMarshaller` with their `.values`. -/
  | literal (vs : List Val)
  /-- `CastUnmarshaller[Enum]` / `EnumMarshaller` bound to class `c`. -/
  | enumCast (c : Nat)
  /-- `UnionUnmarshaller` / `UnionMarshaller`: `.ordered_routines` in the order the routine tries them
      (no rotation here) and the marshaller's `.nullable` flag (`false` on the unmarshal side). -/
  | union (nullable : Bool) (rs : List Routine)
  /-- `SubscriptedIterable{Unm,M}arshaller`: result class from `.origin`, member routine `.values`. -/
  | coll (k : Coll) (r : Routine)
  /-- `FixedTuple{Unm,M}arshaller` with `.ordered_routines`. -/
  | tuple (rs : List Routine)
  /-- `SubscriptedMapping{Unm,M}arshaller` with `.keys`, `.values`. -/
  | dict (rk rv : Routine)
  /-- `StructuredType{Unm,M}arshaller` bound to class `c`: `.fields_by_var` in dict order, `.required`. -/
  | struct (c : Nat) (fields : List (Str × Routine)) (required : List Str)
  /-- `Delayed{Unm,M}arshaller`; `t` is what `refs.evaluate(node.t)` returns. -/
  | delayed (t : Ty)
  /-- A routine object of any other class / with attributes outside the universe U (the routines of
      unparameterised containers `CastUnmarshaller[list]`, `IterableMarshaller`, …, iterators, a
      `Delayed` proxy whose reference resolves to no annotation of U). Adequate for nothing. -/
  | unknown (tag : Str)
  deriving Inhabited

inductive Dir | u | m
  deriving DecidableEq, Repr, Inhabited

/-! ### Semantics of the routine classes -/

/-- `LiteralUnmarshaller.__call__` (`unmarshals/routines.py:640-651`). -/
def umLiteral (env : Env) (L : Leaves) (vs : List Val) (v : Val) : R Val :=
  match pyMem? env v vs with
  | none => .error .unsupported
  | some true => .ok v
  | some false =>
    match pyMem? env (decode v) vs with
    | none => .error .unsupported
    | some true => .ok (decode v)
    | some false =>
    match load env L v with
    | .error er => .error er
    | .ok d =>
      match pyMem? env d vs with
      | none => .error .unsupported
      | some true => .ok d
      | some false => .error .value

/-- `fields[f]` / `f in fields` on `.fields_by_var`. -/
def rconv (fields : List (Str × Routine)) (f : Routine → Val → R Val) (name : Str) : Option (Val → R Val) :=
  match fields.find? (fun p => p.1 == name) with
  | some p => some (f p.2)
  | none => none

/-- `StructuredTypeUnmarshaller.__call__` after `serdes.load` (`unmarshals/routines.py:1027-1033`):
    the comprehension over the routine's own field map, then `self.required <= kwargs.keys()`,
    then `self.t(**kwargs)`. -/
def umStructR (env : Env) (c : Nat) (required : List Str) (conv : Str → Option (Val → R Val)) (decoded : Val) : R Val :=
  match env.cls c with
  | none => .error .unsupported
  | some ci =>
    match iteritems env decoded with
    | .error e => .error e
    | .ok items =>
      match buildKwargs conv items [] with
      | .error e => .error e
      | .ok kw =>
        if required.all (fun r => (lookupKw r kw).isSome) then
          match ci.flavour with
          | .typeddict => .ok (.dict (kw.map fun p => (.str p.1, p.2)))
          | _ => construct ci c kw
        else .error .type

/-- `EnumMarshaller.__call__`: `val.value`. -/
def marEnum (env : Env) (v : Val) : R Val :=
  match v with
  | .member c' i =>
    match memberValue env c' i with
    | some x => .ok x
    | none => .error .unsupported
  | _ => .error .attribute

/-- `NoneTypeMarshaller.__call__`. -/
def marNone (v : Val) : R Val :=
  match v with
  | .none => .ok .none
  | _ => .error .value

/-- `UnionMarshaller.__call__` on its own attributes (`marshals/routines.py:310-319`). -/
def marUnionR (nb : Bool) (fs : List (Val → R Val)) (v : Val) : R Val :=
  if nb then
    match v with
    | .none => .ok .none
    | _ => firstOk fs v
  else firstOk fs v

/-- Run an unmarshaller tree.  `D` is what calling a `Delayed` node's resolved routine computes
    (`unmarshaller(self.t)(val)`, at the fuel of the call). -/
def runUW (env : Env) (L : Leaves) (D : Nat → Ty → Val → R Val) : Nat → Routine → Val → R Val
  | 0, _, _ => .error .fuel
  | n + 1, r, v =>
    match r with
    | .leaf s => L.um s v
    | .none => umNone v
    | .noop => .ok v
    | .literal vs => umLiteral env L vs v
    | .enumCast c => umEnum env L c v
    | .union _ rs => firstOk (rs.map (runUW env L D n)) v
    | .coll k e =>
      match (load env L v).bind (itervalues env) with
      | .error er => .error er
      | .ok xs =>
        match mapR (runUW env L D n e) xs with
        | .error er => .error er
        | .ok ys => .ok (mkColl k ys)
    | .tuple rs =>
      match (load env L v).bind (itervalues env) with
      | .error er => .error er
      | .ok xs =>
        match zipR (rs.map (runUW env L D n)) xs with
        | .error er => .error er
        | .ok ys => if ys.length == rs.length then .ok (.tuple ys) else .error .value
    | .dict rk rv =>
      match (load env L v).bind (iteritems env) with
      | .error er => .error er
      | .ok items =>
        match mapR (convPair (runUW env L D n rk) (runUW env L D n rv)) items with
        | .error er => .error er
        | .ok kvs => .ok (.dict kvs)
    | .struct c fs req => (load env L v).bind (umStructR env c req (rconv fs (runUW env L D n)))
    | .delayed t => D (n + 1) (erase t) v
    | .unknown _ => .error .unsupported

/-- Run a marshaller tree. -/
def runMW (env : Env) (L : Leaves) (D : Nat → Ty → Val → R Val) : Nat → Routine → Val → R Val
  | 0, _, _ => .error .fuel
  | n + 1, r, v =>
    match r with
    | .leaf s => L.mar s v
    | .none => marNone v
    | .noop => .ok v
    | .literal vs => if Val.exactMem v vs then .ok v else .error .value
    | .enumCast _ => marEnum env v
    | .union nb rs => marUnionR nb (rs.map (runMW env L D n)) v
    | .coll _ e =>
      match itervalues env v with
      | .error er => .error er
      | .ok xs =>
        match mapR (runMW env L D n e) xs with
        | .error er => .error er
        | .ok ys => .ok (.list ys)
    | .tuple rs =>
      match itervalues env v with
      | .error er => .error er
      | .ok xs =>
        match zipR (rs.map (runMW env L D n)) xs with
        | .error er => .error er
        | .ok ys => .ok (.list ys)
    | .dict rk rv =>
      match iteritems env v with
      | .error er => .error er
      | .ok items =>
        match mapR (convPair (runMW env L D n rk) (runMW env L D n rv)) items with
        | .error er => .error er
        | .ok kvs => .ok (.dict kvs)
    | .struct c fs _ =>
      match env.cls c with
      | none => .error .unsupported
      | some _ =>
        match iteritems env v with
        | .error er => .error er
        | .ok items =>
          match buildKwargs (rconv fs (runMW env L D n)) items [] with
          | .error er => .error er
          | .ok kw => .ok (.dict (kw.map fun p => (.str p.1, p.2)))
    | .delayed t => D (n + 1) (erase t) v
    | .unknown _ => .error .unsupported

/-- `routine(val)` for an unmarshaller tree: a `Delayed` node computes `unmarshal(t, val)`. -/
def runU (env : Env) (L : Leaves) : Nat → Routine → Val → R Val := runUW env L (um env L)

/-- `routine(val)` for a marshaller tree. -/
def runM (env : Env) (L : Leaves) : Nat → Routine → Val → R Val := runMW env L (mar env L)

/-! ### The validator -/

def sameSet (a b : List Str) : Bool := a.all (fun x => b.contains x) && b.all (fun x => a.contains x)

/-- `.required` is the TypedDict's `__required_keys__`, empty for every other flavour. -/
def reqOk (ci : ClassInfo) (req : List Str) : Bool :=
  if ci.flavour == .typeddict then sameSet req ci.required else req.isEmpty

def structOk (d : Dir) (env : Env) (c : Nat) (req : List Str) : Bool :=
  match env.cls c with
  | none => false
  | some ci =>
    match d with
    | .u => reqOk ci req
    | .m => true

/-- The member annotations in the order the union routine holds their routines. -/
def unionMembers (d : Dir) (ms : List Ty) : List Ty :=
  match d with
  | .u => unionOrder ms
  | .m => if nullable ms then ms.filter (fun m => !m.isNone) else ms

def unionFlagOk (d : Dir) (ms : List Ty) (nb : Bool) : Bool :=
  match d with
  | .u => true
  | .m => nb == nullable ms

mutual
  /-- The validator: same kind at every node, member routines adequate for member annotations,
      a `Delayed` node only where the annotation it actually resolves to is the member annotation
      (and is an admissible target: `K`).  `t` is wrapper-free (a `.wrap` is adequate for nothing). -/
  def adequate (d : Dir) (K : Ty → Bool) (env : Env) (t : Ty) : Routine → Bool
    | .delayed t' => Ty.beq (erase t') t && K t
    | .leaf s' => match t with | .scalar s => s == s' | _ => false
    | .none => match t with | .none => true | _ => false
    | .noop => match t with | .any => true | _ => false
    | .literal ws => match t with | .literal vs => litEq vs ws | _ => false
    | .enumCast c' => match t with | .enum c => c == c' | _ => false
    | .union nb rs =>
      match t with
      | .union ms => unionFlagOk d ms nb && adequates d K env (unionMembers d ms) rs
      | _ => false
    | .coll k' r => match t with | .coll k e => k == k' && adequate d K env e r | _ => false
    | .tuple rs => match t with | .tuple es => adequates d K env es rs | _ => false
    | .dict rk rv =>
      match t with
      | .dict k v => adequate d K env k rk && adequate d K env v rv
      | _ => false
    | .struct c' fs req =>
      match t with
      | .cls c => c == c' && structOk d env c req && adequateFields d K env (fieldsOf env c) fs
      | _ => false
    | .unknown _ => false
  termination_by structural r => r
  def adequates (d : Dir) (K : Ty → Bool) (env : Env) (ts : List Ty) : List Routine → Bool
    | [] => ts.isEmpty
    | r :: rs =>
      match ts with
      | t :: ts' => adequate d K env t r && adequates d K env ts' rs
      | [] => false
  termination_by structural rs => rs
  /-- Exactly the class's field names, in `typing.get_type_hints` order, each routine adequate for
      that field's annotation. -/
  def adequateFields (d : Dir) (K : Ty → Bool) (env : Env) (ts : List (Str × Ty)) : List (Str × Routine) → Bool
    | [] => ts.isEmpty
    | (b, r) :: rs =>
      match ts with
      | (a, t) :: ts' => a == b && adequate d K env t r && adequateFields d K env ts' rs
      | [] => false
  termination_by structural rs => rs
end

def anyTarget (_ : Ty) : Bool := true

/-- Validation of one tree; every delayed target is taken to be an annotation the library resolves
    (`graphOk` below also validates the targets' own trees). -/
def adequateU (env : Env) (t : Ty) (r : Routine) : Bool := adequate .u anyTarget env t r
def adequateM (env : Env) (t : Ty) (r : Routine) : Bool := adequate .m anyTarget env t r

/-! ### Routine graphs: the trees of a root annotation and of every `Delayed` target

  A `Delayed` node resolves through `unmarshaller(self.t)`, i.e. through the tree built for another
  root.  The validated artefact of a program is therefore a finite map annotation ↦ tree closed
  under delayed targets; `graphOk` is the plain decidable check over it. -/

abbrev RGraph := List (Ty × Routine)

def Routine.isDelayed : Routine → Bool
  | .delayed _ => true
  | _ => false

def RGraph.hasKey (g : RGraph) (t : Ty) : Bool := g.any (fun e => Ty.beq e.1 t)

/-- Every entry is a non-delayed tree adequate for its key, every delayed target being a key. -/
def graphOk (d : Dir) (env : Env) (g : RGraph) : Bool :=
  g.all (fun e => !e.2.isDelayed && adequate d g.hasKey env e.1 e.2)

/-! ### Routine class names (used by the driver's decoder of extracted trees)

  `Props/C05.lean` checks these against the regenerated dispatch tables (`Props/Dispatch.lean`). -/

/-- Key of a scalar in the dispatch catalogue (`harness/_extract_child.py`). -/
def scalarKey : Scalar → String
  | .int => "int" | .bool => "bool" | .float => "float" | .str => "str"
  | .decimal => "decimal" | .fraction => "fraction" | .uuid => "uuid" | .path => "purepath"
  | .pattern => "pattern" | .date => "date" | .datetime => "datetime" | .time => "time"
  | .timedelta => "timedelta" | .bytes => "bytes"

/-- The unmarshaller class whose `__call__` `Leaves.um s` stands for. -/
def leafClassU : Scalar → String
  | .int | .bool | .float | .decimal | .fraction => "NumberUnmarshaller"
  | .str => "StringUnmarshaller"
  | .bytes => "BytesUnmarshaller"
  | .uuid => "UUIDUnmarshaller"
  | .path => "PathUnmarshaller"
  | .pattern => "PatternUnmarshaller"
  | .date => "DateUnmarshaller"
  | .datetime => "DateTimeUnmarshaller"
  | .time => "TimeUnmarshaller"
  | .timedelta => "TimeDeltaUnmarshaller"

/-- The marshaller class whose `__call__` `Leaves.mar s` stands for. -/
def leafClassM : Scalar → String
  | .int | .bool | .float => "CastMarshaller"
  | .str | .decimal | .fraction | .uuid | .path => "ToStringMarshaller"
  | .bytes => "NoOpMarshaller"
  | .pattern => "PatternMarshaller"
  | .date | .datetime | .time | .timedelta => "ToISOTimeMarshaller"

def allScalars : List Scalar :=
  [.int, .bool, .float, .str, .decimal, .fraction, .uuid, .path, .pattern, .date, .datetime, .time,
   .timedelta, .bytes]

end Typelib
