/-
  Model of `typelib.binding` (src/typelib/binding.py): how `bind(f)` / `wrap(f)` convert the arguments of a
  call before handing them to `f`.

  The per-parameter unmarshallers are *abstract*: the model works over opaque argument values `α` and records
  WHICH routine was applied to each argument.  A routine is identified by the parameter from whose annotation
  `_get_binding` built it (`unmarshals.unmarshaller(param.annotation)`, binding.py:129), and a parameter by its
  name (Python signatures have pairwise distinct parameter names, `Sig.wf`).  So the output of a binder is a
  list of `Cell`s: `conv p v` = "the unmarshaller of parameter `p` applied to `v`", `raw v` = "`v` untouched",
  `key k` = "the value was replaced by the keyword name `k`" (the `else k` slip of four binder classes).

  Contents:  `Sig` (signature), `getBinding` (the registration loop of `_get_binding`, binding.py:116-169),
  the 16 concrete binder classes (binding.py:236-469; with the abstract base that makes the 17 classes of the
  module) as constructors with `Binder.apply` hand-written from each `__call__`, their classification into a
  positional and a keyword mode, `classOfName`, table lookup `select`, and the specification: Python's own
  argument binding (`posTarget`, `kwTarget`, `expected`, `accepted`).

  Required parameters: the model treats every parameter as omissible (as if it had a default).  A call that
  Python rejects only because a required argument is missing is therefore `accepted` here; the theorems hold
  for it too, and the binder never adds or removes arguments (`shape_preserved` in Props/C10), so `f` still
  rejects it.
-/
import TypelibModel.Model.Basic
namespace Typelib.Binding

abbrev Name := Str

/-- `inspect.Parameter.kind`. -/
inductive Kind | po | pk | va | ko | vk
  deriving DecidableEq, Repr, Inhabited

/-- A callable signature `def f(po…, /, pk…, *va, ko…, **vk)`; the order of the kinds is Python's.
    `unann` lists the parameters without annotation (`inspect.Parameter.empty` ↦ `NoOpUnmarshaller`). -/
structure Sig where
  po : List Name := []
  pk : List Name := []
  va : Option Name := none
  ko : List Name := []
  vk : Option Name := none
  unann : List Name := []
  deriving Repr, Inhabited

def tagKind (k : Kind) (n : Name) : Name × Kind := (n, k)

/-- `sig.parameters.items()` in declaration order. -/
def Sig.params (s : Sig) : List (Name × Kind) :=
  s.po.map (tagKind .po) ++ (s.pk.map (tagKind .pk) ++ (s.va.toList.map (tagKind .va) ++
    (s.ko.map (tagKind .ko) ++ s.vk.toList.map (tagKind .vk))))

def Sig.names (s : Sig) : List Name := s.params.map Prod.fst

/-- Python refuses duplicate parameter names. -/
def Sig.wf (s : Sig) : Bool := decide s.names.Nodup

/-- `_Truth`: (has_pos_only, has_kwd_only, has_args, has_kwargs, has_pos_or_kwd) — the column order of the
    regenerated table `Gen.bindingMatrix`. -/
abbrev Row := Bool × Bool × Bool × Bool × Bool

def Sig.presence (s : Sig) : Row :=
  (!s.po.isEmpty, !s.ko.isEmpty, s.va.isSome, s.vk.isSome, !s.pk.isEmpty)

/-! ### `_get_binding` (binding.py:116-169) -/

/-- `d[k] = v` on a dict seen as a lookup function. -/
def dictSet {κ ν : Type} [DecidableEq κ] (d : κ → Option ν) (k : κ) (v : ν) : κ → Option ν :=
  fun j => if j = k then some v else d j

def dictEmpty {κ ν : Type} : κ → Option ν := fun _ => none

/-- The local variables of the loop of `_get_binding`.  `binding` is split into its `int` keys (`byIdx`) and
    its `str` keys (`byName`), which cannot collide; `startpos` holds `max_pos + 1` (so that `max_pos = -1`
    stays a natural number); a routine is named by its parameter. -/
structure Reg where
  byIdx : Nat → Option Name := dictEmpty
  byName : Name → Option Name := dictEmpty
  hasPo : Bool := false
  hasKo : Bool := false
  hasVa : Bool := false
  hasVk : Bool := false
  hasPk : Bool := false
  startpos : Option Nat := none
  varpos : Option Name := none
  varkwd : Option Name := none

/-- One iteration of the loop body (binding.py:128-153) for parameter number `i` called `name`, by kind:
    index registered for po/pk only (l.134-135), name for pk/ko only (l.136-137), flags (l.138-153),
    `max_pos = i` for po (l.144), `max_pos = i - 1` and `varpos` for `*args` (l.152-153), `varkwd` (l.148). -/
def regStep (st : Reg) (i : Nat) (name : Name) : Kind → Reg
  | .po => { st with byIdx := dictSet st.byIdx i name, hasPo := true, startpos := some (i + 1) }
  | .pk => { st with byIdx := dictSet st.byIdx i name, byName := dictSet st.byName name name, hasPk := true }
  | .va => { st with hasVa := true, startpos := some i, varpos := some name }
  | .ko => { st with byName := dictSet st.byName name name, hasKo := true }
  | .vk => { st with hasVk := true, varkwd := some name }

/-- `for i, (name, param) in enumerate(params.items())` started at index `i`. -/
def regLoop : Reg → Nat → List (Name × Kind) → Reg
  | st, _, [] => st
  | st, i, p :: ps => regLoop (regStep st i p.1 p.2) (i + 1) ps

/-- What a binder instance holds (`AbstractBinding.__init__`, binding.py:195-219). -/
structure Layout where
  byIdx : Nat → Option Name
  byName : Name → Option Name
  startpos : Option Nat
  varpos : Option Name
  varkwd : Option Name

def Reg.row (st : Reg) : Row := (st.hasPo, st.hasKo, st.hasVa, st.hasVk, st.hasPk)

def Reg.layout (st : Reg) : Layout :=
  { byIdx := st.byIdx, byName := st.byName, startpos := st.startpos, varpos := st.varpos, varkwd := st.varkwd }

def finalReg (s : Sig) : Reg := regLoop {} 0 s.params

/-- The `_Truth` key computed by `_get_binding` (binding.py:155-161). -/
def truth (s : Sig) : Row := (finalReg s).row

/-- The constructor arguments of the binder (binding.py:163-169). -/
def layout (s : Sig) : Layout := (finalReg s).layout

/-! ### Calls and results -/

inductive Cell (α : Type)
  | conv (p : Name) (v : α)   -- unmarshaller of parameter `p` applied to `v`
  | raw (v : α)               -- `v` itself
  | key (k : Name)            -- the keyword name instead of the value (`… else k`)
  deriving DecidableEq, Repr

structure Call (α : Type) where
  args : List α
  kwargs : List (Name × α)     -- a dict: insertion-ordered, keys distinct
  deriving Repr

structure Out (α : Type) where
  args : List (Cell α)
  kwargs : List (Name × Cell α)
  deriving DecidableEq, Repr

/-- `u(v)` where `u` may be `None`: calling `None` raises `TypeError` (`none`). -/
def callOpt {α : Type} (u : Option Name) (v : α) : Option (Cell α) :=
  match u with
  | some p => some (.conv p v)
  | none => none

/-- `binding[i](v) if i in binding else v`. -/
def idxCell {α : Type} (L : Layout) (i : Nat) (v : α) : Cell α :=
  match L.byIdx i with
  | some p => .conv p v
  | none => .raw v

/-- `(binding[i](v) if i in binding else v for i, v in enumerate(xs))`, counting from `i`. -/
def posIndexed {α : Type} (L : Layout) : Nat → List α → List (Cell α)
  | _, [] => []
  | i, v :: vs => idxCell L i v :: posIndexed L (i + 1) vs

/-- `(u(v) for v in xs)`: raises as soon as there is an element and `u is None`. -/
def mapVar {α : Type} (u : Option Name) : List α → Option (List (Cell α))
  | [] => some []
  | v :: vs =>
    match callOpt u v, mapVar u vs with
    | some c, some cs => some (c :: cs)
    | _, _ => none

/-- `xs[:sp]` (`sp = None`: everything). -/
def sliceTo {α : Type} (sp : Option Nat) (xs : List α) : List α :=
  match sp with
  | some n => xs.take n
  | none => xs

/-- `xs[sp:]` (`sp = None`: everything, again). -/
def sliceFrom {α : Type} (sp : Option Nat) (xs : List α) : List α :=
  match sp with
  | some n => xs.drop n
  | none => xs

def rawCell {α : Type} (v : α) : Cell α := .raw v

/-- `k: binding.get(k, varkwd)(v)`. -/
def kwGetOrVarkwd {α : Type} (L : Layout) (k : Name) (v : α) : Option (Cell α) :=
  match L.byName k with
  | some p => some (.conv p v)
  | none => callOpt L.varkwd v

/-- `k: varkwd(v)`. -/
def kwVarkwd {α : Type} (L : Layout) (_k : Name) (v : α) : Option (Cell α) := callOpt L.varkwd v

/-- `k: binding[k](v) if k in binding else v`. -/
def kwIdxElseRaw {α : Type} (L : Layout) (k : Name) (v : α) : Option (Cell α) :=
  match L.byName k with
  | some p => some (.conv p v)
  | none => some (.raw v)

/-- `k: binding[k](v) if k in binding else k` — the slip: the *key* becomes the value. -/
def kwIdxElseKey {α : Type} (L : Layout) (k : Name) (_v : α) : Option (Cell α) :=
  match L.byName k with
  | some p => some (.conv p _v)
  | none => some (.key k)

/-- `kwargs` returned as they are. -/
def kwRaw {α : Type} (_k : Name) (v : α) : Option (Cell α) := some (.raw v)

/-- `{k: f(k, v) for k, v in kwargs.items()}`; any raising element makes the comprehension raise. -/
def mapKw {α : Type} (f : Name → α → Option (Cell α)) : List (Name × α) → Option (List (Name × Cell α))
  | [] => some []
  | p :: ps =>
    match f p.1 p.2, mapKw f ps with
    | some c, some cs => some ((p.1, c) :: cs)
    | _, _ => none

/-- The four ways the classes treat `args`. -/
inductive PosMode | indexedAll | indexedPrefix | allVar | raw
  deriving DecidableEq, Repr

/-- The five ways the classes treat `kwargs`. -/
inductive KwMode | getOrVarkwd | varkwdAll | idxElseRaw | idxElseKey | raw
  deriving DecidableEq, Repr

/-- `enumerate(args)` over all of `args`. -/
def posAll {α : Type} (L : Layout) (args : List α) : Option (List (Cell α)) := some (posIndexed L 0 args)

/-- `posargs = args[:startpos]; varargs = args[startpos:]`, the first indexed, the second through `varpos`. -/
def posPrefix {α : Type} (L : Layout) (args : List α) : Option (List (Cell α)) :=
  match mapVar L.varpos (sliceFrom L.startpos args) with
  | some cs => some (posIndexed L 0 (sliceTo L.startpos args) ++ cs)
  | none => none

def posAllVar {α : Type} (L : Layout) (args : List α) : Option (List (Cell α)) := mapVar L.varpos args

def posRaw {α : Type} (args : List α) : Option (List (Cell α)) := some (args.map rawCell)

def applyPos {α : Type} : PosMode → Layout → List α → Option (List (Cell α))
  | .indexedAll, L, a => posAll L a
  | .indexedPrefix, L, a => posPrefix L a
  | .allVar, L, a => posAllVar L a
  | .raw, _, a => posRaw a

def applyKw {α : Type} : KwMode → Layout → List (Name × α) → Option (List (Name × Cell α))
  | .getOrVarkwd, L, k => mapKw (kwGetOrVarkwd L) k
  | .varkwdAll, L, k => mapKw (kwVarkwd L) k
  | .idxElseRaw, L, k => mapKw (kwIdxElseRaw L) k
  | .idxElseKey, L, k => mapKw (kwIdxElseKey L) k
  | .raw, _, k => mapKw kwRaw k

/-- `return umargs, umkwargs` (both are evaluated; either may raise). -/
def mkOut {α : Type} (a : Option (List (Cell α))) (k : Option (List (Name × Cell α))) : Option (Out α) :=
  match a, k with
  | some a, some k => some ⟨a, k⟩
  | _, _ => none

def applyModes {α : Type} (pm : PosMode) (km : KwMode) (L : Layout) (c : Call α) : Option (Out α) :=
  mkOut (applyPos pm L c.args) (applyKw km L c.kwargs)

/-- The concrete subclasses of `AbstractBinding` (binding.py:236-469). -/
inductive Binder
  | anyParamKind | posArgsKwargs | posKwdKwargs | posKwdArgs | posKwargs | posKwd | posArgs | pos
  | kwdArgsKwargs | kwdArgs | kwdKwargs | kwd | argsKwargs | kwargs | args | posOrKwd
  deriving DecidableEq, Repr

/-- `Binder.__call__(args, kwargs)`, class by class. `none` = the binder itself raises `TypeError`
    (`'NoneType' object is not callable`). -/
def Binder.apply {α : Type} (b : Binder) (L : Layout) (c : Call α) : Option (Out α) :=
  match b with
  | .anyParamKind  => mkOut (posPrefix L c.args) (mapKw (kwGetOrVarkwd L) c.kwargs)   -- l.236-256
  | .posArgsKwargs => mkOut (posPrefix L c.args) (mapKw (kwVarkwd L) c.kwargs)        -- l.259-277
  | .posKwdKwargs  => mkOut (posAll L c.args) (mapKw (kwGetOrVarkwd L) c.kwargs)      -- l.280-291
  | .posKwdArgs    => mkOut (posPrefix L c.args) (mapKw (kwIdxElseRaw L) c.kwargs)    -- l.294-313
  | .posKwargs     => mkOut (posAll L c.args) (mapKw (kwVarkwd L) c.kwargs)           -- l.316-327
  | .posKwd        => mkOut (posAll L c.args) (mapKw (kwIdxElseKey L) c.kwargs)       -- l.330-340
  | .posArgs       => mkOut (posPrefix L c.args) (mapKw kwRaw c.kwargs)               -- l.343-359
  | .pos           => mkOut (posAll L c.args) (mapKw kwRaw c.kwargs)                  -- l.362-370
  | .kwdArgsKwargs => mkOut (posAllVar L c.args) (mapKw (kwGetOrVarkwd L) c.kwargs)   -- l.373-385
  | .kwdArgs       => mkOut (posAllVar L c.args) (mapKw (kwIdxElseKey L) c.kwargs)    -- l.388-399
  | .kwdKwargs     => mkOut (posRaw c.args) (mapKw (kwGetOrVarkwd L) c.kwargs)        -- l.402-410
  | .kwd           => mkOut (posRaw c.args) (mapKw (kwIdxElseKey L) c.kwargs)         -- l.413-420
  | .argsKwargs    => mkOut (posAllVar L c.args) (mapKw (kwVarkwd L) c.kwargs)        -- l.423-434
  | .kwargs        => mkOut (posRaw c.args) (mapKw (kwVarkwd L) c.kwargs)             -- l.437-445
  | .args          => mkOut (posAllVar L c.args) (mapKw kwRaw c.kwargs)               -- l.448-456
  | .posOrKwd      => mkOut (posAll L c.args) (mapKw (kwIdxElseKey L) c.kwargs)       -- l.459-469

def Binder.modes : Binder → PosMode × KwMode
  | .anyParamKind  => (.indexedPrefix, .getOrVarkwd)
  | .posArgsKwargs => (.indexedPrefix, .varkwdAll)
  | .posKwdKwargs  => (.indexedAll, .getOrVarkwd)
  | .posKwdArgs    => (.indexedPrefix, .idxElseRaw)
  | .posKwargs     => (.indexedAll, .varkwdAll)
  | .posKwd        => (.indexedAll, .idxElseKey)
  | .posArgs       => (.indexedPrefix, .raw)
  | .pos           => (.indexedAll, .raw)
  | .kwdArgsKwargs => (.allVar, .getOrVarkwd)
  | .kwdArgs       => (.allVar, .idxElseKey)
  | .kwdKwargs     => (.raw, .getOrVarkwd)
  | .kwd           => (.raw, .idxElseKey)
  | .argsKwargs    => (.allVar, .varkwdAll)
  | .kwargs        => (.raw, .varkwdAll)
  | .args          => (.allVar, .raw)
  | .posOrKwd      => (.indexedAll, .idxElseKey)

def classOfName : String → Option Binder
  | "AnyParamKindBinding" => some .anyParamKind
  | "PosArgsKwargsBinding" => some .posArgsKwargs
  | "PosKwdKwargsBinding" => some .posKwdKwargs
  | "PosKwdArgsBinding" => some .posKwdArgs
  | "PosKwargsBinding" => some .posKwargs
  | "PosKwdBinding" => some .posKwd
  | "PosArgsBinding" => some .posArgs
  | "PosBinding" => some .pos
  | "KwdArgsKwargsBinding" => some .kwdArgsKwargs
  | "KwdArgsBinding" => some .kwdArgs
  | "KwdKwargsBinding" => some .kwdKwargs
  | "KwdBinding" => some .kwd
  | "ArgsKwargsBinding" => some .argsKwargs
  | "KwargsBinding" => some .kwargs
  | "ArgsBinding" => some .args
  | "PosOrKwdBinding" => some .posOrKwd
  | _ => none

def Binder.name : Binder → String
  | .anyParamKind => "AnyParamKindBinding" | .posArgsKwargs => "PosArgsKwargsBinding"
  | .posKwdKwargs => "PosKwdKwargsBinding" | .posKwdArgs => "PosKwdArgsBinding"
  | .posKwargs => "PosKwargsBinding" | .posKwd => "PosKwdBinding" | .posArgs => "PosArgsBinding"
  | .pos => "PosBinding" | .kwdArgsKwargs => "KwdArgsKwargsBinding" | .kwdArgs => "KwdArgsBinding"
  | .kwdKwargs => "KwdKwargsBinding" | .kwd => "KwdBinding" | .argsKwargs => "ArgsKwargsBinding"
  | .kwargs => "KwargsBinding" | .args => "ArgsBinding" | .posOrKwd => "PosOrKwdBinding"

/-- A `_BINDING_CLS_MATRIX`-shaped table: rows `(has_pos_only, has_kwd_only, has_args, has_kwargs,
    has_pos_or_kwd, class name)`. -/
abbrev Matrix := List (Bool × Bool × Bool × Bool × Bool × String)

def rowKey (e : Bool × Bool × Bool × Bool × Bool × String) : Row := (e.1, e.2.1, e.2.2.1, e.2.2.2.1, e.2.2.2.2.1)

/-- `_BINDING_CLS_MATRIX[truth]` (binding.py:162); `none` = `KeyError` or a class the model does not know. -/
def select : Matrix → Row → Option Binder
  | [], _ => none
  | e :: es, r => if rowKey e = r then classOfName e.2.2.2.2.2 else select es r

/-- `bind(f)(*args, **kwargs)` up to the call of `f`: the arguments `f` is called with
    (binding.py:107-112, and the same two lines in `wrap`, l.90-92). -/
def bindWith {α : Type} (m : Matrix) (s : Sig) (c : Call α) : Option (Out α) :=
  match select m (truth s) with
  | some b => b.apply (layout s) c
  | none => none

/-! ### Specification: how Python itself binds the arguments of a call -/

/-- The parameter the `i`-th positional argument binds to: the `i`-th of po ++ pk, else `*args`. -/
def posTarget (s : Sig) (i : Nat) : Option Name :=
  match (s.po ++ s.pk)[i]? with
  | some p => some p
  | none => s.va

/-- The parameter a keyword argument `k=` binds to: the pk / ko parameter of that name, else `**kwargs`
    (this includes names of positional-only, `*args` and `**kwargs` parameters). -/
def kwTarget (s : Sig) (k : Name) : Option Name :=
  if k ∈ s.pk ++ s.ko then some k else s.vk

/-- The argument converted by the routine of its target (no target: impossible for an accepted call). -/
def specCell {α : Type} (t : Option Name) (v : α) : Cell α :=
  match t with
  | some p => .conv p v
  | none => .raw v

def expectedPos {α : Type} (s : Sig) : Nat → List α → List (Cell α)
  | _, [] => []
  | i, v :: vs => specCell (posTarget s i) v :: expectedPos s (i + 1) vs

def expectedKwEntry {α : Type} (s : Sig) (p : Name × α) : Name × Cell α := (p.1, specCell (kwTarget s p.1) p.2)

def expectedKw {α : Type} (s : Sig) (kws : List (Name × α)) : List (Name × Cell α) := kws.map (expectedKwEntry s)

/-- What `f` must be called with: same positions, same keyword names in the same order, every argument
    converted by the routine of the parameter it binds to. -/
def expected {α : Type} (s : Sig) (c : Call α) : Out α := ⟨expectedPos s 0 c.args, expectedKw s c.kwargs⟩

/-- A keyword `k=` is admissible next to `nargs` positional arguments: a pk parameter not already filled
    positionally, a ko parameter, or anything else if there is a `**kwargs`. -/
def kwOk (s : Sig) (nargs : Nat) (k : Name) : Bool :=
  if k ∈ s.pk then !decide (k ∈ s.pk.take (nargs - s.po.length))
  else if k ∈ s.ko then true
  else s.vk.isSome

def kwEntryOk {α : Type} (s : Sig) (nargs : Nat) (p : Name × α) : Bool := kwOk s nargs p.1

/-- Python accepts the call (every parameter taken to be omissible): no excess positionals unless `*args`,
    no duplicate keyword, no unknown keyword (or positional-only name) unless `**kwargs`, no parameter bound
    both ways.  Depends only on the number of positionals and the keyword names. -/
def accepted {α : Type} (s : Sig) (c : Call α) : Bool :=
  (decide (c.args.length ≤ s.po.length + s.pk.length) || s.va.isSome)
  && decide (c.kwargs.map Prod.fst).Nodup
  && c.kwargs.all (kwEntryOk s c.args.length)

/-! ### Observation (what the harness can see of a cell) -/

inductive Obs
  | by (p : Name)     -- converted by the routine of the annotated parameter `p`
  | untouched         -- not converted, or converted by the no-op routine of an unannotated parameter
  | key               -- replaced by the keyword name
  deriving DecidableEq, Repr

def observe {α : Type} (s : Sig) : Cell α → Obs
  | .conv p _ => if p ∈ s.unann then .untouched else .by p
  | .raw _ => .untouched
  | .key _ => .key

/-- The value `f` receives, for an interpretation `um` of the routines (`ofName`: a name as a value). -/
def Cell.eval {α : Type} (um : Name → α → α) (ofName : Name → α) : Cell α → α
  | .conv p v => um p v
  | .raw v => v
  | .key k => ofName k

/-- The call `f` actually receives. -/
def Out.asCall {α : Type} (o : Out α) : Call (Cell α) := ⟨o.args, o.kwargs⟩

def Cell.isKey {α : Type} : Cell α → Bool
  | .key _ => true
  | _ => false

def notKeyCell {α : Type} (x : Cell α) : Bool := !x.isKey
def notKeyEntry {α : Type} (e : Name × Cell α) : Bool := !e.2.isKey

end Typelib.Binding
