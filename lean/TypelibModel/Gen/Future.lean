/- GENERATED from the live `future._GENERICS`. Do not edit. -/
namespace Typelib.Gen

def futureGenerics : List (String × String) := [
  ("Pattern", "typing.Pattern"),
  ("dict", "typing.Dict"),
  ("list", "typing.List"),
  ("set", "typing.Set"),
  ("tuple", "typing.Tuple")]

end Typelib.Gen
