/- GENERATED from the live `binding._BINDING_CLS_MATRIX`: (has_pos_only, has_kwd_only, has_args,
   has_kwargs, has_pos_or_kwd, binder class). Do not edit. -/
namespace Typelib.Gen

def bindingMatrix : List (Bool × Bool × Bool × Bool × Bool × String) := [
  (false, false, false, false, false, "PosOrKwdBinding"),
  (false, false, false, false, true, "PosOrKwdBinding"),
  (false, false, false, true, false, "KwargsBinding"),
  (false, false, false, true, true, "PosKwdKwargsBinding"),
  (false, false, true, false, false, "ArgsBinding"),
  (false, false, true, false, true, "PosKwdArgsBinding"),
  (false, false, true, true, false, "ArgsKwargsBinding"),
  (false, false, true, true, true, "AnyParamKindBinding"),
  (false, true, false, false, false, "KwdBinding"),
  (false, true, false, false, true, "PosOrKwdBinding"),
  (false, true, false, true, false, "KwdKwargsBinding"),
  (false, true, false, true, true, "PosKwdKwargsBinding"),
  (false, true, true, false, false, "KwdArgsBinding"),
  (false, true, true, false, true, "PosKwdArgsBinding"),
  (false, true, true, true, false, "KwdArgsKwargsBinding"),
  (false, true, true, true, true, "AnyParamKindBinding"),
  (true, false, false, false, false, "PosBinding"),
  (true, false, false, false, true, "PosOrKwdBinding"),
  (true, false, false, true, false, "PosKwargsBinding"),
  (true, false, false, true, true, "PosKwdKwargsBinding"),
  (true, false, true, false, false, "PosArgsBinding"),
  (true, false, true, false, true, "PosKwdArgsBinding"),
  (true, false, true, true, false, "PosArgsKwargsBinding"),
  (true, false, true, true, true, "AnyParamKindBinding"),
  (true, true, false, false, false, "PosKwdBinding"),
  (true, true, false, false, true, "PosKwdKwargsBinding"),
  (true, true, false, true, false, "PosKwdKwargsBinding"),
  (true, true, false, true, true, "PosKwdKwargsBinding"),
  (true, true, true, false, false, "PosKwdArgsBinding"),
  (true, true, true, false, true, "PosKwdArgsBinding"),
  (true, true, true, true, false, "AnyParamKindBinding"),
  (true, true, true, true, true, "AnyParamKindBinding")]

end Typelib.Gen
