/-
  Driver operations of the Graph model (C09).

  op "graph.order":
    {"op": "graph.order", "root": id,
     "tys": [{"named": b, "qualified": b, "stdlib": b, "leaf": b, "unw": id, "ucls": b, "kids": [[var|null, id], …]}, …]}
  answers
    {"wf": bool,                       -- Graph.wf (the hypothesis of the C09 theorems)
     "fuel": n, "steps": n,            -- fuel given to the loop (Graph.fuelBound when wf), number of pops
     "nodes": [[ty, unw, var|null, cyclic, isRef, qual], …]   -- the model's static_order
        | "cycle": true                -- graphlib would raise CycleError
        | "outOfFuel": true,           -- the loop did not finish
     "topo": bool,                     -- Graph.checkTopo of that sequence
     "edges": [[node, [pred, …]], …]}  -- the `graph.add` calls in order
-/
import TypelibModel.Drv.Core
import TypelibModel.Model.Graph
open Lean
namespace Typelib.Drv
open Typelib.Graph
namespace GraphOps

def jBool (j : Json) (k : String) : Except String Bool :=
  match j.getObjVal? k with
  | .ok (.bool b) => .ok b
  | _ => .error s!"field {k}: not a bool"

def jVar (j : Json) : Except String (Option Str) :=
  match j with
  | .null => .ok none
  | .str s => .ok (some (S s))
  | _ => .error s!"not a var: {j}"

def kidOfJson (j : Json) : Except String (Option Str × Nat) :=
  match j with
  | .arr #[v, c] => do pure ((← jVar v), (← jNat c))
  | _ => .error s!"not a member: {j}"

def infoOfJson (j : Json) : Except String TyInfo := do
  let named ← jBool j "named"
  let qualified ← jBool j "qualified"
  let stdlib ← jBool j "stdlib"
  let leaf ← jBool j "leaf"
  let ucls ← jBool j "ucls"
  let unw ← jNat (← j.getObjVal? "unw")
  let kids ← match j.getObjVal? "kids" with
    | .ok (.arr a) => a.toList.mapM kidOfJson
    | _ => .error "kids"
  pure { named := named, qualified := qualified, stdlib := stdlib, leaf := leaf, unwrapped := unw, ucls := ucls, children := kids }

def graphOfJson (j : Json) : Except String TyGraph :=
  match j.getObjVal? "tys" with
  | .ok (.arr a) => do pure { tys := (← a.toList.mapM infoOfJson) }
  | _ => .error "tys"

def nodeToJson (n : Node) : Json :=
  .arr #[jN n.ty, jN n.unwrapped, (match n.var with | some v => .str (U v) | none => .null),
         .bool n.cyclic, .bool n.isRef, .bool n.qual]

def addToJson (a : Node × List Node) : Json :=
  .arr #[nodeToJson a.1, .arr (a.2.map nodeToJson).toArray]

end GraphOps
open GraphOps

def handleGraph (st : St) (op : String) (j : Json) : Option (Except String (St × Json)) :=
  match op with
  | "graph.order" => some do
    let g ← graphOfJson j
    let root ← jNat (← j.getObjVal? "root")
    let ok := wf g
    let fuel := if ok then fuelBound g else 20000
    match run g fuel (init g root) with
    | none => pure (st, Json.mkObj [("wf", .bool ok), ("fuel", jN fuel), ("outOfFuel", .bool true)])
    | some s =>
      let common := [("wf", Json.bool ok), ("fuel", jN fuel), ("steps", jN s.adds.length),
                     ("edges", .arr (s.adds.map addToJson).toArray)]
      match staticOrder s.adds with
      | none => pure (st, Json.mkObj (common ++ [("cycle", .bool true)]))
      | some o => pure (st, Json.mkObj (common ++
          [("nodes", .arr (o.map nodeToJson).toArray), ("topo", .bool (checkTopo s.adds o))]))
  | _ => none

end Typelib.Drv
