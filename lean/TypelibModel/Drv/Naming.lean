/-
  Driver operations of the naming model (Model/Naming.lean; harness/props/naming_corr.py, run with C16).

  A namespace is sent as
    {"objs":  [{"id": n, "kind": "cls"|"func"|"alias", "name": s, "qual": [s, ...] | null, "module": s}, ...],
     "binds": [{"mod": m, "name": s, "target": n} | {"obj": n, "name": s, "target": n}, ...]}

  op "naming.ref":  {"ns": NS, "class": id}        → ANSWER + {"wf": b}
                    {"ns": NS, "classes": [id..]}  → {"wf": b, "results": [ANSWER, ...]}
    ANSWER = {"ref": {"text", "module"}, "resolves_to": id | null, "err": null | "NameError" | "AttributeError" | "SyntaxError",
              "qualname", "name", "local": b, "bound_at_declared": b,
              "prefix_fix": b      -- the tree before c0135c0 would have named the object differently
              "mutants": {"pre_befc63c" | "pre_fix" | "by_name" | "by_dunder_name": {"ref", "resolves_to", "err"}}}   -- Model/Naming.lean §Mutants
  op "naming.text": {"ns": NS, "texts": [[text, module], ...]}
                    → {"wf": b, "results": [{"ref", "resolves_to", "err", "no_occ": b (noOcc "<module>." text),
                                             "prefixed": b ("<module>." is a prefix of the text),
                                             "pre_befc63c": {"ref", "resolves_to", "err"}}, ...]}
  Not part of any theorem.
-/
import TypelibModel.Drv.Core
import TypelibModel.Model.Naming
open Lean
namespace Typelib.Drv
namespace NamingDrv
open Typelib.Naming

def kindOf : String → Except String Kind
  | "cls" => .ok .cls | "func" => .ok .func | "alias" => .ok .alias
  | s => .error s!"object kind {s}"

def jStrList (j : Json) : Except String (List Str) :=
  match j with
  | .arr a => a.toList.mapM jStr
  | _ => .error s!"not a list of strings: {j}"

def objOfJson (j : Json) : Except String Obj := do
  let qual ← match j.getObjVal? "qual" with
    | .ok .null => pure none
    | .ok q => do pure (some (← jStrList q))
    | .error _ => pure none
  pure { id := (← j.getObjValAs? Nat "id"), kind := (← kindOf (← j.getObjValAs? String "kind")),
         name := S (← j.getObjValAs? String "name"), qual := qual, module := S (← j.getObjValAs? String "module") }

def bindOfJson (j : Json) : Except String Binding := do
  let sc ← match j.getObjValAs? String "mod" with
    | .ok m => pure (Scope.modl (S m))
    | .error _ => do pure (Scope.obj (← j.getObjValAs? Nat "obj"))
  pure { scope := sc, name := S (← j.getObjValAs? String "name"), target := (← j.getObjValAs? Nat "target") }

def nsOfJson (j : Json) : Except String NS := do
  let objs ← match j.getObjVal? "objs" with
    | .ok (.arr a) => a.toList.mapM objOfJson
    | _ => .error "ns.objs"
  let binds ← match j.getObjVal? "binds" with
    | .ok (.arr a) => a.toList.mapM bindOfJson
    | _ => .error "ns.binds"
  pure { objs := objs, binds := binds }

def errName : NErr → String
  | .nameError => "NameError" | .attributeError => "AttributeError" | .syntaxError => "SyntaxError"

def refToJson (r : Ref) : Json := Json.mkObj [("text", .str (U r.text)), ("module", .str (U r.module))]

def outcome (ns : NS) (r : Ref) : List (String × Json) :=
  match evaluateRef ns r with
  | .ok i => [("ref", refToJson r), ("resolves_to", toJson i), ("err", .null)]
  | .error e => [("ref", refToJson r), ("resolves_to", .null), ("err", .str (errName e))]

def answer (ns : NS) (o : Obj) : Json :=
  let r := forwardrefOfClass o
  Json.mkObj (outcome ns r ++
    [("qualname", .str (U (qualnameOf o))), ("name", .str (U (nameOf o))), ("local", .bool (isLocal o)),
     ("bound_at_declared", .bool (boundAtDeclared ns o)),
     ("prefix_fix", .bool (decide (forwardrefPreFix o ≠ r))),
     ("mutants", Json.mkObj [("pre_befc63c", Json.mkObj (outcome ns (forwardrefPreBefc63c o))), ("pre_fix", Json.mkObj (outcome ns (forwardrefPreFix o))),
                             ("by_name", Json.mkObj (outcome ns (forwardrefByName o))),
                             ("by_dunder_name", Json.mkObj (outcome ns (forwardrefByDunderName o)))])])

def answerFor (ns : NS) (i : Nat) : Except String Json :=
  match objOf ns i with
  | some o => .ok (answer ns o)
  | none => .error s!"naming.ref: no object {i}"

def textAnswer (ns : NS) (j : Json) : Except String Json :=
  match j with
  | .arr #[.str t, .str m] =>
    .ok (Json.mkObj (outcome ns (forwardrefOfText (S t) (S m)) ++
      [("no_occ", .bool (noOcc (modulePat (S m)) (S t))), ("prefixed", .bool ((modulePat (S m)).isPrefixOf (S t))),
       ("pre_befc63c", Json.mkObj (outcome ns (forwardrefOfTextPreBefc63c (S t) (S m))))]))
  | _ => .error s!"naming.text: not a [text, module] pair: {j}"

end NamingDrv
open Typelib.Naming NamingDrv

def handleNaming (st : St) (op : String) (j : Json) : Option (Except String (St × Json)) :=
  match op with
  | "naming.ref" => some do
    let ns ← nsOfJson (← j.getObjVal? "ns")
    match j.getObjVal? "classes" with
    | .ok (.arr ids) =>
      let rs ← ids.toList.mapM fun x => do answerFor ns (← (fromJson? x : Except String Nat))
      pure (st, Json.mkObj [("wf", .bool (wf ns)), ("results", .arr rs.toArray)])
    | _ =>
      let a ← answerFor ns (← j.getObjValAs? Nat "class")
      pure (st, a.setObjVal! "wf" (.bool (wf ns)))
  | "naming.text" => some do
    let ns ← nsOfJson (← j.getObjVal? "ns")
    match j.getObjVal? "texts" with
    | .ok (.arr ts) =>
      let rs ← ts.toList.mapM (textAnswer ns)
      pure (st, Json.mkObj [("wf", .bool (wf ns)), ("results", .arr rs.toArray)])
    | _ => throw "naming.text: texts"
  | _ => none

end Typelib.Drv
