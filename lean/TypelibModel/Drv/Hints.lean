/-
  Driver operations of the member-hints model (Model/Hints.lean; harness/props/hints_corr.py, run with C17).

    HINT  = ["ty", id] | ["any"] | ["kwOnly"] | ["classVar", HINT] | ["fwd", text, module]
    BOUND = HINT | ["invalid"]
    ANN   = ["name", s] | ["classVar", ANN] | ["obj", HINT] | ["ref", s, module]
    PARAM = {"name": s, "kind": "posOnly"|"posOrKw"|"varPos"|"kwOnly"|"varKw",
             "ann": ["missing"] | ["text", s] | ["obj", HINT], "dflt": "none"|"ellipsis"|"value"}
    ENTRY = {"id": n, "module": s, "ns": [[name, BOUND], ...], "anns": [[name, ANN], ...], "ctor": null | [PARAM, ...]}
    CLASS = {"kind": ["plain"] | ["dataclass"] | ["typedDict", total, [required..] | null, [attrs..]] | ["namedTuple"] | ["tupleSub"],
             "mro": [ENTRY, ...], "fallback": null | [PARAM, ...]}
    OBJ   = {"cls": CLASS} | {"func": {"module": s, "anns": [[name, ANN], ...], "params": [PARAM, ...]}}
          | {"inst": CLASS, "call": null | [PARAM, ...]} | {"tupleAlias": {"module": s, "args": [HINT, ...], "variadic": b}}
    ENV   = {"mods": [[module, [[name, BOUND], ...]], ...], "builtins": [[name, BOUND], ...]}
    HINTS = {"hints": [[name, kind, ...], ...]} | {"err": "RecursionError"}          -- a hint row is [name] ++ HINT
    SIG   = {"params": [PARAM, ...]} | {"err": "RecursionError" | "ValueError" | "TypeError"}

  op "hints.get":       {"obj": OBJ, "env": ENV, "exhaustive": b}
        → HINTS + {"wf": b, "typing": {"hints": ..} | {"err": "NameError"|"TypeError"}, "annotated": [names],
                   "mutants": {"c05h": HINTS, "c18g": HINTS, "pre87eadd9": HINTS}}
  op "hints.signature": {"obj": OBJ, "env": ENV, "callers": [module, ...] (optional)}
        → SIG + {"wf": b, "param_annotations": [[name, PANN], ...] | null, "bind_annotations": [[name, PANN], ...] | null,
                 "bind_targets": [TARGETS per caller], TARGETS = {"targets": [[name, HINT | null], ...]} | {"err": "NameError"|"TypeError"|"signature"},
                 "mutants": {"c15h": SIG, "c10g": [[name, PANN], ...] | null, "pre87eadd9": SIG, "pre629e6a2": SIG,
                             "preF5b21b1": [TARGETS per caller]}}
  op "hints.seq":       {"env": ENV, "objs": [OBJ, ...]}      -- a sequence of `signature` calls in one process
        → {"seq": [SIG, ...], "c12h": [SIG, ...]}
  Not part of any theorem.
-/
import TypelibModel.Drv.Core
import TypelibModel.Model.Hints
open Lean
namespace Typelib.Drv
namespace HintsDrv
open Typelib.Hints

partial def hintOfJson (j : Json) : Except String Hint :=
  match j with
  | .arr #[.str "ty", n] => do pure (.ty (← jNat n))
  | .arr #[.str "any"] => pure .any
  | .arr #[.str "kwOnly"] => pure .kwOnly
  | .arr #[.str "classVar", h] => do pure (.classVar (← hintOfJson h))
  | .arr #[.str "fwd", .str t, .str m] => pure (.fwd (S t) (S m))
  | _ => .error s!"hint: {j}"

def boundOfJson (j : Json) : Except String Bound :=
  match j with
  | .arr #[.str "invalid"] => pure .invalid
  | _ => do pure (.val (← hintOfJson j))

partial def annOfJson (j : Json) : Except String AnnExpr :=
  match j with
  | .arr #[.str "name", .str s] => pure (.name (S s))
  | .arr #[.str "classVar", e] => do pure (.classVar (← annOfJson e))
  | .arr #[.str "obj", h] => do pure (.obj (← hintOfJson h))
  | .arr #[.str "ref", .str s, .str m] => pure (.ref (S s) (S m))
  | _ => .error s!"annotation: {j}"

def jDict {α : Type} (f : Json → Except String α) (j : Json) : Except String (Dict α) :=
  match j with
  | .arr a => a.toList.mapM fun e =>
    match e with
    | .arr #[.str n, v] => do pure (S n, (← f v))
    | _ => .error s!"not a [name, value] pair: {e}"
  | _ => .error s!"not a list of pairs: {j}"

def jStrs (j : Json) : Except String (List Str) :=
  match j with
  | .arr a => a.toList.mapM jStr
  | _ => .error s!"not a list of strings: {j}"

def pkindOf : String → Except String PKind
  | "posOnly" => pure .posOnly | "posOrKw" => pure .posOrKw | "varPos" => pure .varPos
  | "kwOnly" => pure .kwOnly | "varKw" => pure .varKw
  | s => .error s!"parameter kind {s}"

def pannOfJson (j : Json) : Except String PAnn :=
  match j with
  | .arr #[.str "missing"] => pure .missing
  | .arr #[.str "text", .str s] => pure (.text (S s))
  | .arr #[.str "obj", h] => do pure (.obj (← hintOfJson h))
  | _ => .error s!"parameter annotation: {j}"

def pdefaultOf : String → Except String PDefault
  | "none" => pure .none | "ellipsis" => pure .ellipsis | "value" => pure .value
  | s => .error s!"default {s}"

def paramOfJson (j : Json) : Except String Param := do
  pure { name := S (← j.getObjValAs? String "name"), kind := (← pkindOf (← j.getObjValAs? String "kind")),
         ann := (← pannOfJson (← j.getObjVal? "ann")), dflt := (← pdefaultOf (← j.getObjValAs? String "dflt")) }

def paramsOfJson (j : Json) : Except String (List Param) :=
  match j with
  | .arr a => a.toList.mapM paramOfJson
  | _ => .error s!"not a parameter list: {j}"

def optParams (j : Json) (key : String) : Except String (Option (List Param)) :=
  match j.getObjVal? key with
  | .ok .null => pure none
  | .ok p => do pure (some (← paramsOfJson p))
  | .error _ => pure none

def entryOfJson (j : Json) : Except String ClassEntry := do
  pure { id := (← j.getObjValAs? Nat "id"), module := S (← j.getObjValAs? String "module"),
         ns := (← jDict boundOfJson (← j.getObjVal? "ns")), anns := (← jDict annOfJson (← j.getObjVal? "anns")),
         ctor := (← optParams j "ctor") }

def kindOfJson (j : Json) : Except String Kind :=
  match j with
  | .arr #[.str "plain"] => pure .plain
  | .arr #[.str "dataclass"] => pure .dataclass
  | .arr #[.str "typedDict", .bool t, .null, attrs] => do pure (.typedDict t none (← jStrs attrs))
  | .arr #[.str "typedDict", .bool t, req, attrs] => do pure (.typedDict t (some (← jStrs req)) (← jStrs attrs))
  | .arr #[.str "namedTuple"] => pure .namedTuple
  | .arr #[.str "tupleSub"] => pure .tupleSub
  | _ => .error s!"class kind: {j}"

def classOfJson (j : Json) : Except String ClassDesc := do
  let mro ← match j.getObjVal? "mro" with
    | .ok (.arr a) => a.toList.mapM entryOfJson
    | _ => .error "class.mro"
  pure { kind := (← kindOfJson (← j.getObjVal? "kind")), mro := mro, fallback := (← optParams j "fallback") }

def objOfJson (j : Json) : Except String Obj :=
  match j.getObjVal? "cls", j.getObjVal? "func", j.getObjVal? "inst", j.getObjVal? "tupleAlias" with
  | .ok c, _, _, _ => do pure (.cls (← classOfJson c))
  | _, .ok f, _, _ => do
    pure (.func { module := S (← f.getObjValAs? String "module"), anns := (← jDict annOfJson (← f.getObjVal? "anns")),
                  params := (← paramsOfJson (← f.getObjVal? "params")) })
  | _, _, .ok c, _ => do pure (.inst (← classOfJson c) (← optParams j "call"))
  | _, _, _, .ok t => do
    let args ← match t.getObjVal? "args" with
      | .ok (.arr a) => a.toList.mapM hintOfJson
      | _ => .error "tupleAlias.args"
    pure (.tupleAlias (S (← t.getObjValAs? String "module")) args (← t.getObjValAs? Bool "variadic"))
  | _, _, _, _ => .error s!"object: {j}"

def envOfJson (j : Json) : Except String Hints.Env := do
  let mods ← match j.getObjVal? "mods" with
    | .ok (.arr a) => a.toList.mapM fun e =>
      match e with
      | .arr #[.str m, d] => do pure (S m, (← jDict boundOfJson d))
      | _ => .error s!"env.mods entry: {e}"
    | _ => .error "env.mods"
  pure { mods := mods, builtins := (← jDict boundOfJson (← j.getObjVal? "builtins")) }

partial def hintToJsonList : Hint → List Json
  | .ty n => [.str "ty", toJson n]
  | .any => [.str "any"]
  | .kwOnly => [.str "kwOnly"]
  | .classVar h => [.str "classVar", .arr (hintToJsonList h).toArray]
  | .fwd t m => [.str "fwd", .str (U t), .str (U m)]

def hintToJson (h : Hint) : Json := .arr (hintToJsonList h).toArray

def hintRow (p : Str × Hint) : Json := .arr (Json.str (U p.1) :: hintToJsonList p.2).toArray

def failName : Fail → String
  | .recursion => "RecursionError" | .valueError => "ValueError" | .typeError => "TypeError"

def terrName : TErr → String
  | .nameError => "NameError" | .typeError => "TypeError"

def hintsFields (r : Except Fail (Dict Hint)) : List (String × Json) :=
  match r with
  | .ok h => [("hints", .arr (h.map hintRow).toArray)]
  | .error e => [("err", .str (failName e))]

def pannToJson : PAnn → Json
  | .missing => .arr #[.str "missing"]
  | .text s => .arr #[.str "text", .str (U s)]
  | .obj h => .arr #[.str "obj", hintToJson h]

def pkindName : PKind → String
  | .posOnly => "posOnly" | .posOrKw => "posOrKw" | .varPos => "varPos" | .kwOnly => "kwOnly" | .varKw => "varKw"

def pdefaultName : PDefault → String
  | .none => "none" | .ellipsis => "ellipsis" | .value => "value"

def paramToJson (p : Param) : Json :=
  Json.mkObj [("name", .str (U p.name)), ("kind", .str (pkindName p.kind)), ("ann", pannToJson p.ann),
              ("dflt", .str (pdefaultName p.dflt))]

def sigFields (r : Except Fail (List Param)) : List (String × Json) :=
  match r with
  | .ok ps => [("params", .arr (ps.map paramToJson).toArray)]
  | .error e => [("err", .str (failName e))]

def pannsToJson (r : Except Fail (Dict PAnn)) : Json :=
  match r with
  | .ok ps => .arr (ps.map fun p => Json.arr #[.str (U p.1), pannToJson p.2]).toArray
  | .error _ => .null

def targetsToJson (r : Except BErr (Dict (Option Hint))) : Json :=
  match r with
  | .ok d => Json.mkObj [("targets", .arr (d.map fun p => Json.arr #[.str (U p.1), match p.2 with
      | some h => hintToJson h
      | none => .null]).toArray)]
  | .error (.sig _) => Json.mkObj [("err", .str "signature")]
  | .error (.eval e) => Json.mkObj [("err", .str (terrName e))]

end HintsDrv
open Typelib.Hints HintsDrv

def handleHints (st : St) (op : String) (j : Json) : Option (Except String (St × Json)) :=
  match op with
  | "hints.get" => some do
    let o ← objOfJson (← j.getObjVal? "obj")
    let env ← HintsDrv.envOfJson (← j.getObjVal? "env")
    let exh ← j.getObjValAs? Bool "exhaustive"
    let typing := match typingGetTypeHints env o with
      | .ok h => Json.mkObj [("hints", .arr (h.map hintRow).toArray)]
      | .error e => Json.mkObj [("err", .str (terrName e))]
    pure (st, Json.mkObj (hintsFields (getTypeHints env o exh) ++
      [("wf", .bool (wf o)), ("typing", typing),
       ("annotated", .arr ((annotatedNames o).map fun s => Json.str (U s)).toArray),
       ("mutants", Json.mkObj [("c05h", Json.mkObj (hintsFields (getTypeHintsC05h env o exh))),
                               ("c18g", Json.mkObj (hintsFields (getTypeHintsC18g env o exh))),
                               ("pre87eadd9", Json.mkObj (hintsFields (getTypeHintsPre87eadd9 env o exh)))])]))
  | "hints.signature" => some do
    let o ← objOfJson (← j.getObjVal? "obj")
    let env ← HintsDrv.envOfJson (← j.getObjVal? "env")
    let callers ← match j.getObjVal? "callers" with
      | .ok c => jStrs c
      | .error _ => pure []
    pure (st, Json.mkObj (sigFields (signatureOf env o) ++
      [("wf", .bool (wf o)), ("param_annotations", pannsToJson (paramAnnotations env o)),
       ("bind_annotations", pannsToJson (bindAnnotations env o)),
       ("bind_targets", .arr (callers.map fun c => targetsToJson (bindTargets env c o)).toArray),
       ("mutants", Json.mkObj [("c15h", Json.mkObj (sigFields (signatureOfC15h env o))),
                               ("c10g", pannsToJson (paramAnnotationsC10g env o)),
                               ("pre87eadd9", Json.mkObj (sigFields (signatureOfPre87eadd9 env o))),
                               ("pre629e6a2", Json.mkObj (sigFields (signatureOfPre629e6a2 env o))),
                               ("preF5b21b1", .arr (callers.map fun c => targetsToJson (bindTargetsPreF5b21b1 env c o)).toArray)])]))
  | "hints.seq" => some do
    let env ← HintsDrv.envOfJson (← j.getObjVal? "env")
    let os ← match j.getObjVal? "objs" with
      | .ok (.arr a) => a.toList.mapM objOfJson
      | _ => .error "hints.seq: objs"
    let show_ (rs : List (Except Fail (List Param))) : Json := .arr (rs.map fun r => Json.mkObj (sigFields r)).toArray
    pure (st, Json.mkObj [("seq", show_ (runSeq (realSigStep env) [] os)), ("c12h", show_ (runSeq (c12hStep env) [] os))])
  | _ => none

end Typelib.Drv
