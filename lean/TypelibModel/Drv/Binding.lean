/-
  Driver operations of the Binding model (C10).

  op "binding.apply":
    {"op": "binding.apply",
     "sig": {"po": [names], "pk": [names], "va": name|null, "ko": [names], "vk": name|null, "unann": [names]},
     "args": [strings], "kwargs": [[name, string], …],
     "cls": "PosKwdBinding"            -- optional; default: the class the regenerated matrix selects
    }
  answers
    {"cls": class used, "row": [5 bools], "accepted": bool,
     "out": {"args": [[obs, value], …], "kwargs": [[name, obs, value], …]}  |  "out": "raise",
     "expected": {"args": …, "kwargs": …}}
  where obs = index of the parameter (declaration order) whose routine converted the argument,
  "varpos" / "varkwd" for the `*args` / `**kwargs` routine, null for untouched (not converted, or converted by
  the no-op routine of an unannotated parameter), "key" for the `else k` slip (value := keyword name).
  A class name the model does not know answers {"err": "unsupported"}.
-/
import TypelibModel.Drv.Core
import TypelibModel.Model.Binding
import TypelibModel.Gen.BindingMatrix
open Lean
namespace Typelib.Drv
open Typelib.Binding
namespace BindingOps

def jNames (j : Json) : Except String (List Str) :=
  match j with
  | .arr a => a.toList.mapM jStr
  | _ => .error s!"not a list of names: {j}"

def jOptName (j : Except String Json) : Except String (Option Str) :=
  match j with
  | .ok (.str s) => .ok (some (S s))
  | .ok .null => .ok none
  | .error _ => .ok none
  | .ok j => .error s!"not a name or null: {j}"

def jNamesOr (j : Except String Json) : Except String (List Str) :=
  match j with
  | .ok v => jNames v
  | .error _ => .ok []

def sigOfJson (j : Json) : Except String Sig := do
  let po ← jNamesOr (j.getObjVal? "po")
  let pk ← jNamesOr (j.getObjVal? "pk")
  let va ← jOptName (j.getObjVal? "va")
  let ko ← jNamesOr (j.getObjVal? "ko")
  let vk ← jOptName (j.getObjVal? "vk")
  let unann ← jNamesOr (j.getObjVal? "unann")
  pure { po := po, pk := pk, va := va, ko := ko, vk := vk, unann := unann }

def callOfJson (j : Json) : Except String (Call String) := do
  let args ← match j.getObjVal? "args" with
    | .ok (.arr a) => a.toList.mapM fun x => match x with
      | .str s => .ok s
      | _ => .error "positional argument must be a string"
    | _ => .error "args"
  let kwargs ← match j.getObjVal? "kwargs" with
    | .ok (.arr a) => a.toList.mapM fun x => match x with
      | .arr #[.str k, .str v] => .ok (S k, v)
      | _ => .error "keyword argument must be [name, string]"
    | _ => .error "kwargs"
  pure { args := args, kwargs := kwargs }

def refToJson (s : Sig) (p : Str) : Json :=
  if s.va = some p then .str "varpos"
  else if s.vk = some p then .str "varkwd"
  else match s.names.idxOf? p with
    | some i => jN i
    | none => .str s!"?{U p}"

def obsToJson (s : Sig) : Obs → Json
  | .by p => refToJson s p
  | .untouched => .null
  | .key => .str "key"

def cellValue : Cell String → String
  | .conv _ v => v
  | .raw v => v
  | .key k => U k

def outToJson (s : Sig) (o : Out String) : Json :=
  Json.mkObj [
    ("args", .arr (o.args.map fun c => Json.arr #[obsToJson s (observe s c), .str (cellValue c)]).toArray),
    ("kwargs", .arr (o.kwargs.map fun e =>
      Json.arr #[.str (U e.1), obsToJson s (observe s e.2), .str (cellValue e.2)]).toArray)]

def rowToJson (r : Row) : Json :=
  .arr #[.bool r.1, .bool r.2.1, .bool r.2.2.1, .bool r.2.2.2.1, .bool r.2.2.2.2]

/-- The class name the table has for a key (also when the model does not know the class). -/
def selectName : Matrix → Row → Option String
  | [], _ => none
  | e :: es, r => if rowKey e = r then some e.2.2.2.2.2 else selectName es r

end BindingOps
open BindingOps

def handleBinding (st : St) (op : String) (j : Json) : Option (Except String (St × Json)) :=
  match op with
  | "binding.apply" => some do
    let s ← sigOfJson (← j.getObjVal? "sig")
    let c ← callOfJson j
    let row := truth s
    let clsName : Option String := match j.getObjValAs? String "cls" with
      | .ok n => some n
      | .error _ => selectName Typelib.Gen.bindingMatrix row
    match clsName with
    | none => pure (st, Json.mkObj [("err", .str "unsupported"), ("why", .str "no row for this key")])
    | some n =>
      match classOfName n with
      | none => pure (st, Json.mkObj [("err", .str "unsupported"), ("cls", .str n)])
      | some b =>
        let out : Json := match b.apply (layout s) c with
          | some o => outToJson s o
          | none => .str "raise"
        pure (st, Json.mkObj [
          ("cls", .str b.name), ("row", rowToJson row), ("accepted", .bool (accepted s c)),
          ("wf", .bool s.wf), ("out", out), ("expected", outToJson s (expected s c))])
  | _ => none

end Typelib.Drv
