/-
  JSON encoding of model values / annotations / class environments for the line protocol between
  the Python harness and the Lean driver.  Not part of any theorem; mirrored by harness/enc.py.
-/
import Lean.Data.Json
import TypelibModel.Model.Basic
open Lean
namespace Typelib.Drv

def S (s : String) : Str := s.toList
def U (s : Str) : String := String.ofList s

def carrierOfString : String → Except String Carrier
  | "bytes" => .ok .bytes
  | "bytearray" => .ok .bytearray
  | "mview" => .ok .mview
  | "mviewW" => .ok .mviewW
  | s => .error s!"carrier {s}"

def carrierToString : Carrier → String
  | .bytes => "bytes" | .bytearray => "bytearray" | .mview => "mview" | .mviewW => "mviewW"

def jInt (j : Json) : Except String Int :=
  match j with
  | .num n => if n.exponent == 0 then .ok n.mantissa else .error s!"not an integer: {j}"
  | _ => .error s!"not an integer: {j}"

def jNat (j : Json) : Except String Nat := do
  let i ← jInt j
  if i < 0 then .error "negative" else pure i.toNat

def jStr (j : Json) : Except String Str :=
  match j with
  | .str s => .ok (S s)
  | _ => .error s!"not a string: {j}"

partial def valOfJson (j : Json) : Except String Val :=
  match j with
  | .null => .ok .none
  | .bool b => .ok (.bool b)
  | .num _ => do pure (.int (← jInt j))
  | .str s => .ok (.str (S s))
  | .arr a =>
    match a.toList with
    | [.str "f", .str r] => .ok (.float (S r))
    | [.str "b", .str c, .str s] => do pure (.text (← carrierOfString c) (S s))
    | [.str "l", .arr xs] => do pure (.list (← xs.toList.mapM valOfJson))
    | [.str "t", .arr xs] => do pure (.tuple (← xs.toList.mapM valOfJson))
    | [.str "s", .arr xs] => do pure (.set (← xs.toList.mapM valOfJson))
    | [.str "fs", .arr xs] => do pure (.frozenset (← xs.toList.mapM valOfJson))
    | [.str "dq", .arr xs] => do pure (.deque (← xs.toList.mapM valOfJson))
    | [.str "it", .arr xs] => do pure (.iter (← xs.toList.mapM valOfJson))
    | [.str "d", .arr kvs] => do
      let ps ← kvs.toList.mapM fun kv =>
        match kv with
        | .arr #[k, v] => do pure ((← valOfJson k), (← valOfJson v))
        | _ => .error "dict entry"
      pure (.dict ps)
    | [.str "dec", .str s] => .ok (.dec (S s))
    | [.str "frac", n, d] => do pure (.frac (← jInt n) (← jNat d))
    | [.str "uuid", n] => do pure (.uuid (← jNat n))
    | [.str "path", .str s] => .ok (.path (S s))
    | [.str "pat", .str s] => .ok (.pattern (S s))
    | [.str "date", o] => do pure (.date (← jInt o))
    | [.str "dt", us, off] => do pure (.datetime (← jInt us) (← jInt off))
    | [.str "tm", us, .null] => do pure (.time (← jNat us) none)
    | [.str "tm", us, off] => do pure (.time (← jNat us) (some (← jInt off)))
    | [.str "td", us] => do pure (.timedelta (← jInt us))
    | [.str "m", c, i] => do pure (.member (← jNat c) (← jNat i))
    | [.str "o", c, .arr fs] => do
      let ps ← fs.toList.mapM fun kv =>
        match kv with
        | .arr #[.str k, v] => do pure (S k, (← valOfJson v))
        | _ => .error "inst field"
      pure (.inst (← jNat c) ps)
    | [.str "x", .str t] => .ok (.opaque (S t))
    | _ => .error s!"bad value {j}"
  | _ => .error s!"bad value {j}"

def jI (i : Int) : Json := .num ⟨i, 0⟩
def jN (n : Nat) : Json := .num ⟨n, 0⟩

partial def valToJson : Val → Json
  | .none => .null
  | .bool b => .bool b
  | .int i => jI i
  | .float r => .arr #[.str "f", .str (U r)]
  | .str s => .str (U s)
  | .text c s => .arr #[.str "b", .str (carrierToString c), .str (U s)]
  | .list xs => .arr #[.str "l", .arr (xs.map valToJson).toArray]
  | .tuple xs => .arr #[.str "t", .arr (xs.map valToJson).toArray]
  | .set xs => .arr #[.str "s", .arr (xs.map valToJson).toArray]
  | .frozenset xs => .arr #[.str "fs", .arr (xs.map valToJson).toArray]
  | .deque xs => .arr #[.str "dq", .arr (xs.map valToJson).toArray]
  | .iter xs => .arr #[.str "it", .arr (xs.map valToJson).toArray]
  | .dict kvs => .arr #[.str "d", .arr (kvs.map fun p => Json.arr #[valToJson p.1, valToJson p.2]).toArray]
  | .dec s => .arr #[.str "dec", .str (U s)]
  | .frac n d => .arr #[.str "frac", jI n, jN d]
  | .uuid n => .arr #[.str "uuid", jN n]
  | .path s => .arr #[.str "path", .str (U s)]
  | .pattern s => .arr #[.str "pat", .str (U s)]
  | .date o => .arr #[.str "date", jI o]
  | .datetime us off => .arr #[.str "dt", jI us, jI off]
  | .time us off => .arr #[.str "tm", jN us, match off with | some o => jI o | none => .null]
  | .timedelta us => .arr #[.str "td", jI us]
  | .member c i => .arr #[.str "m", jN c, jN i]
  | .inst c fs => .arr #[.str "o", jN c, .arr (fs.map fun p => Json.arr #[.str (U p.1), valToJson p.2]).toArray]
  | .opaque t => .arr #[.str "x", .str (U t)]

def scalarOfString : String → Except String Scalar
  | "int" => .ok .int | "bool" => .ok .bool | "float" => .ok .float | "str" => .ok .str
  | "decimal" => .ok .decimal | "fraction" => .ok .fraction | "uuid" => .ok .uuid
  | "path" => .ok .path | "pattern" => .ok .pattern | "date" => .ok .date
  | "datetime" => .ok .datetime | "time" => .ok .time | "timedelta" => .ok .timedelta
  | "bytes" => .ok .bytes
  | s => .error s!"scalar {s}"

def collOfString : String → Except String Coll
  | "list" => .ok .list | "set" => .ok .set | "frozenset" => .ok .frozenset
  | "deque" => .ok .deque | "vartuple" => .ok .vartuple
  | s => .error s!"coll {s}"

def wrapperOfString : String → Except String Wrapper
  | "newtype" => .ok .newtype | "alias" => .ok .alias | "final" => .ok .final
  | "classvar" => .ok .classvar
  | s => .error s!"wrapper {s}"

partial def tyOfJson (j : Json) : Except String Ty :=
  match j with
  | .arr a =>
    match a.toList with
    | [.str "none"] => .ok .none
    | [.str "any"] => .ok .any
    | [.str "enum", c] => do pure (.enum (← jNat c))
    | [.str "cls", c] => do pure (.cls (← jNat c))
    | [.str "lit", .arr vs] => do pure (.literal (← vs.toList.mapM valOfJson))
    | [.str "coll", .str k, e] => do pure (.coll (← collOfString k) (← tyOfJson e))
    | [.str "tuple", .arr es] => do pure (.tuple (← es.toList.mapM tyOfJson))
    | [.str "dict", k, v] => do pure (.dict (← tyOfJson k) (← tyOfJson v))
    | [.str "union", .arr ms] => do pure (.union (← ms.toList.mapM tyOfJson))
    | [.str "wrap", .str w, t] => do pure (.wrap (← wrapperOfString w) (← tyOfJson t))
    | [.str s] => do pure (.scalar (← scalarOfString s))
    | _ => .error s!"bad type {j}"
  | _ => .error s!"bad type {j}"

def flavourOfString : String → Except String Flavour
  | "dataclass" => .ok .dataclass | "namedtuple" => .ok .namedtuple | "typeddict" => .ok .typeddict
  | "plain" => .ok .plain | "slots" => .ok .slots
  | s => .error s!"flavour {s}"

def mixinOfString : String → Except String Mixin
  | "none" => .ok .none | "int" => .ok .int | "str" => .ok .str
  | s => .error s!"mixin {s}"

def classOfJson (j : Json) : Except String ClassInfo := do
  let fl ← (j.getObjValAs? String "flavour") >>= flavourOfString
  let mx ← (j.getObjValAs? String "mixin") >>= mixinOfString
  let fields ← match j.getObjVal? "fields" with
    | .ok (.arr fs) => fs.toList.mapM fun f =>
      match f with
      | .arr #[.str k, t] => do pure (S k, (← tyOfJson t))
      | _ => .error "field"
    | _ => .error "fields"
  let required ← match j.getObjVal? "required" with
    | .ok (.arr rs) => rs.toList.mapM jStr
    | _ => .error "required"
  let defaults ← match j.getObjVal? "defaults" with
    | .ok (.arr ds) => ds.toList.mapM fun f =>
      match f with
      | .arr #[.str k, v] => do pure (S k, (← valOfJson v))
      | _ => .error "default"
    | _ => .error "defaults"
  let members ← match j.getObjVal? "members" with
    | .ok (.arr ms) => ms.toList.mapM fun f =>
      match f with
      | .arr #[.str k, v] => do pure (S k, (← valOfJson v))
      | _ => .error "member"
    | _ => .error "members"
  pure { flavour := fl, fields := fields, required := required, defaults := defaults,
         members := members, mixin := mx }

def envOfJson (j : Json) : Except String Env :=
  match j with
  | .arr cs => cs.toList.mapM classOfJson
  | _ => .error "env"

def errToString : Err → String
  | .value => "value" | .type => "type" | .key => "key" | .attribute => "attribute"
  | .syntax => "syntax" | .arithmetic => "arithmetic" | .overflow => "overflow"
  | .stopIteration => "stopIteration" | .zeroDivision => "zeroDivision"
  | .recursion => "recursion" | .other => "other" | .unsupported => "unsupported" | .fuel => "fuel"

def resToJson : R Val → Json
  | .ok v => Json.mkObj [("ok", valToJson v)]
  | .error e => Json.mkObj [("err", .str (errToString e))]

end Typelib.Drv
