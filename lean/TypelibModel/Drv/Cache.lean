/-
  Driver operations of the Cache model (property C12).  Not part of any theorem.

    cache.run    {"sites":[site…], "ops":[op…]}
                 → {"cached":[out…], "cold":[out…],      -- outputs of runCached / runCold
                    "good":bool,                         -- every declared site congruent and fresh-or-immutable
                    "aliased":bool,                      -- aliasedKeys over all sites (the unionOrderKey predicate)
                    "freshOrImmutableCalls":bool}        -- callsFreshOrImmutable
    cache.sites  {} → [{"name":…, "congruent":b, "shared":b, "mutable":b, "public":b, "good":b}, …]
                                                         -- the declared classification of the real sites

  site = {"shared":b, "mutable":b, "forgets":b, "uses":b}      (Model/Cache.lean `AbsSite`)
  op   = ["call", site#, class, variant] | ["mutate", i] | ["read", i] | ["clear"]
  out  = null | [n, …]                                          (a value is a list of numbers)
-/
import TypelibModel.Drv.Core
import TypelibModel.Model.Cache
open Lean
namespace Typelib.Drv.CacheOps
open Typelib.Cache Typelib.Drv

def jBoolField (j : Json) (k : String) : Except String Bool :=
  match j.getObjVal? k with
  | .ok (.bool b) => .ok b
  | _ => .error s!"field {k}: not a bool"

def siteOfJson (j : Json) : Except String AbsSite := do
  pure { shared := (← jBoolField j "shared"), mutable := (← jBoolField j "mutable"),
         keyForgets := (← jBoolField j "forgets"), pureUsesVariant := (← jBoolField j "uses") }

def opOfJson (j : Json) : Except String AOp :=
  match j with
  | .arr a =>
    match a.toList with
    | [.str "call", s, c, v] => do pure (.call (← jNat s) ((← jNat c), (← jNat v)))
    | [.str "mutate", i] => do pure (.mutate (← jNat i))
    | [.str "read", i] => do pure (.read (← jNat i))
    | [.str "clear"] => pure .clear
    | _ => .error s!"bad cache op {j}"
  | _ => .error s!"bad cache op {j}"

def outToJson : Out AVal → Json
  | .unit => .null
  | .value v => .arr (v.map jN).toArray

def siteClassToJson (s : RealSite) : Json :=
  let c := classify s
  Json.mkObj [("name", .str s.name), ("congruent", .bool c.congruent), ("shared", .bool c.returnsShared),
              ("mutable", .bool c.resultMutable), ("public", .bool c.«public»), ("good", .bool c.good)]

end Typelib.Drv.CacheOps

namespace Typelib.Drv
open Typelib.Cache Typelib.Drv.CacheOps

def handleCache (st : St) (op : String) (j : Json) : Option (Except String (St × Json)) :=
  match op with
  | "cache.run" => some do
    let sitesJ ← j.getObjValAs? (Array Json) "sites"
    let sites ← sitesJ.toList.mapM siteOfJson
    let opsJ ← j.getObjValAs? (Array Json) "ops"
    let ops ← opsJ.toList.mapM opOfJson
    let M := absMachine sites
    pure (st, Json.mkObj [
      ("cached", .arr ((runCached M ops).2.map outToJson).toArray),
      ("cold", .arr ((runCold M ops).2.map outToJson).toArray),
      ("good", .bool (sites.all AbsSite.good)),
      ("aliased", .bool (aliasedKeys M (fun _ => true) ops)),
      ("freshOrImmutableCalls", .bool (callsFreshOrImmutable M ops))])
  | "cache.sites" => some do
    pure (st, .arr (RealSite.all.map siteClassToJson).toArray)
  | _ => none

end Typelib.Drv
