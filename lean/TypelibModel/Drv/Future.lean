/-
  Driver operations of the Future model (C20).

  "future.transform": {"tree": T} → {"ok": T', "noPipe": bool, "noConstructs": bool, "annot": bool}
     T' = tree of `transform Gen.futureGenerics T`.
  "future.spec": {} → the constants the harness mirrors (union name, typing alias table, live table).

  Tree encoding (mirrored by harness/props/c20.py `enc_tree`):
    ["N", id]  ["A", value, attr]  ["S", value, slice]  ["T", [elts]]  ["L", [elts]]
    ["B", op, left, right]  ["U", op, operand]
    ["C", "s", str] | ["C", "i", decimal] | ["C", "n"] | ["C", "e"] | ["C", "b", bool] | ["C", "o", repr]
    ["K", func, [args], [keywords]]  ["O", tag, [children]]
-/
import TypelibModel.Drv.Core
import TypelibModel.Model.Future
import TypelibModel.Gen.Future
open Lean
namespace Typelib.Drv
open Typelib.Future

def futOpOfString : String → Except String Op
  | "Add" => .ok .add | "Sub" => .ok .sub | "Mult" => .ok .mult | "MatMult" => .ok .matmult
  | "Div" => .ok .div | "Mod" => .ok .mod | "Pow" => .ok .pow | "LShift" => .ok .lshift
  | "RShift" => .ok .rshift | "BitOr" => .ok .bitor | "BitXor" => .ok .bitxor | "BitAnd" => .ok .bitand
  | "FloorDiv" => .ok .floordiv
  | s => .error s!"operator {s}"

def futOpToString : Op → String
  | .add => "Add" | .sub => "Sub" | .mult => "Mult" | .matmult => "MatMult" | .div => "Div" | .mod => "Mod"
  | .pow => "Pow" | .lshift => "LShift" | .rshift => "RShift" | .bitor => "BitOr" | .bitxor => "BitXor"
  | .bitand => "BitAnd" | .floordiv => "FloorDiv"

def futUOpOfString : String → Except String UOp
  | "Invert" => .ok .invert | "Not" => .ok .not | "UAdd" => .ok .uadd | "USub" => .ok .usub
  | s => .error s!"unary operator {s}"

def futUOpToString : UOp → String
  | .invert => "Invert" | .not => "Not" | .uadd => "UAdd" | .usub => "USub"

partial def futExprOfJson (j : Json) : Except String Expr :=
  match j with
  | .arr a =>
    match a.toList with
    | [.str "N", .str id] => .ok (.name (S id))
    | [.str "A", v, .str attr] => do pure (.attribute (← futExprOfJson v) (S attr))
    | [.str "S", v, s] => do pure (.subscript (← futExprOfJson v) (← futExprOfJson s))
    | [.str "T", .arr es] => do pure (.tuple (← es.toList.mapM futExprOfJson))
    | [.str "L", .arr es] => do pure (.list (← es.toList.mapM futExprOfJson))
    | [.str "B", .str op, l, r] => do pure (.binop (← futOpOfString op) (← futExprOfJson l) (← futExprOfJson r))
    | [.str "U", .str op, e] => do pure (.unaryop (← futUOpOfString op) (← futExprOfJson e))
    | [.str "C", .str "s", .str s] => .ok (.constant (.str (S s)))
    | [.str "C", .str "i", .str d] =>
      match d.toInt? with
      | some i => .ok (.constant (.int i))
      | none => .error s!"bad int {d}"
    | [.str "C", .str "n"] => .ok (.constant .none)
    | [.str "C", .str "e"] => .ok (.constant .ellipsis)
    | [.str "C", .str "b", .bool b] => .ok (.constant (.bool b))
    | [.str "C", .str "o", .str r] => .ok (.constant (.other (S r)))
    | [.str "K", f, .arr as, .arr ks] => do
      pure (.call (← futExprOfJson f) (← as.toList.mapM futExprOfJson) (← ks.toList.mapM futExprOfJson))
    | [.str "O", .str tag, .arr cs] => do pure (.other (S tag) (← cs.toList.mapM futExprOfJson))
    | _ => .error s!"bad tree {j}"
  | _ => .error s!"bad tree {j}"

partial def futExprToJson : Expr → Json
  | .name id => .arr #[.str "N", .str (U id)]
  | .attribute v a => .arr #[.str "A", futExprToJson v, .str (U a)]
  | .subscript v s => .arr #[.str "S", futExprToJson v, futExprToJson s]
  | .tuple es => .arr #[.str "T", .arr (es.map futExprToJson).toArray]
  | .list es => .arr #[.str "L", .arr (es.map futExprToJson).toArray]
  | .binop op l r => .arr #[.str "B", .str (futOpToString op), futExprToJson l, futExprToJson r]
  | .unaryop op e => .arr #[.str "U", .str (futUOpToString op), futExprToJson e]
  | .constant (.str s) => .arr #[.str "C", .str "s", .str (U s)]
  | .constant (.int i) => .arr #[.str "C", .str "i", .str (toString i)]
  | .constant .none => .arr #[.str "C", .str "n"]
  | .constant .ellipsis => .arr #[.str "C", .str "e"]
  | .constant (.bool b) => .arr #[.str "C", .str "b", .bool b]
  | .constant (.other r) => .arr #[.str "C", .str "o", .str (U r)]
  | .call f as ks => .arr #[.str "K", futExprToJson f, .arr (as.map futExprToJson).toArray, .arr (ks.map futExprToJson).toArray]
  | .other tag cs => .arr #[.str "O", .str (U tag), .arr (cs.map futExprToJson).toArray]

def futLiveTable : Table := Typelib.Gen.futureGenerics.map (fun p => (p.1.toList, p.2.toList))

def futTableToJson (g : Table) : Json := .arr (g.map fun kv => Json.arr #[.str (U kv.1), .str (U kv.2)]).toArray

def handleFuture (st : St) (op : String) (j : Json) : Option (Except String (St × Json)) :=
  match op with
  | "future.transform" => some do
    let e ← futExprOfJson (← j.getObjVal? "tree")
    let t := transform futLiveTable e
    pure (st, Json.mkObj [("ok", futExprToJson t), ("noPipe", .bool (noPipe t)),
                          ("noConstructs", .bool (noConstructs futLiveTable e)), ("annot", .bool (annot e)),
                          ("wf", .bool (wf e))])
  | "future.spec" => some do
    pure (st, Json.mkObj [("union", .str (U unionName)), ("table", futTableToJson futLiveTable),
                          ("typingAlias", futTableToJson typingAlias)])
  | _ => none

end Typelib.Drv
