/-
  Driver operations for the core (serdes + routine semantics) model.
-/
import TypelibModel.Drv.Codec
import TypelibModel.Model.Leaf
import TypelibModel.Model.Denote
import TypelibModel.Model.JsonText
open Lean
namespace Typelib.Drv

structure St where
  env : Env := []
  fuel : Nat := 4000

def itemsToJson (r : R (List Item)) : Json :=
  match r with
  | .error e => Json.mkObj [("err", .str (errToString e))]
  | .ok items =>
    -- deliver items up to (and including) the first failing one, as a consumer would see them
    let rec go : List Item → List Json → Json
      | [], acc => Json.mkObj [("ok", .arr acc.reverse.toArray)]
      | (.ok (k, v)) :: rest, acc => go rest (Json.arr #[valToJson k, valToJson v] :: acc)
      | (.error e) :: _, acc => Json.mkObj [("ok", .arr acc.reverse.toArray), ("then_err", .str (errToString e))]
    go items []

def listToJson (r : R (List Val)) : Json :=
  match r with
  | .error e => Json.mkObj [("err", .str (errToString e))]
  | .ok xs => Json.mkObj [("ok", .arr (xs.map valToJson).toArray)]

def handleCore (st : St) (op : String) (j : Json) : Option (Except String (St × Json)) :=
  match op with
  | "env" => some do
    let env ← envOfJson (← j.getObjVal? "env")
    pure ({ st with env := env }, Json.mkObj [("ok", .bool true)])
  | "um" => some do
    let t ← tyOfJson (← j.getObjVal? "ty")
    let v ← valOfJson (← j.getObjVal? "val")
    pure (st, resToJson (um st.env (pyLeaves st.env) st.fuel t v))
  | "mar" => some do
    let t ← tyOfJson (← j.getObjVal? "ty")
    let v ← valOfJson (← j.getObjVal? "val")
    pure (st, resToJson (mar st.env (pyLeaves st.env) st.fuel t v))
  | "rt" => some do
    -- marshal then unmarshal
    let t ← tyOfJson (← j.getObjVal? "ty")
    let v ← valOfJson (← j.getObjVal? "val")
    let L := pyLeaves st.env
    match mar st.env L st.fuel t v with
    | .error e => pure (st, Json.mkObj [("mar", resToJson (.error e))])
    | .ok m => pure (st, Json.mkObj [("mar", resToJson (.ok m)), ("um", resToJson (um st.env L st.fuel t m))])
  | "iteritems" => some do
    let v ← valOfJson (← j.getObjVal? "val")
    pure (st, itemsToJson (iteritems st.env v))
  | "itervalues" => some do
    let v ← valOfJson (← j.getObjVal? "val")
    pure (st, listToJson (itervalues st.env v))
  | "strload" => some do
    let s ← j.getObjValAs? String "s"
    pure (st, resToJson (pySl (S s)))
  | "json.render" => some do
    -- the JSON printer of Model/JsonText.lean (both separator spellings), its domain predicate, and
    -- the modelled strload applied to the compact text (Lemmas/JsonRT.lean: `.ok val` whenever plain)
    let v ← valOfJson (← j.getObjVal? "val")
    pure (st, Json.mkObj [("text", .str (U (renderJson v))), ("text_sp", .str (U (renderJsonSp v))),
                          ("plain", .bool (plainWire v)), ("strload", resToJson (pySl (renderJson v))),
                          ("strload_sp", resToJson (pySl (renderJsonSp v)))])
  | "isoformat" => some do
    let v ← valOfJson (← j.getObjVal? "val")
    pure (st, resToJson (marTemporal v))
  | _ => none

end Typelib.Drv
