/-
  Driver operations of the TypeContext model (property C16).  Not part of any theorem.

    ctx.run     {"ops":[op…]}                      → {"concrete":[out…], "spec":[out…], "valid":bool}
    ctx.keyops  {"key":key}                        → {"unwrap":key, "fwd":key, "isRef":bool}
    ctx.enum    {"keys":[key…], "prefix":[op…], "depth":n}
                                                   → {"concrete":codes, "spec":codes|null (= same), "n":count}

  key  = ["base",b] | ["nt",b] | ["al",b] | ["sa",b] | ["final",b] | ["ref",arg,module]   (b = "int"|"str"|"Foo")
  op   = ["ins",key,v] | ["item",key] | ["get",key,default] | ["in",key]
  out  = null | {"ok":v} | {"err":"key"} | {"default":d} | true | false | {"err":"recursion"}

  `ctx.enum` walks, in depth-first pre-order, every admissible extension of `prefix` by 1..depth
  operations over `keys` (canonical order of the operations at a node: fresh insertions, `[]`,
  `get`, `in` of stored keys, each in the order of `keys`; the operation at position p (0-based)
  inserts the value p+1 / passes the default -(p+1)) and emits one character per node: the code of
  the output of the node's last operation (harness/props/c16.py walks the same tree on the real
  `TypeContext`).
-/
import TypelibModel.Drv.Core
import TypelibModel.Model.Ctx
open Lean
namespace Typelib.Drv.CtxDrv
open Typelib.TCtx Typelib.Drv

def baseOfString : String → Except String Base
  | "int" => .ok .int
  | "str" => .ok .str
  | "Foo" => .ok .foo
  | s => .error s!"base {s}"

def baseToString : Base → String
  | .int => "int" | .str => "str" | .foo => "Foo"

def baseCap : Base → String
  | .int => "Int" | .str => "Str" | .foo => "Foo"

def wrapSuffix : Wrap → String
  | .nt => "NT" | .al => "Al" | .sa => "SA"

def wrapTag : Wrap → String
  | .nt => "nt" | .al => "al" | .sa => "sa"

def nameToString : FArg → String
  | .base b => baseToString b
  | .wrapper b w => baseCap b ++ wrapSuffix w
  | .final => "Final"

def allNames : List FArg :=
  [FArg.final] ++ [Base.int, .str, .foo].flatMap fun b => [FArg.base b, .wrapper b .nt, .wrapper b .al, .wrapper b .sa]

def nameOfString (s : String) : Except String FArg :=
  match allNames.find? (fun n => nameToString n == s) with
  | some n => .ok n
  | none => .error s!"forward arg {s}"

def modToString : Mod → String
  | .builtins => "builtins" | .keys => "c16_keys" | .typing => "typing"

def modOfString : String → Except String Mod
  | "builtins" => .ok .builtins
  | "c16_keys" => .ok .keys
  | "typing" => .ok .typing
  | s => .error s!"module {s}"

def keyOfJson (j : Json) : Except String Key :=
  match j with
  | .arr a =>
    match a.toList with
    | [.str "base", .str b] => do pure (.base (← baseOfString b))
    | [.str "nt", .str b] => do pure (.named (← baseOfString b) .nt)
    | [.str "al", .str b] => do pure (.named (← baseOfString b) .al)
    | [.str "sa", .str b] => do pure (.named (← baseOfString b) .sa)
    | [.str "final", .str b] => do pure (.final (← baseOfString b))
    | [.str "ref", .str n, .str m] => do pure (.ref (← nameOfString n) (← modOfString m))
    | _ => .error s!"bad key {j}"
  | _ => .error s!"bad key {j}"

def keyToJson : Key → Json
  | .base b => .arr #[.str "base", .str (baseToString b)]
  | .named b w => .arr #[.str (wrapTag w), .str (baseToString b)]
  | .final b => .arr #[.str "final", .str (baseToString b)]
  | .ref n m => .arr #[.str "ref", .str (nameToString n), .str (modToString m)]

def ctxOpOfJson (j : Json) : Except String (Op Key Int) :=
  match j with
  | .arr a =>
    match a.toList with
    | [.str "ins", k, v] => do pure (.insert (← keyOfJson k) (← jInt v))
    | [.str "item", k] => do pure (.getitem (← keyOfJson k))
    | [.str "get", k, d] => do pure (.get (← keyOfJson k) (← jInt d))
    | [.str "in", k] => do pure (.contains (← keyOfJson k))
    | _ => .error s!"bad ctx op {j}"
  | _ => .error s!"bad ctx op {j}"

def outToJson : Out Int → Json
  | .unit => .null
  | .ok v => Json.mkObj [("ok", jI v)]
  | .keyError => Json.mkObj [("err", .str "key")]
  | .dflt d => Json.mkObj [("default", jI d)]
  | .bool b => .bool b
  | .recursionError => Json.mkObj [("err", .str "recursion")]

def outCode : Out Int → Char
  | .unit => 'U'
  | .ok v => if 0 ≤ v ∧ v ≤ 9 then Char.ofNat (48 + v.toNat) else '#'
  | .keyError => 'K'
  | .dflt _ => 'D'
  | .bool true => 'T'
  | .bool false => 'F'
  | .recursionError => 'R'

/-- The operations the enumeration tries at a node, in canonical order. -/
def enumOps (keys : List Key) (S : Spec Key Int) (pos : Nat) : List (Op Key Int) :=
  (keys.filter (fun k => !(mem S k))).map (fun k => Op.insert k (Int.ofNat (pos + 1)))
  ++ keys.map (fun k => Op.getitem k)
  ++ keys.map (fun k => Op.get k (-(Int.ofNat (pos + 1))))
  ++ (keys.filter (fun k => mem S k)).map (fun k => Op.contains k)

structure EnumAcc where
  conc : String := ""
  spec : String := ""
  n : Nat := 0

def enumWalk (keys : List Key) : Nat → Ctx Key Int → Spec Key Int → Nat → EnumAcc → EnumAcc
  | 0, _, _, _, acc => acc
  | d + 1, C, S, pos, acc =>
    (enumOps keys S pos).foldl (fun acc op =>
      let rc := stepC keyOps C op
      let rs := stepS keyOps S op
      let acc := { conc := acc.conc.push (outCode rc.2), spec := acc.spec.push (outCode rs.2), n := acc.n + 1 }
      enumWalk keys d rc.1 rs.1 (pos + 1) acc) acc

end Typelib.Drv.CtxDrv

namespace Typelib.Drv
open Typelib.TCtx Typelib.Drv.CtxDrv

def handleCtx (st : St) (op : String) (j : Json) : Option (Except String (St × Json)) :=
  match op with
  | "ctx.run" => some do
    let opsJ ← j.getObjValAs? (Array Json) "ops"
    let ops ← opsJ.toList.mapM ctxOpOfJson
    let rc := runC keyOps ([] : Ctx Key Int) ops
    let rs := runS keyOps ([] : Spec Key Int) ops
    pure (st, Json.mkObj [
      ("concrete", .arr (rc.2.map outToJson).toArray),
      ("spec", .arr (rs.2.map outToJson).toArray),
      ("valid", .bool (okOps keyOps ([] : Spec Key Int) ops))])
  | "ctx.keyops" => some do
    let k ← keyOfJson (← j.getObjVal? "key")
    pure (st, Json.mkObj [
      ("unwrap", keyToJson (keyOps.unwrap k)),
      ("fwd", keyToJson (keyOps.fwd k)),
      ("isRef", .bool (keyOps.isRef k))])
  | "ctx.enum" => some do
    let keysJ ← j.getObjValAs? (Array Json) "keys"
    let keys ← keysJ.toList.mapM keyOfJson
    let preJ ← j.getObjValAs? (Array Json) "prefix"
    let pre ← preJ.toList.mapM ctxOpOfJson
    let depth ← j.getObjValAs? Nat "depth"
    if !(okOps keyOps ([] : Spec Key Int) pre) then throw "ctx.enum: inadmissible prefix"
    let rc := runC keyOps ([] : Ctx Key Int) pre
    let rs := runS keyOps ([] : Spec Key Int) pre
    let acc := enumWalk keys depth rc.1 rs.1 pre.length {}
    pure (st, Json.mkObj [("concrete", .str acc.conc), ("spec", if acc.spec == acc.conc then .null else .str acc.spec), ("n", jN acc.n)])
  | _ => none

end Typelib.Drv
