/-
  Driver operations of the Inspect model (C17), over the linked `Gen.lattice`.

  "inspect.eval": {"ann": A} → {"model": {pred: answer}, "spec": {pred: answer}}
     answers: true | false | "raise" | annotation JSON | string | null (not modelled / outside the domain)
  "inspect.info": {} → {"bases": [names], "targets": n, "gtm": [[k, v]]}

  Annotation encoding (mirrored by harness/props/c17.py `enc`):
    ["b", name]  ["s", generic name, [args]]  ["u", "typing"|"pipe"|"optional", [members]]  ["l", hasNone]
    ["F", a] Final  ["C", a] ClassVar  ["N", a] NewType  ["A", a] TypeAliasType
    ["tb", bound]  ["tc", [constraints]]  ["tf"]  ["r", startsWithLiteral, hasBracket]
-/
import TypelibModel.Drv.Core
import TypelibModel.Model.Inspect
import TypelibModel.Gen.Lattice
open Lean
namespace Typelib.Drv.InspectOps
open Typelib Typelib.Inspect

def lat : Lattice := Typelib.Gen.lattice

def idOfName (n : String) : Except String Nat :=
  match lat.rows.findIdx? (fun r => r.name == n) with
  | some i => .ok i
  | none => .error s!"unknown base {n}"

def nameOfId (i : Nat) : String :=
  match lat.row i with
  | some r => r.name
  | none => s!"?{i}"

def uspOfString : String → Except String USp
  | "typing" => .ok .typing
  | "pipe" => .ok .pipe
  | "optional" => .ok .optional
  | s => .error s!"union spelling {s}"

def uspToString : USp → String
  | .typing => "typing" | .pipe => "pipe" | .optional => "optional"

partial def annOfJson (j : Json) : Except String Ann :=
  match j with
  | .arr a =>
    match a.toList with
    | [.str "b", .str n] => do pure (.base (← idOfName n))
    | [.str "s", .str g, .arr xs] => do pure (.sub (← idOfName g) (← xs.toList.mapM annOfJson))
    | [.str "u", .str sp, .arr xs] => do pure (.union (← uspOfString sp) (← xs.toList.mapM annOfJson))
    | [.str "l", .bool h] => .ok (.literal h)
    | [.str "F", x] => do pure (.final (← annOfJson x))
    | [.str "C", x] => do pure (.classvar (← annOfJson x))
    | [.str "N", x] => do pure (.newtype (← annOfJson x))
    | [.str "A", x] => do pure (.alias (← annOfJson x))
    | [.str "tb", x] => do pure (.tvarBound (← annOfJson x))
    | [.str "tc", .arr xs] => do pure (.tvarConstr (← xs.toList.mapM annOfJson))
    | [.str "tf"] => .ok .tvarFree
    | [.str "r", .bool l, .bool b] => .ok (.fref l b)
    | _ => .error s!"bad annotation {j}"
  | _ => .error s!"bad annotation {j}"

partial def annToJson : Ann → Json
  | .base i => .arr #[.str "b", .str (nameOfId i)]
  | .sub g xs => .arr #[.str "s", .str (nameOfId g), .arr (xs.map annToJson).toArray]
  | .union sp xs => .arr #[.str "u", .str (uspToString sp), .arr (xs.map annToJson).toArray]
  | .literal h => .arr #[.str "l", .bool h]
  | .final x => .arr #[.str "F", annToJson x]
  | .classvar x => .arr #[.str "C", annToJson x]
  | .newtype x => .arr #[.str "N", annToJson x]
  | .alias x => .arr #[.str "A", annToJson x]
  | .tvarBound x => .arr #[.str "tb", annToJson x]
  | .tvarConstr xs => .arr #[.str "tc", .arr (xs.map annToJson).toArray]
  | .tvarFree => .arr #[.str "tf"]
  | .fref l b => .arr #[.str "r", .bool l, .bool b]

def jOB : Option Bool → Json
  | some b => .bool b
  | none => .str "raise"

def jSpec : Option Bool → Json
  | some b => .bool b
  | none => .null

def jOA : Option Ann → Json
  | some a => annToJson a
  | none => .str "raise"

/-- `issubscriptedcollectiontype`: `iscollectiontype(obj) and issubscriptedgeneric(obj)`. -/
def subscriptedCollection (a : Ann) : Option Bool :=
  match iscollectiontypeM lat a with
  | none => none
  | some false => some false
  | some true => some (issubscriptedgenericM lat a)

def groupA : List (String × Target) :=
  [("isdatetype", .date), ("isdatetimetype", .datetime), ("istimetype", .time), ("istimedeltatype", .timedelta),
   ("isdecimaltype", .decimal), ("isfractiontype", .fraction), ("isuuidtype", .uuid),
   ("isiterabletype", .iterable), ("isiteratortype", .iterator)]

def groupB : List (String × Target) :=
  [("isenumtype", .enum), ("istexttype", .text), ("isstringtype", .str), ("isbytestype", .bytes),
   ("isnumbertype", .number), ("isintegertype", .int), ("isfloattype", .float), ("ispatterntype", .pattern),
   ("ispathtype", .purepath)]

def nameJson (a : Ann) : Json × Json :=
  match a with
  | .base i =>
    match lat.row i with
    | some r => (.str (String.ofList (nameRow r)), .str (String.ofList (qualnameRow r)))
    | none => (.null, .null)
  | _ => (.null, .null)

def modelAnswers (a : Ann) : Json :=
  let (nm, qn) := nameJson a
  Json.mkObj (
    [("origin", annToJson (originM lat a)), ("unwrap", jOA (unwrapM lat a)),
     ("resolve_supertype", annToJson (resolveSupertype a))]
    ++ groupA.map (fun p => (p.1, jOB (predA lat p.2 a)))
    ++ [("istupletype", jOB (istupletypeM lat a)), ("issequencetype", jOB (issequencetypeM lat a)),
        ("iscollectiontype", jOB (iscollectiontypeM lat a)), ("ismappingtype", jOB (ismappingtypeM lat a)),
        ("issubscriptedcollectiontype", jOB (subscriptedCollection a))]
    ++ groupB.map (fun p => (p.1, Json.bool (predB lat p.2 a)))
    ++ (if (resolveSupertype a).isBase then
          [("isbuiltinsubtype", jOB (isbuiltinsubtypeM lat a)), ("isstdlibsubtype", .bool (isstdlibsubtypeM lat a))]
        else [])    -- issubclass of a types.GenericAlias walks the origin's __bases__: not modelled
    ++ [("isbuiltintype", .bool (isbuiltintypeM lat a)), ("isclassvartype", .bool (isclassvartypeM lat a)),
        ("isuniontype", .bool (isuniontypeM lat a)), ("isoptionaltype", jOB (isoptionaltypeM lat a)),
        ("isliteral", .bool (isliteralM lat a)), ("isfinal", .bool (isfinalM lat a)),
        ("should_unwrap", .bool (shouldUnwrapM lat a)), ("isforwardref", .bool (isforwardrefM a)),
        ("istypealiastype", .bool (istypealiastypeM a)), ("isunresolvable", .bool (isunresolvableM lat a)),
        ("isnonetype", .bool (isnonetypeM lat a)), ("isgeneric", .bool (isgenericM lat a)),
        ("issubscriptedgeneric", .bool (issubscriptedgenericM lat a)),
        ("isfixedtupletype", .bool (isfixedtupletypeM lat a)), ("istypeddict", .bool (istypeddictM lat a)),
        ("isnamedtuple", .bool (isnamedtupleM lat a)), ("istypedtuple", .bool (istypedtupleM lat a)),
        ("iscallable", .bool (iscallableM lat a)), ("name", nm), ("qualname", qn)])

/-- The class-valued oracle of the Lean theorems, for cross-checking against the harness's own oracle. -/
def specAnswers (a : Ann) : Json :=
  let resolved : Json := match resolvedClass lat a with
    | some c => .str (nameOfId c)
    | none => .null
  let inst : Json := match resolvedClass lat a with
    | some c => .bool (lat.flag (·.instantiable) c)
    | none => .null
  Json.mkObj (
    [("resolved", resolved), ("resolved_instantiable", inst), ("core", annToJson (core lat a)),
     ("erase", annToJson (erase lat a))]
    ++ (groupA ++ [("istupletype", Target.tuple), ("iscollectiontype", .collection), ("issequencetype", .collection)]
        ++ groupB).map (fun p => (p.1, jSpec (specSub lat p.2 a))))

end Typelib.Drv.InspectOps

namespace Typelib.Drv
open Typelib.Drv.InspectOps

def handleInspect (st : St) (op : String) (j : Json) : Option (Except String (St × Json)) :=
  match op with
  | "inspect.eval" => some do
    let a ← annOfJson (← j.getObjVal? "ann")
    pure (st, Json.mkObj [("model", modelAnswers a), ("spec", specAnswers a)])
  | "inspect.info" => some do
    pure (st, Json.mkObj [("bases", .arr (lat.rows.map (fun r => Json.str r.name)).toArray),
                          ("gtm", .arr (lat.gtm.map (fun e => Json.arr #[.str (nameOfId e.1), .str (nameOfId e.2.1)])).toArray)])
  | _ => none

end Typelib.Drv
