/-
  Driver operations of the Slotted model (C19).
  op "slotted.run": {"steps": [{"cls": {...}, "dict": b, "weakref": b, "creationOk": b, "reentrant": b}, ...]}
    → {"steps": [{"out": {"created": {...}} | {"err": kind}, "stack": [...]}, ...]}   (guard starts empty)
  Not part of any theorem; mirrored by harness/props/c19.py.
-/
import TypelibModel.Drv.Core
import TypelibModel.Model.Slotted
open Lean
namespace Typelib.Drv
namespace SlottedDrv   -- helpers in a namespace of their own (other Drv files share `Typelib.Drv`)
open Typelib.Slotted

def jStrList (j : Json) : Except String (List Str) :=
  match j with
  | .arr a => a.toList.mapM jStr
  | _ => .error s!"not a list of strings: {j}"

def jBool (j : Json) (k : String) : Except String Bool := j.getObjValAs? Bool k

def slottedClsOfJson (j : Json) : Except String Cls := do
  let str := fun (k : String) => do jStr (← j.getObjVal? k)
  let baseSlots ← match j.getObjVal? "baseSlots" with
    | .ok (.arr bs) => bs.toList.mapM jStrList
    | _ => .error "baseSlots"
  let ownSlots ← match j.getObjVal? "ownSlots" with
    | .ok .null => pure none
    | .ok x => do pure (some (← jStrList x))
    | .error e => .error e
  pure { key := (← str "key"), name := (← str "name"), qualname := (← str "qualname"), module := (← str "module"),
         isDataclass := (← jBool j "isDataclass"),
         fields := (← jStrList (← j.getObjVal? "fields")),
         dictKeys := (← jStrList (← j.getObjVal? "dictKeys")),
         baseSlots := baseSlots,
         baseHasDict := (← jBool j "baseHasDict"), baseHasWeakref := (← jBool j "baseHasWeakref"),
         solidDict := (← jBool j "solidDict"), solidWeak := (← jBool j "solidWeak"), solidVar := (← jBool j "solidVar"),
         frozen := (← jBool j "frozen"), baseUserState := (← jBool j "baseUserState"), ownSlots := ownSlots }

def slottedStepOfJson (j : Json) : Except String Step := do
  pure { cls := (← slottedClsOfJson (← j.getObjVal? "cls")),
         flags := { dict := (← jBool j "dict"), weakref := (← jBool j "weakref") },
         creationOk := (← jBool j "creationOk"), reentrant := (← jBool j "reentrant") }

def strsToJson (xs : List Str) : Json := .arr (xs.map fun s => Json.str (U s)).toArray

def cerrToString : CErr → String
  | .varsize => "varsize" | .dictSlot => "dictSlot" | .weakrefSlot => "weakrefSlot" | .conflict => "conflict"

def outcomeToJson : Outcome → Json
  | .created r => Json.mkObj [("created", Json.mkObj [
      ("slots", strsToJson r.slots), ("dict", strsToJson r.dict), ("name", .str (U r.name)),
      ("qualname", .str (U r.qualname)), ("module", .str (U r.module)), ("setstateFix", .bool r.setstateFix)])]
  | .metaclassError => Json.mkObj [("err", .str "metaclass")]
  | .notDataclass => Json.mkObj [("err", .str "notDataclass")]
  | .creationError e => Json.mkObj [("err", .str (cerrToString e))]
  | .envError => Json.mkObj [("err", .str "env")]

end SlottedDrv
open Typelib.Slotted SlottedDrv

def handleSlotted (st : St) (op : String) (j : Json) : Option (Except String (St × Json)) :=
  match op with
  | "slotted.run" => some do
    let steps ← match j.getObjVal? "steps" with
      | .ok (.arr ss) => ss.toList.mapM slottedStepOfJson
      | _ => .error "steps"
    let outs := run [] steps
    let js := outs.map fun p => Json.mkObj [("out", outcomeToJson p.1), ("stack", strsToJson p.2)]
    pure (st, Json.mkObj [("steps", .arr js.toArray)])
  | _ => none

end Typelib.Drv
