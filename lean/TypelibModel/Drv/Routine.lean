/- Driver operations of the Routine model (stub until the model lands). -/
import TypelibModel.Drv.Core
open Lean
namespace Typelib.Drv

def handleRoutine (_st : St) (_op : String) (_j : Json) : Option (Except String (St × Json)) := none

end Typelib.Drv
