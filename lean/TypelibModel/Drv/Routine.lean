/-
  Driver operations of the routine-tree validator (Model/Routine.lean, Props/C05.lean).

    routine.validate  {"dir":"u"|"m", "ty":Ty, "tree":Node, "keys"?:[Ty]}  → {"adequate":bool, "path":str|null}
    routine.graph     {"dir":…, "graph":[[Ty, Node], …]}                    → {"adequate":bool, "entry":int|null, "path":…}
    routine.run       {"dir":…, "tree":Node, "val":Val}                     → {"ok":Val} | {"err":class}
    routine.compile   {"dir":…, "ty":Ty}   → {"tree":Node+, "compilable":bool, "adequate":bool}
                      the MODEL compiler's tree (Model/Compile.lean) in the extractor's node format, every node
                      also carrying "ann": the erased annotation it serves

  `Node` is what harness/routines_extract.py writes for a real routine object: its class name and public
  attributes, nothing interpreted: {"c":class, "t":Ty|null, "tr":repr(t), "o":origin, "values":…,
  "keys":…, "rs":[…], "nullable":bool, "fields":[[name, Node]…], "required":[…]}.  The decoder below
  maps (class, attributes) to the `Routine` constructor whose semantics is that class's `__call__`;
  anything it does not recognise becomes `.unknown`, which the validator rejects.

  The environment of the driver state and the annotation are wrapper-erased here (`eraseEnv`, `erase`).
  The verdict is the proved validator's (`adequate` / `graphOk`); `path` is a diagnostic only.
-/
import TypelibModel.Drv.Core
import TypelibModel.Model.Routine
import TypelibModel.Model.Compile
open Lean
namespace Typelib.Drv
namespace RoutineOps

def dirOfJson (j : Json) : Except String Dir :=
  match j.getObjValAs? String "dir" with
  | .ok "u" => .ok .u
  | .ok "m" => .ok .m
  | _ => .error "dir must be \"u\" or \"m\""

def collOfOrigin : String → Option Coll
  | "list" => some .list | "set" => some .set | "frozenset" => some .frozenset
  | "deque" => some .deque | "tuple" => some .vartuple
  | _ => none

def optTy (j : Json) : Option Ty :=
  match j.getObjVal? "t" with
  | .ok .null => none
  | .ok tj => (tyOfJson tj).toOption
  | .error _ => none

def strField (j : Json) (k : String) : String := (j.getObjValAs? String k).toOption.getD ""

def arrField (j : Json) (k : String) : Except String (List Json) :=
  match j.getObjVal? k with
  | .ok (.arr a) => .ok a.toList
  | _ => .error s!"node without list attribute {k}"

def sfx (d : Dir) : String := match d with | .u => "Unmarshaller" | .m => "Marshaller"

/-- (class name, public attributes) ↦ the constructor whose semantics is that class's `__call__`. -/
partial def routineOfJson (d : Dir) (j : Json) : Except String Routine := do
  let c ← j.getObjValAs? String "c"
  let t := optTy j
  let tr := strField j "tr"
  let unknown : Routine := .unknown (S s!"{c}({tr})")
  if c == "Delayed" ++ sfx d then
    match t with
    | some t' => pure (.delayed t')
    | none => pure (.unknown (S s!"{c} -> {tr}"))
  else if c == "NoOp" ++ sfx d then
    match d, t with
    | .m, some (.scalar .bytes) => pure (.leaf .bytes)
    | _, _ => pure .noop
  else if c == "NoneType" ++ sfx d then pure .none
  else if c == "Literal" ++ sfx d then
    let vs ← (← arrField j "values").mapM valOfJson
    pure (.literal vs)
  else if c == "Union" ++ sfx d then
    let rs ← (← arrField j "rs").mapM (routineOfJson d)
    let nb := match d with
      | .u => false
      | .m => (j.getObjValAs? Bool "nullable").toOption.getD false
    pure (.union nb rs)
  else if c == "SubscriptedIterable" ++ sfx d then
    match collOfOrigin (strField j "o") with
    | none => pure unknown
    | some k => pure (.coll k (← routineOfJson d (← j.getObjVal? "values")))
  else if c == "FixedTuple" ++ sfx d then
    pure (.tuple (← (← arrField j "rs").mapM (routineOfJson d)))
  else if c == "SubscriptedMapping" ++ sfx d then
    if strField j "o" == "dict" then
      pure (.dict (← routineOfJson d (← j.getObjVal? "keys")) (← routineOfJson d (← j.getObjVal? "values")))
    else pure unknown
  else if c == "StructuredType" ++ sfx d then
    match t with
    | some (.cls cid) =>
      let fs ← (← arrField j "fields").mapM fun f =>
        match f with
        | .arr #[.str k, n] => do pure (S k, (← routineOfJson d n))
        | _ => .error "struct field"
      let req ← match j.getObjVal? "required" with
        | .ok (.arr rs) => rs.toList.mapM jStr
        | _ => pure []
      pure (.struct cid fs req)
    | _ => pure unknown
  else
    match d, t with
    | .u, some (.enum cid) => if c == "CastUnmarshaller" then pure (.enumCast cid) else pure unknown
    | .m, some (.enum cid) => if c == "EnumMarshaller" then pure (.enumCast cid) else pure unknown
    | .u, some (.scalar s) => if c == leafClassU s then pure (.leaf s) else pure unknown
    | .m, some (.scalar s) => if c == leafClassM s then pure (.leaf s) else pure unknown
    | _, _ => pure unknown

partial def tyShow : Ty → String
  | .scalar s => scalarKey s
  | .none => "None"
  | .any => "Any"
  | .enum c => s!"enum#{c}"
  | .literal vs => s!"Literal[{vs.length} values]"
  | .coll k e =>
    let ks := match k with
      | .list => "list" | .set => "set" | .frozenset => "frozenset" | .deque => "deque" | .vartuple => "tuple[...]"
    s!"{ks}[{tyShow e}]"
  | .tuple es => "tuple[" ++ ", ".intercalate (es.map tyShow) ++ "]"
  | .dict k v => s!"dict[{tyShow k}, {tyShow v}]"
  | .union ms => "Union[" ++ ", ".intercalate (ms.map tyShow) ++ "]"
  | .cls c => s!"class#{c}"
  | .wrap _ t => s!"wrap({tyShow t})"

def rShow : Routine → String
  | .leaf s => s!"leaf:{scalarKey s}"
  | .none => "NoneType"
  | .noop => "NoOp"
  | .literal vs => s!"Literal[{vs.length} values]"
  | .enumCast c => s!"enum#{c}"
  | .union nb rs => s!"Union(nullable={nb}, {rs.length} routines)"
  | .coll _ _ => "SubscriptedIterable"
  | .tuple rs => s!"FixedTuple({rs.length} routines)"
  | .dict _ _ => "SubscriptedMapping"
  | .struct c fs req => s!"StructuredType(class#{c}, fields={fs.map (fun p => U p.1)}, required={req.map U})"
  | .delayed t => s!"Delayed -> {tyShow (erase t)}"
  | .unknown tag => s!"unrecognised {U tag}"

/-- Diagnostic: path of the first (deepest, leftmost) node the validator rejects. -/
partial def firstFail (d : Dir) (K : Ty → Bool) (env : Env) (t : Ty) (r : Routine) (path : String) : Option String :=
  if adequate d K env t r then none
  else
    let here := some s!"{path}: annotation {tyShow t} served by {rShow r}"
    let rec goList (ts : List Ty) (rs : List Routine) (i : Nat) : Option String :=
      match ts, rs with
      | t :: ts', r :: rs' =>
        match firstFail d K env t r s!"{path}[{i}]" with
        | some p => some p
        | none => goList ts' rs' (i + 1)
      | _, _ => none
    let rec goFields (ts : List (Str × Ty)) (rs : List (Str × Routine)) : Option String :=
      match ts, rs with
      | (a, t) :: ts', (b, r) :: rs' =>
        if a != b then some s!"{path}: field {U b} where the class declares {U a}"
        else match firstFail d K env t r s!"{path}.{U a}" with
          | some p => some p
          | none => goFields ts' rs'
      | _, _ => none
    let deeper : Option String :=
      match t, r with
      | .coll _ e, .coll _ r' => firstFail d K env e r' s!"{path}[*]"
      | .tuple es, .tuple rs => goList es rs 0
      | .dict k v, .dict rk rv =>
        match firstFail d K env k rk s!"{path}.keys" with
        | some p => some p
        | none => firstFail d K env v rv s!"{path}.values"
      | .union ms, .union _ rs => goList (unionMembers d ms) rs 0
      | .cls c, .struct _ fs _ => goFields (fieldsOf env c) fs
      | _, _ => none
    match deeper with
    | some p => some p
    | none => here

def scalarName : Scalar → String
  | .int => "int" | .bool => "bool" | .float => "float" | .str => "str" | .decimal => "decimal"
  | .fraction => "fraction" | .uuid => "uuid" | .path => "path" | .pattern => "pattern" | .date => "date"
  | .datetime => "datetime" | .time => "time" | .timedelta => "timedelta" | .bytes => "bytes"

def collName : Coll → String
  | .list => "list" | .set => "set" | .frozenset => "frozenset" | .deque => "deque" | .vartuple => "vartuple"

def wrapperName : Wrapper → String
  | .newtype => "newtype" | .alias => "alias" | .final => "final" | .classvar => "classvar"

/-- Inverse of `tyOfJson` (Drv/Codec.lean). -/
partial def tyToJson : Ty → Json
  | .scalar s => .arr #[.str (scalarName s)]
  | .none => .arr #[.str "none"]
  | .any => .arr #[.str "any"]
  | .enum c => .arr #[.str "enum", jN c]
  | .cls c => .arr #[.str "cls", jN c]
  | .literal vs => .arr #[.str "lit", .arr (vs.map valToJson).toArray]
  | .coll k e => .arr #[.str "coll", .str (collName k), tyToJson e]
  | .tuple es => .arr #[.str "tuple", .arr (es.map tyToJson).toArray]
  | .dict k v => .arr #[.str "dict", tyToJson k, tyToJson v]
  | .union ms => .arr #[.str "union", .arr (ms.map tyToJson).toArray]
  | .wrap w t => .arr #[.str "wrap", .str (wrapperName w), tyToJson t]

def originOfColl : Coll → String
  | .list => "list" | .set => "set" | .frozenset => "frozenset" | .deque => "deque" | .vartuple => "tuple"

/-- A model tree in the extractor's node format (class names from `routineClass`), walked together with the
    erased annotation it was compiled for; every node also says which annotation it serves ("ann"). -/
partial def nodeJson (d : Dir) (env : Env) (t : Ty) (r : Routine) : Json :=
  let base : List (String × Json) := [("c", .str (routineClass d r)), ("ann", tyToJson t)]
  let rec zipL (ts : List Ty) (rs : List Routine) : List Json :=
    match ts, rs with
    | t :: ts', r :: rs' => nodeJson d env t r :: zipL ts' rs'
    | [], r :: rs' => nodeJson d env .any r :: zipL [] rs'
    | _, [] => []
  let rec zipF (ts : List (Str × Ty)) (rs : List (Str × Routine)) : List Json :=
    match ts, rs with
    | (_, t) :: ts', (b, r) :: rs' => Json.arr #[.str (U b), nodeJson d env t r] :: zipF ts' rs'
    | [], (b, r) :: rs' => Json.arr #[.str (U b), nodeJson d env .any r] :: zipF [] rs'
    | _, [] => []
  match r with
  | .leaf s => Json.mkObj (base ++ [("t", tyToJson (.scalar s))])
  | .none => Json.mkObj (base ++ [("t", tyToJson .none)])
  | .noop => Json.mkObj (base ++ [("t", tyToJson .any)])
  | .literal vs => Json.mkObj (base ++ [("values", .arr (vs.map valToJson).toArray)])
  | .enumCast c => Json.mkObj (base ++ [("t", tyToJson (.enum c))])
  | .union nb rs =>
    let ms := match t with | .union ms => unionMembers d ms | _ => []
    let nbJ : List (String × Json) := match d with | .u => [] | .m => [("nullable", .bool nb)]
    Json.mkObj (base ++ [("rs", .arr (zipL ms rs).toArray)] ++ nbJ)
  | .coll k r' =>
    let e := match t with | .coll _ e => e | _ => .any
    Json.mkObj (base ++ [("o", .str (originOfColl k)), ("values", nodeJson d env e r')])
  | .tuple rs =>
    let es := match t with | .tuple es => es | _ => []
    Json.mkObj (base ++ [("o", .str "tuple"), ("rs", .arr (zipL es rs).toArray)])
  | .dict rk rv =>
    let (k, v) := match t with | .dict k v => (k, v) | _ => (Ty.any, Ty.any)
    Json.mkObj (base ++ [("o", .str "dict"), ("keys", nodeJson d env k rk), ("values", nodeJson d env v rv)])
  | .struct c fs req =>
    let reqJ : List (String × Json) := match d with
      | .u => [("required", .arr (req.map (fun s => Json.str (U s))).toArray)]
      | .m => []
    Json.mkObj (base ++ [("t", tyToJson (.cls c)), ("fields", .arr (zipF (fieldsOf env c) fs).toArray)] ++ reqJ)
  | .delayed t' => Json.mkObj (base ++ [("t", tyToJson (erase t'))])
  | .unknown tag => Json.mkObj (base ++ [("tr", .str (U tag))])

def optStr : Option String → Json
  | some s => .str s
  | none => .null

def keysOfJson (j : Json) : Except String (Option (List Ty)) :=
  match j.getObjVal? "keys" with
  | .ok (.arr ks) => do pure (some ((← ks.toList.mapM tyOfJson).map erase))
  | _ => pure none

end RoutineOps

open RoutineOps in
def handleRoutine (st : St) (op : String) (j : Json) : Option (Except String (St × Json)) :=
  match op with
  | "routine.validate" => some do
    let d ← dirOfJson j
    let t := erase (← tyOfJson (← j.getObjVal? "ty"))
    let r ← routineOfJson d (← j.getObjVal? "tree")
    let env := eraseEnv st.env
    let K : Ty → Bool := match (← keysOfJson j) with
      | some ks => fun t => ks.any (fun k => Ty.beq k t)
      | none => anyTarget
    let ok := adequate d K env t r
    pure (st, Json.mkObj [("adequate", .bool ok),
      ("path", if ok then .null else optStr (firstFail d K env t r "root"))])
  | "routine.graph" => some do
    let d ← dirOfJson j
    let env := eraseEnv st.env
    let entries ← (← arrField j "graph").mapM fun e =>
      match e with
      | .arr #[tj, n] => do pure (erase (← tyOfJson tj), (← routineOfJson d n))
      | _ => .error "graph entry"
    let g : RGraph := entries
    let ok := graphOk d env g
    let rec find (es : List (Ty × Routine)) (i : Nat) : Option (Nat × String) :=
      match es with
      | [] => none
      | (t, r) :: rest =>
        if r.isDelayed then some (i, s!"root: the tree of {tyShow t} is itself a Delayed proxy")
        else match firstFail d g.hasKey env t r "root" with
          | some p => some (i, p)
          | none => find rest (i + 1)
    let bad := if ok then none else find g 0
    pure (st, Json.mkObj [("adequate", .bool ok),
      ("entry", match bad with | some (i, _) => jN i | none => .null),
      ("path", optStr (bad.map Prod.snd))])
  | "routine.compile" => some do
    let d ← dirOfJson j
    let t ← tyOfJson (← j.getObjVal? "ty")
    let env := eraseEnv st.env
    let r := compile d st.env t
    pure (st, Json.mkObj [("tree", nodeJson d env (erase t) r),
      ("compilable", .bool (compilableEnv st.env && compilable st.env t)),
      ("adequate", .bool (adequate d anyTarget env (erase t) r))])
  | "routine.run" => some do
    let d ← dirOfJson j
    let r ← routineOfJson d (← j.getObjVal? "tree")
    let v ← valOfJson (← j.getObjVal? "val")
    let env := eraseEnv st.env
    let L := pyLeaves env
    match d with
    | .u => pure (st, resToJson (runU env L st.fuel r v))
    | .m => pure (st, resToJson (runM env L st.fuel r v))
  | _ => none

end Typelib.Drv
