/-
  Driver operation of the field-selection model (Model/Fields.lean; harness/props/fields_corr.py, run with C18).
  op "fields.select":
    {"shape": {"isDataclass": b, "dcFields": [[name, "field"|"classVar"|"initVar"], ...],
               "hints": [[name, "inst"|"classVar"|"kwOnly"], ...], "baseAnnotations": [..], "ownAnnotations": [..],
               "hasSlots": b, "slots": [..], "baseSlots": [..]},
     "inst_vars": [..]                 -- one instance, and / or
     "instances": [[..], ...]}         -- several instances through the one memoised iterator, in this order
    → {"names": [..] (when inst_vars is given), "seq": [[..], ...] (when instances is given),
       "tier": "declared"|"slots"|"vars", "wf": b, "beyond": b | [b, ...] (storageBeyondSlots),
       "mutants": {"slotsFirst", "rawDc", "ownOnly": like names / seq, "memo": seq}}   -- Model/Fields.lean §Mutants
  Not part of any theorem.
-/
import TypelibModel.Drv.Core
import TypelibModel.Model.Fields
open Lean
namespace Typelib.Drv
namespace FieldsDrv
open Typelib.Fields

def jStrs (j : Json) : Except String (List Str) :=
  match j with
  | .arr a => a.toList.mapM jStr
  | _ => .error s!"not a list of strings: {j}"

def fieldKindOf : String → Except String FieldKind
  | "field" => .ok .field | "classVar" => .ok .classVar | "initVar" => .ok .initVar
  | s => .error s!"field kind {s}"

def hintKindOf : String → Except String HintKind
  | "inst" => .ok .inst | "classVar" => .ok .classVar | "kwOnly" => .ok .kwOnly
  | s => .error s!"hint kind {s}"

def jPairs {α : Type} (kind : String → Except String α) (j : Json) : Except String (List (Str × α)) :=
  match j with
  | .arr a => a.toList.mapM fun e =>
    match e with
    | .arr #[.str n, .str k] => do pure (S n, (← kind k))
    | _ => .error s!"not a [name, kind] pair: {e}"
  | _ => .error s!"not a list of pairs: {j}"

def shapeOfJson (j : Json) : Except String ClassShape := do
  pure { isDataclass := (← j.getObjValAs? Bool "isDataclass"),
         dcFields := (← jPairs fieldKindOf (← j.getObjVal? "dcFields")),
         hints := (← jPairs hintKindOf (← j.getObjVal? "hints")),
         baseAnnotations := (← jStrs (← j.getObjVal? "baseAnnotations")),
         ownAnnotations := (← jStrs (← j.getObjVal? "ownAnnotations")),
         hasSlots := (← j.getObjValAs? Bool "hasSlots"),
         slots := (← jStrs (← j.getObjVal? "slots")),
         baseSlots := (← jStrs (← j.getObjVal? "baseSlots")) }

def namesToJson (xs : List Str) : Json := .arr (xs.map fun s => Json.str (U s)).toArray
def seqToJson (xss : List (List Str)) : Json := .arr (xss.map namesToJson).toArray

def tierToString : Tier → String
  | .declared => "declared" | .slots => "slots" | .vars => "vars"

end FieldsDrv
open Typelib.Fields FieldsDrv

def handleFields (st : St) (op : String) (j : Json) : Option (Except String (St × Json)) :=
  match op with
  | "fields.select" => some do
    let c ← shapeOfJson (← j.getObjVal? "shape")
    let one ← match j.getObjVal? "inst_vars" with
      | .ok x => do pure (some (← jStrs x))
      | .error _ => pure none
    let many ← match j.getObjVal? "instances" with
      | .ok (.arr xs) => do pure (some (← xs.toList.mapM jStrs))
      | .ok x => .error s!"instances: {x}"
      | .error _ => pure none
    if one.isNone && many.isNone then throw "fields.select: neither inst_vars nor instances"
    let mut out : List (String × Json) := [("tier", .str (tierToString (tierOf c))), ("wf", .bool (wf c))]
    let mut mut_ : List (String × Json) := []
    if let some iv := one then
      out := out ++ [("names", namesToJson (selectNames c iv)), ("beyond", .bool (storageBeyondSlots c iv))]
      mut_ := mut_ ++ [("slotsFirst", namesToJson (slotsFirst c iv)), ("rawDc", namesToJson (rawDc c iv)),
                       ("ownOnly", namesToJson (ownOnly c iv))]
    if let some ivs := many then
      out := out ++ [("seq", seqToJson (selectAll c ivs))]
      if one.isNone then
        out := out ++ [("beyond", .arr (ivs.map fun iv => Json.bool (storageBeyondSlots c iv)).toArray)]
        mut_ := mut_ ++ [("slotsFirst", seqToJson (ivs.map (slotsFirst c))), ("rawDc", seqToJson (ivs.map (rawDc c))),
                         ("ownOnly", seqToJson (ivs.map (ownOnly c)))]
      mut_ := mut_ ++ [("memo", seqToJson (memoAll c ivs))]
    pure (st, Json.mkObj (out ++ [("mutants", Json.mkObj mut_)]))
  | _ => none

end Typelib.Drv
