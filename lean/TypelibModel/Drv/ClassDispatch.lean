/-
  Driver operations of the class-dispatch model (Model/ClassDispatch.lean; harness/props/classdispatch_corr.py, run with C03).
    {"op": "classdispatch.routines", "rec": REC}
      → {"unmarshaller": class name, "marshaller": class name, "unmarshallerEntry", "marshallerEntry": names in the tables,
         "walksMembers": b, "mutants": {"C03l": [u, m], "C18k": [u, m], "C18l": [u, m], "C05l": walksMembers}}
    {"op": "classdispatch.items", "rec": REC}
      → {"reading": "mapping"|"namedFields"|"iterable"|"fields", "itemsMissing": b, "instanceIsDict": b,
         "mutants": {"C03l", "C18k", "C18l": reading}}
    REC = {"flavour": "dataclass"|..., "mapping": "none"|"inherits"|"registered",
           "iter", "getitem", "keys", "len", "contains", "call", "next", "items": b}
  Not part of any theorem.
-/
import TypelibModel.Drv.Core
import TypelibModel.Model.ClassDispatch
open Lean
namespace Typelib.Drv
namespace ClassDispatchDrv
open Typelib.ClassDispatch

def flavourOf : String → Except String ClassFlavour
  | "dataclass" => .ok .dataclass | "annotated" => .ok .annotated | "initHinted" => .ok .initHinted | "plain" => .ok .plain
  | "typedNT" => .ok .typedNT | "collNT" => .ok .collNT | "typedDict" => .ok .typedDict
  | "enumPlain" => .ok .enumPlain | "enumInt" => .ok .enumInt | "enumStr" => .ok .enumStr
  | "subInt" => .ok .subInt | "subStr" => .ok .subStr | "subFloat" => .ok .subFloat | "subList" => .ok .subList
  | "subDict" => .ok .subDict | "subTuple" => .ok .subTuple | "subSet" => .ok .subSet | "subBytes" => .ok .subBytes
  | "subComplex" => .ok .subComplex
  | s => .error s!"flavour {s}"

def mappingOf : String → Except String MappingBase
  | "none" => .ok .none | "inherits" => .ok .inherits | "registered" => .ok .registered
  | s => .error s!"mapping {s}"

def recOfJson (j : Json) : Except String Rec := do
  pure { flavour := (← flavourOf (← j.getObjValAs? String "flavour")),
         mapping := (← mappingOf (← j.getObjValAs? String "mapping")),
         iter := (← j.getObjValAs? Bool "iter"), getitem := (← j.getObjValAs? Bool "getitem"),
         keys := (← j.getObjValAs? Bool "keys"), len := (← j.getObjValAs? Bool "len"),
         contains := (← j.getObjValAs? Bool "contains"), call := (← j.getObjValAs? Bool "call"),
         next := (← j.getObjValAs? Bool "next"), items := (← j.getObjValAs? Bool "items") }

def pair (u m : Handler) : Json := .arr #[.str (className .unmarshal u), .str (className .marshal m)]

end ClassDispatchDrv
open Typelib.ClassDispatch ClassDispatchDrv

def handleClassDispatch (st : St) (op : String) (j : Json) : Option (Except String (St × Json)) :=
  match op with
  | "classdispatch.routines" => some do
    let r ← recOfJson (← j.getObjVal? "rec")
    let mut_ := Json.mkObj [
      ("C03l", pair (unmarshalHandlerWith isMappingType_C03l isIteratorType isIterableType r) (marshalHandlerWith isMappingType_C03l isIterableType r)),
      ("C18k", pair (unmarshalHandlerWith isMappingType_C18k isIteratorType isIterableType r) (marshalHandlerWith isMappingType_C18k isIterableType r)),
      ("C18l", pair (unmarshalHandlerWith isMappingType isIteratorType isIterableType_C18l r) (marshalHandlerWith isMappingType isIterableType_C18l r)),
      ("C05l", .bool (walksMembers_C05l r))]
    pure (st, Json.mkObj [("unmarshaller", .str (unmarshallerName r)), ("marshaller", .str (marshallerName r)),
                          ("unmarshallerEntry", .str (entryName .unmarshal (unmarshalHandler r))),
                          ("marshallerEntry", .str (entryName .marshal (marshalHandler r))),
                          ("walksMembers", .bool (walksMembers r)), ("mutants", mut_)])
  | "classdispatch.items" => some do
    let r ← recOfJson (← j.getObjVal? "rec")
    let mut_ := Json.mkObj [
      ("C03l", .str (readingWith isMappingType_C03l isIterableType r).name),
      ("C18k", .str (readingWith isMappingType_C18k isIterableType r).name),
      ("C18l", .str (readingWith isMappingType isIterableType_C18l r).name)]
    pure (st, Json.mkObj [("reading", .str (reading r).name), ("itemsMissing", .bool (itemsMissing r)),
                          ("instanceIsDict", .bool (instanceIsDict r)), ("mutants", mut_)])
  | _ => none

end Typelib.Drv
