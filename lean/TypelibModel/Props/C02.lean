/-
  C02 — JSON wire round trip and agreement of all entry points.
-/
import TypelibModel.Model.Codec
import TypelibModel.Props.C01
namespace Typelib.C02
open Typelib

/-- **All entry points agree**, for every annotation, every coder pair (also a user-supplied one) and
    every input: `typelib.encode` = `Codec.encode`. -/
theorem encode_entrypoints_agree (env : Env) (L : Leaves) (n : Nat) (t : Ty) (c : Coder) (v : Val) :
    apiEncode env L n t c v = codecEncode env L n t c v := by
  unfold apiEncode codecEncode coderFor idCoder
  cases mar env L n t v with
  | error e => rfl
  | ok m => cases isBytesTy t <;> rfl

theorem decode_entrypoints_agree (env : Env) (L : Leaves) (n : Nat) (t : Ty) (c : Coder) (b : Val) :
    apiDecode env L n t c b = codecDecode env L n t c b := by
  unfold apiDecode codecDecode coderFor idCoder
  cases isBytesTy t <;> rfl

/-- … and for a non-bytes T both equal the explicit composition with the configured pair. -/
theorem encode_is_composition (env : Env) (L : Leaves) (n : Nat) (t : Ty) (c : Coder) (v : Val)
    (h : isBytesTy t = false) : codecEncode env L n t c v = composeEncode env L n t c v := by
  unfold codecEncode composeEncode coderFor
  simp only [h, Bool.false_eq_true, if_false]
  cases mar env L n t v <;> rfl

theorem decode_is_composition (env : Env) (L : Leaves) (n : Nat) (t : Ty) (c : Coder) (b : Val)
    (h : isBytesTy t = false) : codecDecode env L n t c b = composeDecode env L n t c b := by
  unfold codecDecode composeDecode coderFor
  simp only [h, Bool.false_eq_true, if_false]
  cases c.dec b <;> rfl

/-- Bytes-like T is carried verbatim by every entry point, whatever coder is configured: the payload
    reaches the (un)marshaller untouched. -/
theorem bytes_verbatim (env : Env) (L : Leaves) (n : Nat) (c : Coder) (v : Val) :
    codecEncode env L n (.scalar .bytes) c v = mar env L n (.scalar .bytes) v
      ∧ codecDecode env L n (.scalar .bytes) c v = um env L n (.scalar .bytes) v
      ∧ apiEncode env L n (.scalar .bytes) c v = mar env L n (.scalar .bytes) v
      ∧ apiDecode env L n (.scalar .bytes) c v = um env L n (.scalar .bytes) v := by
  refine ⟨?_, ?_, ?_, ?_⟩
  · unfold codecEncode coderFor idCoder isBytesTy
    cases mar env L n (.scalar .bytes) v <;> rfl
  · rfl
  · unfold apiEncode isBytesTy
    cases mar env L n (.scalar .bytes) v <;> rfl
  · rfl

/-- What is assumed of a configured encoder/decoder pair (`JsonLaw`, DESIGN.md §6): on the wire values
    in its domain `D` (plain data, string keys, 64-bit integers, valid Unicode) the decoder inverts the
    encoder. -/
structure JsonLaw (D : Val → Prop) (c : Coder) : Prop where
  inv : ∀ m, D m → ∃ b, c.enc m = .ok b ∧ c.dec b = .ok m

/-- **Wire round trip**: C01 composed with the coder law.  If `v` round-trips through
    marshal/unmarshal and its wire form lies in the coder's domain, then
    `codec(T).decode(codec(T).encode(v)) = v`, and decoding the encoded payload yields exactly
    `marshal(v, t=T)` (so an independent JSON reader satisfying the same law sees the same wire value). -/
theorem codec_roundtrip (env : Env) (L : Leaves) (n : Nat) (t : Ty) (c : Coder) (D : Val → Prop)
    (hc : JsonLaw D c) (v m : Val) (hm : mar env L n t v = .ok m) (hu : um env L n t m = .ok v) (hD : D m)
    (hb : isBytesTy t = false) :
    ∃ b, codecEncode env L n t c v = .ok b ∧ c.dec b = .ok m ∧ codecDecode env L n t c b = .ok v := by
  obtain ⟨b, hb1, hb2⟩ := hc.inv m hD
  refine ⟨b, ?_, hb2, ?_⟩
  · simp [codecEncode, hm, coderFor, hb, hb1]
  · simp [codecDecode, coderFor, hb, hb2, hu]

/-- Instantiated with C01: every Optional-only annotation of U and every valid value. -/
theorem codec_roundtrip_U (S : Scalar → Bool) (env : Env) (L : Leaves) (hE : wfEnv S env = true)
    (hL : LeafLaws S env L) (c : Coder) (D : Val → Prop) (hc : JsonLaw D c)
    (n : Nat) (t : Ty) (v : Val) (hwf : wfTy S env t = true) (hty : hasType env n t v = true)
    (hb : isBytesTy t = false)
    (hD : ∀ m, mar env L n t v = .ok m → D m) :
    ∃ b, codecEncode env L n t c v = .ok b ∧ codecDecode env L n t c b = .ok v := by
  obtain ⟨m, h1, h2⟩ := C01.roundtrip S env L hE hL n t v hwf hty
  obtain ⟨b, hb1, _, hb3⟩ := codec_roundtrip env L n t c D hc v m h1 h2 (hD m h1) hb
  exact ⟨b, hb1, hb3⟩

/-- Non-vacuity: the identity coder satisfies the law on every value, and the C01 example
    round-trips through it. -/
example : JsonLaw (fun _ => True) idCoder := ⟨fun m _ => ⟨m, rfl, rfl⟩⟩

end Typelib.C02
