/-
  C02 — JSON wire round trip and agreement of all entry points.
-/
import TypelibModel.Model.Codec
import TypelibModel.Lemmas.JsonRT
import TypelibModel.Props.C01
import TypelibModel.Props.C06
namespace Typelib.C02
open Typelib

/-- **All entry points agree**, for every annotation, every coder pair (also a user-supplied one) and
    every input: `typelib.encode` = `Codec.encode`. -/
theorem encode_entrypoints_agree (env : Env) (L : Leaves) (n : Nat) (t : Ty) (c : Coder) (v : Val) :
    apiEncode env L n t c v = codecEncode env L n t c v := by
  unfold apiEncode codecEncode coderFor idCoder
  cases mar env L n t v with
  | error e => rfl
  | ok m => cases isBytesTy t <;> rfl

theorem decode_entrypoints_agree (env : Env) (L : Leaves) (n : Nat) (t : Ty) (c : Coder) (b : Val) :
    apiDecode env L n t c b = codecDecode env L n t c b := by
  unfold apiDecode codecDecode coderFor idCoder
  cases isBytesTy t <;> rfl

/-- … and for a non-bytes T both equal the explicit composition with the configured pair. -/
theorem encode_is_composition (env : Env) (L : Leaves) (n : Nat) (t : Ty) (c : Coder) (v : Val)
    (h : isBytesTy t = false) : codecEncode env L n t c v = composeEncode env L n t c v := by
  unfold codecEncode composeEncode coderFor
  simp only [h, Bool.false_eq_true, if_false]
  cases mar env L n t v <;> rfl

theorem decode_is_composition (env : Env) (L : Leaves) (n : Nat) (t : Ty) (c : Coder) (b : Val)
    (h : isBytesTy t = false) : codecDecode env L n t c b = composeDecode env L n t c b := by
  unfold codecDecode composeDecode coderFor
  simp only [h, Bool.false_eq_true, if_false]
  cases c.dec b <;> rfl

/-- Bytes-like T is carried verbatim by every entry point, whatever coder is configured: the payload
    reaches the (un)marshaller untouched. -/
theorem bytes_verbatim (env : Env) (L : Leaves) (n : Nat) (c : Coder) (v : Val) :
    codecEncode env L n (.scalar .bytes) c v = mar env L n (.scalar .bytes) v
      ∧ codecDecode env L n (.scalar .bytes) c v = um env L n (.scalar .bytes) v
      ∧ apiEncode env L n (.scalar .bytes) c v = mar env L n (.scalar .bytes) v
      ∧ apiDecode env L n (.scalar .bytes) c v = um env L n (.scalar .bytes) v := by
  refine ⟨?_, ?_, ?_, ?_⟩
  · unfold codecEncode coderFor idCoder isBytesTy
    cases mar env L n (.scalar .bytes) v <;> rfl
  · rfl
  · unfold apiEncode isBytesTy
    cases mar env L n (.scalar .bytes) v <;> rfl
  · rfl

/-- What is assumed of a configured encoder/decoder pair (`JsonLaw`, DESIGN.md §6): on the wire values
    in its domain `D` (plain data, string keys, 64-bit integers, valid Unicode) the decoder inverts the
    encoder. -/
structure JsonLaw (D : Val → Prop) (c : Coder) : Prop where
  inv : ∀ m, D m → ∃ b, c.enc m = .ok b ∧ c.dec b = .ok m

/-- **Wire round trip**: C01 composed with the coder law.  If `v` round-trips through
    marshal/unmarshal and its wire form lies in the coder's domain, then
    `codec(T).decode(codec(T).encode(v)) = v`, and decoding the encoded payload yields exactly
    `marshal(v, t=T)` (so an independent JSON reader satisfying the same law sees the same wire value). -/
theorem codec_roundtrip (env : Env) (L : Leaves) (n : Nat) (t : Ty) (c : Coder) (D : Val → Prop)
    (hc : JsonLaw D c) (v m : Val) (hm : mar env L n t v = .ok m) (hu : um env L n t m = .ok v) (hD : D m)
    (hb : isBytesTy t = false) :
    ∃ b, codecEncode env L n t c v = .ok b ∧ c.dec b = .ok m ∧ codecDecode env L n t c b = .ok v := by
  obtain ⟨b, hb1, hb2⟩ := hc.inv m hD
  refine ⟨b, ?_, hb2, ?_⟩
  · simp [codecEncode, hm, coderFor, hb, hb1]
  · simp [codecDecode, coderFor, hb, hb2, hu]

/-- Instantiated with C01: every Optional-only annotation of U and every valid value. -/
theorem codec_roundtrip_U (S : Scalar → Bool) (env : Env) (L : Leaves) (hE : wfEnv S env = true)
    (hL : LeafLaws S env L) (c : Coder) (D : Val → Prop) (hc : JsonLaw D c)
    (n : Nat) (t : Ty) (v : Val) (hwf : wfTy S env t = true) (hty : hasType env n t v = true)
    (hb : isBytesTy t = false)
    (hD : ∀ m, mar env L n t v = .ok m → D m) :
    ∃ b, codecEncode env L n t c v = .ok b ∧ codecDecode env L n t c b = .ok v := by
  obtain ⟨m, h1, h2⟩ := C01.roundtrip S env L hE hL n t v hwf hty
  obtain ⟨b, hb1, _, hb3⟩ := codec_roundtrip env L n t c D hc v m h1 h2 (hD m h1) hb
  exact ⟨b, hb1, hb3⟩

/-- Non-vacuity: the identity coder satisfies the law on every value, and the C01 example
    round-trips through it. -/
example : JsonLaw (fun _ => True) idCoder := ⟨fun m _ => ⟨m, rfl, rfl⟩⟩

/-! ### The law instantiated: the model's own JSON coder pair

`renderJson` (Model/JsonText.lean) is `json.dumps(m, separators=(",", ":"), ensure_ascii=False)` and
`jsonParse` (Model/Text.lean) is `json.loads` on the executable fragment; `Lemmas/JsonRT.lean` proves
`jsonParse (renderJson m) = some m` on `plainWire m` — so for this pair `JsonLaw` is a theorem, and the
wire round trip holds without a named hypothesis. -/

/-- The encoder: the compact JSON text of a plain wire value, as `bytes`. -/
def jsonEnc (m : Val) : R Val :=
  if plainWire m then .ok (.text .bytes (renderJson m)) else .error .unsupported

/-- The decoder: `json.loads` of a `str` or of any bytes-like carrier. -/
def jsonDec (b : Val) : R Val :=
  match decode b with
  | .str s =>
    match jsonParse s with
    | some m => .ok m
    | none => .error .unsupported
  | _ => .error .type

def jsonCoder : Coder := { enc := jsonEnc, dec := jsonDec }

/-- The decoder also reads Python's default spelling (`", "` / `": "`) of the same value. -/
theorem jsonDec_renderSp (m : Val) (hm : plainWire m = true) (c : Carrier) :
    jsonDec (.text c (renderJsonSp m)) = .ok m := by
  simp [jsonDec, decode, jsonParse_renderSp m hm]

/-- **`JsonLaw` holds for the model coder pair** on the plain wire values. -/
theorem jsonCoder_law : JsonLaw (fun m => plainWire m = true) jsonCoder :=
  ⟨fun m hm => ⟨.text .bytes (renderJson m), by simp [jsonCoder, jsonEnc, hm],
    by simp [jsonCoder, jsonDec, decode, jsonParse_render m hm]⟩⟩

/-- **Wire round trip through real JSON text**, no hypothesis on the coder left: if `v` round-trips
    through marshal/unmarshal and its wire form `m` is a plain wire value, then the payload is
    exactly the JSON text of `m`, a JSON reader gets `m` back from it, and decoding yields `v`. -/
theorem codec_roundtrip_json (env : Env) (L : Leaves) (n : Nat) (t : Ty) (v m : Val)
    (hm : mar env L n t v = .ok m) (hu : um env L n t m = .ok v) (hD : plainWire m = true)
    (hb : isBytesTy t = false) :
    codecEncode env L n t jsonCoder v = .ok (.text .bytes (renderJson m))
      ∧ jsonParse (renderJson m) = some m
      ∧ codecDecode env L n t jsonCoder (.text .bytes (renderJson m)) = .ok v := by
  have hp := jsonParse_render m hD
  refine ⟨?_, hp, ?_⟩
  · simp [codecEncode, hm, coderFor, hb, jsonCoder, jsonEnc, hD]
  · simp [codecDecode, coderFor, hb, jsonCoder, jsonDec, decode, hp, hu]

/-- Instantiated with C01: every Optional-only annotation of U and every valid value whose wire form
    is a plain wire value. -/
theorem codec_roundtrip_json_U (S : Scalar → Bool) (env : Env) (L : Leaves) (hE : wfEnv S env = true)
    (hL : LeafLaws S env L) (n : Nat) (t : Ty) (v : Val) (hwf : wfTy S env t = true)
    (hty : hasType env n t v = true) (hb : isBytesTy t = false)
    (hD : ∀ m, mar env L n t v = .ok m → plainWire m = true) :
    ∃ b, codecEncode env L n t jsonCoder v = .ok b ∧ codecDecode env L n t jsonCoder b = .ok v :=
  codec_roundtrip_U S env L hE hL jsonCoder _ jsonCoder_law n t v hwf hty hb hD

/-! #### What C06 leaves to be assumed of the wire form

`C06.marshal_plain` gives `jsonPlain m` for whatever a marshaller of a plain annotation returns.
`plainWire m` is `jsonPlain m` plus exactly the following decidable side conditions (`wireSide`):
no float anywhere; every int within 64 bits (`int64`: −2^63 … 2^64−1); every string (values and keys)
free of control characters other than `\n \r \t \b \f`; every dict key a `str`; the keys of each dict
pairwise distinct. -/

mutual
  def wireSide : Val → Bool
    | .int i => int64 i
    | .float _ => false
    | .str s => okStr s
    | .list xs => wireSideList xs
    | .dict kvs => wireSidePairs kvs && distinctKeys (kvs.map Prod.fst)
    | _ => true
  termination_by structural w => w
  def wireSideList : List Val → Bool
    | [] => true
    | x :: xs => wireSide x && wireSideList xs
  termination_by structural xs => xs
  def wireSidePairs : List (Val × Val) → Bool
    | [] => true
    | (k, v) :: kvs => keyOk k && wireSide v && wireSidePairs kvs
  termination_by structural kvs => kvs
end

mutual
  theorem plainWire_of_jsonPlain : ∀ m : Val, jsonPlain m = true → wireSide m = true → plainWire m = true
    | .none, _, _ => rfl
    | .bool _, _, _ => rfl
    | .int i, _, h => by simpa [wireSide, plainWire] using h
    | .str s, _, h => by simpa [wireSide, plainWire] using h
    | .list xs, hj, h => by
      simp only [jsonPlain] at hj
      simp only [wireSide] at h
      simp only [plainWire]
      exact plainList_of_jsonPlain xs hj h
    | .dict kvs, hj, h => by
      simp only [jsonPlain] at hj
      simp only [wireSide, Bool.and_eq_true] at h
      simp only [plainWire, Bool.and_eq_true]
      exact ⟨plainPairs_of_jsonPlain kvs hj h.1, h.2⟩
  theorem plainList_of_jsonPlain : ∀ xs : List Val, jsonPlainList xs = true → wireSideList xs = true →
      plainList xs = true
    | [], _, _ => rfl
    | x :: xs, hj, h => by
      simp only [jsonPlainList, Bool.and_eq_true] at hj
      simp only [wireSideList, Bool.and_eq_true] at h
      simp only [plainList, Bool.and_eq_true]
      exact ⟨plainWire_of_jsonPlain x hj.1 h.1, plainList_of_jsonPlain xs hj.2 h.2⟩
  theorem plainPairs_of_jsonPlain : ∀ kvs : List (Val × Val), jsonPlainPairs kvs = true →
      wireSidePairs kvs = true → plainPairs kvs = true
    | [], _, _ => rfl
    | (k, v) :: kvs, hj, h => by
      simp only [jsonPlainPairs, Bool.and_eq_true] at hj
      simp only [wireSidePairs, Bool.and_eq_true] at h
      simp only [plainPairs, Bool.and_eq_true]
      exact ⟨⟨h.1.1, plainWire_of_jsonPlain v hj.1.2 h.1.2⟩, plainPairs_of_jsonPlain kvs hj.2 h.2⟩
end

/-- **Round trip for every plain annotation**: with C06, only `wireSide` of the wire form remains. -/
theorem codec_roundtrip_json_plain (env : Env) (L : Leaves) (hE : C06.plainEnv env = true)
    (hL : C06.LeafPlain L) (n : Nat) (t : Ty) (v m : Val) (ht : C06.plainTy t = true)
    (hm : mar env L n t v = .ok m) (hu : um env L n t m = .ok v) (hS : wireSide m = true) :
    codecEncode env L n t jsonCoder v = .ok (.text .bytes (renderJson m))
      ∧ jsonParse (renderJson m) = some m
      ∧ codecDecode env L n t jsonCoder (.text .bytes (renderJson m)) = .ok v := by
  have hb : isBytesTy t = false := by
    cases t with
    | scalar s => cases s <;> first | rfl | simp [C06.plainTy] at ht
    | _ => rfl
  exact codec_roundtrip_json env L n t v m hm hu
    (plainWire_of_jsonPlain m (C06.marshal_plain env L hE hL n t v m ht hm) hS) hb

/-- Non-vacuity: `{"a": [1, None]}` under `dict[str, list[int | None]]` with the executable leaves —
    marshals to itself, unmarshals back, and the side conditions hold. -/
example : wireSide (.dict [(.str ['a'], .list [.int 1, .none])]) = true := by decide
example :
    let t : Ty := .dict (.scalar .str) (.coll .list (.union [.scalar .int, .none]))
    let v : Val := .dict [(.str ['a'], .list [.int 1, .none])]
    codecEncode [] (pyLeaves []) 6 t jsonCoder v = .ok (.text .bytes (renderJson v))
      ∧ codecDecode [] (pyLeaves []) 6 t jsonCoder (.text .bytes (renderJson v)) = .ok v := by
  intro t v
  have h := codec_roundtrip_json_plain [] (pyLeaves []) (by decide) (C06.pyLeaves_plain [] 0) 6 t v v
    (by decide) (by rfl) (by rfl) (by decide)
  exact ⟨h.1, h.2.2⟩

/-- The side conditions are needed: a float has no text in the fragment, and a 65-bit integer is not
    read back as an integer. -/
example : jsonEnc (.float ['1', '.', '5']) = .error .unsupported := rfl
example : jsonParse (renderJson (.int 18446744073709551616)) = none := by rfl

end Typelib.C02
