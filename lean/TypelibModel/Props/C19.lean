/-
  C19 — Slotted dataclasses behave like the original dataclass: the BOOKKEEPING half.

  Proved here, for every class description and every history of decorations (no bound):
    * `slots_formula`, `mem_slotsOf`, `slots_nodup`, `own_slots_ignored` — what `__slots__` is;
    * `no_field_default_in_dict`, `special_not_in_dict`, `slots_key_in_dict`, `other_attrs_kept`,
      `setstate_fix_iff`, `setstate_fix_respects_inherited`, `own_setstate_kept` — the rewritten class dict;
    * `creation_rule_satisfied` — the computed slots never violate the modelled rule of
      `type.__new__` (hypotheses: the class's best base is part of its MRO tail and is not
      variable-sized; no field is called `__setstate__`); both hypotheses are needed
      (`creation_fails_on_varsize_base`, `field_named_setstate_conflicts`);
    * `guard_empty_at_rest`, `guard_never_grows`, `history_independent`, `never_spurious_raise`,
      `plain_dataclass_created` — the module-global guard; `finally_needed` shows the statement is
      false for the decoration without its `finally` clause; `reentrant_caught` shows the guard
      still does its job;
    * `names_preserved`.

  Not proved (outside the model): that instances of the new class are constructed / compared /
  hashed / printed / copied / pickled like those of the original.  harness/props/c19.py observes it.
-/
import TypelibModel.Model.Slotted
namespace Typelib.C19
open Typelib Typelib.Slotted

/-! ### key-list lemmas -/

theorem mem_addKey {ks : List Str} {k x : Str} : x ∈ addKey ks k ↔ x ∈ ks ∨ x = k := by
  unfold addKey
  split
  · constructor
    · intro h; exact Or.inl h
    · intro h; cases h with
      | inl h => exact h
      | inr h => subst h; assumption
  · simp

theorem nodup_addKey {ks : List Str} {k : Str} (h : ks.Nodup) : (addKey ks k).Nodup := by
  unfold addKey
  split
  · exact h
  · rename_i hk
    rw [List.nodup_append]
    refine ⟨h, by simp, ?_⟩
    intro a ha b hb
    simp at hb
    subst hb
    intro hab; subst hab; exact hk ha

theorem mem_popKey {ks : List Str} {k x : Str} : x ∈ popKey ks k ↔ x ∈ ks ∧ x ≠ k := by
  simp [popKey, neKey]

theorem mem_guardDiscard {st : State} {k x : Str} : x ∈ guardDiscard st k ↔ x ∈ st ∧ x ≠ k := by
  simp [guardDiscard, neKey]

theorem mem_popAll (names : List Str) : ∀ (ks : List Str) (x : Str),
    x ∈ popAll ks names ↔ x ∈ ks ∧ x ∉ names := by
  induction names with
  | nil => intro ks x; simp [popAll]
  | cons n ns ih =>
    intro ks x
    have : popAll ks (n :: ns) = popAll (popKey ks n) ns := rfl
    rw [this, ih, mem_popKey]
    simp only [List.mem_cons, not_or]
    constructor
    · rintro ⟨⟨a, b⟩, c⟩; exact ⟨a, b, c⟩
    · rintro ⟨a, b, c⟩; exact ⟨⟨a, b⟩, c⟩

theorem foldl_addKey_nodup (xs : List Str) : ∀ acc : List Str, acc.Nodup → (xs.foldl addKey acc).Nodup := by
  induction xs with
  | nil => intro acc h; exact h
  | cons x xs ih => intro acc h; exact ih _ (nodup_addKey h)

theorem mem_foldl_addKey (xs : List Str) : ∀ (acc : List Str) (y : Str),
    y ∈ xs.foldl addKey acc ↔ y ∈ acc ∨ y ∈ xs := by
  induction xs with
  | nil => intro acc y; simp
  | cons x xs ih =>
    intro acc y
    simp only [List.foldl_cons, ih, mem_addKey, List.mem_cons]
    constructor
    · rintro ((h | h) | h)
      · exact Or.inl h
      · exact Or.inr (Or.inl h)
      · exact Or.inr (Or.inr h)
    · rintro (h | h | h)
      · exact Or.inl (Or.inl h)
      · exact Or.inl (Or.inr h)
      · exact Or.inr h

/-- Folding distinct new keys into a dict appends them in order. -/
theorem foldl_addKey_append (xs : List Str) : ∀ acc : List Str, (acc ++ xs).Nodup →
    xs.foldl addKey acc = acc ++ xs := by
  induction xs with
  | nil => intro acc _; simp
  | cons x xs ih =>
    intro acc h
    have hx : x ∉ acc := by
      intro hmem
      rw [List.nodup_append] at h
      exact h.2.2 x hmem x (by simp) rfl
    have h1 : addKey acc x = acc ++ [x] := by simp [addKey, hx]
    simp only [List.foldl_cons, h1]
    rw [ih (acc ++ [x]) (by simpa using h)]
    simp

theorem mem_fieldKeys {c : Cls} {x : Str} : x ∈ fieldKeys c ↔ x ∈ c.fields ∧ x ≠ [] := by
  simp [fieldKeys, mem_foldl_addKey, nonEmpty]

theorem fieldKeys_nodup (c : Cls) : (fieldKeys c).Nodup :=
  foldl_addKey_nodup _ [] List.nodup_nil

theorem mem_fieldNames {c : Cls} {f : Flags} {x : Str} :
    x ∈ fieldNames c f ↔ (x ∈ c.fields ∧ x ≠ []) ∨ (f.dict = true ∧ x = kDict) ∨ (f.weakref = true ∧ x = kWeakref) := by
  unfold fieldNames
  cases hd : f.dict <;> cases hw : f.weakref <;> simp [mem_addKey, mem_fieldKeys, or_assoc]

theorem fieldNames_nodup (c : Cls) (f : Flags) : (fieldNames c f).Nodup := by
  unfold fieldNames
  cases f.dict <;> cases f.weakref <;> simp [nodup_addKey, fieldKeys_nodup]

theorem notInherited_iff {c : Cls} {x : Str} : notInherited c x = true ↔ x ∉ inheritedSlots c := by
  simp [notInherited]

/-! ### the `__slots__` tuple -/

/-- Membership in the computed `__slots__`, for every class description. -/
theorem mem_slotsOf (c : Cls) (f : Flags) (x : Str) :
    x ∈ slotsOf c f ↔
      ((x ∈ c.fields ∧ x ≠ []) ∨ (f.dict = true ∧ x = kDict) ∨ (f.weakref = true ∧ x = kWeakref))
        ∧ x ∉ inheritedSlots c := by
  simp only [slotsOf, List.mem_filter, mem_fieldNames, notInherited_iff]

/-- `__slots__` never lists a name twice (the code builds it from dict keys). -/
theorem slots_nodup (c : Cls) (f : Flags) : (slotsOf c f).Nodup :=
  (fieldNames_nodup c f).filter _

/-- The fields of a dataclass: distinct non-empty names, none of them `__dict__` / `__weakref__`. -/
def FieldsOk (c : Cls) : Prop :=
  c.fields.Nodup ∧ [] ∉ c.fields ∧ kDict ∉ c.fields ∧ kWeakref ∉ c.fields

instance (c : Cls) : Decidable (FieldsOk c) := by unfold FieldsOk; infer_instance

theorem fieldKeys_eq {c : Cls} (h : FieldsOk c) : fieldKeys c = c.fields := by
  have hf : c.fields.filter nonEmpty = c.fields := by
    rw [List.filter_eq_self]
    intro a ha
    cases a with
    | nil => exact absurd ha h.2.1
    | cons _ _ => rfl
  unfold fieldKeys
  rw [hf, foldl_addKey_append _ [] (by simpa using h.1)]
  simp

/-- **slots_formula.** The slots are exactly the non-inherited field names in field order, then
    `__dict__` iff requested and not inherited, then `__weakref__` iff requested and not inherited. -/
theorem slots_formula (c : Cls) (f : Flags) (h : FieldsOk c) :
    slotsOf c f = c.fields.filter (notInherited c)
      ++ (if f.dict && notInherited c kDict then [kDict] else [])
      ++ (if f.weakref && notInherited c kWeakref then [kWeakref] else []) := by
  have hD : kDict ∉ c.fields := h.2.2.1
  have hW : kWeakref ∉ c.fields := h.2.2.2
  have hDW : kDict ≠ kWeakref := by decide
  unfold slotsOf fieldNames
  rw [fieldKeys_eq h]
  cases hd : f.dict <;> cases hw : f.weakref
  · simp
  · simp [addKey, hW, List.filter_append, List.filter_cons]
  · simp [addKey, hD, List.filter_append, List.filter_cons]
  · have : kWeakref ∉ c.fields ++ [kDict] := by
      simp only [List.mem_append, List.mem_singleton, not_or]
      exact ⟨hW, fun e => hDW e.symm⟩
    simp only [addKey, hD, this, if_false, if_true]
    cases hnd : notInherited c kDict <;> cases hnw : notInherited c kWeakref <;>
      simp [List.filter_append, hnd, hnw]

/-- The repaired code scans `cls.mro()[1:]`: the class's own `__slots__` plays no role. -/
theorem own_slots_ignored (c : Cls) (f : Flags) (s : Option (List Str)) :
    slotsOf { c with ownSlots := s } f = slotsOf c f ∧ newDict { c with ownSlots := s } f = newDict c f :=
  ⟨rfl, rfl⟩

/-! ### the rewritten class dict -/

theorem mem_preDict {c : Cls} {f : Flags} {x : Str} :
    x ∈ popKey (popKey (popKey (popAll (addKey c.dictKeys kSlots) (fieldNames c f)) kDict) kWeakref) kSlotnames ↔
      (x ∈ c.dictKeys ∨ x = kSlots) ∧ x ∉ fieldNames c f ∧ x ≠ kDict ∧ x ≠ kWeakref ∧ x ≠ kSlotnames := by
  simp only [mem_popKey, mem_popAll, mem_addKey]
  constructor
  · rintro ⟨⟨⟨⟨a, b⟩, c⟩, d⟩, e⟩; exact ⟨a, b, c, d, e⟩
  · rintro ⟨a, b, c, d, e⟩; exact ⟨⟨⟨⟨a, b⟩, c⟩, d⟩, e⟩

theorem mem_newDict {c : Cls} {f : Flags} {x : Str} :
    x ∈ newDict c f ↔
      ((x ∈ c.dictKeys ∨ x = kSlots) ∧ x ∉ fieldNames c f ∧ x ≠ kDict ∧ x ≠ kWeakref ∧ x ≠ kSlotnames)
        ∨ (setstateFixed c f = true ∧ x = kSetstate) := by
  unfold newDict setstateFixed
  simp only []
  split
  · rename_i hfix
    rw [mem_addKey, mem_preDict]; simp [hfix]
  · rename_i hfix
    rw [mem_preDict]; simp [hfix]

/-- **no_field_default_in_dict.** No field name (and neither `__dict__` nor `__weakref__` when
    requested) remains a key of the new class dict: no slot can conflict with a class attribute.
    (Hypothesis: no field is called `__setstate__`, see `field_named_setstate_conflicts`.) -/
theorem no_field_default_in_dict (c : Cls) (f : Flags) (h : kSetstate ∉ c.fields) :
    ∀ n ∈ fieldNames c f, n ∉ newDict c f := by
  intro n hn hmem
  rw [mem_newDict] at hmem
  cases hmem with
  | inl h1 => exact h1.2.1 hn
  | inr h1 =>
    obtain ⟨_, rfl⟩ := h1
    rw [mem_fieldNames] at hn
    rcases hn with hn | hn | hn
    · exact h hn.1
    · exact absurd hn.2 (by decide)
    · exact absurd hn.2 (by decide)

/-- `__dict__` and `__weakref__` are never keys of the new class dict (classes.py:119-120). -/
theorem special_not_in_dict (c : Cls) (f : Flags) : kDict ∉ newDict c f ∧ kWeakref ∉ newDict c f := by
  constructor <;> (intro h; rw [mem_newDict] at h)
  · rcases h with h | h
    · exact h.2.2.1 rfl
    · exact absurd h.2 (by decide)
  · rcases h with h | h
    · exact h.2.2.2.1 rfl
    · exact absurd h.2 (by decide)

/-- The slot names `copyreg` cached for the ORIGINAL class (`__slotnames__`, written into the class dict by the first
    copy / pickle of an instance) are never carried into the new class (the repair of 2185bc3: a stale `[]` made every
    copy of a slotted instance fail). -/
theorem slotnames_not_in_dict (c : Cls) (f : Flags) : kSlotnames ∉ newDict c f := by
  intro h; rw [mem_newDict] at h
  rcases h with h | h
  · exact h.2.2.2.2 rfl
  · exact absurd h.2 (by decide)

/-- The new dict does carry the `__slots__` entry. -/
theorem slots_key_in_dict (c : Cls) (f : Flags) (h : kSlots ∉ c.fields) : kSlots ∈ newDict c f := by
  rw [mem_newDict]
  refine Or.inl ⟨Or.inr rfl, ?_, by decide, by decide, by decide⟩
  rw [mem_fieldNames]
  rintro (h1 | h1 | h1)
  · exact h h1.1
  · exact absurd h1.2 (by decide)
  · exact absurd h1.2 (by decide)

/-- Everything else of the class (methods, ClassVars, generated dunder methods, `__module__`, …) is kept. -/
theorem other_attrs_kept (c : Cls) (f : Flags) (k : Str) (hk : k ∈ c.dictKeys)
    (h1 : k ∉ c.fields) (h2 : k ≠ kDict) (h3 : k ≠ kWeakref) (h4 : k ≠ kSlotnames) : k ∈ newDict c f := by
  rw [mem_newDict]
  refine Or.inl ⟨Or.inl hk, ?_, h2, h3, h4⟩
  rw [mem_fieldNames]
  rintro (h | h | h)
  · exact h1 h.1
  · exact h2 h.2
  · exact h3 h.2

/-- **setstate_fix_iff.** The pickle fix is installed exactly for frozen classes with no state method
    declared anywhere along the MRO (the class's own dict or a base other than `object`). -/
theorem setstate_fix_iff (c : Cls) (f : Flags) :
    setstateFixed c f = true ↔
      c.frozen = true ∧ kGetstate ∉ c.dictKeys ∧ kSetstate ∉ c.dictKeys ∧ c.baseUserState = false := by
  simp [setstateFixed, stateFix, and_assoc]

/-- State methods inherited from a base are respected: the fix is never put on top of them
    (the repair of 900dc83; before it the test looked at the class's own dict only). -/
theorem setstate_fix_respects_inherited (c : Cls) (f : Flags) (h : setstateFixed c f = true) :
    c.baseUserState = false := ((setstate_fix_iff c f).mp h).2.2.2

/-- A user-defined `__setstate__` of the class itself is kept (not replaced, not dropped). -/
theorem own_setstate_kept (c : Cls) (f : Flags) (h : kSetstate ∈ c.dictKeys) (hf : kSetstate ∉ c.fields) :
    kSetstate ∈ newDict c f ∧ setstateFixed c f = false := by
  refine ⟨other_attrs_kept c f kSetstate h hf (by decide) (by decide) (by decide), ?_⟩
  cases hs : setstateFixed c f with
  | false => rfl
  | true => exact absurd h ((setstate_fix_iff c f).mp hs).2.2.1

/-! ### CPython's creation rule -/

theorem visitSlots_none (xs : List Str) : ∀ (mayD mayW : Bool), xs.Nodup →
    (kDict ∈ xs → mayD = true) → (kWeakref ∈ xs → mayW = true) → visitSlots mayD mayW xs = none := by
  induction xs with
  | nil => intros; rfl
  | cons x xs ih =>
    intro mayD mayW hnd hD hW
    rw [List.nodup_cons] at hnd
    unfold visitSlots
    by_cases h1 : x = kDict
    · subst h1
      simp only [if_true]
      rw [hD (by simp)]
      simp only [if_true]
      exact ih false mayW hnd.2 (fun h => absurd h hnd.1) (fun h => hW (List.mem_cons_of_mem _ h))
    · simp only [h1, if_false]
      by_cases h2 : x = kWeakref
      · subst h2
        simp only [if_true]
        rw [hW (by simp)]
        simp only [if_true]
        exact ih mayD false hnd.2 (fun h => hD (List.mem_cons_of_mem _ h)) (fun h => absurd h hnd.1)
      · simp only [h2, if_false]
        exact ih mayD mayW hnd.2 (fun h => hD (List.mem_cons_of_mem _ h)) (fun h => hW (List.mem_cons_of_mem _ h))

/-- What a class description of a real dataclass satisfies: no field is called `__setstate__`; the
    best base of `type.__new__` (`cls.__base__`) is one of `cls.mro()[1:]`, so its offsets are seen
    by the scan of classes.py:102-105; it is not a variable-sized builtin. -/
def WF (c : Cls) : Prop :=
  kSetstate ∉ c.fields ∧ (c.solidDict = true → c.baseHasDict = true)
    ∧ (c.solidWeak = true → c.baseHasWeakref = true) ∧ c.solidVar = false

instance (c : Cls) : Decidable (WF c) := by unfold WF; infer_instance

theorem kDict_inherited {c : Cls} (h : c.baseHasDict = true) : kDict ∈ inheritedSlots c := by
  simp [inheritedSlots, h]

theorem kWeakref_inherited {c : Cls} (h : c.baseHasWeakref = true) : kWeakref ∈ inheritedSlots c := by
  simp [inheritedSlots, h]

/-- **creation_rule_satisfied.** For every class description with `WF` and all flags, the computed
    `__slots__` over the rewritten dict pass the modelled rule of `type.__new__`. -/
theorem creation_rule_satisfied (c : Cls) (f : Flags) (h : WF c) :
    creationErr c (slotsOf c f) (newDict c f) = none := by
  obtain ⟨hS, hD, hW, hV⟩ := h
  have hvisit : visitSlots (!c.solidDict) (!c.solidWeak && !c.solidVar) (slotsOf c f) = none := by
    apply visitSlots_none _ _ _ (slots_nodup c f)
    · intro hm
      rw [mem_slotsOf] at hm
      cases hsd : c.solidDict with
      | false => rfl
      | true => exact absurd (kDict_inherited (hD hsd)) hm.2
    · intro hm
      rw [mem_slotsOf] at hm
      rw [hV]
      cases hsw : c.solidWeak with
      | false => rfl
      | true => exact absurd (kWeakref_inherited (hW hsw)) hm.2
  have hconf : conflicts (slotsOf c f) (newDict c f) = false := by
    unfold conflicts
    rw [List.any_eq_false]
    intro s hs
    have hs' : s ∈ fieldNames c f := (List.mem_filter.mp hs).1
    have := no_field_default_in_dict c f hS s hs'
    simp [conflictsWith, this]
  simp only [hV, Bool.not_false, Bool.and_true] at hvisit
  simp [creationErr, hV, hvisit, hconf]

theorem creationRule_holds (c : Cls) (f : Flags) (h : WF c) :
    creationRule c (slotsOf c f) (newDict c f) = true := by
  simp [creationRule, creation_rule_satisfied c f h]

/-! ### the guard -/

theorem wrapInner_state (st : State) (c : Cls) (f : Flags) (ok : Bool) :
    (wrapInner st c f ok).1 = st ∨ (wrapInner st c f ok).1 = guardAdd st c.key ∨ (wrapInner st c f ok).1 = [] := by
  unfold wrapInner
  split
  · exact Or.inl rfl
  · simp only []
    split
    · exact Or.inr (Or.inl rfl)
    · split
      · exact Or.inr (Or.inl rfl)
      · split
        · exact Or.inr (Or.inr rfl)
        · exact Or.inr (Or.inl rfl)

theorem mem_guardAdd {st : State} {k x : Str} : x ∈ guardAdd st k ↔ x ∈ st ∨ x = k := by
  unfold guardAdd
  split
  · constructor
    · exact Or.inl
    · rintro (h | h)
      · exact h
      · subst h; assumption
  · simp [or_comm]

/-- After a completed top-level decoration — returned or raised — the guard holds nothing it did
    not hold before, and not the key of the decorated class: from ANY state. -/
theorem guard_never_grows (st : State) (c : Cls) (f : Flags) (ok : Bool) :
    ∀ x ∈ (decorate st c f ok).1, x ∈ st ∧ x ≠ c.key := by
  intro x hx
  unfold decorate at hx
  simp only [] at hx
  rw [mem_guardDiscard] at hx
  refine ⟨?_, hx.2⟩
  rcases wrapInner_state st c f ok with h | h | h <;> rw [h] at hx
  · exact hx.1
  · rcases mem_guardAdd.mp hx.1 with h1 | h1
    · exact h1
    · exact absurd h1 hx.2
  · simp at hx

theorem decorate_nil_state (c : Cls) (f : Flags) (ok : Bool) : (decorate [] c f ok).1 = [] := by
  apply List.eq_nil_iff_forall_not_mem.mpr
  intro x hx
  exact absurd (guard_never_grows [] c f ok x hx).1 (by simp)

theorem decorate_held (st : State) (c : Cls) (f : Flags) (ok : Bool) (h : c.key ∈ st) :
    decorate st c f ok = (guardDiscard st c.key, .metaclassError) := by
  simp [decorate, wrapInner, h]

theorem wrapInnerRe_state (st : State) (c : Cls) (f : Flags) (ok : Bool) :
    ∀ x ∈ (wrapInnerRe st c f ok).1, x ∈ st ∨ x = c.key := by
  intro x hx
  unfold wrapInnerRe at hx
  split at hx
  · exact Or.inl hx
  · simp only [] at hx
    split at hx
    · exact mem_guardAdd.mp hx
    · split at hx
      · exact mem_guardAdd.mp hx
      · split at hx
        · split at hx
          · simp at hx
          · exact mem_guardAdd.mp (guard_never_grows _ c f ok x hx).1
        · exact mem_guardAdd.mp (guard_never_grows _ c f ok x hx).1

theorem guard_never_grows_re (st : State) (c : Cls) (f : Flags) (ok : Bool) :
    ∀ x ∈ (decorateRe st c f ok).1, x ∈ st ∧ x ≠ c.key := by
  intro x hx
  unfold decorateRe at hx
  simp only [] at hx
  rw [mem_guardDiscard] at hx
  refine ⟨?_, hx.2⟩
  rcases wrapInnerRe_state st c f ok x hx.1 with h | h
  · exact h
  · exact absurd h hx.2

theorem stepRun_nil_state (s : Step) : (stepRun [] s).1 = [] := by
  apply List.eq_nil_iff_forall_not_mem.mpr
  intro x hx
  unfold stepRun at hx
  split at hx
  · exact absurd (guard_never_grows_re [] _ _ _ x hx).1 (by simp)
  · exact absurd (guard_never_grows [] _ _ _ x hx).1 (by simp)

/-- **history_independent.** In every history that starts with the guard at rest, each decoration
    behaves as if it were the only one: the outcome does not depend on what was decorated before
    (same names / reprs, failed decorations, re-entrant ones included), and the guard is at rest
    again afterwards. -/
theorem history_independent (steps : List Step) :
    run [] steps = steps.map (fun s => ((stepRun [] s).2, [])) := by
  induction steps with
  | nil => rfl
  | cons s rest ih =>
    simp only [run, List.map_cons, stepRun_nil_state s]
    rw [ih]

/-- **guard_empty_at_rest.** After every completed — successful or failed — top-level decoration of
    every history the guard is empty. -/
theorem guard_empty_at_rest (steps : List Step) : ∀ p ∈ run [] steps, p.2 = [] := by
  rw [history_independent]
  intro p hp
  obtain ⟨s, _, rfl⟩ := List.mem_map.mp hp
  rfl

/-- A decoration that finds the guard at rest never answers with the metaclass error,
    unless the metaclass really calls back. -/
theorem decorate_nil_not_metaclassError (c : Cls) (f : Flags) (ok : Bool) :
    (decorate [] c f ok).2 ≠ .metaclassError := by
  unfold decorate wrapInner
  simp only [List.not_mem_nil, if_false]
  split
  · simp
  · split
    · simp
    · split <;> simp

theorem zip_map_self {α β : Type} (g : α → β) : ∀ (xs : List α), ∀ p ∈ (xs.map g).zip xs, p.1 = g p.2 := by
  intro xs
  induction xs with
  | nil => intro p hp; simp at hp
  | cons a as ih =>
    intro p hp
    simp only [List.map_cons, List.zip_cons_cons, List.mem_cons] at hp
    rcases hp with h | h
    · subst h; rfl
    · exact ih p h

/-- **never_spurious_raise.** For any history of decorations, in any order, repeated names / reprs
    and failing decorations included: no decoration of a plain-metaclass class (`reentrant = false`)
    returns the metaclass error. -/
theorem never_spurious_raise (steps : List Step) :
    ∀ p ∈ (run [] steps).zip steps, p.2.reentrant = false → p.1.1 ≠ .metaclassError := by
  rw [history_independent]
  intro p hp hre
  have hp1 := zip_map_self (fun s => ((stepRun [] s).2, ([] : State))) steps p hp
  rw [hp1]
  simp only [stepRun, hre]
  exact decorate_nil_not_metaclassError _ _ _

/-- **plain_dataclass_created.** In every history, the decoration of a plain-metaclass dataclass whose
    description is `WF` and whose creation the environment does not sabotage returns the new class
    with the computed slots — the positive form of "decorating never raises". -/
theorem plain_dataclass_created (pre post : List Step) (s : Step)
    (hd : s.cls.isDataclass = true) (hwf : WF s.cls) (hok : s.creationOk = true) (hre : s.reentrant = false) :
    (run [] (pre ++ s :: post))[pre.length]? = some (.created (build s.cls s.flags), []) := by
  rw [history_independent]
  simp only [List.map_append, List.map_cons]
  rw [List.getElem?_append_right (by simp)]
  simp [stepRun, hre, decorate, wrapInner, hd, creation_rule_satisfied _ _ hwf, hok]

/-- **names_preserved.** Whenever a decoration returns a class, its `__name__`, `__qualname__` and
    `__module__` are those of the decorated class, and its slots / dict are the computed ones. -/
theorem names_preserved (st : State) (s : Step) (r : Created) (h : (stepRun st s).2 = .created r) :
    r.name = s.cls.name ∧ r.qualname = s.cls.qualname ∧ r.module = s.cls.module
      ∧ r.slots = slotsOf s.cls s.flags ∧ r.dict = newDict s.cls s.flags := by
  have key : r = build s.cls s.flags := by
    unfold stepRun decorateRe decorate wrapInnerRe wrapInner at h
    simp only [] at h
    repeat' split at h
    all_goals first
      | (injection h with h; exact h.symm)
      | (exfalso; simp_all [Outcome.isCreated]; done)
      | skip
    all_goals
      rename_i hc
      revert hc h
      intro hc h
      cases hx : (decorate (guardAdd st s.cls.key) s.cls s.flags s.creationOk).2 <;>
        simp_all [Outcome.isCreated]
  subst key
  exact ⟨rfl, rfl, rfl, rfl, rfl⟩

/-- **reentrant_caught.** Under a metaclass that calls `slotted` again on the class being built, the
    inner call finds the key in the guard and the decoration ends with the metaclass error — from
    any state, without recursion — and the guard does not keep the key. -/
theorem reentrant_caught (st : State) (c : Cls) (f : Flags) (ok : Bool)
    (hd : c.isDataclass = true) (hcr : creationErr c (slotsOf c f) (newDict c f) = none) :
    (decorateRe st c f ok).2 = .metaclassError ∧ c.key ∉ (decorateRe st c f ok).1 := by
  refine ⟨?_, fun h => (guard_never_grows_re st c f ok _ h).2 rfl⟩
  unfold decorateRe wrapInnerRe
  by_cases hk : c.key ∈ st
  · simp [hk]
  · have hin : c.key ∈ guardAdd st c.key := mem_guardAdd.mpr (Or.inr rfl)
    simp [hk, hd, hcr, decorate_held _ c f ok hin, Outcome.isCreated]

/-! ### Non-vacuity and witnesses -/

/-- `@dataclass(frozen=True) class P: x: int; y: int = 3; z: list = field(default_factory=list)` in module `m`. -/
def exP : Cls :=
  { key := "<class 'm.P'>".toList, name := "P".toList, qualname := "P".toList, module := "m".toList,
    fields := ["x".toList, "y".toList, "z".toList],
    dictKeys := ["__module__".toList, "__annotations__".toList, "y".toList, "__dict__".toList, "__weakref__".toList,
                 "__doc__".toList, "__dataclass_params__".toList, "__dataclass_fields__".toList,
                 "__init__".toList, "__repr__".toList, "__eq__".toList, "__setattr__".toList,
                 "__delattr__".toList, "__hash__".toList, "__match_args__".toList],
    baseSlots := [[]], frozen := true }

/-- `@dataclass class Q(slotted(P, weakref=False)): w: int = 4` — a child of a slotted base. -/
def exQ : Cls :=
  { key := "<class 'm.Q'>".toList, name := "Q".toList, qualname := "Q".toList, module := "m".toList,
    fields := ["x".toList, "y".toList, "z".toList, "w".toList],
    dictKeys := ["__module__".toList, "__annotations__".toList, "w".toList, "__dict__".toList, "__weakref__".toList,
                 "__doc__".toList, "__init__".toList],
    baseSlots := [["x".toList, "y".toList, "z".toList], []], frozen := true }

/-- `@dataclass class R(P0): w: int = 4` over an unslotted dataclass `P0` (which has `__dict__` and `__weakref__`). -/
def exR : Cls :=
  { exQ with key := "<class 'm.R'>".toList, name := "R".toList, qualname := "R".toList,
             baseSlots := [[], []], baseHasDict := true, baseHasWeakref := true, solidDict := true, solidWeak := true }

/-- a plain class of the same repr as `P` -/
def exN : Cls := { exP with isDataclass := false, fields := [] }

example : FieldsOk exP ∧ WF exP ∧ FieldsOk exQ ∧ WF exQ ∧ FieldsOk exR ∧ WF exR := by decide
example : slotsOf exP {} = ["x".toList, "y".toList, "z".toList, "__weakref__".toList] := by decide
example : slotsOf exP { dict := true, weakref := true } =
    ["x".toList, "y".toList, "z".toList, "__dict__".toList, "__weakref__".toList] := by decide
example : slotsOf exQ { dict := true, weakref := true } = ["w".toList, "__dict__".toList, "__weakref__".toList] := by decide
example : slotsOf exR { dict := true, weakref := true } = ["x".toList, "y".toList, "z".toList, "w".toList] := by decide
/-- the formula's right-hand side is the real thing on the example -/
example : slotsOf exQ {} = exQ.fields.filter (notInherited exQ) ++ [] ++ [kWeakref] := by
  rw [slots_formula exQ {} (by decide)]; decide
example : "y".toList ∈ exP.dictKeys ∧ "y".toList ∉ newDict exP {} ∧ kSetstate ∈ newDict exP {} ∧ kSlots ∈ newDict exP {} := by decide
example : creationErr exR (slotsOf exR {}) (newDict exR {}) = none := creation_rule_satisfied exR {} (by decide)

/-- Without the skip of inherited `__weakref__` (the scan of classes.py:104-105) the default flags would
    violate the creation rule on a child of an unslotted base: the rule is not vacuous. -/
example : creationErr exR (slotsOf { exR with baseHasWeakref := false } {}) (newDict exR {}) = some .weakrefSlot := by decide
/-- Nor is the conflict clause: a default left in the dict is rejected. -/
example : creationErr exP (slotsOf exP {}) exP.dictKeys = some .conflict := by decide

/-- A history with repeated reprs, a failing decoration in the middle, a re-entrant metaclass and a
    child class: every plain step is created, the guard is empty after each step. -/
def exHistory : List Step :=
  [{ cls := exP }, { cls := exN }, { cls := exP, flags := { dict := true, weakref := false } },
   { cls := exP, reentrant := true }, { cls := exP, creationOk := false }, { cls := exQ }, { cls := exP }]

example : (run [] exHistory).map (fun p => (p.1.isCreated, p.2)) =
    [(true, []), (false, []), (true, []), (false, []), (false, []), (true, []), (true, [])] := by decide
example : (run [] exHistory)[1]? = some (.notDataclass, []) ∧ (run [] exHistory)[3]? = some (.metaclassError, [])
    ∧ (run [] exHistory)[4]? = some (.envError, []) := by decide
example : (run [] exHistory)[6]? = some (.created (build exP {}), []) :=
  plain_dataclass_created (exHistory.take 6) [] { cls := exP } rfl (by decide) rfl rfl

/-- **finally_needed.** The decoration without its `finally` clause (the tree before the repair, and the
    mutation the check must catch): a failed decoration leaves the key behind and the next
    decoration of a class with the same repr gets the metaclass error although its metaclass is `type`. -/
theorem finally_needed :
    ¬ (∀ steps : List Step, ∀ p ∈ (runNoFinally [] steps).zip steps, p.2.reentrant = false → p.1.1 ≠ .metaclassError) := by
  intro h
  exact h [{ cls := exN }, { cls := exP }] ((.metaclassError, exP.key :: []), { cls := exP }) (by decide) rfl rfl

/-- **creation_fails_on_varsize_base.** `WF` cannot drop `solidVar = false`: a dataclass deriving from
    `tuple` / `int` cannot get non-empty slots (CPython's rule, the same for `@dataclass(slots=True)`).
    Full statement `∀ c f, creationErr c (slotsOf c f) (newDict c f) = none` is false. -/
theorem creation_fails_on_varsize_base :
    ¬ (∀ (c : Cls) (f : Flags), creationErr c (slotsOf c f) (newDict c f) = none) := by
  intro h
  exact absurd (h { exP with solidVar := true } {}) (by decide)

/-- **field_named_setstate_conflicts.** `no_field_default_in_dict` needs its hypothesis: in a frozen
    class with a field called `__setstate__` the pickle fix re-adds the key after the field was popped.
    Full statement `∀ c f, ∀ n ∈ fieldNames c f, n ∉ newDict c f` is false. -/
theorem field_named_setstate_conflicts :
    ¬ (∀ (c : Cls) (f : Flags), ∀ n ∈ fieldNames c f, n ∉ newDict c f) := by
  intro h
  exact h { exP with fields := [kSetstate] } {} kSetstate (by decide) (by decide)

/-- The rule the code had before 900dc83 — only the class's own (rewritten) dict is consulted — put the
    fix on top of inherited state methods; under the current rule the same description gets none. -/
example : (exQ.frozen && !exQ.dictKeys.contains kGetstate && !exQ.dictKeys.contains kSetstate) = true
    ∧ setstateFixed { exQ with baseUserState := true } {} = false ∧ setstateFixed exQ {} = true := by decide

end Typelib.C19
