/-
  C20 — Annotation rewriting for older interpreters preserves meaning.

  `Model/Future.lean` models `future.transform` on syntax trees (`transform g = normalize ∘ rawTransform g`,
  `g` = `_GENERICS`).  All theorems are over every expression tree `ast.parse` can produce (`wf`: `Name`
  ids are identifiers), of any size and nesting depth — structural induction, no bound:

    transform_no_pipe    noPipe (transform g e)                                   (every g, every e)
    transform_idem       transform g (transform g e) = transform g e              (goodTable g, wf e)
    transform_id         noConstructs g e → transform g e = e                     (every g)
    transform_preserves  annot e → denoteTy g (transform g e) = denoteTy g e      (goodTable g)

  `goodTable g` is the hypothesis the proofs force on the table: the first segment of every value
  of `g`, and of the union name, is not a key of `g` (otherwise the output would be rewritten again).
  It is discharged for the live, regenerated `Gen.futureGenerics` by `decide`, together with
  `aliasSound` (every pair of the table is a builtin name and *its* `typing` alias, a CPython fact
  the harness re-checks on the interpreter) and `valuesAreDottedNames` (so that `normalize` is what
  unparse → parse does to the names the transformer creates).
-/
import TypelibModel.Model.Future
import TypelibModel.Gen.Future
namespace Typelib.C20
open Typelib Typelib.Future

/-! ### Induction over the nested tree -/

theorem Expr.induct {P : Expr → Prop}
    (hname : ∀ id, P (.name id))
    (hattr : ∀ v a, P v → P (.attribute v a))
    (hsub : ∀ v s, P v → P s → P (.subscript v s))
    (htuple : ∀ es, (∀ x ∈ es, P x) → P (.tuple es))
    (hlist : ∀ es, (∀ x ∈ es, P x) → P (.list es))
    (hbinop : ∀ op l r, P l → P r → P (.binop op l r))
    (hunary : ∀ op e, P e → P (.unaryop op e))
    (hconst : ∀ c, P (.constant c))
    (hcall : ∀ f as ks, P f → (∀ x ∈ as, P x) → (∀ x ∈ ks, P x) → P (.call f as ks))
    (hother : ∀ tag cs, (∀ x ∈ cs, P x) → P (.other tag cs)) : ∀ e, P e := by
  intro e
  refine Expr.rec (motive_1 := P) (motive_2 := fun es => ∀ x ∈ es, P x)
    hname hattr hsub htuple hlist hbinop hunary hconst hcall hother ?_ ?_ e
  · intro x hx; cases hx
  · intro h t ph pt x hx
    cases hx with
    | head => exact ph
    | tail _ hx => exact pt x hx

/-! ### The list companions are `map` / `all` -/

theorem rawTransformL_eq (g : Table) : ∀ es, rawTransformL g es = es.map (rawTransform g)
  | [] => rfl
  | e :: es => by simp [rawTransformL, rawTransformL_eq g es]

theorem normalizeL_eq : ∀ es, normalizeL es = es.map normalize
  | [] => rfl
  | e :: es => by simp [normalizeL, normalizeL_eq es]

theorem denoteTyL_eq (g : Table) : ∀ es, denoteTyL g es = es.map (denoteTy g)
  | [] => rfl
  | e :: es => by simp [denoteTyL, denoteTyL_eq g es]

theorem noPipeL_eq : ∀ es, noPipeL es = es.all noPipe
  | [] => rfl
  | e :: es => by simp [noPipeL, noPipeL_eq es]

theorem wfL_eq : ∀ es, wfL es = es.all wf
  | [] => rfl
  | e :: es => by simp [wfL, wfL_eq es]

theorem noConstructsL_eq (g : Table) : ∀ es, noConstructsL g es = es.all (noConstructs g)
  | [] => rfl
  | e :: es => by simp [noConstructsL, noConstructsL_eq g es]

theorem annotL_eq : ∀ es, annotL es = es.all annot
  | [] => rfl
  | e :: es => by simp [annotL, annotL_eq es]

theorem map_id_of {α : Type} (f : α → α) : ∀ xs : List α, (∀ x ∈ xs, f x = x) → xs.map f = xs
  | [], _ => rfl
  | x :: xs, h => by
    simp only [List.map_cons, h x (by simp), map_id_of f xs (fun y hy => h y (by simp [hy]))]

/-! ### Dotted names -/

theorem splitDots_dotless : ∀ s : Str, dotless s = true → splitDots s = (s, [])
  | [], _ => rfl
  | c :: cs, h => by
    simp only [dotless, List.all_cons, Bool.and_eq_true, decide_eq_true_eq] at h
    have ih := splitDots_dotless cs (by simpa [dotless] using h.2)
    simp [splitDots, h.1, ih]

theorem splitDots_head_dotless : ∀ s : Str, dotless (splitDots s).1 = true
  | [] => rfl
  | c :: cs => by
    by_cases hc : c = '.'
    · simp [splitDots, hc, dotless]
    · have ih := splitDots_head_dotless cs
      simp [dotless] at ih
      simp [splitDots, hc, dotless]
      exact ih

/-! ### The literal form of `visit_BinOp` -/

theorem rawTransform_pipe (g : Table) (l r : Expr) :
    rawTransform g (.binop .bitor l r) = mkUnion (spineOf l (rawTransform g l) ++ [rawTransform g r]) := by
  simp [rawTransform]

theorem rawTransform_binop_other (g : Table) (op : Op) (l r : Expr) (h : op ≠ .bitor) :
    rawTransform g (.binop op l r) = .binop op (rawTransform g l) (rawTransform g r) := by
  simp [rawTransform, h]

theorem spineOf_collect (g : Table) : ∀ l, spineOf l (rawTransform g l) = (collect l).map (rawTransform g) := by
  intro l
  induction l using Expr.induct with
  | hbinop op l r ihl _ =>
    by_cases hop : op = .bitor
    · subst hop
      rw [rawTransform_pipe, ihl]
      simp [spineOf, isPipe, mkUnion, unionElts, collect]
    · cases op <;> first | exact absurd rfl hop | simp [spineOf, isPipe, collect]
  | _ => simp [spineOf, isPipe, collect]

/-- **`visit_BinOp` as the code has it** (future.py:52-74): collect the operands of the left spine of
    `|`, visit each of them, build `Union[...]`. -/
theorem rawTransform_binop_code (g : Table) (l r : Expr) :
    rawTransform g (.binop .bitor l r) = mkUnion ((collect l ++ [r]).map (rawTransform g)) := by
  rw [rawTransform_pipe, spineOf_collect]; simp


/-! ### `transform_no_pipe` -/

theorem noPipe_foldl_attr : ∀ (t : List Str) (acc : Expr), noPipe acc = true →
    noPipe (t.foldl Expr.attribute acc) = true
  | [], _, h => h
  | a :: t, acc, h => noPipe_foldl_attr t (.attribute acc a) (by simpa [noPipe] using h)

theorem noPipe_normName (id : Str) : noPipe (normName id) = true :=
  noPipe_foldl_attr _ _ rfl

theorem noPipe_normalize : ∀ e, noPipe e = true → noPipe (normalize e) = true := by
  intro e
  induction e using Expr.induct with
  | hname id => intro _; exact noPipe_normName id
  | hattr v a ih => simpa [noPipe, normalize] using ih
  | hsub v s ihv ihs =>
    intro h; simp only [noPipe, normalize, Bool.and_eq_true] at h ⊢; exact ⟨ihv h.1, ihs h.2⟩
  | htuple es ih =>
    intro h; simp only [noPipe, normalize, noPipeL_eq, normalizeL_eq, List.all_map, List.all_eq_true] at h ⊢
    exact fun x hx => ih x hx (h x hx)
  | hlist es ih =>
    intro h; simp only [noPipe, normalize, noPipeL_eq, normalizeL_eq, List.all_map, List.all_eq_true] at h ⊢
    exact fun x hx => ih x hx (h x hx)
  | hbinop op l r ihl ihr =>
    intro h; simp only [noPipe, normalize, Bool.and_eq_true] at h ⊢; exact ⟨⟨h.1.1, ihl h.1.2⟩, ihr h.2⟩
  | hunary op e ih => simpa [noPipe, normalize] using ih
  | hconst c => intro _; rfl
  | hcall f as ks ihf ihas ihks =>
    intro h
    simp only [noPipe, normalize, noPipeL_eq, normalizeL_eq, List.all_map, List.all_eq_true, Bool.and_eq_true] at h ⊢
    exact ⟨⟨ihf h.1.1, fun x hx => ihas x hx (h.1.2 x hx)⟩, fun x hx => ihks x hx (h.2 x hx)⟩
  | hother tag cs ih =>
    intro h; simp only [noPipe, normalize, noPipeL_eq, normalizeL_eq, List.all_map, List.all_eq_true] at h ⊢
    exact fun x hx => ih x hx (h x hx)

theorem noPipe_spineOf (l rl : Expr) (h : noPipe rl = true) : ∀ x ∈ spineOf l rl, noPipe x = true := by
  unfold spineOf
  split
  · intro x hx
    unfold unionElts at hx
    split at hx
    · simp only [noPipe, noPipeL_eq, Bool.and_eq_true, List.all_eq_true] at h; exact h.2 x hx
    · simp only [List.mem_singleton] at hx; subst hx; exact h
  · intro x hx; simp only [List.mem_singleton] at hx; subst hx; exact h

theorem noPipe_visitName (g : Table) (id : Str) : noPipe (visitName g id) = true := by
  unfold visitName; split <;> rfl

theorem noPipe_rawTransform (g : Table) : ∀ e, noPipe (rawTransform g e) = true := by
  intro e
  induction e using Expr.induct with
  | hname id => exact noPipe_visitName g id
  | hattr v a ih => simpa [noPipe, rawTransform] using ih
  | hsub v s ihv ihs => simp [noPipe, rawTransform, ihv, ihs]
  | htuple es ih =>
    simp only [noPipe, rawTransform, noPipeL_eq, rawTransformL_eq, List.all_map, List.all_eq_true]; exact ih
  | hlist es ih =>
    simp only [noPipe, rawTransform, noPipeL_eq, rawTransformL_eq, List.all_map, List.all_eq_true]; exact ih
  | hbinop op l r ihl ihr =>
    by_cases hop : op = .bitor
    · subst hop
      rw [rawTransform_pipe]
      simp only [mkUnion, noPipe, noPipeL_eq, Bool.true_and, List.all_eq_true, List.mem_append, List.mem_singleton]
      intro x hx
      cases hx with
      | inl hx => exact noPipe_spineOf l _ ihl x hx
      | inr hx => subst hx; exact ihr
    · rw [rawTransform_binop_other g op l r hop]; simp [noPipe, hop, ihl, ihr]
  | hunary op e ih => simpa [noPipe, rawTransform] using ih
  | hconst c => rfl
  | hcall f as ks ihf ihas ihks =>
    simp only [noPipe, rawTransform, noPipeL_eq, rawTransformL_eq, List.all_map, List.all_eq_true, Bool.and_eq_true]
    exact ⟨⟨ihf, ihas⟩, ihks⟩
  | hother tag cs ih =>
    simp only [noPipe, rawTransform, noPipeL_eq, rawTransformL_eq, List.all_map, List.all_eq_true]; exact ih

/-- **C20 (no PEP 604 union left).**  For every table and every expression tree, the output of
    `transform` has no `|` outside constants. -/
theorem transform_no_pipe (g : Table) (e : Expr) : noPipe (transform g e) = true :=
  noPipe_normalize _ (noPipe_rawTransform g e)

/-! ### `transform_id` -/

theorem lookup_none_of_not_isKey {g : Table} {x : Str} (h : isKey g x = false) : lookup g x = none := by
  unfold isKey at h; cases hl : lookup g x <;> simp_all

theorem rawTransform_id (g : Table) : ∀ e, noConstructs g e = true → rawTransform g e = e := by
  intro e
  induction e using Expr.induct with
  | hname id =>
    intro h
    simp only [noConstructs, Bool.and_eq_true, Bool.not_eq_eq_eq_not, Bool.not_true] at h
    simp [rawTransform, visitName, lookup_none_of_not_isKey h.2]
  | hattr v a ih => intro h; simp only [noConstructs] at h; simp [rawTransform, ih h]
  | hsub v s ihv ihs =>
    intro h; simp only [noConstructs, Bool.and_eq_true] at h; simp [rawTransform, ihv h.1, ihs h.2]
  | htuple es ih =>
    intro h; simp only [noConstructs, noConstructsL_eq, List.all_eq_true] at h
    simp [rawTransform, rawTransformL_eq, map_id_of _ es (fun x hx => ih x hx (h x hx))]
  | hlist es ih =>
    intro h; simp only [noConstructs, noConstructsL_eq, List.all_eq_true] at h
    simp [rawTransform, rawTransformL_eq, map_id_of _ es (fun x hx => ih x hx (h x hx))]
  | hbinop op l r ihl ihr =>
    intro h; simp only [noConstructs, Bool.and_eq_true, decide_eq_true_eq] at h
    rw [rawTransform_binop_other g op l r h.1.1, ihl h.1.2, ihr h.2]
  | hunary op e ih => intro h; simp only [noConstructs] at h; simp [rawTransform, ih h]
  | hconst c => intro _; rfl
  | hcall f as ks ihf ihas ihks =>
    intro h; simp only [noConstructs, noConstructsL_eq, List.all_eq_true, Bool.and_eq_true] at h
    simp [rawTransform, rawTransformL_eq, ihf h.1.1, map_id_of _ as (fun x hx => ihas x hx (h.1.2 x hx)),
      map_id_of _ ks (fun x hx => ihks x hx (h.2 x hx))]
  | hother tag cs ih =>
    intro h; simp only [noConstructs, noConstructsL_eq, List.all_eq_true] at h
    simp [rawTransform, rawTransformL_eq, map_id_of _ cs (fun x hx => ih x hx (h x hx))]

theorem normName_dotless {id : Str} (h : dotless id = true) : normName id = .name id := by
  simp [normName, splitDots_dotless id h, attrChain]

theorem normalize_id (g : Table) : ∀ e, noConstructs g e = true → normalize e = e := by
  intro e
  induction e using Expr.induct with
  | hname id =>
    intro h
    simp only [noConstructs, Bool.and_eq_true] at h
    simp [normalize, normName_dotless h.1]
  | hattr v a ih => intro h; simp only [noConstructs] at h; simp [normalize, ih h]
  | hsub v s ihv ihs =>
    intro h; simp only [noConstructs, Bool.and_eq_true] at h; simp [normalize, ihv h.1, ihs h.2]
  | htuple es ih =>
    intro h; simp only [noConstructs, noConstructsL_eq, List.all_eq_true] at h
    simp [normalize, normalizeL_eq, map_id_of _ es (fun x hx => ih x hx (h x hx))]
  | hlist es ih =>
    intro h; simp only [noConstructs, noConstructsL_eq, List.all_eq_true] at h
    simp [normalize, normalizeL_eq, map_id_of _ es (fun x hx => ih x hx (h x hx))]
  | hbinop op l r ihl ihr =>
    intro h; simp only [noConstructs, Bool.and_eq_true, decide_eq_true_eq] at h
    simp [normalize, ihl h.1.2, ihr h.2]
  | hunary op e ih => intro h; simp only [noConstructs] at h; simp [normalize, ih h]
  | hconst c => intro _; rfl
  | hcall f as ks ihf ihas ihks =>
    intro h; simp only [noConstructs, noConstructsL_eq, List.all_eq_true, Bool.and_eq_true] at h
    simp [normalize, normalizeL_eq, ihf h.1.1, map_id_of _ as (fun x hx => ihas x hx (h.1.2 x hx)),
      map_id_of _ ks (fun x hx => ihks x hx (h.2 x hx))]
  | hother tag cs ih =>
    intro h; simp only [noConstructs, noConstructsL_eq, List.all_eq_true] at h
    simp [normalize, normalizeL_eq, map_id_of _ cs (fun x hx => ih x hx (h x hx))]

/-- **C20 (identity).**  An expression with none of the rewritten constructs (no `|`, no `Name` of the
    table) comes back with the same syntax tree; every table. -/
theorem transform_id (g : Table) (e : Expr) (h : noConstructs g e = true) : transform g e = e := by
  unfold transform; rw [rawTransform_id g e h, normalize_id g e h]


/-! ### The hypothesis on the table -/

/-- The first segment of every value of the table, and of the union name, is not a key: the names
    the transformer writes are not rewritten again. -/
def goodTable (g : Table) : Bool :=
  g.all (fun kv => !isKey g (splitDots kv.2).1) && !isKey g (splitDots unionName).1

theorem lookup_mem : ∀ {g : Table} {k v : Str}, lookup g k = some v → (k, v) ∈ g
  | [], _, _, h => by simp [lookup] at h
  | (k', v') :: t, k, v, h => by
    simp only [lookup] at h
    by_cases hk : k' = k
    · simp only [hk, if_true, Option.some.injEq] at h; subst hk; subst h; simp
    · simp only [hk, if_false] at h; exact List.mem_cons_of_mem _ (lookup_mem h)

theorem goodTable_value {g : Table} (hg : goodTable g = true) {k v : Str} (h : lookup g k = some v) :
    isKey g (splitDots v).1 = false := by
  simp only [goodTable, Bool.and_eq_true, List.all_eq_true] at hg
  simpa using hg.1 (k, v) (lookup_mem h)

theorem goodTable_union {g : Table} (hg : goodTable g = true) : isKey g (splitDots unionName).1 = false := by
  simp only [goodTable, Bool.and_eq_true] at hg
  simpa using hg.2

/-! ### `transform_idem` -/

mutual
/-- what `rawTransform` leaves behind: no `|`, and no `Name` whose first segment is a key -/
def settled (g : Table) : Expr → Bool
  | .name id => !isKey g (splitDots id).1
  | .attribute v _ => settled g v
  | .subscript v s => settled g v && settled g s
  | .tuple es => settledL g es
  | .list es => settledL g es
  | .binop op l r => decide (op ≠ .bitor) && settled g l && settled g r
  | .unaryop _ e => settled g e
  | .constant _ => true
  | .call f as ks => settled g f && settledL g as && settledL g ks
  | .other _ cs => settledL g cs
termination_by structural e => e
def settledL (g : Table) : List Expr → Bool
  | [] => true
  | e :: es => settled g e && settledL g es
termination_by structural es => es
end

theorem settledL_eq (g : Table) : ∀ es, settledL g es = es.all (settled g)
  | [] => rfl
  | e :: es => by simp [settledL, settledL_eq g es]

theorem settled_spineOf (g : Table) (l rl : Expr) (h : settled g rl = true) :
    ∀ x ∈ spineOf l rl, settled g x = true := by
  unfold spineOf
  split
  · intro x hx
    unfold unionElts at hx
    split at hx
    · simp only [settled, settledL_eq, Bool.and_eq_true, List.all_eq_true] at h; exact h.2 x hx
    · simp only [List.mem_singleton] at hx; subst hx; exact h
  · intro x hx; simp only [List.mem_singleton] at hx; subst hx; exact h

theorem settled_rawTransform (g : Table) (hg : goodTable g = true) :
    ∀ e, wf e = true → settled g (rawTransform g e) = true := by
  intro e
  induction e using Expr.induct with
  | hname id =>
    intro h
    simp only [wf] at h
    simp only [rawTransform, visitName]
    cases hl : lookup g id with
    | some v => simp [settled, goodTable_value hg hl]
    | none =>
      have : isKey g id = false := by simp [isKey, hl]
      simp [settled, splitDots_dotless id h, this]
  | hattr v a ih => intro h; simp only [wf] at h; simpa [settled, rawTransform] using ih h
  | hsub v s ihv ihs =>
    intro h; simp only [wf, Bool.and_eq_true] at h; simp [settled, rawTransform, ihv h.1, ihs h.2]
  | htuple es ih =>
    intro h; simp only [wf, wfL_eq, List.all_eq_true] at h
    simp only [settled, rawTransform, settledL_eq, rawTransformL_eq, List.all_map, List.all_eq_true]
    exact fun x hx => ih x hx (h x hx)
  | hlist es ih =>
    intro h; simp only [wf, wfL_eq, List.all_eq_true] at h
    simp only [settled, rawTransform, settledL_eq, rawTransformL_eq, List.all_map, List.all_eq_true]
    exact fun x hx => ih x hx (h x hx)
  | hbinop op l r ihl ihr =>
    intro h; simp only [wf, Bool.and_eq_true] at h
    by_cases hop : op = .bitor
    · subst hop
      rw [rawTransform_pipe]
      simp only [mkUnion, settled, settledL_eq, goodTable_union hg, Bool.not_false, Bool.true_and, List.all_eq_true,
        List.mem_append, List.mem_singleton]
      intro x hx
      cases hx with
      | inl hx => exact settled_spineOf g l _ (ihl h.1) x hx
      | inr hx => subst hx; exact ihr h.2
    · rw [rawTransform_binop_other g op l r hop]; simp [settled, hop, ihl h.1, ihr h.2]
  | hunary op e ih => intro h; simp only [wf] at h; simpa [settled, rawTransform] using ih h
  | hconst c => intro _; rfl
  | hcall f as ks ihf ihas ihks =>
    intro h; simp only [wf, wfL_eq, List.all_eq_true, Bool.and_eq_true] at h
    simp only [settled, rawTransform, settledL_eq, rawTransformL_eq, List.all_map, List.all_eq_true, Bool.and_eq_true]
    exact ⟨⟨ihf h.1.1, fun x hx => ihas x hx (h.1.2 x hx)⟩, fun x hx => ihks x hx (h.2 x hx)⟩
  | hother tag cs ih =>
    intro h; simp only [wf, wfL_eq, List.all_eq_true] at h
    simp only [settled, rawTransform, settledL_eq, rawTransformL_eq, List.all_map, List.all_eq_true]
    exact fun x hx => ih x hx (h x hx)

theorem noConstructs_foldl_attr (g : Table) : ∀ (t : List Str) (acc : Expr),
    noConstructs g (t.foldl Expr.attribute acc) = noConstructs g acc
  | [], _ => rfl
  | a :: t, acc => by simp [List.foldl, noConstructs_foldl_attr g t, noConstructs]

theorem noConstructs_normalize (g : Table) : ∀ e, settled g e = true → noConstructs g (normalize e) = true := by
  intro e
  induction e using Expr.induct with
  | hname id =>
    intro h
    simp only [settled, Bool.not_eq_eq_eq_not, Bool.not_true] at h
    simp [normalize, normName, attrChain, noConstructs_foldl_attr, noConstructs, splitDots_head_dotless, h]
  | hattr v a ih => intro h; simp only [settled] at h; simpa [noConstructs, normalize] using ih h
  | hsub v s ihv ihs =>
    intro h; simp only [settled, Bool.and_eq_true] at h; simp [noConstructs, normalize, ihv h.1, ihs h.2]
  | htuple es ih =>
    intro h; simp only [settled, settledL_eq, List.all_eq_true] at h
    simp only [noConstructs, normalize, noConstructsL_eq, normalizeL_eq, List.all_map, List.all_eq_true]
    exact fun x hx => ih x hx (h x hx)
  | hlist es ih =>
    intro h; simp only [settled, settledL_eq, List.all_eq_true] at h
    simp only [noConstructs, normalize, noConstructsL_eq, normalizeL_eq, List.all_map, List.all_eq_true]
    exact fun x hx => ih x hx (h x hx)
  | hbinop op l r ihl ihr =>
    intro h; simp only [settled, Bool.and_eq_true, decide_eq_true_eq] at h
    simp [noConstructs, normalize, h.1.1, ihl h.1.2, ihr h.2]
  | hunary op e ih => intro h; simp only [settled] at h; simpa [noConstructs, normalize] using ih h
  | hconst c => intro _; rfl
  | hcall f as ks ihf ihas ihks =>
    intro h; simp only [settled, settledL_eq, List.all_eq_true, Bool.and_eq_true] at h
    simp only [noConstructs, normalize, noConstructsL_eq, normalizeL_eq, List.all_map, List.all_eq_true,
      Bool.and_eq_true]
    exact ⟨⟨ihf h.1.1, fun x hx => ihas x hx (h.1.2 x hx)⟩, fun x hx => ihks x hx (h.2 x hx)⟩
  | hother tag cs ih =>
    intro h; simp only [settled, settledL_eq, List.all_eq_true] at h
    simp only [noConstructs, normalize, noConstructsL_eq, normalizeL_eq, List.all_map, List.all_eq_true]
    exact fun x hx => ih x hx (h x hx)

/-- The output of `transform` has none of the rewritten constructs. -/
theorem transform_noConstructs (g : Table) (hg : goodTable g = true) (e : Expr) (hwf : wf e = true) :
    noConstructs g (transform g e) = true :=
  noConstructs_normalize g _ (settled_rawTransform g hg e hwf)

/-- **C20 (fixpoint).**  For every table whose written names are not keys and every expression tree
    `ast.parse` can produce, `transform (transform e) = transform e`. -/
theorem transform_idem (g : Table) (hg : goodTable g = true) (e : Expr) (hwf : wf e = true) :
    transform g (transform g e) = transform g e :=
  transform_id g _ (transform_noConstructs g hg e hwf)


/-! ### `transform_preserves` -/

theorem foldl_attrT_atom : ∀ (t : List Str) (p : List Str), t.foldl attrT (.atom p) = .atom (p ++ t)
  | [], p => by simp
  | a :: t, p => by simp [List.foldl, attrT, foldl_attrT_atom t]

theorem denoteTy_foldl_attr (g : Table) : ∀ (t : List Str) (acc : Expr),
    denoteTy g (t.foldl Expr.attribute acc) = t.foldl attrT (denoteTy g acc)
  | [], _ => rfl
  | a :: t, acc => by simp [List.foldl, denoteTy_foldl_attr g t, denoteTy]

theorem denoteTy_normName (g : Table) (id : Str) : denoteTy g (normName id) = denoteTy g (.name id) := by
  simp [normName, attrChain, denoteTy_foldl_attr, denoteTy, splitDots_dotless _ (splitDots_head_dotless id),
    foldl_attrT_atom]

theorem map_congr_of {α β : Type} (f h : α → β) : ∀ xs : List α, (∀ x ∈ xs, f x = h x) → xs.map f = xs.map h
  | [], _ => rfl
  | x :: xs, hh => by
    simp only [List.map_cons, hh x (by simp), map_congr_of f h xs (fun y hy => hh y (by simp [hy]))]

/-- unparse → parse does not change the denoted structure (every table, every tree) -/
theorem denoteTy_normalize (g : Table) : ∀ e, denoteTy g (normalize e) = denoteTy g e := by
  intro e
  induction e using Expr.induct with
  | hname id => exact denoteTy_normName g id
  | hattr v a ih => simp [denoteTy, normalize, ih]
  | hsub v s ihv ihs => simp [denoteTy, normalize, ihv, ihs]
  | htuple es ih =>
    simp only [denoteTy, normalize, denoteTyL_eq, normalizeL_eq, List.map_map]
    rw [map_congr_of (denoteTy g ∘ normalize) (denoteTy g) es (fun x hx => ih x hx)]
  | hlist es ih =>
    simp only [denoteTy, normalize, denoteTyL_eq, normalizeL_eq, List.map_map]
    rw [map_congr_of (denoteTy g ∘ normalize) (denoteTy g) es (fun x hx => ih x hx)]
  | hbinop op l r ihl ihr => simp [denoteTy, normalize, ihl, ihr]
  | hunary op e ih => simp [denoteTy, normalize, ih]
  | hconst c => rfl
  | hcall f as ks ihf ihas ihks =>
    simp only [denoteTy, normalize, denoteTyL_eq, normalizeL_eq, List.map_map, ihf]
    rw [map_congr_of (denoteTy g ∘ normalize) (denoteTy g) as (fun x hx => ihas x hx),
      map_congr_of (denoteTy g ∘ normalize) (denoteTy g) ks (fun x hx => ihks x hx)]
  | hother tag cs ih =>
    simp only [denoteTy, normalize, denoteTyL_eq, normalizeL_eq, List.map_map]
    rw [map_congr_of (denoteTy g ∘ normalize) (denoteTy g) cs (fun x hx => ih x hx)]

theorem flatMembers_append : ∀ xs ys, flatMembers (xs ++ ys) = flatMembers xs ++ flatMembers ys
  | [], _ => rfl
  | x :: xs, ys => by simp [flatMembers, flatMembers_append xs ys]

theorem splitDots_unionName : splitDots unionName = ("typing".toList, ["Union".toList]) := by decide

theorem canonHead_not_key {g : Table} {h : Str} (hk : isKey g h = false) : canonHead g h = [h] := by
  simp [canonHead, lookup_none_of_not_isKey hk]

/-- the node `visit_BinOp` builds denotes the flattened union of its elements -/
theorem denoteTy_mkUnion (g : Table) (hg : goodTable g = true) (xs : List Expr) :
    denoteTy g (mkUnion xs) = .union (flatMembers (xs.map (denoteTy g))) := by
  have hk := goodTable_union hg
  have hu : isUnionOrigin (.atom (canonHead g (splitDots unionName).1 ++ (splitDots unionName).2)) = true := by
    rw [canonHead_not_key hk, splitDots_unionName]; decide
  simp [mkUnion, denoteTy, denoteTyL_eq, subT, hu, argsOf]

theorem flatMembers_spineOf (g : Table) (hg : goodTable g = true) (l : Expr) :
    flatMembers ((spineOf l (rawTransform g l)).map (denoteTy g)) = members (denoteTy g (rawTransform g l)) := by
  unfold spineOf
  split
  next hp =>
    cases l with
    | binop op l1 r1 =>
      cases op <;> simp only [isPipe] at hp <;> try exact absurd hp (by decide)
      rw [rawTransform_pipe, denoteTy_mkUnion g hg]
      simp [mkUnion, unionElts, members]
    | _ => simp [isPipe] at hp
  next => simp [flatMembers]

/-- the rewriting itself does not change the denoted structure -/
theorem denoteTy_rawTransform (g : Table) (hg : goodTable g = true) :
    ∀ e, wf e = true → denoteTy g (rawTransform g e) = denoteTy g e := by
  intro e
  induction e using Expr.induct with
  | hname id =>
    intro h
    simp only [wf] at h
    simp only [rawTransform, visitName]
    cases hl : lookup g id with
    | some v =>
      have hv := canonHead_not_key (goodTable_value hg hl)
      simp only [denoteTy, hv, splitDots_dotless id h]
      simp [canonHead, hl, pathOf]
    | none => rfl
  | hattr v a ih => intro h; simp only [wf] at h; simp [denoteTy, rawTransform, ih h]
  | hsub v s ihv ihs =>
    intro h; simp only [wf, Bool.and_eq_true] at h; simp [denoteTy, rawTransform, ihv h.1, ihs h.2]
  | htuple es ih =>
    intro h; simp only [wf, wfL_eq, List.all_eq_true] at h
    simp only [denoteTy, rawTransform, denoteTyL_eq, rawTransformL_eq, List.map_map]
    rw [map_congr_of (denoteTy g ∘ rawTransform g) (denoteTy g) es (fun x hx => ih x hx (h x hx))]
  | hlist es ih =>
    intro h; simp only [wf, wfL_eq, List.all_eq_true] at h
    simp only [denoteTy, rawTransform, denoteTyL_eq, rawTransformL_eq, List.map_map]
    rw [map_congr_of (denoteTy g ∘ rawTransform g) (denoteTy g) es (fun x hx => ih x hx (h x hx))]
  | hbinop op l r ihl ihr =>
    intro h; simp only [wf, Bool.and_eq_true] at h
    by_cases hop : op = .bitor
    · subst hop
      rw [rawTransform_pipe, denoteTy_mkUnion g hg, List.map_append, flatMembers_append,
        flatMembers_spineOf g hg, ihl h.1]
      simp [flatMembers, denoteTy, ihr h.2]
    · rw [rawTransform_binop_other g op l r hop]; simp [denoteTy, hop, ihl h.1, ihr h.2]
  | hunary op e ih => intro h; simp only [wf] at h; simp [denoteTy, rawTransform, ih h]
  | hconst c => intro _; rfl
  | hcall f as ks ihf ihas ihks =>
    intro h; simp only [wf, wfL_eq, List.all_eq_true, Bool.and_eq_true] at h
    simp only [denoteTy, rawTransform, denoteTyL_eq, rawTransformL_eq, List.map_map, ihf h.1.1]
    rw [map_congr_of (denoteTy g ∘ rawTransform g) (denoteTy g) as (fun x hx => ihas x hx (h.1.2 x hx)),
      map_congr_of (denoteTy g ∘ rawTransform g) (denoteTy g) ks (fun x hx => ihks x hx (h.2 x hx))]
  | hother tag cs ih =>
    intro h; simp only [wf, wfL_eq, List.all_eq_true] at h
    simp only [denoteTy, rawTransform, denoteTyL_eq, rawTransformL_eq, List.map_map]
    rw [map_congr_of (denoteTy g ∘ rawTransform g) (denoteTy g) cs (fun x hx => ih x hx (h x hx))]

/-- Preservation on every parse tree.  (Outside the annotation grammar `denoteTy` reads every `|`
    as a union, which is what the transformer does too; it is a faithful semantics on `annot` only.) -/
theorem transform_preserves_wf (g : Table) (hg : goodTable g = true) (e : Expr) (hwf : wf e = true) :
    denoteTy g (transform g e) = denoteTy g e := by
  unfold transform; rw [denoteTy_normalize, denoteTy_rawTransform g hg e hwf]

theorem wf_of_isDotted : ∀ e, isDotted e = true → wf e = true := by
  intro e
  induction e using Expr.induct with
  | hname id => intro h; simpa [isDotted, wf] using h
  | hattr v a ih => intro h; simp only [isDotted] at h; simpa [wf] using ih h
  | _ => intro h; simp [isDotted] at h

theorem wf_of_isConstLike (e : Expr) (h : isConstLike e = true) : wf e = true := by
  cases e with
  | constant c => rfl
  | unaryop op x => cases x <;> simp [isConstLike] at h <;> rfl
  | _ => simp [isConstLike] at h

theorem wf_of_constOnly (e : Expr) (h : constOnly e = true) : wf e = true := by
  cases e with
  | tuple es =>
    simp only [constOnly, List.all_eq_true] at h
    simp only [wf, wfL_eq, List.all_eq_true]
    exact fun x hx => wf_of_isConstLike x (h x hx)
  | constant c => rfl
  | unaryop op x => exact wf_of_isConstLike _ (by simpa [constOnly] using h)
  | _ => simp [constOnly, isConstLike] at h

theorem wf_of_annot : ∀ e, annot e = true → wf e = true := by
  intro e
  induction e using Expr.induct with
  | hname id => intro h; simpa [annot, wf] using h
  | hattr v a _ => intro h; simp only [annot] at h; simpa [wf] using wf_of_isDotted v h
  | hsub v s _ ihs =>
    intro h
    simp only [annot, Bool.and_eq_true] at h
    simp only [wf, Bool.and_eq_true]
    refine ⟨wf_of_isDotted v h.1, ?_⟩
    by_cases hl : isLiteralHead v = true
    · simp only [hl, if_true] at h; exact wf_of_constOnly s h.2
    · simp only [hl] at h; exact ihs h.2
  | htuple es ih =>
    intro h; simp only [annot, annotL_eq, List.all_eq_true] at h
    simp only [wf, wfL_eq, List.all_eq_true]; exact fun x hx => ih x hx (h x hx)
  | hlist es ih =>
    intro h; simp only [annot, annotL_eq, List.all_eq_true] at h
    simp only [wf, wfL_eq, List.all_eq_true]; exact fun x hx => ih x hx (h x hx)
  | hbinop op l r ihl ihr =>
    intro h; simp only [annot, Bool.and_eq_true] at h
    simp [wf, ihl h.1.1.1.2, ihr h.1.1.2]
  | hunary op e _ => intro h; cases e <;> simp [annot, isConstLike] at h <;> rfl
  | hconst c => intro _; rfl
  | hcall f as ks _ _ _ => intro h; simp [annot] at h
  | hother tag cs _ => intro h; simp [annot] at h

/-- **C20 (meaning).**  For every annotation expression — names, dotted names, subscripts, tuples, `...`,
    `|`-chains of any associativity and parenthesisation, `Literal[...]`, `Callable[[...], r]`,
    `Annotated[...]`, forward references, nested to any depth — the rewritten expression denotes the same
    structure: same origins and arguments recursively, the flattened union for `|`, and the builtin
    names of the table identified with their `typing` aliases. -/
theorem transform_preserves (g : Table) (hg : goodTable g = true) (e : Expr) (ha : annot e = true) :
    denoteTy g (transform g e) = denoteTy g e :=
  transform_preserves_wf g hg e (wf_of_annot e ha)


/-! ### The live table -/

/-- `future._GENERICS` of the working tree (regenerated on every run). -/
def generics : Table := Typelib.Gen.futureGenerics.map (fun p => (p.1.toList, p.2.toList))

def isIdent (s : Str) : Bool :=
  match s with
  | [] => false
  | c :: _ => !c.isDigit && s.all (fun c => c.isAlphanum || c == '_')

/-- every value of the table (and the union name) is a dotted path of identifiers: `ast.unparse` prints
    the `Name` nodes the transformer creates as that path and it reads back as the `Attribute` chain
    `normalize` produces -/
def valuesAreDottedNames (g : Table) : Bool :=
  g.all (fun kv => (pathOf kv.2).all isIdent) && (pathOf unionName).all isIdent

theorem generics_good : goodTable generics = true := by decide
theorem generics_aliasSound : aliasSound generics = true := by decide
theorem generics_dottedNames : valuesAreDottedNames generics = true := by decide

/-- C20 for the table of the working tree. -/
theorem live_no_pipe (e : Expr) : noPipe (transform generics e) = true := transform_no_pipe generics e
theorem live_idem (e : Expr) (hwf : wf e = true) :
    transform generics (transform generics e) = transform generics e :=
  transform_idem generics generics_good e hwf
theorem live_id (e : Expr) (h : noConstructs generics e = true) : transform generics e = e :=
  transform_id generics e h
theorem live_preserves (e : Expr) (ha : annot e = true) :
    denoteTy generics (transform generics e) = denoteTy generics e :=
  transform_preserves generics generics_good e ha

/-! ### Non-vacuity -/

private def n (s : String) : Expr := .name s.toList
private def ty (s : String) : Expr := .attribute (.name "typing".toList) s.toList
private def pipe (l r : Expr) : Expr := .binop .bitor l r

/-- `dict[str, list[int | None]] | Literal['a|b', '['] | None` -/
def ex1 : Expr :=
  pipe (pipe (.subscript (n "dict") (.tuple [n "str", .subscript (n "list") (pipe (n "int") (.constant .none))]))
             (.subscript (n "Literal") (.tuple [.constant (.str "a|b".toList), .constant (.str "[".toList)])))
       (.constant .none)

example : annot ex1 = true := by decide
example : wf ex1 = true := by decide
example : noPipe ex1 = false := by decide
/-- the model computes `typing.Union[typing.Dict[str, typing.List[typing.Union[int, None]]], Literal['a|b', '['], None]` -/
example : transform generics ex1 =
    .subscript (ty "Union") (.tuple [
      .subscript (ty "Dict") (.tuple [n "str", .subscript (ty "List") (.subscript (ty "Union") (.tuple [n "int", .constant .none]))]),
      .subscript (n "Literal") (.tuple [.constant (.str "a|b".toList), .constant (.str "[".toList)]),
      .constant .none]) := by rfl
example : noPipe (transform generics ex1) = true := live_no_pipe ex1
example : transform generics (transform generics ex1) = transform generics ex1 := live_idem ex1 (by decide)
example : denoteTy generics (transform generics ex1) = denoteTy generics ex1 := live_preserves ex1 (by decide)

/-- `(a | b) | (c | d)`: the code gives `Union[a, b, Union[c, d]]` (only the left spine is flattened);
    both sides denote the flat union of a, b, c, d. -/
def ex2 : Expr := pipe (pipe (n "a") (n "b")) (pipe (n "c") (n "d"))

example : transform generics ex2 =
    .subscript (ty "Union") (.tuple [n "a", n "b", .subscript (ty "Union") (.tuple [n "c", n "d"])]) := by rfl
example : denoteTy generics ex2 =
    .union [.atom ["a".toList], .atom ["b".toList], .atom ["c".toList], .atom ["d".toList]] := by rfl
example : denoteTy generics (transform generics ex2) =
    .union [.atom ["a".toList], .atom ["b".toList], .atom ["c".toList], .atom ["d".toList]] := by rfl

/-- `list` and `typing.List` denote the same origin, `set` another one -/
example : denoteTy generics (.subscript (n "list") (n "int")) = denoteTy generics (.subscript (ty "List") (n "int")) := by rfl
example : denoteTy generics (.subscript (n "list") (n "int")) =
    .app (.atom ["typing".toList, "List".toList]) [.atom ["int".toList]] := by rfl

/-- `typing.Optional[Callable[[A], re.Pattern[str]]]` has none of the constructs -/
def ex3 : Expr :=
  .subscript (ty "Optional") (.subscript (n "Callable")
    (.tuple [.list [n "A"], .subscript (.attribute (n "re") "Pattern".toList) (n "str")]))

example : noConstructs generics ex3 = true := by decide
example : transform generics ex3 = ex3 := live_id ex3 (by decide)

/-- non-annotation expressions: `(a | b) + c` and `a + b | c` (future.py:55-56, :60) -/
example : transform generics (.binop .add (pipe (n "a") (n "b")) (n "c")) =
    .binop .add (.subscript (ty "Union") (.tuple [n "a", n "b"])) (n "c") := by rfl
example : transform generics (pipe (.binop .add (n "a") (n "b")) (n "c")) =
    .subscript (ty "Union") (.tuple [.binop .add (n "a") (n "b"), n "c"]) := by rfl

/-! ### The hypotheses are needed -/

/-- `wf`: a `Name` node with a dotted id (which `ast.parse` never produces) whose first segment is a key
    is rewritten only on the second pass. -/
theorem transform_idem_false_without_wf :
    ¬ (∀ (g : Table) (e : Expr), goodTable g = true → transform g (transform g e) = transform g e) := by
  intro h
  have h0 := h generics (.name "list.x".toList) generics_good
  have h1 : transform generics (transform generics (.name "list.x".toList)) =
      .attribute (.attribute (.name "typing".toList) "List".toList) "x".toList := by rfl
  have h2 : transform generics (.name "list.x".toList) = .attribute (.name "list".toList) "x".toList := by rfl
  rw [h1, h2] at h0
  cases h0

/-- `goodTable`: with a table that maps a name to a key (`a ↦ b`, `b ↦ c`) the output is rewritten again. -/
theorem transform_idem_false_without_goodTable :
    ¬ (∀ (g : Table) (e : Expr), wf e = true → transform g (transform g e) = transform g e) := by
  intro h
  have h0 := h [("a".toList, "b".toList), ("b".toList, "c".toList)] (.name "a".toList) (by decide)
  have h1 : transform [("a".toList, "b".toList), ("b".toList, "c".toList)]
      (transform [("a".toList, "b".toList), ("b".toList, "c".toList)] (.name "a".toList)) = .name "c".toList := by rfl
  have h2 : transform [("a".toList, "b".toList), ("b".toList, "c".toList)] (.name "a".toList) = .name "b".toList := by rfl
  rw [h1, h2] at h0
  cases h0

end Typelib.C20
