/-
  C16 — Type-context lookups see through aliases and references.

  `ctx_refines`: for EVERY finite list of operations (insert / `[]` / `get` with default / `in`;
  induction on the list, no bound on its length) in which
    * every insertion uses a key the *user* has not inserted before (write-once) — a key that is in
      the dict only because a lookup memoised it IS fresh, no condition on memoised keys is needed —
    * `in` is asked only for keys the user has stored,
  (the decidable predicate `okOps`), the outputs of the concrete `TypeContext` (with the alias
  entries `__missing__` writes back) equal the outputs of the reference model of the statement
  (a plain dict with `lookup S k = S[k] <|> S[unwrap k] <|> S[fwd k]`, forward-reference keys found
  only under themselves), for any key operations satisfying `KeyLaws`.

  Invariant (`Inv`): every user entry is in the dict with its value; every other entry `k ↦ v` of
  the dict (a memoised alias) has `k` not user-inserted, `k` not a forward reference and
  `S[unwrap k] = some v`.

  Corollaries: `lookup_stable`, `lookups_stable` (a lookup never changes the result of a later
  lookup), `stored_found`, `absent_raises_or_default`.  `familyLaws`: the laws hold for the Lean
  mirror of the key family of the property.

  What the two side conditions are for (each refuted without it at a witness on the family):
    * `write_once_needed`: re-inserting a key leaves the memoised aliases stale;
    * `contains_observes_memo`: `in` answers for the *dict*, not for the lookup: for an alias key it
      is False before and True after a lookup memoised it, so no function of the reference state
      can answer it.  The property asks `in` for stored keys only.
-/
import TypelibModel.Model.Ctx
namespace Typelib.C16
open Typelib.TCtx

variable {K V : Type} [DecidableEq K]

/-! ### Plain dict facts -/

theorem find_set (d : List (K × V)) (k k' : K) (v : V) :
    find (put d k v) k' = if k = k' then some v else find d k' := by
  induction d with
  | nil => simp [put, find]
  | cons e r ih =>
    obtain ⟨a, w⟩ := e
    simp only [put]
    by_cases h : a = k
    · subst h
      simp only [if_true, find]
      by_cases h2 : a = k' <;> simp [h2]
    · simp only [if_neg h, find, ih]
      by_cases h2 : k = k'
      · subst h2; simp [h]
      · simp [h2]

theorem find_set_self (d : List (K × V)) (k : K) (v : V) : find (put d k v) k = some v := by
  simp [find_set]

theorem find_set_ne (d : List (K × V)) {k k' : K} (v : V) (h : k ≠ k') :
    find (put d k v) k' = find d k' := by
  simp [find_set, h]

/-! ### `__getitem__` in closed form -/

/-- `ctx[k]` once `refs.forwardref` is known to return a ForwardRef: the re-entered
    `__getitem__` on the reference either hits or raises KeyError (ctx.py:34-35). -/
def getitemClosed (o : KeyOps K) (C : Ctx K V) (k : K) : Ctx K V × Out V :=
  match find C k with
  | some v => (C, .ok v)
  | none =>
    if o.isRef k then (C, .keyError)
    else
      match find C (o.unwrap k) with
      | some v => (put C k v, .ok v)
      | none =>
        match find C (o.fwd k) with
        | some v => (C, .ok v)
        | none => (C, .keyError)

/-- Two nested activations always suffice: the recursion limit is never reached. -/
theorem getitemF_closed {o : KeyOps K} (L : KeyLaws o) (n : Nat) (C : Ctx K V) (k : K) :
    getitemF o (n + 2) C k = getitemClosed o C k := by
  unfold getitemClosed
  simp only [getitemF]
  cases find C k with
  | some v => rfl
  | none =>
    simp only
    by_cases hr : o.isRef k = true
    · simp [hr]
    · simp only [hr]
      cases find C (o.unwrap k) with
      | some v => rfl
      | none =>
        simp only
        cases find C (o.fwd k) with
        | some v => rfl
        | none => simp [L.fwd_ref k]

theorem getitem_closed {o : KeyOps K} (L : KeyLaws o) (C : Ctx K V) (k : K) :
    getitem o C k = getitemClosed o C k :=
  getitemF_closed L 998 C k

/-- `ctx[k]` never exhausts the interpreter's recursion limit. -/
theorem getitem_no_recursionError {o : KeyOps K} (L : KeyLaws o) (C : Ctx K V) (k : K) :
    (getitem o C k).2 ≠ .recursionError := by
  rw [getitem_closed L]
  unfold getitemClosed
  split
  · simp
  · split
    · simp
    · split
      · simp
      · split <;> simp

/-! ### The invariant -/

/-- `C` is the dict, `S` the user's insertions. -/
structure Inv (o : KeyOps K) (C : Ctx K V) (S : Spec K V) : Prop where
  /-- every user entry is in the dict with its value -/
  user : ∀ k v, find S k = some v → find C k = some v
  /-- every other entry is a memoised alias of a user entry -/
  memo : ∀ k v, find C k = some v →
    find S k = some v ∨ (find S k = none ∧ o.isRef k = false ∧ find S (o.unwrap k) = some v)

theorem inv_empty (o : KeyOps K) : Inv o ([] : Ctx K V) ([] : Spec K V) :=
  ⟨by intro k v h; simp [find] at h, by intro k v h; simp [find] at h⟩

theorem inv_absent {o : KeyOps K} {C : Ctx K V} {S : Spec K V} (I : Inv o C S) {k : K}
    (h : find C k = none) : find S k = none := by
  cases hs : find S k with
  | none => rfl
  | some v => rw [I.user k v hs] at h; cases h

/-- A fresh insertion keeps the invariant (an overwritten memo entry becomes a user entry). -/
theorem inv_insert {o : KeyOps K} {C : Ctx K V} {S : Spec K V} (I : Inv o C S) (k : K) (v : V)
    (hfresh : find S k = none) : Inv o (put C k v) (put S k v) := by
  constructor
  · intro k' v' h
    rw [find_set] at h ⊢
    by_cases hk : k = k'
    · simpa [hk] using h
    · simp only [if_neg hk] at h ⊢
      exact I.user k' v' h
  · intro k' v' h
    rw [find_set] at h
    by_cases hk : k = k'
    · subst hk
      simp only [if_true] at h
      left; rw [find_set_self]; exact h
    · simp only [if_neg hk] at h
      rw [find_set_ne _ _ hk]
      cases I.memo k' v' h with
      | inl h1 => exact Or.inl h1
      | inr h2 =>
        obtain ⟨a, b, c⟩ := h2
        refine Or.inr ⟨a, b, ?_⟩
        have : k ≠ o.unwrap k' := by
          intro e; rw [← e, hfresh] at c; cases c
        rw [find_set_ne _ _ this]; exact c

/-- The heart of the refinement: one `ctx[k]` answers like the reference model and keeps the
    invariant. -/
theorem getitem_refines {o : KeyOps K} (L : KeyLaws o) {C : Ctx K V} {S : Spec K V}
    (I : Inv o C S) (k : K) :
    (getitem o C k).2 = outOfLookup (lookup o S k) ∧ Inv o (getitem o C k).1 S := by
  rw [getitem_closed L]
  unfold getitemClosed lookup
  cases hk : find C k with
  | some v =>
    -- dict hit: a user entry, or a memoised alias (then S[k] = none and S[unwrap k] = v)
    refine ⟨?_, I⟩
    cases I.memo k v hk with
    | inl h => simp [h, outOfLookup]
    | inr h => obtain ⟨a, b, c⟩ := h; simp [a, b, c, outOfLookup]
  | none =>
    have hSk := inv_absent I hk
    simp only [hSk, Option.none_or]
    by_cases hr : o.isRef k = true
    · simp only [hr, if_true]
      exact ⟨rfl, I⟩
    · have hr' : o.isRef k = false := by simpa using hr
      simp only [hr', Bool.false_eq_true, if_false]
      cases hu : find C (o.unwrap k) with
      | some v =>
        -- `unwrapped in self`: the entry under `unwrap k` is a user entry, because a memoised key
        -- is never its own unwrapped form (idempotence)
        have hSu : find S (o.unwrap k) = some v := by
          cases I.memo _ v hu with
          | inl h => exact h
          | inr h =>
            obtain ⟨a, _, c⟩ := h
            rw [L.unwrap_idem k, a] at c; cases c
        refine ⟨by simp [hSu, outOfLookup], ?_⟩
        constructor
        · intro k' v' h
          have hne : k ≠ k' := by intro e; rw [← e, hSk] at h; cases h
          simp only [find_set_ne _ _ hne]
          exact I.user k' v' h
        · intro k' v' h
          simp only at h
          rw [find_set] at h
          by_cases hkk : k = k'
          · subst hkk
            simp only [if_true] at h
            cases h
            exact Or.inr ⟨hSk, hr', hSu⟩
          · simp only [if_neg hkk] at h
            exact I.memo k' v' h
      | none =>
        have hSu := inv_absent I hu
        simp only [hSu, Option.none_or]
        cases hf : find C (o.fwd k) with
        | some v =>
          refine ⟨?_, I⟩
          cases I.memo _ v hf with
          | inl h => simp [h, outOfLookup]
          | inr h => obtain ⟨_, b, _⟩ := h; rw [L.fwd_ref k] at b; cases b
        | none =>
          refine ⟨?_, I⟩
          simp [inv_absent I hf, outOfLookup]

theorem mem_of_inv {o : KeyOps K} {C : Ctx K V} {S : Spec K V} (I : Inv o C S) {k : K}
    (h : mem S k = true) : mem C k = true := by
  unfold mem at h ⊢
  cases hs : find S k with
  | none => simp [hs] at h
  | some v => simp [I.user k v hs]

/-- One admissible operation: same output, invariant kept. -/
theorem step_refines {o : KeyOps K} (L : KeyLaws o) {C : Ctx K V} {S : Spec K V}
    (I : Inv o C S) (op : Op K V) (hok : okOp S op = true) :
    (stepC o C op).2 = (stepS o S op).2 ∧ Inv o (stepC o C op).1 (stepS o S op).1 := by
  cases op with
  | insert k v =>
    simp only [okOp, mem, Bool.not_eq_true', Option.isSome_eq_false_iff, Option.isNone_iff_eq_none] at hok
    exact ⟨rfl, inv_insert I k v hok⟩
  | getitem k => exact getitem_refines L I k
  | get k d =>
    obtain ⟨h1, h2⟩ := getitem_refines L I k
    exact ⟨by simp [stepC, stepS, getOr, h1], h2⟩
  | contains k =>
    simp only [okOp] at hok
    exact ⟨by simp [stepC, stepS, hok, mem_of_inv I hok], I⟩

/-- Refinement from any related pair of states. -/
theorem run_refines {o : KeyOps K} (L : KeyLaws o) (ops : List (Op K V)) :
    ∀ (C : Ctx K V) (S : Spec K V), Inv o C S → okOps o S ops = true →
      (runC o C ops).2 = (runS o S ops).2 ∧ Inv o (runC o C ops).1 (runS o S ops).1 := by
  induction ops with
  | nil => intro C S I _; exact ⟨rfl, I⟩
  | cons op ops ih =>
    intro C S I hok
    simp only [okOps, Bool.and_eq_true] at hok
    obtain ⟨h1, h2⟩ := step_refines L I op hok.1
    obtain ⟨h3, h4⟩ := ih _ _ h2 hok.2
    exact ⟨by simp only [runC, runS, h1, h3], h4⟩

/-- **C16.**  Over every admissible operation sequence, of any length, a fresh `TypeContext`
    produces exactly the outputs of the reference model. -/
theorem ctx_refines {o : KeyOps K} (L : KeyLaws o) (ops : List (Op K V))
    (hok : okOps o ([] : Spec K V) ops = true) :
    (runC o ([] : Ctx K V) ops).2 = (runS o ([] : Spec K V) ops).2 :=
  (run_refines L ops [] [] (inv_empty o) hok).1

/-- The invariant holds in every state reached by an admissible sequence. -/
theorem ctx_invariant {o : KeyOps K} (L : KeyLaws o) (ops : List (Op K V))
    (hok : okOps o ([] : Spec K V) ops = true) :
    Inv o (runC o ([] : Ctx K V) ops).1 (runS o ([] : Spec K V) ops).1 :=
  (run_refines L ops [] [] (inv_empty o) hok).2

/-! ### Corollaries -/

/-- Is this operation a lookup (`[]` or `get`)? -/
def isLookup : Op K V → Bool
  | .getitem _ => true
  | .get _ _ => true
  | _ => false

theorem lookup_keeps_spec (o : KeyOps K) (S : Spec K V) (op : Op K V) (h : isLookup op = true) :
    (stepS o S op).1 = S := by
  cases op <;> simp [isLookup] at h <;> rfl

/-- **A lookup never changes the result of a later lookup**: after any admissible history, doing
    the lookup `l` first does not change what the lookup `l'` returns (both are `[]` or `get`). -/
theorem lookup_stable {o : KeyOps K} (L : KeyLaws o) (ops : List (Op K V))
    (hok : okOps o ([] : Spec K V) ops = true) (l l' : Op K V)
    (hl : isLookup l = true) (hl' : isLookup l' = true) :
    let C := (runC o ([] : Ctx K V) ops).1
    (stepC o (stepC o C l).1 l').2 = (stepC o C l').2 := by
  intro C
  have I := ctx_invariant L ops hok
  have okl : ∀ (S : Spec K V) (x : Op K V), isLookup x = true → okOp S x = true := by
    intro S x hx; cases x <;> simp [isLookup] at hx <;> rfl
  obtain ⟨_, I1⟩ := step_refines L I l (okl _ l hl)
  rw [lookup_keeps_spec o _ l hl] at I1
  rw [(step_refines L I1 l' (okl _ l' hl')).1, (step_refines L I l' (okl _ l' hl')).1]

/-- The same for any number of intervening lookups. -/
theorem lookups_stable {o : KeyOps K} (L : KeyLaws o) (ops : List (Op K V))
    (hok : okOps o ([] : Spec K V) ops = true) (ls : List (Op K V))
    (hls : ls.all isLookup = true) (l' : Op K V) (hl' : isLookup l' = true) :
    let C := (runC o ([] : Ctx K V) ops).1
    (stepC o (runC o C ls).1 l').2 = (stepC o C l').2 := by
  intro C
  have okl : ∀ (S : Spec K V) (x : Op K V), isLookup x = true → okOp S x = true := by
    intro S x hx; cases x <;> simp [isLookup] at hx <;> rfl
  have key : ∀ (ls : List (Op K V)) (C : Ctx K V) (S : Spec K V), Inv o C S → ls.all isLookup = true →
      Inv o (runC o C ls).1 S := by
    intro ls
    induction ls with
    | nil => intro C S I _; exact I
    | cons x xs ih =>
      intro C S I h
      simp only [List.all_cons, Bool.and_eq_true] at h
      obtain ⟨_, I1⟩ := step_refines L I x (okl _ x h.1)
      rw [lookup_keeps_spec o _ x h.1] at I1
      exact ih _ _ I1 h.2
  have I := ctx_invariant L ops hok
  rw [(step_refines L (key ls _ _ I hls) l' (okl _ l' hl')).1, (step_refines L I l' (okl _ l' hl')).1]

/-- Keys of an admissible history are inserted once: the reference state keeps every insertion. -/
theorem inserted_kept {o : KeyOps K} (ops : List (Op K V)) :
    ∀ (S : Spec K V), okOps o S ops = true →
      (∀ k v, find S k = some v → find (runS o S ops).1 k = some v) ∧
      (∀ k v, Op.insert k v ∈ ops → find (runS o S ops).1 k = some v) := by
  induction ops with
  | nil => intro S _; exact ⟨fun _ _ h => h, by intro k v h; cases h⟩
  | cons op ops ih =>
    intro S hok
    simp only [okOps, Bool.and_eq_true] at hok
    obtain ⟨ih1, ih2⟩ := ih _ hok.2
    constructor
    · intro k v h
      apply ih1
      cases op with
      | insert k' v' =>
        have hf : find S k' = none := by
          simpa [okOp, mem, Option.isSome_eq_false_iff] using hok.1
        have hne : k' ≠ k := by intro e; rw [e, h] at hf; cases hf
        simpa [stepS, find_set_ne _ _ hne] using h
      | getitem _ => exact h
      | get _ _ => exact h
      | contains _ => exact h
    · intro k v hmem
      cases hmem with
      | head => exact ih1 k v (by simp [stepS, find_set_self])
      | tail _ h => exact ih2 k v h

/-- **Stored keys are always found under themselves**: after an admissible history containing
    `ctx[k] = v`, `ctx[k]` returns `v` (and `ctx.get(k, d)` returns `v`, `k in ctx` is True). -/
theorem stored_found {o : KeyOps K} (L : KeyLaws o) (ops : List (Op K V))
    (hok : okOps o ([] : Spec K V) ops = true) (k : K) (v d : V) (hins : Op.insert k v ∈ ops) :
    let C := (runC o ([] : Ctx K V) ops).1
    (getitem o C k).2 = .ok v ∧ (getOr o C k d).2 = .ok v ∧ mem C k = true := by
  intro C
  have I := ctx_invariant L ops hok
  have hS := (inserted_kept (o := o) ops [] hok).2 k v hins
  have hC : find C k = some v := I.user k v hS
  have hg : (getitem o C k).2 = .ok v := by
    rw [(getitem_refines L I k).1]; simp [lookup, hS, outOfLookup]
  exact ⟨hg, by simp [getOr, hg, suppressKeyError], by simp [mem, hC]⟩

/-- `k` is absent from the reference model: nothing is stored under it, its unwrapped form or the
    forward reference naming it (for a forward reference: under itself). -/
def absent (o : KeyOps K) (S : Spec K V) (k : K) : Bool :=
  !(mem S k) && (o.isRef k || (!(mem S (o.unwrap k)) && !(mem S (o.fwd k))))

theorem lookup_none_of_absent {o : KeyOps K} {S : Spec K V} {k : K} (h : absent o S k = true) :
    lookup o S k = none := by
  simp only [absent, mem, Bool.and_eq_true, Bool.not_eq_true', Option.isSome_eq_false_iff,
    Option.isNone_iff_eq_none, Bool.or_eq_true] at h
  obtain ⟨h1, h2⟩ := h
  unfold lookup
  cases h2 with
  | inl hr => simp [h1, hr]
  | inr h3 => simp [h1, h3.1, h3.2]

/-- **Absent keys raise KeyError on subscription and yield the default from `get`** — and the
    failed lookup leaves the dict as it was. -/
theorem absent_raises_or_default {o : KeyOps K} (L : KeyLaws o) (ops : List (Op K V))
    (hok : okOps o ([] : Spec K V) ops = true) (k : K) (d : V)
    (habs : absent o (runS o ([] : Spec K V) ops).1 k = true) :
    let C := (runC o ([] : Ctx K V) ops).1
    getitem o C k = (C, .keyError) ∧ getOr o C k d = (C, .dflt d) := by
  intro C
  have I := ctx_invariant L ops hok
  have hout : (getitem o C k).2 = .keyError := by
    rw [(getitem_refines L I k).1, lookup_none_of_absent habs]; rfl
  have hg : getitem o C k = (C, .keyError) := by
    rw [getitem_closed L C k] at hout ⊢
    unfold getitemClosed at hout ⊢
    cases h1 : find C k with
    | some v => simp [h1] at hout
    | none =>
      simp only [h1] at hout ⊢
      by_cases hr : o.isRef k = true
      · simp [hr]
      · have hr' : o.isRef k = false := by simpa using hr
        simp only [hr', Bool.false_eq_true, if_false] at hout ⊢
        cases h2 : find C (o.unwrap k) with
        | some v => simp [h2] at hout
        | none =>
          simp only [h2] at hout ⊢
          cases h3 : find C (o.fwd k) with
          | some v => simp [h3] at hout
          | none => rfl
  exact ⟨hg, by simp [getOr, hg, suppressKeyError]⟩

/-- The statement's other reading of the reference lookup: with `isRef k → unwrap k = k` the only
    thing the forward-reference guard (ctx.py:34) cuts off is the `fwd` step. -/
theorem lookup_eq {o : KeyOps K} (L : KeyLaws o) (S : Spec K V) (k : K) :
    lookup o S k =
      ((find S k).or (find S (o.unwrap k))).or (if o.isRef k then none else find S (o.fwd k)) := by
  unfold lookup
  by_cases hr : o.isRef k = true
  · simp [hr, L.ref_unwrap k hr]
  · simp only [hr]
    cases find S k <;> cases find S (o.unwrap k) <;> simp

/-! ### The key family of the property -/

/-- The laws hold for the Lean mirror of the family (and its closure under `unwrap` / `fwd`). -/
theorem familyLaws : KeyLaws keyOps where
  unwrap_idem := by
    intro k
    cases k with
    | named b w => cases w <;> rfl
    | _ => rfl
  ref_unwrap := by
    intro k h
    cases k <;> first | rfl | (simp [keyOps, Key.isRef] at h)
  fwd_ref := by
    intro k
    cases k <;> rfl

/-- C16 on the family, values = integers. -/
theorem ctx_refines_family (ops : List (Op Key Int))
    (hok : okOps keyOps ([] : Spec Key Int) ops = true) :
    (runC keyOps ([] : Ctx Key Int) ops).2 = (runS keyOps ([] : Spec Key Int) ops).2 :=
  ctx_refines familyLaws ops hok

/-! ### Non-vacuity -/

/-- `Foo` stored as 1, its forward reference as 2, the NewType of `int` as 3; lookups through
    every kind of alias, a memoised alias then overwritten by the user, absent keys. -/
def exOps : List (Op Key Int) :=
  [ .insert (.base .foo) 1,
    .getitem (.named .foo .nt),            -- through the NewType: 1, memoised
    .insert (.ref (.base .foo) .keys) 2,   -- ForwardRef('Foo', module=…)
    .getitem (.named .foo .sa),            -- string-valued alias: unwraps to that reference: 2, memoised
    .getitem (.named .foo .al),            -- unwrapped form wins over the reference: 1
    .get (.final .int) (-1),               -- nothing about int stored: default
    .getitem (.ref (.base .int) .builtins),-- KeyError
    .insert (.named .foo .nt) 3,           -- the user now stores the memoised alias key itself
    .getitem (.named .foo .nt),            -- 3
    .contains (.named .foo .nt),
    .insert (.ref (.base .int) .builtins) 4,
    .getitem (.base .int),                 -- through the forward reference naming it: 4 (not memoised)
    .insert (.base .int) 5,
    .getitem (.base .int),                 -- 5
    .getitem (.final .int) ]               -- 5

example : okOps keyOps ([] : Spec Key Int) exOps = true := by decide
example : (runC keyOps ([] : Ctx Key Int) exOps).2 =
    [.unit, .ok 1, .unit, .ok 2, .ok 1, .dflt (-1), .keyError, .unit, .ok 3, .bool true, .unit, .ok 4,
     .unit, .ok 5, .ok 5] := by decide
example : (runC keyOps ([] : Ctx Key Int) exOps).2 = (runS keyOps ([] : Spec Key Int) exOps).2 :=
  ctx_refines_family exOps (by decide)
/-- the concrete dict really holds memoised entries the reference state does not -/
example : (runC keyOps ([] : Ctx Key Int) exOps).1.length = 8 ∧
    (runS keyOps ([] : Spec Key Int) exOps).1.length = 5 := by decide
example : absent keyOps (runS keyOps ([] : Spec Key Int) exOps).1 (.named .str .nt) = true := by decide
example : Op.insert (.base .foo) (1 : Int) ∈ exOps := by decide

/-! ### Why the two side conditions are there -/

/-- Without write-once the statement is false: `ctx[int] = 1; ctx[IntNT]; ctx[int] = 2; ctx[IntNT]`
    answers the stale memoised 1 where the reference model (a dict with fallback lookup) says 2. -/
theorem write_once_needed :
    ¬ (∀ ops : List (Op Key Int),
        (runC keyOps ([] : Ctx Key Int) ops).2 = (runS keyOps ([] : Spec Key Int) ops).2) := by
  intro h
  have := h [.insert (.base .int) 1, .getitem (.named .int .nt), .insert (.base .int) 2,
    .getitem (.named .int .nt)]
  revert this
  decide

/-- Full statement with `in` asked for arbitrary keys — false, whatever the reference model answers:
    two fresh-insert histories with the *same* reference state (lookups do not change it) on which
    the concrete `IntNT in ctx` differs, because `in` sees the memoised entry. -/
theorem contains_observes_memo :
    ¬ (∃ specIn : Spec Key Int → Key → Bool, ∀ ops : List (Op Key Int),
        freshOps keyOps ([] : Spec Key Int) ops = true → ∀ k,
          (stepC keyOps (runC keyOps ([] : Ctx Key Int) ops).1 (.contains k)).2
            = .bool (specIn (runS keyOps ([] : Spec Key Int) ops).1 k)) := by
  intro ⟨f, h⟩
  have h1 := h [.insert (.base .int) 1] (by decide) (.named .int .nt)
  have h2 := h [.insert (.base .int) 1, .getitem (.named .int .nt)] (by decide) (.named .int .nt)
  have e : (runS keyOps ([] : Spec Key Int) [.insert (.base .int) 1, .getitem (.named .int .nt)]).1
      = (runS keyOps ([] : Spec Key Int) [.insert (.base .int) 1]).1 := by decide
  rw [e] at h2
  have : (stepC keyOps (runC keyOps ([] : Ctx Key Int) [.insert (.base .int) 1]).1 (.contains (.named .int .nt))).2
      = (stepC keyOps (runC keyOps ([] : Ctx Key Int) [.insert (.base .int) 1, .getitem (.named .int .nt)]).1
          (.contains (.named .int .nt))).2 := by rw [h1, h2]
  revert this
  decide

/-- Without the `isinstance(key, ForwardRef)` guard of ctx.py:34 (`isRef` constantly false) a lookup
    in an empty context re-enters `__missing__` forever: whatever the recursion limit, the outcome
    is RecursionError. -/
theorem no_guard_recursion (o : KeyOps K) (h : ∀ k, o.isRef k = false) :
    ∀ (n : Nat) (k : K), getitemF o n ([] : Ctx K V) k = ([], .recursionError) := by
  intro n
  induction n with
  | zero => intro k; rfl
  | succ n ih => intro k; simp [getitemF, find, h, ih]

/-- The guard is what ends the recursion: on the family, without it `ctx.get(int, 0)` on an empty
    context is a RecursionError (which `get` does not suppress) instead of the default. -/
theorem guard_ends_recursion :
    (getOr { keyOps with isRef := fun _ => false } ([] : Ctx Key Int) (.base .int) 0).2 = .recursionError ∧
    (getOr keyOps ([] : Ctx Key Int) (.base .int) 0).2 = .dflt 0 := by
  constructor
  · have h := no_guard_recursion (V := Int) { keyOps with isRef := fun _ => false } (fun _ => rfl)
      recursionLimit (.base .int)
    simp [getOr, getitem, h, suppressKeyError]
  · rw [show (getOr keyOps ([] : Ctx Key Int) (.base .int) 0).2
        = suppressKeyError 0 (getitem keyOps ([] : Ctx Key Int) (.base .int)).2 from rfl,
      getitem_closed familyLaws]
    decide

end Typelib.C16
