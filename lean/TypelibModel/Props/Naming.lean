/-
  How typelib NAMES a type by a forward reference and finds it again (Model/Naming.lean): `inspection.qualname` / `name`,
  `refs.forwardref(<object or text>, module=…)`, `refs.evaluate`.  Built and audited with C16, whose forward-reference step
  (`TypeContext.__missing__`: `self[refs.forwardref(key)]`) and C09's deferred nodes rely on exactly this naming.

  Proved for EVERY namespace (any number of modules, classes, nesting depth, any names) satisfying the decidable
  well-formedness `wf` — what Python guarantees: identities are distinct, a scope binds a name once, a class statement at
  path `p` of module `m` made a class with `__module__ = m`, `__qualname__ = p`, `__name__ = p[-1]` and bound it, under that
  name, in the scope the statement sits in (module or enclosing class); the name before a `<locals>` marker is, where still
  bound, bound to a function, and functions own no bindings.  Other bindings (the same object under another name, in another
  scope or module; NewTypes and aliases, which no statement binds under their declared name) are unconstrained.

    (a) `forwardref_roundtrip` — `evaluate(forwardref(cls)) is cls` for every class made outside a function, with NO
        hypothesis relating its segments to the module's name; `forwardref_keeps_qualname`: the reference is the
        `__qualname__`, verbatim.  The induction over the enclosing classes is `resolves_at_qualname`.
          `prefix_strip_needed` — the tree before c0135c0 (every `"<module>."` removed) names class `m.P` of module `m`
              as `P`, which is ANOTHER class or nothing;
          `short_name_needed` — seeds C09g / C16g (last segment / `__name__`): a nested class is not found, or a top-level
              class of the same short name is found in its place.
    (b) `forwardref_injective` — distinct classes, distinct references (`injective_needed`: the short name gives two
        classes one reference).
    (c) the qualified name as TEXT (`refs.forwardref(text, module=m)`, as of befc63c: `"<module>."` is removed only where it
        is a whole dotted name — not behind a character of `[A-Za-z0-9_.]`):
          `text_roundtrip_prefixed` — `module.qualname` ALWAYS finds the class, whatever anything is called;
          `text_bare_exact` — the bare qualified name finds the class unless the text STARTS with `"<module>."`; then exactly
              that qualifier is taken off and the rest is looked up in the module;
          `text_roundtrip` (hypothesis: the text does not start with `"<module>."`), `text_roundtrip_segments` (any module
              name, dotted or not: the module's segments are not a proper prefix of the class's path),
              `text_roundtrip_first_segment` (dot-free module name: the outermost class is not called like the module),
              `text_roundtrip_toplevel` (no condition);
          `text_roundtrip_needed` — the ambiguity that remains (DESIGN.md §11.0.1 item 27): bare `m.P` in module `m` with an
              outer class `m` finds the top-level `P`; `dotted_module_ambiguity`: the same for module `p.q`;
          `befc63c_needed` / `befc63c_repairs` — the tree before befc63c (`str.replace` on characters) read `A.m.Q` as
              `A.Q` and `Xm.Q` as `XQ` and found neither; the current function finds both (`dotted_module_roundtrip`:
              likewise `A.p.q.Y` in module `p.q`).
    (d) `local_class_unresolvable` — the reference of a class made inside a function evaluates to an ERROR (so
        `graph._evaluated`'s try/except is necessary), provided its name does not START with `"<module>."` (the outermost
        function / class is not called like the module); `local_class_found_when_function_named_like_module`: without that
        proviso it can be found.  (An object without `__qualname__` — a TypeAliasType — is named by its `__name__` with a
        leading `"<module>."` removed; for an identifier that is the name itself: `stripQual_ident`.)
    (e) `found_iff_bound_at_declared` (no hypothesis on the namespace) — the reference of a named object finds the object
        iff it is bound at the path its own name declares; `evaluate_forwardref_declared`: what it finds is whatever is
        bound there; `renamed_binding`: `R = NewType("I", …)` is not found, `S = NewType("A", …)` finds class `A`.
    (f) `nameOf_eq_name` — `inspection.name(cls) == cls.__name__` for every class (so C09g and C16g agree on classes).
-/
import TypelibModel.Model.Naming
namespace Typelib.NamingProps
open Typelib Typelib.Naming

/-! ### text lemmas: `split`, `join`, `replace` -/

theorem dotFree_iff {s : Str} : dotFree s = true ↔ '.' ∉ s := by
  simp [dotFree]

theorem dotFree_cons {c : Char} {cs : Str} : dotFree (c :: cs) = true ↔ c ≠ '.' ∧ dotFree cs = true := by
  simp only [dotFree_iff, List.mem_cons, not_or]
  constructor
  · rintro ⟨h1, h2⟩; exact ⟨fun h => h1 h.symm, h2⟩
  · rintro ⟨h1, h2⟩; exact ⟨fun h => h1 h.symm, h2⟩

theorem identLike_iff {s : Str} : identLike s = true ↔ s ≠ [] ∧ ∀ c ∈ s, isWordChar c = true := by
  simp [identLike]

theorem identLike_no_dot {s : Str} (h : identLike s = true) : '.' ∉ s :=
  fun hm => absurd ((identLike_iff.1 h).2 _ hm) (by decide)

theorem identLike_dotFree {s : Str} (h : identLike s = true) : dotFree s = true :=
  dotFree_iff.2 (identLike_no_dot h)

theorem isQualChar_of_word {c : Char} (h : isWordChar c = true) : isQualChar c = true := by simp [isQualChar, h]

theorem qualChars_of_identLike {s : Str} (h : identLike s = true) : ∀ c ∈ s, isQualChar c = true :=
  fun c hc => isQualChar_of_word ((identLike_iff.1 h).2 c hc)

theorem splitDots_ne_nil (s : Str) : splitDots s ≠ [] := by
  induction s with
  | nil => simp [splitDots]
  | cons c cs ih =>
    simp only [splitDots]
    split
    · simp
    · cases h : splitDots cs <;> simp [consHead]

theorem splitDots_dotFree {s : Str} (h : dotFree s = true) : splitDots s = [s] := by
  induction s with
  | nil => rfl
  | cons c cs ih =>
    obtain ⟨hc, hcs⟩ := dotFree_cons.1 h
    simp [splitDots, hc, ih hcs, consHead]

/-- `(x + "." + b).split(".") == x.split(".") + b.split(".")` -/
theorem splitDots_append_dot (x b : Str) : splitDots (x ++ '.' :: b) = splitDots x ++ splitDots b := by
  induction x with
  | nil => simp [splitDots]
  | cons c x ih =>
    by_cases hc : c = '.'
    · simp [splitDots, hc, ih]
    · simp only [List.cons_append, splitDots, hc, if_false, ih]
      cases h : splitDots x with
      | nil => exact absurd h (splitDots_ne_nil x)
      | cons s ss => simp [consHead]

theorem joinDots_cons {s : Str} {l : List Str} (h : l ≠ []) : joinDots (s :: l) = s ++ '.' :: joinDots l := by
  cases l with
  | nil => exact absurd rfl h
  | cons t rest => rfl

/-- `".".join(segs).split(".") == segs` for dot-free segments -/
theorem splitDots_joinDots {segs : List Str} (hne : segs ≠ []) (h : ∀ s ∈ segs, dotFree s = true) :
    splitDots (joinDots segs) = segs := by
  induction segs with
  | nil => exact absurd rfl hne
  | cons s l ih =>
    cases l with
    | nil => simpa [joinDots] using splitDots_dotFree (h s (by simp))
    | cons t rest =>
      rw [joinDots_cons (by simp), splitDots_append_dot, splitDots_dotFree (h s (by simp)),
        ih (by simp) (fun x hx => h x (List.mem_cons_of_mem _ hx))]
      rfl

theorem mem_joinDots {segs : List Str} {c : Char} (h : c ∈ joinDots segs) : c = '.' ∨ ∃ s ∈ segs, c ∈ s := by
  induction segs with
  | nil => simp [joinDots] at h
  | cons s l ih =>
    cases l with
    | nil => exact .inr ⟨s, by simp, by simpa [joinDots] using h⟩
    | cons t rest =>
      rw [joinDots_cons (by simp)] at h
      rcases List.mem_append.1 h with h | h
      · exact .inr ⟨s, by simp, h⟩
      · rcases List.mem_cons.1 h with h | h
        · exact .inl h
        · rcases ih h with h | ⟨x, hx, hc⟩
          · exact .inl h
          · exact .inr ⟨x, List.mem_cons_of_mem _ hx, hc⟩

theorem stripGo_skip (pat xs t : Str) : stripGo pat xs.length (xs ++ t) = stripGo pat 0 t := by
  induction xs with
  | nil => rfl
  | cons c cs ih => simpa [stripGo] using ih

/-- One leading occurrence is removed, the scan goes on behind it. -/
theorem stripGo_pat_append {pat : Str} (t : Str) (hp : pat ≠ []) : stripGo pat 0 (pat ++ t) = stripGo pat 0 t := by
  cases pat with
  | nil => exact absurd rfl hp
  | cons p ps =>
    have hpre : (p :: ps).isPrefixOf (p :: (ps ++ t)) = true := by
      rw [List.isPrefixOf_iff_prefix]; exact ⟨t, rfl⟩
    simp only [List.cons_append, stripGo, hpre, if_true, List.length_cons, Nat.add_sub_cancel]
    exact stripGo_skip _ ps t

theorem modulePat_ne_nil (m : Str) : modulePat m ≠ [] := by simp [modulePat]

/-! #### `re.sub(rf"(?<![\w.]){module}\.", "", text)` -/

/-- Behind a character of `[\w.]`, in a text of such characters, nothing is removed. -/
theorem stripQGo_blocked {pat s : Str} (hs : ∀ c ∈ s, isQualChar c = true) : stripQGo pat 0 true s = s := by
  induction s with
  | nil => rfl
  | cons c cs ih =>
    simp [stripQGo, hs c (by simp), ih (fun x hx => hs x (List.mem_cons_of_mem _ hx))]

theorem stripQGo_skip_dot (pat xs t : Str) (b : Bool) :
    stripQGo pat (xs.length + 1) b (xs ++ '.' :: t) = stripQGo pat 0 true t := by
  induction xs generalizing b with
  | nil => simp [stripQGo, isQualChar, isWordChar]
  | cons c cs ih => simpa [stripQGo] using ih (isQualChar c)

/-- A leading qualifier is removed; its own dot shields what follows. -/
theorem stripQual_prefix (m : Str) {q : Str} (hq : ∀ c ∈ q, isQualChar c = true) :
    stripQual m (modulePat m ++ q) = q := by
  have hpre : (modulePat m).isPrefixOf (modulePat m ++ q) = true := by
    rw [List.isPrefixOf_iff_prefix]; exact ⟨q, rfl⟩
  cases m with
  | nil =>
    simp only [stripQual, modulePat, List.nil_append, List.singleton_append] at hpre ⊢
    simp only [stripQGo, hpre, Bool.not_false, Bool.and_self, if_true, List.length_singleton, Nat.sub_self]
    have : isQualChar '.' = true := by decide
    rw [this]; exact stripQGo_blocked hq
  | cons p ms =>
    have hlen : (modulePat (p :: ms)).length - 1 = ms.length + 1 := by simp [modulePat]
    have hs : modulePat (p :: ms) ++ q = p :: (ms ++ '.' :: q) := by simp [modulePat]
    rw [hs] at hpre
    simp only [stripQual, hs, stripQGo, hpre, Bool.not_false, Bool.and_self, if_true, hlen]
    rw [stripQGo_skip_dot]; exact stripQGo_blocked hq

/-- Where the text does not START with the qualifier, a text of `[\w.]` characters is left alone: the qualifier inside
    `Myshapes.A` or `Outer.shapes.Q` stays. -/
theorem stripQual_not_prefix {m s : Str} (hs : ∀ c ∈ s, isQualChar c = true)
    (h : (modulePat m).isPrefixOf s = false) : stripQual m s = s := by
  cases s with
  | nil => rfl
  | cons c cs =>
    simp only [stripQual, stripQGo, h, Bool.and_false, Bool.false_eq_true, if_false, hs c (by simp)]
    rw [stripQGo_blocked (fun x hx => hs x (List.mem_cons_of_mem _ hx))]

/-- … and where it does, exactly that leading qualifier goes. -/
theorem stripQual_is_prefix {m s : Str} (hs : ∀ c ∈ s, isQualChar c = true)
    (h : (modulePat m).isPrefixOf s = true) : stripQual m s = s.drop (modulePat m).length := by
  rw [List.isPrefixOf_iff_prefix] at h
  obtain ⟨t, rfl⟩ := h
  rw [stripQual_prefix m (fun c hc => hs c (List.mem_append_right _ hc))]
  simp

/-- An identifier is never touched. -/
theorem stripQual_ident (m : Str) {s : Str} (h : identLike s = true) : stripQual m s = s := by
  apply stripQual_not_prefix (qualChars_of_identLike h)
  apply Bool.eq_false_iff.2
  intro hp
  rw [List.isPrefixOf_iff_prefix] at hp
  exact identLike_no_dot h (hp.subset (by simp [modulePat]))

/-- Where no character is `<`, nothing of `"<locals>."` is found. -/
theorem stripGo_locals_free {xs : Str} (t : Str) (h : '<' ∉ xs) :
    stripGo localsPat 0 (xs ++ t) = xs ++ stripGo localsPat 0 t := by
  induction xs with
  | nil => rfl
  | cons c cs ih =>
    have hc : ('<' == c) = false := by
      simp only [List.mem_cons, not_or] at h
      simpa using h.1
    have hcs : '<' ∉ cs := fun hm => h (List.mem_cons_of_mem _ hm)
    simp [stripGo, localsPat, localsMarker, List.isPrefixOf, hc]
    simpa [localsPat, localsMarker] using ih hcs

theorem not_lt_mem_of_identLike {s : Str} (h : identLike s = true) : '<' ∉ s :=
  fun hm => absurd ((identLike_iff.1 h).2 _ hm) (by decide)

theorem identLike_ne_marker {s : Str} (h : identLike s = true) : s ≠ localsMarker := by
  intro e
  exact not_lt_mem_of_identLike h (by simp [e, localsMarker])

theorem notMarker_of_identLike {s : Str} (h : identLike s = true) : notMarker s = true := by
  simpa [notMarker] using identLike_ne_marker h

theorem segOk_cases {s : Str} (h : segOk s = true) : identLike s = true ∨ s = localsMarker := by
  simpa [segOk] using h

theorem filter_append_last_ne_nil (pre : List Str) (last : Str) : pre.filter notMarker ++ [last] ≠ [] := by simp

theorem stripAll_locals_eq (t : Str) : stripAll localsPat t = stripGo localsPat 0 t := by
  simp [stripAll, localsPat, localsMarker]

theorem strip_locals_go (pre : List Str) {last : Str} (hpre : ∀ s ∈ pre, segOk s = true)
    (hlast : identLike last = true) :
    stripGo localsPat 0 (joinDots (pre ++ [last])) = joinDots (pre.filter notMarker ++ [last]) := by
  induction pre with
  | nil =>
    simpa [joinDots, stripGo] using stripGo_locals_free [] (not_lt_mem_of_identLike hlast)
  | cons s pre ih =>
    have ih' := ih (fun x hx => hpre x (List.mem_cons_of_mem _ hx))
    rw [List.cons_append, joinDots_cons (by simp)]
    rcases segOk_cases (hpre s (by simp)) with hs | hs
    · have hlt : '<' ∉ s ++ ['.'] := by
        simp only [List.mem_append, List.mem_singleton, not_or]
        exact ⟨not_lt_mem_of_identLike hs, by decide⟩
      have := stripGo_locals_free (joinDots (pre ++ [last])) hlt
      simp only [List.append_assoc, List.singleton_append] at this
      rw [this, ih', List.filter_cons_of_pos (notMarker_of_identLike hs), List.cons_append,
        joinDots_cons (filter_append_last_ne_nil pre last)]
    · subst hs
      have hm : notMarker localsMarker = false := by simp [notMarker]
      have : localsMarker ++ '.' :: joinDots (pre ++ [last]) = localsPat ++ joinDots (pre ++ [last]) := by
        simp [localsPat]
      rw [this, stripGo_pat_append _ (by simp [localsPat]), ih']
      simp [hm]

/-- `qualname()` at segment level: removing every `"<locals>."` from the text of a `__qualname__` whose last segment
    is an identifier removes exactly the marker segments. -/
theorem strip_locals_joinDots (pre : List Str) {last : Str} (hpre : ∀ s ∈ pre, segOk s = true)
    (hlast : identLike last = true) :
    stripAll localsPat (joinDots (pre ++ [last])) = joinDots (pre.filter notMarker ++ [last]) := by
  rw [stripAll_locals_eq]; exact strip_locals_go pre hpre hlast

/-- A `__qualname__` without marker is left alone. -/
theorem strip_locals_ident {segs : List Str} (h : ∀ s ∈ segs, identLike s = true) :
    stripAll localsPat (joinDots segs) = joinDots segs := by
  have hlt : '<' ∉ joinDots segs := by
    intro hm
    rcases mem_joinDots hm with h' | ⟨s, hs, hc⟩
    · exact absurd h' (by decide)
    · exact not_lt_mem_of_identLike (h s hs) hc
  rw [stripAll_locals_eq]
  simpa [stripGo] using stripGo_locals_free [] hlt

/-! ### a dotted name that starts with `"<module>."`, at segment level -/

theorem qualChars_joinDots {segs : List Str} (h : ∀ s ∈ segs, identLike s = true) :
    ∀ c ∈ joinDots segs, isQualChar c = true := by
  intro c hc
  rcases mem_joinDots hc with rfl | ⟨s, hs, hcs⟩
  · decide
  · exact qualChars_of_identLike (h s hs) c hcs

/-- `a` is a proper prefix of `b` -/
def properPrefix (a b : List Str) : Bool := a.isPrefixOf b && decide (a.length < b.length)

/-- A dotted name starts with `"<module>."` only if the segments of the module's name (one, or several for `pkg.mod`) are
    the first segments of the name and something follows them. -/
theorem properPrefix_of_text_prefix {m : Str} {segs : List Str} (hne : segs ≠ [])
    (hsegs : ∀ s ∈ segs, dotFree s = true) (h : (modulePat m).isPrefixOf (joinDots segs) = true) :
    properPrefix (splitDots m) segs = true := by
  rw [List.isPrefixOf_iff_prefix] at h
  obtain ⟨b, hb⟩ := h
  have hsplit := splitDots_joinDots hne hsegs
  have : modulePat m ++ b = m ++ '.' :: b := by simp [modulePat]
  rw [← hb, this, splitDots_append_dot] at hsplit
  have hlen : 0 < (splitDots b).length := List.length_pos_iff.2 (splitDots_ne_nil b)
  simp only [properPrefix, Bool.and_eq_true, decide_eq_true_eq, List.isPrefixOf_iff_prefix]
  refine ⟨⟨splitDots b, hsplit⟩, ?_⟩
  rw [← hsplit, List.length_append]
  omega

/-! ### resolution -/

/-- continue a resolution with further segments -/
def thenResolve (ns : NS) (r : Except NErr Nat) (l : List Str) : Except NErr Nat :=
  match r with
  | .ok i => resolveSegs ns (.obj i) l
  | .error e => .error e

theorem resolveSegs_cons (ns : NS) (sc : Scope) (s : Str) {l : List Str} (hl : l ≠ []) :
    resolveSegs ns sc (s :: l) = thenResolve ns (step ns sc s) l := by
  cases l with
  | nil => exact absurd rfl hl
  | cons t rest => cases h : step ns sc s <;> simp [resolveSegs, thenResolve, h]

/-- `a.b.c.d` is `(a.b).c.d` -/
theorem resolveSegs_append (ns : NS) {A R : List Str} (hA : A ≠ []) (hR : R ≠ []) (sc : Scope) :
    resolveSegs ns sc (A ++ R) = thenResolve ns (resolveSegs ns sc A) R := by
  induction A generalizing sc with
  | nil => exact absurd rfl hA
  | cons a A' ih =>
    cases A' with
    | nil => simpa [resolveSegs] using resolveSegs_cons ns sc a hR
    | cons a' A'' =>
      rw [List.cons_append, resolveSegs_cons ns sc a (by simp), resolveSegs_cons ns sc a (by simp)]
      cases h : step ns sc a with
      | error e => rfl
      | ok i => simpa [thenResolve] using ih (by simp) (.obj i)

theorem step_of_lookup {ns : NS} {sc : Scope} {s : Str} {i : Nat} (h : lookup ns sc s = some i) :
    step ns sc s = .ok i := by simp [step, h]

theorem step_of_lookup_none {ns : NS} {sc : Scope} {s : Str} (h : lookup ns sc s = none) :
    step ns sc s = .error (missing sc) := by simp [step, h]

/-- nothing is found behind a missing attribute -/
theorem resolveSegs_of_step_error {ns : NS} {sc : Scope} {s : Str} {e : NErr} (l : List Str)
    (h : step ns sc s = .error e) : resolveSegs ns sc (s :: l) = .error e := by
  cases l with
  | nil => simpa [resolveSegs] using h
  | cons t rest => simp [resolveSegs, h]

/-! ### what `wf` gives -/

theorem wf_objOk {ns : NS} (hwf : wf ns = true) {o : Obj} (ho : o ∈ ns.objs) : objOk ns o = true := by
  simp only [wf, Bool.and_eq_true, List.all_eq_true] at hwf
  exact hwf.1.2 o ho

theorem wf_bindOk {ns : NS} (hwf : wf ns = true) {b : Binding} (hb : b ∈ ns.binds) : bindOk ns b = true := by
  simp only [wf, Bool.and_eq_true, List.all_eq_true] at hwf
  exact hwf.2 b hb

theorem eq_dropLast_append {l : List Str} {a : Str} (h : l.getLast? = some a) : l = l.dropLast ++ [a] := by
  obtain ⟨ys, rfl⟩ := List.getLast?_eq_some_iff.1 h
  simp

structure ClsFacts (ns : NS) (c : Obj) (segs : List Str) : Prop where
  qual : c.qual = some segs
  segsOk : ∀ s ∈ segs, segOk s = true
  nameOk : identLike c.name = true
  split : segs = segs.dropLast ++ [c.name]
  placed : (if hasLocals segs then localsOk ns c segs else declBound ns c segs) = true

theorem clsFacts {ns : NS} {c : Obj} (h : objOk ns c = true) (hk : c.kind = .cls) : ∃ segs, ClsFacts ns c segs := by
  simp only [objOk, hk, clsOk] at h
  cases hq : c.qual with
  | none => simp [hq] at h
  | some segs =>
    simp only [hq, Bool.and_eq_true, List.all_eq_true, beq_iff_eq] at h
    obtain ⟨⟨⟨h1, h2⟩, h3⟩, h4⟩ := h
    exact ⟨segs, ⟨hq, h1, h2, eq_dropLast_append h3, h4⟩⟩

theorem identLike_of_noLocals {segs : List Str} (hok : ∀ s ∈ segs, segOk s = true) (hl : hasLocals segs = false) :
    ∀ s ∈ segs, identLike s = true := by
  intro s hs
  rcases segOk_cases (hok s hs) with h | h
  · exact h
  · subst h
    simp [hasLocals] at hl
    exact absurd hs hl

theorem hasLocals_dropLast {segs : List Str} (hl : hasLocals segs = false) : hasLocals segs.dropLast = false := by
  simp only [hasLocals, List.contains_eq_mem, decide_eq_false_iff_not] at *
  exact fun h => hl (List.dropLast_subset _ h)

/-- Python's class statement binds a class in the scope it sits in; by induction over the enclosing classes the whole
    `__qualname__` resolves, from the module, to the class. -/
theorem resolves_at_qualname {ns : NS} (hobjs : ∀ o ∈ ns.objs, objOk ns o = true) :
    ∀ (n : Nat) (c : Obj), c ∈ ns.objs → c.kind = .cls → ∀ segs, c.qual = some segs → hasLocals segs = false →
      segs.length = n → resolveSegs ns (.modl c.module) segs = .ok c.id := by
  intro n
  induction n with
  | zero =>
    intro c hc hk segs hq _ hlen
    obtain ⟨segs', f⟩ := clsFacts (hobjs c hc) hk
    have : segs' = segs := by simpa [f.qual] using hq
    subst this
    have h0 : segs' = [] := List.eq_nil_of_length_eq_zero hlen
    have := f.split
    simp [h0] at this
  | succ n ih =>
    intro c hc hk segs hq hl hlen
    obtain ⟨segs', f⟩ := clsFacts (hobjs c hc) hk
    have : segs' = segs := by simpa [f.qual] using hq
    subst this
    have hplaced := f.placed
    simp only [hl, Bool.false_eq_true, if_false, declBound] at hplaced
    cases hd : segs'.dropLast with
    | nil =>
      simp only [hd, beq_iff_eq] at hplaced
      rw [f.split, hd]
      simpa [resolveSegs] using step_of_lookup hplaced
    | cons i is =>
      simp only [hd, List.any_eq_true] at hplaced
      obtain ⟨o, ho, hb⟩ := hplaced
      simp only [ownerBinds, isCls, Bool.and_eq_true, beq_iff_eq] at hb
      obtain ⟨⟨⟨hok, hom⟩, hoq⟩, hlk⟩ := hb
      have hl' : hasLocals (i :: is) = false := by rw [← hd]; exact hasLocals_dropLast hl
      have hlen' : (i :: is).length = n := by rw [← hd, List.length_dropLast, hlen]; rfl
      have hres := ih o ho hok (i :: is) hoq hl' hlen'
      rw [f.split, hd, resolveSegs_append ns (by simp) (by simp), ← hom, hres]
      simpa [thenResolve, resolveSegs] using step_of_lookup hlk

/-! ### the reference of a named object -/

/-- For an object whose declared path consists of identifiers the reference is that path, in the object's module:
    nothing is taken out of it, whatever the module is called. -/
theorem forwardref_of_ident {o : Obj} (hid : ∀ s ∈ declaredPath o, identLike s = true) :
    forwardrefOfClass o = { text := joinDots (declaredPath o), module := o.module } := by
  cases hq : o.qual with
  | none =>
    have hp : declaredPath o = [o.name] := by simp [declaredPath, hq]
    have hn : identLike o.name = true := hid _ (by simp [hp])
    have hqn : qualnameOf o = o.name := by simp [qualnameOf, hq]
    have hqual : isQualified o = true := by simp [isQualified, rawQualname, hq]
    simp only [forwardrefOfClass, hqual, if_true, hqn, hp, joinDots]
    rw [stripQual_ident _ hn]
  | some segs =>
    have hp : declaredPath o = segs := by simp [declaredPath, hq]
    rw [hp] at hid ⊢
    have hqn : qualnameOf o = joinDots segs := by simp [qualnameOf, hq, strip_locals_ident hid]
    have hqual : isQualified o = false := by simp [isQualified, rawQualname, hq, hqn]
    simp [forwardrefOfClass, hqual, hqn]

/-- Evaluating a dotted name of identifiers is resolving its segments. -/
theorem evaluateRef_joinDots (ns : NS) {segs : List Str} (hne : segs ≠ []) (hid : ∀ s ∈ segs, identLike s = true)
    (m : Str) : evaluateRef ns { text := joinDots segs, module := m } = resolveSegs ns (.modl m) segs := by
  have hsplit := splitDots_joinDots hne (fun s hs => identLike_dotFree (hid s hs))
  have hempty : hasEmptySeg segs = false := by
    simp only [hasEmptySeg, List.any_eq_false]
    intro s hs
    have := (identLike_iff.1 (hid s hs)).1
    simpa using this
  simp [evaluateRef, hsplit, hempty]

theorem evaluate_forwardref_eq (ns : NS) {o : Obj} (hne : declaredPath o ≠ [])
    (hid : ∀ s ∈ declaredPath o, identLike s = true) :
    evaluateRef ns (forwardrefOfClass o) = resolveSegs ns (.modl o.module) (declaredPath o) := by
  rw [forwardref_of_ident hid, evaluateRef_joinDots ns hne hid]

/-! ### (a) the reference of a class finds the class -/

theorem cls_noLocals_facts {ns : NS} (hwf : wf ns = true) {c : Obj} (hc : c ∈ ns.objs) (hk : c.kind = .cls)
    (hl : isLocal c = false) :
    ∃ segs, c.qual = some segs ∧ segs ≠ [] ∧ declaredPath c = segs ∧ hasLocals segs = false ∧
      ∀ s ∈ segs, identLike s = true := by
  obtain ⟨segs, f⟩ := clsFacts (wf_objOk hwf hc) hk
  have hl' : hasLocals segs = false := by simpa [isLocal, f.qual] using hl
  refine ⟨segs, f.qual, ?_, by simp [declaredPath, f.qual], hl', identLike_of_noLocals f.segsOk hl'⟩
  intro h
  have := f.split
  simp [h] at this

/-- The reference of a class made by a class statement outside any function is its `__qualname__`, verbatim, in its
    `__module__` — whatever the module and the enclosing classes are called (c0135c0). -/
theorem forwardref_keeps_qualname {ns : NS} (hwf : wf ns = true) {c : Obj} (hc : c ∈ ns.objs) (hk : c.kind = .cls)
    (hl : isLocal c = false) :
    forwardrefOfClass c = { text := joinDots (declaredPath c), module := c.module } := by
  obtain ⟨segs, _, _, hp, _, hid⟩ := cls_noLocals_facts hwf hc hk hl
  exact forwardref_of_ident (by rw [hp]; exact hid)

/-- (a) In every well-formed namespace, for EVERY class that a class statement made outside a function — at any
    depth, whatever its name, the names of the classes around it and the name of its module —
    `evaluate(forwardref(cls)) is cls`. -/
theorem forwardref_roundtrip {ns : NS} (hwf : wf ns = true) {c : Obj} (hc : c ∈ ns.objs) (hk : c.kind = .cls)
    (hl : isLocal c = false) : evaluateRef ns (forwardrefOfClass c) = .ok c.id := by
  obtain ⟨segs, hq, hne, hp, hl', hid⟩ := cls_noLocals_facts hwf hc hk hl
  rw [evaluate_forwardref_eq ns (by rw [hp]; exact hne) (by rw [hp]; exact hid), hp]
  exact resolves_at_qualname (fun o ho => wf_objOk hwf ho) segs.length c hc hk segs hq hl' rfl

/-! ### (e) found iff bound at the declared path -/

theorem isOkId_iff {r : Except NErr Nat} {i : Nat} : isOkId r i = true ↔ r = .ok i := by
  cases r <;> simp [isOkId]

/-- (e) For any named object (class, NewType, type alias — no hypothesis on the namespace): its reference evaluates to it
    if and only if the object is bound at the path its own name declares.  A NewType / alias / class kept under another
    variable only is therefore NOT found by name, which is why `graph.py` recognises such wrappers by identity. -/
theorem found_iff_bound_at_declared (ns : NS) {o : Obj} (hne : declaredPath o ≠ [])
    (hid : ∀ s ∈ declaredPath o, identLike s = true) :
    evaluateRef ns (forwardrefOfClass o) = .ok o.id ↔ boundAtDeclared ns o = true := by
  rw [evaluate_forwardref_eq ns hne hid, boundAtDeclared, isOkId_iff]

/-- What the reference of a named object finds is what is bound at its declared name — possibly ANOTHER object. -/
theorem evaluate_forwardref_declared (ns : NS) {o : Obj} (hne : declaredPath o ≠ [])
    (hid : ∀ s ∈ declaredPath o, identLike s = true) :
    evaluateRef ns (forwardrefOfClass o) = resolveSegs ns (.modl o.module) (declaredPath o) :=
  evaluate_forwardref_eq ns hne hid

/-! ### (b) distinct classes, distinct references -/

/-- (b) Two distinct classes (made by class statements outside functions; of one module or of two) never get the same
    reference: a `TypeContext` keyed by references does not confuse them. -/
theorem forwardref_injective {ns : NS} (hwf : wf ns = true) {c d : Obj} (hc : c ∈ ns.objs) (hd : d ∈ ns.objs)
    (hkc : c.kind = .cls) (hkd : d.kind = .cls) (hlc : isLocal c = false) (hld : isLocal d = false)
    (hne : c.id ≠ d.id) : forwardrefOfClass c ≠ forwardrefOfClass d := by
  intro h
  have h1 := forwardref_roundtrip hwf hc hkc hlc
  have h2 := forwardref_roundtrip hwf hd hkd hld
  rw [h] at h1
  rw [h1] at h2
  exact hne (by simpa using h2)

/-! ### (c) naming a class by text -/

/-- (c) The qualified name of a class prefixed with its module's name ALWAYS finds the class: whatever the module, the class
    and the classes around it are called (`shapes.shapes.Point` in module `shapes` is the class `shapes.Point`). -/
theorem text_roundtrip_prefixed {ns : NS} (hwf : wf ns = true) {c : Obj} (hc : c ∈ ns.objs) (hk : c.kind = .cls)
    (hl : isLocal c = false) :
    evaluateRef ns (forwardrefOfText (modulePat c.module ++ joinDots (declaredPath c)) c.module) = .ok c.id := by
  obtain ⟨segs, _, _, hp, _, hid⟩ := cls_noLocals_facts hwf hc hk hl
  have h := forwardref_roundtrip hwf hc hk hl
  rw [forwardref_keeps_qualname hwf hc hk hl] at h
  rw [forwardrefOfText, stripQual_prefix _ (qualChars_joinDots (by rw [hp]; exact hid))]
  exact h

/-- (c) What the BARE qualified name of a class finds, exactly: the class — unless the text starts with `"<module>."`; then
    that qualifier is taken off and the REST is looked up in the module (the ambiguity of DESIGN.md §11.0.1 item 27: such a
    text is read as module-qualified). -/
theorem text_bare_exact {ns : NS} (hwf : wf ns = true) {c : Obj} (hc : c ∈ ns.objs) (hk : c.kind = .cls)
    (hl : isLocal c = false) :
    evaluateRef ns (forwardrefOfText (joinDots (declaredPath c)) c.module) =
      if (modulePat c.module).isPrefixOf (joinDots (declaredPath c)) then
        evaluateRef ns { text := (joinDots (declaredPath c)).drop (modulePat c.module).length, module := c.module }
      else .ok c.id := by
  obtain ⟨segs, _, _, hp, _, hid⟩ := cls_noLocals_facts hwf hc hk hl
  have hq := qualChars_joinDots (segs := declaredPath c) (by rw [hp]; exact hid)
  have h := forwardref_roundtrip hwf hc hk hl
  rw [forwardref_keeps_qualname hwf hc hk hl] at h
  cases hpre : (modulePat c.module).isPrefixOf (joinDots (declaredPath c)) with
  | true => simp [forwardrefOfText, stripQual_is_prefix hq hpre]
  | false => simpa [forwardrefOfText, stripQual_not_prefix hq hpre] using h

/-- (c) The bare and the module-prefixed qualified name both find the class, provided the bare text does not start with
    `"<module>."`. -/
theorem text_roundtrip {ns : NS} (hwf : wf ns = true) {c : Obj} (hc : c ∈ ns.objs) (hk : c.kind = .cls)
    (hl : isLocal c = false) (hno : (modulePat c.module).isPrefixOf (joinDots (declaredPath c)) = false) :
    evaluateRef ns (forwardrefOfText (joinDots (declaredPath c)) c.module) = .ok c.id ∧
    evaluateRef ns (forwardrefOfText (modulePat c.module ++ joinDots (declaredPath c)) c.module) = .ok c.id := by
  refine ⟨?_, text_roundtrip_prefixed hwf hc hk hl⟩
  rw [text_bare_exact hwf hc hk hl, hno]; rfl

/-- (c) at segment level, for ANY module name (`mod`, `pkg.mod`): it suffices that the segments of the module's name are not
    the first segments of the class's path with something behind them. -/
theorem text_roundtrip_segments {ns : NS} (hwf : wf ns = true) {c : Obj} (hc : c ∈ ns.objs) (hk : c.kind = .cls)
    (hl : isLocal c = false) (hseg : properPrefix (splitDots c.module) (declaredPath c) = false) :
    evaluateRef ns (forwardrefOfText (joinDots (declaredPath c)) c.module) = .ok c.id ∧
    evaluateRef ns (forwardrefOfText (modulePat c.module ++ joinDots (declaredPath c)) c.module) = .ok c.id := by
  obtain ⟨segs, _, hne, hp, _, hid⟩ := cls_noLocals_facts hwf hc hk hl
  refine text_roundtrip hwf hc hk hl ?_
  cases hpre : (modulePat c.module).isPrefixOf (joinDots (declaredPath c)) with
  | false => rfl
  | true =>
    have := properPrefix_of_text_prefix (by rw [hp]; exact hne)
      (by rw [hp]; exact fun s hs => identLike_dotFree (hid s hs)) hpre
    rw [hseg] at this
    exact absurd this (by decide)

/-- (c) for a module name without dot: it suffices that the FIRST segment of the qualified name — the outermost class — is
    not called like the module.  (Names that merely end with or contain the module's name are harmless since befc63c.) -/
theorem text_roundtrip_first_segment {ns : NS} (hwf : wf ns = true) {c : Obj} (hc : c ∈ ns.objs) (hk : c.kind = .cls)
    (hl : isLocal c = false) (hm : dotFree c.module = true) (hfirst : (declaredPath c).head? ≠ some c.module) :
    evaluateRef ns (forwardrefOfText (joinDots (declaredPath c)) c.module) = .ok c.id ∧
    evaluateRef ns (forwardrefOfText (modulePat c.module ++ joinDots (declaredPath c)) c.module) = .ok c.id := by
  refine text_roundtrip_segments hwf hc hk hl ?_
  cases hpp : properPrefix (splitDots c.module) (declaredPath c) with
  | false => rfl
  | true =>
    exfalso
    simp only [properPrefix, Bool.and_eq_true, splitDots_dotFree hm] at hpp
    cases hd : declaredPath c with
    | nil => simp [hd] at hpp
    | cons x xs =>
      simp only [hd, List.isPrefixOf, Bool.and_eq_true, beq_iff_eq] at hpp
      exact hfirst (by simp [hd, hpp.1.1])

/-- (c) for a top-level class there is no condition at all. -/
theorem text_roundtrip_toplevel {ns : NS} (hwf : wf ns = true) {c : Obj} (hc : c ∈ ns.objs) (hk : c.kind = .cls)
    {s : Str} (hq : c.qual = some [s]) :
    evaluateRef ns (forwardrefOfText s c.module) = .ok c.id ∧
    evaluateRef ns (forwardrefOfText (modulePat c.module ++ s) c.module) = .ok c.id := by
  obtain ⟨segs, f⟩ := clsFacts (wf_objOk hwf hc) hk
  have hs : segs = [s] := by simpa [f.qual] using hq
  subst hs
  have hsn : s = c.name := by simpa using f.split
  have hl : isLocal c = false := by
    simp only [isLocal, hq, hasLocals, List.contains_cons, List.contains_nil, Bool.or_false]
    rw [hsn]; simpa using (identLike_ne_marker f.nameOk).symm
  have hp : declaredPath c = [s] := by simp [declaredPath, hq]
  have := text_roundtrip_segments hwf hc hk hl (by
    simp only [properPrefix, hp, Bool.and_eq_false_iff, decide_eq_false_iff_not]
    right
    have := List.length_pos_iff.2 (splitDots_ne_nil c.module)
    simp only [List.length_singleton]; omega)
  simpa [hp, joinDots] using this

/-! ### (d) a class made inside a function -/

theorem takeWhile_first {p : Str → Bool} {as bs : List Str} {a : Str} (has : ∀ x ∈ as, p x = true) (ha : p a = false) :
    (as ++ a :: bs).takeWhile p = as := by
  rw [List.takeWhile_append_of_pos has]
  simp [ha]

theorem lookup_owner {ns : NS} {sc : Scope} {s : Str} {i : Nat} (h : lookup ns sc s = some i) :
    ∃ b ∈ ns.binds, b.scope = sc := by
  simp only [lookup, findBinding, Option.map_eq_some_iff] at h
  obtain ⟨b, hb, _⟩ := h
  have := List.find?_some hb
  simp only [bindsAt, Bool.and_eq_true, beq_iff_eq] at this
  exact ⟨b, List.mem_of_find?_eq_some hb, this.1⟩

/-- a function owns no binding -/
theorem step_on_func {ns : NS} (hwf : wf ns = true) {i : Nat} (hf : (objOf ns i).any isFunc = true) (s : Str) :
    step ns (.obj i) s = .error .attributeError := by
  cases hlk : lookup ns (.obj i) s with
  | none => simpa [missing] using step_of_lookup_none hlk
  | some j =>
    exfalso
    obtain ⟨b, hb, hsc⟩ := lookup_owner hlk
    have := wf_bindOk hwf hb
    simp only [bindOk, hsc, ownerIsClass, Bool.and_eq_true] at this
    cases ho : objOf ns i with
    | none => simp [ho] at hf
    | some o =>
      simp only [ho, Option.any_some, isFunc, isCls, beq_iff_eq] at hf this
      rw [hf] at this
      exact absurd this.2 (by decide)

/-- (d) The reference of a class made inside a function never evaluates: `refs.evaluate` RAISES (the caller's try/except
    in `graph._evaluated` is necessary) — provided its name (`f.L` for `f.<locals>.L`) does not START with `"<module>."`,
    i.e. the outermost function or class is not called like the module (else the qualifier is taken off, see
    `local_class_found_when_function_named_like_module`). -/
theorem local_class_unresolvable {ns : NS} (hwf : wf ns = true) {c : Obj} (hc : c ∈ ns.objs) (hk : c.kind = .cls)
    (hloc : isLocal c = true) (hno : (modulePat c.module).isPrefixOf (qualnameOf c) = false) :
    ∃ e, evaluateRef ns (forwardrefOfClass c) = .error e := by
  obtain ⟨segs, f⟩ := clsFacts (wf_objOk hwf hc) hk
  have hl : hasLocals segs = true := by simpa [isLocal, f.qual] using hloc
  have hplaced := f.placed
  simp only [hl, if_true, localsOk, Bool.and_eq_true, Bool.not_eq_true', List.isEmpty_eq_false_iff] at hplaced
  obtain ⟨hAne, hfun⟩ := hplaced
  -- the marker sits among the segments before the last
  have hmem : localsMarker ∈ segs.dropLast := by
    have : localsMarker ∈ segs := by simpa [hasLocals] using hl
    rw [f.split] at this
    rcases List.mem_append.1 this with h | h
    · exact h
    · exact absurd (List.mem_singleton.1 h).symm (identLike_ne_marker f.nameOk)
  obtain ⟨as, bs, hpre, hnot⟩ := List.eq_append_cons_of_mem hmem
  have hpreOk : ∀ s ∈ segs.dropLast, segOk s = true := fun s hs => f.segsOk s (List.dropLast_subset _ hs)
  have hasId : ∀ x ∈ as, identLike x = true := by
    intro x hx
    rcases segOk_cases (hpreOk x (by rw [hpre]; simp [hx])) with h | h
    · exact h
    · exact absurd (h ▸ hx) hnot
  have hasNM : ∀ x ∈ as, notMarker x = true := fun x hx => notMarker_of_identLike (hasId x hx)
  have hmk : notMarker localsMarker = false := by simp [notMarker]
  -- the segments up to the first marker
  have hA : segs.takeWhile notMarker = as := by
    rw [f.split, hpre, List.append_assoc, List.cons_append]
    exact takeWhile_first hasNM hmk
  rw [hA] at hAne hfun
  -- the name that `qualname()` produces
  have hq : qualnameOf c = joinDots (as ++ (bs.filter notMarker ++ [c.name])) := by
    have := strip_locals_joinDots segs.dropLast hpreOk f.nameOk
    rw [← f.split] at this
    simp only [qualnameOf, f.qual, this, hpre, List.filter_append, List.filter_cons, hmk,
      List.filter_eq_self.2 hasNM, List.append_assoc]
    rfl
  have hid : ∀ s ∈ as ++ (bs.filter notMarker ++ [c.name]), identLike s = true := by
    intro s hs
    rcases List.mem_append.1 hs with h | h
    · exact hasId s h
    · rcases List.mem_append.1 h with h | h
      · obtain ⟨hsb, hsn⟩ := List.mem_filter.1 h
        rcases segOk_cases (hpreOk s (by rw [hpre]; simp [hsb])) with h' | h'
        · exact h'
        · simp [notMarker, h'] at hsn
      · rw [List.mem_singleton.1 h]; exact f.nameOk
  have href : forwardrefOfClass c = { text := qualnameOf c, module := c.module } := by
    have hw : ∀ x ∈ qualnameOf c, isQualChar x = true := by rw [hq]; exact qualChars_joinDots hid
    simp only [forwardrefOfClass, stripQual_not_prefix hw hno, ite_self]
  rw [href, hq, evaluateRef_joinDots ns (by simp) hid,
    resolveSegs_append ns hAne (by simp)]
  cases hr : resolveSegs ns (.modl c.module) as with
  | error e => exact ⟨e, rfl⟩
  | ok i =>
    rw [hr] at hfun
    simp only [funcOrNothing] at hfun
    obtain ⟨r, rs, hrs⟩ := List.exists_cons_of_ne_nil (by simp : bs.filter notMarker ++ [c.name] ≠ [])
    exact ⟨.attributeError, by
      simp only [thenResolve, hrs]
      exact resolveSegs_of_step_error rs (step_on_func hwf hfun r)⟩

/-! ### concrete namespaces: the hypotheses are satisfiable, and each is needed

  Module `m` (names are one letter long so that the kernel evaluates the texts quickly):

      class m:            # 1   an outer class named like its module
          class P: …      # 2
          class m:        # 4
              class D: …  # 5   two levels deep, both named like the module
      class P: …          # 3   a top-level class with the short name of a nested one
      class A:            # 6
          class B:        # 7
              class C: …  # 8
      class B: …          # 17
      def f():            # 11
          class L:        # 12  (f.<locals>.L), kept by the module as `L = f()`
              class M: …  # 13
          return L
      R = NewType("I", int)     # 14  declared name ≠ variable
      O = NewType("O", int)     # 15
      T = TypeAliasType("T", …) # 16  (no __qualname__)
      S = NewType("A", int)     # 18  declared name = the name of ANOTHER object
      Z = A.B                   #     a second binding of class 7
  Module `n`:  class A: class B     # 9, 10  same names, other module;   `K = m.A`  (an import)
-/

def cls (id : Nat) (q : List Str) (m : Str) : Obj :=
  { id := id, kind := .cls, name := lastSeg q, qual := some q, module := m }

def lm : Str := localsMarker

def exObjs : List Obj :=
  [cls 1 [['m']] ['m'], cls 2 [['m'], ['P']] ['m'], cls 3 [['P']] ['m'], cls 4 [['m'], ['m']] ['m'],
   cls 5 [['m'], ['m'], ['D']] ['m'], cls 6 [['A']] ['m'], cls 7 [['A'], ['B']] ['m'], cls 8 [['A'], ['B'], ['C']] ['m'],
   cls 17 [['B']] ['m'],
   { id := 11, kind := .func, name := ['f'], qual := some [['f']], module := ['m'] },
   cls 12 [['f'], lm, ['L']] ['m'], cls 13 [['f'], lm, ['L'], ['M']] ['m'],
   { id := 14, kind := .alias, name := ['I'], qual := some [['I']], module := ['m'] },
   { id := 15, kind := .alias, name := ['O'], qual := some [['O']], module := ['m'] },
   { id := 16, kind := .alias, name := ['T'], qual := none, module := ['m'] },
   { id := 18, kind := .alias, name := ['A'], qual := some [['A']], module := ['m'] },
   cls 9 [['A']] ['n'], cls 10 [['A'], ['B']] ['n']]

def exBinds : List Binding :=
  [⟨.modl ['m'], ['m'], 1⟩, ⟨.obj 1, ['P'], 2⟩, ⟨.modl ['m'], ['P'], 3⟩, ⟨.obj 1, ['m'], 4⟩, ⟨.obj 4, ['D'], 5⟩,
   ⟨.modl ['m'], ['A'], 6⟩, ⟨.obj 6, ['B'], 7⟩, ⟨.obj 7, ['C'], 8⟩, ⟨.modl ['m'], ['B'], 17⟩,
   ⟨.modl ['m'], ['f'], 11⟩, ⟨.modl ['m'], ['L'], 12⟩, ⟨.obj 12, ['M'], 13⟩,
   ⟨.modl ['m'], ['R'], 14⟩, ⟨.modl ['m'], ['O'], 15⟩, ⟨.modl ['m'], ['T'], 16⟩, ⟨.modl ['m'], ['S'], 18⟩,
   ⟨.modl ['m'], ['Z'], 7⟩,
   ⟨.modl ['n'], ['A'], 9⟩, ⟨.obj 9, ['B'], 10⟩, ⟨.modl ['n'], ['K'], 6⟩]

def ex : NS := { objs := exObjs, binds := exBinds }

theorem ex_wf : wf ex = true := by decide

def exObj (i : Nat) : Obj := (objOf ex i).getD default

/-- (a) on the example: every class statement outside `f`, and what its reference is. -/
example : ∀ i ∈ [1, 2, 3, 4, 5, 6, 7, 8, 17, 9, 10], evaluateRef ex (forwardrefOfClass (exObj i)) = .ok i := by
  intro i hi
  simp only [List.mem_cons, List.not_mem_nil, or_false] at hi
  rcases hi with rfl | rfl | rfl | rfl | rfl | rfl | rfl | rfl | rfl | rfl | rfl <;>
    exact forwardref_roundtrip ex_wf (by decide) rfl rfl

example : forwardrefOfClass (exObj 5) = ⟨['m', '.', 'm', '.', 'D'], ['m']⟩ := by decide
example : forwardrefOfClass (exObj 2) = ⟨['m', '.', 'P'], ['m']⟩ := by decide
/-- a second binding of a class makes its members reachable there, too (a scope is an object, not a path) -/
example : evaluateRef ex ⟨['Z', '.', 'C'], ['m']⟩ = .ok 8 := by decide
/-- an imported class is named in the module that made it -/
example : evaluateRef ex ⟨['K'], ['n']⟩ = .ok 6 ∧ forwardrefOfClass (exObj 6) = ⟨['A'], ['m']⟩ := by decide

/-- The tree before c0135c0 removed every `"<module>."` from the name of a class as well: class `m.P` of module `m` was
    named `P` — and that names ANOTHER class here (3, not 2).  Without the top-level `P` it names nothing. -/
theorem prefix_strip_needed :
    wf ex = true ∧ exObj 2 ∈ ex.objs ∧ (exObj 2).kind = .cls ∧ isLocal (exObj 2) = false ∧
      forwardrefPreFix (exObj 2) = ⟨['P'], ['m']⟩ ∧ evaluateRef ex (forwardrefPreFix (exObj 2)) = .ok 3 ∧
      forwardrefPreFix (exObj 5) = ⟨['D'], ['m']⟩ ∧ evaluateRef ex (forwardrefPreFix (exObj 5)) = .error .nameError := by
  decide

/-- Seeds C09g / C16g name a class by its last segment (`inspection.name`, `__name__`): a nested class is not found
    (`A.B.C` → `C`: NameError), and where a top-level class has the same short name the reference finds THAT class
    (`A.B` → `B`: 17, not 7). -/
theorem short_name_needed :
    evaluateRef ex (forwardrefByName (exObj 8)) = .error .nameError ∧
    evaluateRef ex (forwardrefByName (exObj 7)) = .ok 17 ∧
    evaluateRef ex (forwardrefByDunderName (exObj 8)) = .error .nameError ∧
    evaluateRef ex (forwardrefByDunderName (exObj 7)) = .ok 17 ∧
    nameOf (exObj 8) = ['C'] ∧ qualnameOf (exObj 8) = ['A', '.', 'B', '.', 'C'] := by
  decide

/-- (b) on the example: the two `A.B` of modules `m` and `n`, the nested `A.B` and the top-level `B`. -/
example : forwardrefOfClass (exObj 7) ≠ forwardrefOfClass (exObj 10) ∧
    forwardrefOfClass (exObj 7) ≠ forwardrefOfClass (exObj 17) :=
  ⟨forwardref_injective ex_wf (by decide) (by decide) rfl rfl rfl rfl (by decide),
   forwardref_injective ex_wf (by decide) (by decide) rfl rfl rfl rfl (by decide)⟩

/-- (b) is what the short name loses: the nested `A.B` and the top-level `B` get ONE reference. -/
theorem injective_needed :
    (exObj 7).id ≠ (exObj 17).id ∧ forwardrefByName (exObj 7) = forwardrefByName (exObj 17) ∧
    forwardrefByDunderName (exObj 7) = forwardrefByDunderName (exObj 17) := by
  decide

/-- (c) on the example: `A.B.C` and `m.A.B.C` both find class 8 (the outermost class is not called `m`). -/
example : evaluateRef ex (forwardrefOfText ['A', '.', 'B', '.', 'C'] ['m']) = .ok 8 ∧
    evaluateRef ex (forwardrefOfText ['m', '.', 'A', '.', 'B', '.', 'C'] ['m']) = .ok 8 :=
  text_roundtrip_first_segment (c := exObj 8) ex_wf (by decide) rfl rfl (by decide) (by decide)

/-- (c) top level: the class named like its module is found by `m` and by `m.m`. -/
example : evaluateRef ex (forwardrefOfText ['m'] ['m']) = .ok 1 ∧
    evaluateRef ex (forwardrefOfText ['m', '.', 'm'] ['m']) = .ok 1 :=
  text_roundtrip_toplevel (c := exObj 1) ex_wf (by decide) rfl rfl

/-- (c) prefixed, where the outer classes ARE called like the module: `m.m.P` is class 2, `m.m.m.D` is class 5. -/
example : evaluateRef ex (forwardrefOfText ['m', '.', 'm', '.', 'P'] ['m']) = .ok 2 ∧
    evaluateRef ex (forwardrefOfText ['m', '.', 'm', '.', 'm', '.', 'D'] ['m']) = .ok 5 :=
  ⟨text_roundtrip_prefixed (c := exObj 2) ex_wf (by decide) rfl rfl,
   text_roundtrip_prefixed (c := exObj 5) ex_wf (by decide) rfl rfl⟩

/-- (c) The ambiguity that REMAINS (DESIGN.md §11.0.1 item 27), and the hypothesis of `text_roundtrip` is needed: the bare
    text `m.P` in module `m` is read as "`P` of module `m`" and finds class 3, not the class 2 whose qualified name it is;
    the bare `m.m.D` is read as `m.D`, which is nothing, although class 5 is called so. -/
theorem text_roundtrip_needed :
    wf ex = true ∧ declaredPath (exObj 2) = [['m'], ['P']] ∧
    forwardrefOfText ['m', '.', 'P'] ['m'] = ⟨['P'], ['m']⟩ ∧
    evaluateRef ex (forwardrefOfText ['m', '.', 'P'] ['m']) = .ok 3 ∧
    declaredPath (exObj 5) = [['m'], ['m'], ['D']] ∧
    forwardrefOfText ['m', '.', 'm', '.', 'D'] ['m'] = ⟨['m', '.', 'D'], ['m']⟩ ∧
    evaluateRef ex (forwardrefOfText ['m', '.', 'm', '.', 'D'] ['m']) = .error .attributeError := by
  decide

/-- What befc63c repaired.  Module `m`; classes `A.m.Q` (3: the module's name as an inner segment) and `Xm.Q` (5: a name
    ENDING with the module's name). -/
def ex2 : NS :=
  { objs := [cls 1 [['A']] ['m'], cls 2 [['A'], ['m']] ['m'], cls 3 [['A'], ['m'], ['Q']] ['m'],
             cls 4 [['X', 'm']] ['m'], cls 5 [['X', 'm'], ['Q']] ['m']],
    binds := [⟨.modl ['m'], ['A'], 1⟩, ⟨.obj 1, ['m'], 2⟩, ⟨.obj 2, ['Q'], 3⟩,
              ⟨.modl ['m'], ['X', 'm'], 4⟩, ⟨.obj 4, ['Q'], 5⟩] }

theorem ex2_wf : wf ex2 = true := by decide

/-- The tree before befc63c removed `"<module>."` wherever the characters occur: `A.m.Q` became `A.Q`, `Xm.Q` became `XQ`
    (the reproduction `Outer.shapes.Q` / `Myshapes.A` in module `shapes`), and neither was found. -/
theorem befc63c_needed :
    forwardrefOfTextPreBefc63c ['A', '.', 'm', '.', 'Q'] ['m'] = ⟨['A', '.', 'Q'], ['m']⟩ ∧
    evaluateRef ex2 (forwardrefOfTextPreBefc63c ['A', '.', 'm', '.', 'Q'] ['m']) = .error .attributeError ∧
    forwardrefOfTextPreBefc63c ['X', 'm', '.', 'Q'] ['m'] = ⟨['X', 'Q'], ['m']⟩ ∧
    evaluateRef ex2 (forwardrefOfTextPreBefc63c ['X', 'm', '.', 'Q'] ['m']) = .error .nameError ∧
    evaluateRef ex2 (forwardrefOfTextPreBefc63c ['m', '.', 'X', 'm', '.', 'Q'] ['m']) = .error .nameError := by
  decide

/-- … while the current function finds both, bare and prefixed — by the theorem, not by evaluation. -/
theorem befc63c_repairs :
    (evaluateRef ex2 (forwardrefOfText ['A', '.', 'm', '.', 'Q'] ['m']) = .ok 3 ∧
     evaluateRef ex2 (forwardrefOfText ['m', '.', 'A', '.', 'm', '.', 'Q'] ['m']) = .ok 3) ∧
    (evaluateRef ex2 (forwardrefOfText ['X', 'm', '.', 'Q'] ['m']) = .ok 5 ∧
     evaluateRef ex2 (forwardrefOfText ['m', '.', 'X', 'm', '.', 'Q'] ['m']) = .ok 5) :=
  ⟨text_roundtrip_first_segment (c := cls 3 [['A'], ['m'], ['Q']] ['m']) ex2_wf (by decide) rfl rfl (by decide) (by decide),
   text_roundtrip_first_segment (c := cls 5 [['X', 'm'], ['Q']] ['m']) ex2_wf (by decide) rfl rfl (by decide) (by decide)⟩

/-- A dotted module name `p.q`:  class p: class q: class X (1, 2, 3);  class X (4);  class A: class p: class q: class Y
    (5, 6, 7, 8). -/
def pq : Str := ['p', '.', 'q']

def ex4 : NS :=
  { objs := [cls 1 [['p']] pq, cls 2 [['p'], ['q']] pq, cls 3 [['p'], ['q'], ['X']] pq, cls 4 [['X']] pq,
             cls 5 [['A']] pq, cls 6 [['A'], ['p']] pq, cls 7 [['A'], ['p'], ['q']] pq,
             cls 8 [['A'], ['p'], ['q'], ['Y']] pq],
    binds := [⟨.modl pq, ['p'], 1⟩, ⟨.obj 1, ['q'], 2⟩, ⟨.obj 2, ['X'], 3⟩, ⟨.modl pq, ['X'], 4⟩,
              ⟨.modl pq, ['A'], 5⟩, ⟨.obj 5, ['p'], 6⟩, ⟨.obj 6, ['q'], 7⟩, ⟨.obj 7, ['Y'], 8⟩] }

theorem ex4_wf : wf ex4 = true := by decide

/-- In module `p.q` the class path `p.q` (2) is not a PROPER continuation of the module's name and `A.p.q.Y` (8) does not
    start with it: both are found bare and prefixed (the lookbehind excludes the dot before `p.q.` in `A.p.q.Y`; the tree
    before befc63c read it as `A.Y`).  `p.q.X` (3) is found prefixed, and of course by its class (a). -/
theorem dotted_module_roundtrip :
    (evaluateRef ex4 (forwardrefOfText ['p', '.', 'q'] pq) = .ok 2 ∧
     evaluateRef ex4 (forwardrefOfText ['p', '.', 'q', '.', 'p', '.', 'q'] pq) = .ok 2) ∧
    (evaluateRef ex4 (forwardrefOfText ['A', '.', 'p', '.', 'q', '.', 'Y'] pq) = .ok 8 ∧
     evaluateRef ex4 (forwardrefOfText ['p', '.', 'q', '.', 'A', '.', 'p', '.', 'q', '.', 'Y'] pq) = .ok 8) ∧
    evaluateRef ex4 (forwardrefOfText ['p', '.', 'q', '.', 'p', '.', 'q', '.', 'X'] pq) = .ok 3 ∧
    evaluateRef ex4 (forwardrefOfClass (cls 3 [['p'], ['q'], ['X']] pq)) = .ok 3 ∧
    evaluateRef ex4 (forwardrefOfTextPreBefc63c ['A', '.', 'p', '.', 'q', '.', 'Y'] pq) = .error .attributeError :=
  ⟨text_roundtrip_segments (c := cls 2 [['p'], ['q']] pq) ex4_wf (by decide) rfl rfl (by decide),
   text_roundtrip_segments (c := cls 8 [['A'], ['p'], ['q'], ['Y']] pq) ex4_wf (by decide) rfl rfl (by decide),
   text_roundtrip_prefixed (c := cls 3 [['p'], ['q'], ['X']] pq) ex4_wf (by decide) rfl rfl,
   forwardref_roundtrip (c := cls 3 [['p'], ['q'], ['X']] pq) ex4_wf (by decide) rfl rfl, by decide⟩

/-- … and the remaining ambiguity for a dotted module name: the bare `p.q.X` is read as `X` of module `p.q` (class 4). -/
theorem dotted_module_ambiguity :
    properPrefix (splitDots pq) [['p'], ['q'], ['X']] = true ∧
    evaluateRef ex4 (forwardrefOfText ['p', '.', 'q', '.', 'X'] pq) = .ok 4 := by
  decide

/-- (d) on the example: `f.<locals>.L` is named `f.L`, and `f` is a function. -/
example : ∃ e, evaluateRef ex (forwardrefOfClass (exObj 12)) = .error e :=
  local_class_unresolvable ex_wf (by decide) rfl rfl (by decide)

example : forwardrefOfClass (exObj 13) = ⟨['f', '.', 'L', '.', 'M'], ['m']⟩ ∧
    evaluateRef ex (forwardrefOfClass (exObj 13)) = .error .attributeError ∧
    -- although the class is reachable under another path:
    evaluateRef ex ⟨['L', '.', 'M'], ['m']⟩ = .ok 13 := by decide

/-- (d) needs its hypothesis: in a module `f`, the class made by `def f()` and kept as `L = f()` is named `f.L`, loses the
    `f.` (the name is not the `__qualname__`, so the module's name is removed) and IS found, as `L`. -/
def ex3 : NS :=
  { objs := [{ id := 1, kind := .func, name := ['f'], qual := some [['f']], module := ['f'] },
             cls 2 [['f'], lm, ['L']] ['f']],
    binds := [⟨.modl ['f'], ['f'], 1⟩, ⟨.modl ['f'], ['L'], 2⟩] }

theorem local_class_found_when_function_named_like_module :
    wf ex3 = true ∧ isLocal (cls 2 [['f'], lm, ['L']] ['f']) = true ∧
    forwardrefOfClass (cls 2 [['f'], lm, ['L']] ['f']) = ⟨['L'], ['f']⟩ ∧
    evaluateRef ex3 (forwardrefOfClass (cls 2 [['f'], lm, ['L']] ['f'])) = .ok 2 := by
  decide

/-- (d) befc63c changed the name of a local class, too: `Xm.<locals>.L` in module `m` is `Xm.L` now (it was `XL`). -/
example : forwardrefOfClass (cls 2 [['X', 'm'], lm, ['L']] ['m']) = ⟨['X', 'm', '.', 'L'], ['m']⟩ ∧
    forwardrefPreBefc63c (cls 2 [['X', 'm'], lm, ['L']] ['m']) = ⟨['X', 'L'], ['m']⟩ := by decide

/-- (e) on the example: `R = NewType("I", int)` is named `I` and not found; `O = NewType("O", …)` and the alias `T` are;
    `S = NewType("A", …)` is named `A`, which is the class 6. -/
theorem renamed_binding :
    forwardrefOfClass (exObj 14) = ⟨['I'], ['m']⟩ ∧
    evaluateRef ex (forwardrefOfClass (exObj 14)) = .error .nameError ∧
    evaluateRef ex ⟨['R'], ['m']⟩ = .ok 14 ∧
    evaluateRef ex (forwardrefOfClass (exObj 15)) = .ok 15 ∧
    evaluateRef ex (forwardrefOfClass (exObj 16)) = .ok 16 ∧
    evaluateRef ex (forwardrefOfClass (exObj 18)) = .ok 6 := by
  decide

example : boundAtDeclared ex (exObj 14) = false ∧ boundAtDeclared ex (exObj 15) = true :=
  ⟨by decide, (found_iff_bound_at_declared ex (o := exObj 15) (by decide) (by decide)).1 (by decide)⟩

/-! ### (f) `inspection.name` of a class -/

theorem lastSeg_cons {x : Str} {l : List Str} (h : l ≠ []) : lastSeg (x :: l) = lastSeg l := by
  cases l with
  | nil => exact absurd rfl h
  | cons t rest => rfl

theorem lastSeg_append_singleton (l : List Str) (a : Str) : lastSeg (l ++ [a]) = a := by
  induction l with
  | nil => rfl
  | cons x l ih => rw [List.cons_append, lastSeg_cons (by simp), ih]

/-- (f) `inspection.name(cls)` is `cls.__name__`, for local classes too. -/
theorem nameOf_eq_name {ns : NS} (hwf : wf ns = true) {c : Obj} (hc : c ∈ ns.objs) (hk : c.kind = .cls) :
    nameOf c = c.name := by
  obtain ⟨segs, f⟩ := clsFacts (wf_objOk hwf hc) hk
  have hpreOk : ∀ s ∈ segs.dropLast, segOk s = true := fun s hs => f.segsOk s (List.dropLast_subset _ hs)
  have hq : qualnameOf c = joinDots (segs.dropLast.filter notMarker ++ [c.name]) := by
    have := strip_locals_joinDots segs.dropLast hpreOk f.nameOk
    rw [← f.split] at this
    simp [qualnameOf, f.qual, this]
  have hdf : ∀ s ∈ segs.dropLast.filter notMarker ++ [c.name], dotFree s = true := by
    intro s hs
    rcases List.mem_append.1 hs with h | h
    · obtain ⟨hsb, hsn⟩ := List.mem_filter.1 h
      rcases segOk_cases (hpreOk s hsb) with h' | h'
      · exact identLike_dotFree h'
      · simp [notMarker, h'] at hsn
    · rw [List.mem_singleton.1 h]; exact identLike_dotFree f.nameOk
  rw [nameOf, hq, splitDots_joinDots (by simp) hdf, lastSeg_append_singleton]

example : nameOf (exObj 13) = ['M'] := nameOf_eq_name ex_wf (by decide) rfl

end Typelib.NamingProps
