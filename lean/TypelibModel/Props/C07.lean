/-
  C07 — Recursive and mutually recursive types work at every depth.

  The round-trip (C01), pass-through (C13) and conformance (C03) theorems quantify over *all* values
  of *all* class environments — self- and mutually recursive ones included — so nesting depth is not a
  parameter of them.  This file makes that explicit on the recursion shapes of the property: for a
  self-referential class whose cycle closes through `Optional[X]`, through `list[X]`, and for two
  mutually recursive classes closing through `dict[str, X]`, a value nested to EVERY depth d is valid
  and round-trips (∀ d, by induction on d), every level converted.  Termination of the routine
  *build* on cyclic annotations is C09 (`build_terminates`, `edges_acyclic`).
-/
import TypelibModel.Props.C01
import TypelibModel.Props.C13
namespace Typelib.C07
open Typelib

/-- `class Node: val: int; nxt: Optional[Node] = None` and
    `class Tree: val: int; kids: list[Tree]`, and the mutually recursive pair
    `class A: b: dict[str, B]`, `class B: a: Optional[A]`. -/
def env : Env :=
  [ { flavour := .dataclass, fields := [("val".toList, .scalar .int), ("nxt".toList, .union [.cls 0, .none])],
      required := ["val".toList], defaults := [("nxt".toList, .none)] },
    { flavour := .dataclass, fields := [("val".toList, .scalar .int), ("kids".toList, .coll .list (.cls 1))],
      required := ["val".toList], defaults := [("kids".toList, .list [])] },
    { flavour := .dataclass, fields := [("b".toList, .dict (.scalar .str) (.cls 3))], required := ["b".toList] },
    { flavour := .namedtuple, fields := [("a".toList, .union [.cls 2, .none])], required := ["a".toList] } ]

theorem env_wf : wfEnv S0 env = true := by decide

theorem env_noEnums : ∀ c i, memberValue env c i = none := by
  intro c i
  match c with
  | 0 | 1 | 2 | 3 => cases i <;> rfl
  | _ + 4 => rfl

/-- A linked list of depth d. -/
def chain : Nat → Val
  | 0 => .inst 0 [("val".toList, .int 0), ("nxt".toList, .none)]
  | d + 1 => .inst 0 [("val".toList, .int (d + 1)), ("nxt".toList, chain d)]

/-- A degenerate tree of depth d (one child per level, inside a list). -/
def tree : Nat → Val
  | 0 => .inst 1 [("val".toList, .int 0), ("kids".toList, .list [])]
  | d + 1 => .inst 1 [("val".toList, .int (d + 1)), ("kids".toList, .list [tree d, tree d])]

/-- Mutual recursion A → dict[str, B] → Optional[A] → …, depth d. -/
def mutualA : Nat → Val
  | 0 => .inst 2 [("b".toList, .dict [])]
  | d + 1 => .inst 2 [("b".toList, .dict [(.str "k".toList, .inst 3 [("a".toList, mutualA d)])])]

theorem chain_step (n : Nat) (k : Int) (x : Val) (h : hasType env n (.cls 0) x = true) :
    hasType env (n + 2) (.cls 0) (.inst 0 [("val".toList, .int k), ("nxt".toList, x)]) = true := by
  simp only [hasType, env] at h ⊢
  simp [hasTypeG, Env.cls, all2, hasScalar] at h ⊢
  exact Or.inl h

theorem tree_step (n : Nat) (k : Int) (x y : Val) (hx : hasType env n (.cls 1) x = true)
    (hy : hasType env n (.cls 1) y = true) :
    hasType env (n + 2) (.cls 1) (.inst 1 [("val".toList, .int k), ("kids".toList, .list [x, y])]) = true := by
  simp only [hasType, env] at hx hy ⊢
  simp [hasTypeG, Env.cls, all2, hasScalar, collOf] at hx hy ⊢
  exact ⟨hx, hy⟩

theorem mutual_step (n : Nat) (x : Val) (h : hasType env n (.cls 2) x = true) :
    hasType env (n + 4) (.cls 2)
      (.inst 2 [("b".toList, .dict [(.str "k".toList, .inst 3 [("a".toList, x)])])]) = true := by
  simp only [hasType, env] at h ⊢
  simp [hasTypeG, Env.cls, all2, hasScalar, hashable] at h ⊢
  exact Or.inl h

theorem list_step (n : Nat) (x : Val) (h : hasType env n (.cls 1) x = true) :
    hasType env (n + 1) (.coll .list (.cls 1)) (.list [x]) = true := by
  simp only [hasType] at h ⊢
  simp [hasTypeG, collOf] at h ⊢
  exact h

theorem chain_valid : ∀ d, hasType env (2 * d + 3) (.cls 0) (chain d) = true := by
  intro d
  induction d with
  | zero => decide
  | succ d ih =>
    have h : 2 * (d + 1) + 3 = (2 * d + 3) + 2 := by omega
    rw [h]
    exact chain_step _ _ _ ih

theorem tree_valid : ∀ d, hasType env (2 * d + 3) (.cls 1) (tree d) = true := by
  intro d
  induction d with
  | zero => decide
  | succ d ih =>
    have h : 2 * (d + 1) + 3 = (2 * d + 3) + 2 := by omega
    rw [h]
    exact tree_step _ _ _ _ ih ih

theorem mutual_valid : ∀ d, hasType env (4 * d + 3) (.cls 2) (mutualA d) = true := by
  intro d
  induction d with
  | zero => decide
  | succ d ih =>
    have h : 4 * (d + 1) + 3 = (4 * d + 3) + 4 := by omega
    rw [h]
    exact mutual_step _ _ ih

/-- **Every depth**: a linked list nested d levels deep round-trips, for every d. -/
theorem chain_roundtrip (d : Nat) :
    ∃ m, mar env (pyLeaves env) (2 * d + 3) (.cls 0) (chain d) = .ok m
      ∧ um env (pyLeaves env) (2 * d + 3) (.cls 0) m = .ok (chain d) :=
  C01.roundtrip_core env 0 env_wf (enumWF_of_noEnums _ env_noEnums) _ _ _ (by decide) (chain_valid d)

theorem tree_roundtrip (d : Nat) :
    ∃ m, mar env (pyLeaves env) (2 * d + 3) (.cls 1) (tree d) = .ok m
      ∧ um env (pyLeaves env) (2 * d + 3) (.cls 1) m = .ok (tree d) :=
  C01.roundtrip_core env 0 env_wf (enumWF_of_noEnums _ env_noEnums) _ _ _ (by decide) (tree_valid d)

theorem mutual_roundtrip (d : Nat) :
    ∃ m, mar env (pyLeaves env) (4 * d + 3) (.cls 2) (mutualA d) = .ok m
      ∧ um env (pyLeaves env) (4 * d + 3) (.cls 2) m = .ok (mutualA d) :=
  C01.roundtrip_core env 0 env_wf (enumWF_of_noEnums _ env_noEnums) _ _ _ (by decide) (mutual_valid d)

/-- … also with a container of the cyclic class as the root annotation (`list[Tree]`), every depth. -/
theorem tree_list_roundtrip (d : Nat) :
    ∃ m, mar env (pyLeaves env) (2 * d + 4) (.coll .list (.cls 1)) (.list [tree d]) = .ok m
      ∧ um env (pyLeaves env) (2 * d + 4) (.coll .list (.cls 1)) m = .ok (.list [tree d]) := by
  apply C01.roundtrip_core env 0 env_wf (enumWF_of_noEnums _ env_noEnums) _ _ _ (by decide)
  exact list_step _ _ (tree_valid d)

/-- Every level is converted, none passed through raw: an already-converted value of any depth is a
    fixed point of unmarshal (C13), so the nested members are instances, not wire dicts. -/
theorem chain_passthrough (d : Nat) : um env (pyLeaves env) (2 * d + 3) (.cls 0) (chain d) = .ok (chain d) :=
  C13.passthrough_core env 0 env_wf _ _ _ (by decide) (chain_valid d)

end Typelib.C07
