/-
  C01 — Unmarshalling a marshalled value restores the value.

  `roundtrip`: for every class environment, every annotation of U whose unions are Optional-only,
  every valid value (of exactly the annotated classes, any size, any nesting depth — recursive
  classes included) and any leaf conversions satisfying `LeafLaws`:
      unmarshal(T, marshal(v, t=T)) = v
  with structural equality of `Val` (runtime class at every position and the UTC offset of aware
  temporals are part of the value).  Proved by induction on the fuel shared by `hasType`, `mar`
  and `um`, i.e. on the nesting depth of the value.

  Unions with several non-None members are first-acceptor on both sides (C08); for them the round
  trip is `roundtrip_union_partial` under the semantic side condition the proof forces, and the
  full statement is refuted at a concrete witness (`roundtrip_false_for_cross_member_union`).
-/
import TypelibModel.Lemmas.RoundTrip
import TypelibModel.Lemmas.LeafRT
import TypelibModel.Lemmas.EnumRT
namespace Typelib.C01
open Typelib

theorem literal_pyMem (env : Env) : ∀ (vs : List Val) (v : Val), vs.all isPrim = true →
    Val.exactMem v vs = true → pyMem? env v vs = some true ∧ isPrim v = true := by
  intro vs
  induction vs with
  | nil => intro v _ h; simp [Val.exactMem] at h
  | cons w ws ih =>
    intro v hall hmem
    simp only [List.all_cons, Bool.and_eq_true] at hall
    simp only [Val.exactMem, List.any_cons, Bool.or_eq_true] at hmem
    cases hmem with
    | inl hw =>
      have hv : v = w := isPrim_beq_eq hall.1 hw
      subst hv
      refine ⟨?_, hall.1⟩
      have : pyEq? env v v = some true := by
        cases v <;> simp [isPrim] at hall <;> simp [pyEq?, intVal?]
        case none => rfl
      simp [pyMem?, this]
    | inr hws =>
      have ih' := ih v hall.2 (by simpa [Val.exactMem] using hws)
      refine ⟨?_, ih'.2⟩
      have hp := ih'.2
      have hsome : ∃ b, pyEq? env w v = some b := by
        cases w <;> simp [isPrim] at hall <;> cases v <;> simp [isPrim] at hp <;> simp [pyEq?, intVal?]
      obtain ⟨b, hb⟩ := hsome
      cases b <;> simp [pyMem?, hb, ih'.1]

theorem isPrim_hashable {v : Val} (h : isPrim v = true) : hashable v = true := by
  cases v <;> simp [isPrim] at h <;> rfl

theorem isPrim_decode {v : Val} (h : isPrim v = true) : decode v = v := by
  cases v <;> simp [isPrim] at h <;> rfl

/-- The statement proved by induction; the two extra conjuncts feed the dict-key and Optional cases. -/
def RT (env : Env) (L : Leaves) (n : Nat) (t : Ty) (v : Val) : Prop :=
  ∃ m, mar env L n t v = .ok m ∧ um env L n t m = .ok v
    ∧ (isKeyTy t = true → hashable m = true)
    ∧ (decode m = .none → v = .none)

/-- Validity with an arbitrary scalar check `leaf` and exact (class-aware) literal membership;
    `hasType env = hasTypeL hasScalar env` by definition. -/
def hasTypeL (leaf : Scalar → Val → Bool) (env : Env) : Nat → Ty → Val → Bool :=
  hasTypeG leaf (fun vs v => Val.exactMem v vs) env

theorem hasType_eq_hasTypeL (env : Env) : hasType env = hasTypeL hasScalar env := rfl

/-- The induction, generic in the scalar validity check `leaf`: all it needs of the leaves is the
    round-trip law for the values `leaf` accepts (and the enum law). -/
theorem roundtrip_auxG (S : Scalar → Bool) (leaf : Scalar → Val → Bool) (env : Env) (L : Leaves)
    (hE : wfEnv S env = true)
    (hrt : ∀ s v, S s = true → leaf s v = true →
      ∃ m, L.mar s v = .ok m ∧ L.um s m = .ok v ∧ hashable m = true ∧ decode m ≠ .none)
    (henum : ∀ c i w, memberValue env c i = some w →
      umEnum env L c w = .ok (.member c i) ∧ hashable w = true ∧ decode w ≠ .none) :
    ∀ n t v, wfTy S env t = true → hasTypeL leaf env n t v = true → RT env L n t v := by
  intro n
  induction n with
  | zero => intro t v _ h; simp [hasTypeL, hasTypeG] at h
  | succ n ih =>
    intro t v hwf hty
    cases t with
    | scalar s =>
      simp only [hasTypeL, hasTypeG] at hty
      simp only [wfTy] at hwf
      obtain ⟨m, h1, h2, h3, h4⟩ := hrt s v hwf hty
      exact ⟨m, by simp [mar, h1], by simp [um, h2], fun _ => h3, fun h => absurd h h4⟩
    | none =>
      simp only [hasTypeL, hasTypeG] at hty
      have hv := eq_none_of_beq hty
      subst hv
      exact ⟨.none, by simp [mar], by simp [um, umNone, decode], by simp [isKeyTy], fun _ => rfl⟩
    | any => simp [wfTy] at hwf
    | enum c =>
      simp only [hasTypeL, hasTypeG] at hty
      cases v with
      | member c' i =>
        simp only [Bool.and_eq_true, beq_iff_eq] at hty
        obtain ⟨hc, hsome⟩ := hty
        subst hc
        obtain ⟨w, hw⟩ := Option.isSome_iff_exists.mp hsome
        obtain ⟨h1, h2, h3⟩ := henum c' i w hw
        refine ⟨w, by simp [mar, hw], by simp [um, h1], fun _ => h2, fun h => absurd h h3⟩
      | _ => simp at hty
    | literal vs =>
      simp only [hasTypeL, hasTypeG] at hty
      simp only [wfTy] at hwf
      obtain ⟨hmem, hprim⟩ := literal_pyMem env vs v hwf hty
      refine ⟨v, by simp [mar, hty], by simp [um, hmem], fun _ => isPrim_hashable hprim, ?_⟩
      intro h; rw [isPrim_decode hprim] at h; exact h
    | coll k e =>
      simp only [hasTypeL, hasTypeG] at hty
      simp only [wfTy] at hwf
      cases hco : collOf k v with
      | none => simp [hco] at hty
      | some xs =>
        simp only [hco, List.all_eq_true] at hty
        obtain ⟨hv, hit⟩ := collOf_some hco
        obtain ⟨ms, hms1, hms2⟩ := mapR_roundtrip (mar env L n e) (um env L n e)
          (fun x => hasTypeL leaf env n e x = true) xs hty
          (fun x hx => by obtain ⟨m, a, b, _⟩ := ih e x hwf hx; exact ⟨m, a, b⟩)
        refine ⟨.list ms, ?_, ?_, by simp [isKeyTy], by simp [decode]⟩
        · simp [mar, hit env, hms1]
        · simp [um, load, Except.bind, itervalues, hms2, hv]
    | tuple es =>
      simp only [hasTypeL, hasTypeG] at hty
      simp only [wfTy] at hwf
      cases v with
      | tuple xs =>
        simp only at hty
        obtain ⟨ms, h1, h2, h3⟩ := zipR_roundtrip (mar env L n) (um env L n) (hasTypeL leaf env n) es xs hty
          (fun e x he hx => by
            obtain ⟨m, a, b, _⟩ := ih e x (wfTys_mem hwf e he) hx; exact ⟨m, a, b⟩)
        have hlen : xs.length = es.length := by
          have := zipR_ok_length (es.map (um env L n)) ms xs h2
          simp at this; omega
        refine ⟨.list ms, ?_, ?_, by simp [isKeyTy], by simp [decode]⟩
        · simp [mar, itervalues, h1]
        · simp [um, load, Except.bind, itervalues, h2, hlen]
      | _ => simp at hty
    | dict k e =>
      simp only [hasTypeL, hasTypeG] at hty
      simp only [wfTy, Bool.and_eq_true] at hwf
      obtain ⟨⟨hkey, hwk⟩, hwe⟩ := hwf
      cases v with
      | dict kvs =>
        simp only [List.all_eq_true, Bool.and_eq_true] at hty
        let F : Item → R (Val × Val) := convPair (mar env L n k) (mar env L n e)
        let G : Item → R (Val × Val) := convPair (um env L n k) (um env L n e)
        obtain ⟨ms, hms1, hms2⟩ := mapR_roundtrip (fun kv => F (.ok kv)) (fun kv => G (.ok kv))
          (fun kv => hasTypeL leaf env n k kv.1 = true ∧ hasTypeL leaf env n e kv.2 = true ∧ hashable kv.1 = true) kvs
          (fun kv hkv => by
            obtain ⟨⟨a, b⟩, c⟩ := hty kv hkv
            exact ⟨a, b, c⟩)
          (fun kv hkv => by
            obtain ⟨ka, kb⟩ := kv
            obtain ⟨mk, a1, a2, a3, _⟩ := ih k ka hwk hkv.1
            obtain ⟨mv, b1, b2, _⟩ := ih e kb hwe hkv.2.1
            refine ⟨(mk, mv), ?_, ?_⟩
            · simp [F, convPair, a1, b1, a3 hkey]
            · have hh : hashable ka = true := hkv.2.2
              simp [G, convPair, a2, b2, hh])
        refine ⟨.dict ms, ?_, ?_, by simp [isKeyTy], by simp [decode]⟩
        · simp only [mar, iteritems]
          rw [mapR_map]
          simp only [F] at hms1
          rw [hms1]
        · simp only [um, load, Except.bind, iteritems]
          rw [mapR_map]
          simp only [G] at hms2
          rw [hms2]
      | _ => simp at hty
    | union ms =>
      simp only [hasTypeL, hasTypeG, List.any_eq_true] at hty
      simp only [wfTy, Bool.and_eq_true, optionalOnly, beq_iff_eq] at hwf
      obtain ⟨⟨hnull, hone⟩, hwms⟩ := hwf
      obtain ⟨m0, hm0, hty0⟩ := hty
      -- the single non-None member
      obtain ⟨t', ht'⟩ : ∃ t', ms.filter (fun m => !m.isNone) = [t'] := by
        cases hf : ms.filter (fun m => !m.isNone) with
        | nil => simp [hf] at hone
        | cons a as =>
          cases as with
          | nil => exact ⟨a, rfl⟩
          | cons _ _ => simp [hf] at hone
      have ht'mem : t' ∈ ms ∧ t'.isNone = false := by
        have : t' ∈ ms.filter (fun m => !m.isNone) := by simp [ht']
        simpa using List.mem_filter.mp this
      have hn1 : ∃ n', n = n' + 1 := by
        cases n with
        | zero => simp [hasTypeG] at hty0
        | succ n' => exact ⟨n', rfl⟩
      obtain ⟨n', hn'⟩ := hn1
      have humNone : ∀ x, um env L n .none x = umNone x := by
        intro x; subst hn'; simp [um]
      by_cases hvn : v = .none
      · subst hvn
        refine ⟨.none, by simp [mar, marUnion, hnull], ?_, by simp [isKeyTy], fun _ => rfl⟩
        simp [um, unionOrder, hnull, firstOk, humNone, umNone, decode]
      · -- v is a value of the non-None member
        have hm0' : m0 = t' := by
          have hnn : m0.isNone = false := by
            cases hb : m0.isNone with
            | false => rfl
            | true => exact absurd (isNone_hasTypeG _ _ env n m0 v hb hty0) hvn
          have : m0 ∈ ms.filter (fun m => !m.isNone) := List.mem_filter.mpr ⟨hm0, by simp [hnn]⟩
          rw [ht'] at this
          simpa using this
        subst hm0'
        obtain ⟨m, h1, h2, _, h4⟩ := ih m0 v (wfTys_mem hwms m0 hm0) hty0
        have hdec : decode m ≠ .none := fun h => hvn (h4 h)
        refine ⟨m, ?_, ?_, by simp [isKeyTy], h4⟩
        · have : marUnion ms (mar env L n) v = firstOk ((ms.filter (fun m => !m.isNone)).map (mar env L n)) v := by
            unfold marUnion
            rw [if_pos hnull]
            cases v <;> first | rfl | exact absurd rfl hvn
          simp only [mar]
          rw [this, ht']
          simp [firstOk, h1]
        · have hrej : umNone m = .error .value := by
            unfold umNone
            cases hd : decode m <;> first | rfl | exact absurd hd hdec
          simp [um, unionOrder, hnull, ht', firstOk, humNone, hrej, Err.isRejection, h2]
    | cls c =>
      clear hrt henum
      simp only [hasTypeL, hasTypeG] at hty
      cases hc : env.cls c with
      | none => simp [hc] at hty
      | some ci =>
        have hwc := wfEnv_cls hE hc
        simp only [wfClass, Bool.and_eq_true, List.all_eq_true, Bool.not_eq_eq_eq_not, Bool.not_true] at hwc
        obtain ⟨⟨hnd, hfld⟩, hreq⟩ := hwc
        have hrtF : ∀ t v, (wfTy S env t && hasTypeL leaf env n t v) = true →
            ∃ m, mar env L n t v = .ok m ∧ um env L n t m = .ok v := by
          intro t v h
          simp only [Bool.and_eq_true] at h
          obtain ⟨m, a, b, _⟩ := ih t v h.1 h.2
          exact ⟨m, a, b⟩
        simp only [hc] at hty
        by_cases htd : ci.flavour = .typeddict
        · -- TypedDict: the value is a plain dict
          rw [htd] at hty
          cases v with
          | dict kvs =>
            simp only at hty
            cases hkn : keyNames kvs with
            | none => simp [hkn] at hty
            | some names =>
              simp only [hkn, Bool.and_eq_true, List.all_eq_true] at hty
              obtain ⟨⟨hndn, hreqn⟩, hflds⟩ := hty
              obtain ⟨fs, hfs1, hfs2⟩ := keyNames_some kvs names hkn
              have hPfs : ∀ p ∈ fs, ∃ t, (p.1, t) ∈ ci.fields ∧ (wfTy S env t && hasTypeL leaf env n t p.2) = true := by
                intro p hp
                have hkv : (Val.str p.1, p.2) ∈ kvs := by rw [hfs1]; exact List.mem_map_of_mem (f := fun q : Str × Val => (Val.str q.1, q.2)) hp
                have := hflds _ hkv
                simp only at this
                cases hfind : ci.fields.find? (fun f => f.1 == p.1) with
                | none => simp [hfind] at this
                | some f =>
                  simp only [hfind] at this
                  have hmemf := List.mem_of_find?_eq_some hfind
                  have hname : f.1 = p.1 := by
                    have := List.find?_some hfind
                    exact eq_of_beq this
                  refine ⟨f.2, by rw [← hname]; exact hmemf, ?_⟩
                  have hw := (hfld f hmemf).2
                  simp only [hw, Bool.true_and]
                  exact this
              obtain ⟨ms, hb1, hb2, hb3⟩ := buildKwargs_rt ci.fields (mar env L n) (um env L n)
                (fun t v => wfTy S env t && hasTypeL leaf env n t v) hnd hrtF fs [] (by rw [hfs2]; exact hndn)
                (by intro p _; simp) hPfs
              refine ⟨.dict (ms.map fun p => (.str p.1, p.2)), ?_, ?_, by simp [isKeyTy], by simp [decode]⟩
              · simp only [mar, hc, iteritems]
                have : kvs.map Except.ok = fs.map toItem := by rw [hfs1]; simp [toItem, List.map_map, Function.comp_def]
                rw [this, hb1]; simp
              · simp only [um, load, Except.bind, umStruct, hc, iteritems, fieldsOf]
                have : (ms.map fun p => ((Val.str p.1, p.2) : Val × Val)).map Except.ok = ms.map toItem := by
                  simp [toItem, List.map_map, Function.comp_def]
                rw [this, hb3 [] (by intro p _; simp), htd]
                simp only [List.nil_append]
                have hreq' : ci.required.all (fun r => (lookupKw r fs).isSome) = true := by
                  rw [List.all_eq_true]
                  intro r hr
                  have hrn : r ∈ names := by
                    have := hreqn r hr
                    simpa using this
                  rw [← hfs2] at hrn
                  obtain ⟨p, hp, hpr⟩ := List.mem_map.mp hrn
                  have := lookupKw_mem fs (by rw [hfs2]; exact hndn) p.1 p.2 hp
                  rw [← hpr, this]; rfl
                simp [hreq', hfs1]
          | _ => simp at hty
        · -- dataclass / named tuple / plain / slots: an instance with the declared fields
          cases v with
          | inst c' fs =>
            have hty' : (c' == c && all2 (fun (f : Str × Ty) (g : Str × Val) => f.1 == g.1 && hasTypeL leaf env n f.2 g.2) ci.fields fs) = true := by
              cases hfl : ci.flavour <;> simp_all [hasTypeL]
            simp only [Bool.and_eq_true, beq_iff_eq] at hty'
            obtain ⟨hcc, hall⟩ := hty'
            subst hcc
            obtain ⟨hnames, hnameeq, hP⟩ := all2_names ci.fields fs hall
            have hPfs : ∀ p ∈ fs, ∃ t, (p.1, t) ∈ ci.fields ∧ (wfTy S env t && hasTypeL leaf env n t p.2) = true := by
              intro p hp
              obtain ⟨t, ht, hPt⟩ := hP p hp
              exact ⟨t, ht, by simp [(hfld (p.1, t) ht).2, hPt]⟩
            have hndfs : nodupStr (fs.map Prod.fst) = true := by rw [hnames]; exact hnd
            have hpub : ∀ p ∈ fs, isPrivate p.1 = false := by
              intro p hp
              obtain ⟨t, ht, _⟩ := hP p hp
              exact (hfld (p.1, t) ht).1
            obtain ⟨ms, hb1, hb2, hb3⟩ := buildKwargs_rt ci.fields (mar env L n) (um env L n)
              (fun t v => wfTy S env t && hasTypeL leaf env n t v) hnd hrtF fs [] hndfs (by intro p _; simp) hPfs
            have hpubms : ∀ p ∈ ms, isPrivate p.1 = false := by
              intro p hp
              have : p.1 ∈ fs.map Prod.fst := by rw [← hb2]; exact List.mem_map_of_mem (f := Prod.fst) hp
              obtain ⟨q, hq, hqp⟩ := List.mem_map.mp this
              rw [← hqp]; exact hpub q hq
            have hitems : iteritems env (.inst c' fs) = .ok (fs.map toItem) := by
              simp only [iteritems, flavourOf, hc, Option.map_some]
              cases hfl : ci.flavour <;> simp_all [toItem, filter_public_id fs hpub]
            refine ⟨.dict (ms.map fun p => (.str p.1, p.2)), ?_, ?_, by simp [isKeyTy], by simp [decode]⟩
            · simp only [mar, hc, hitems, hb1]; simp
            · simp only [um, load, Except.bind, umStruct, hc, iteritems, fieldsOf]
              have : (ms.map fun p => ((Val.str p.1, p.2) : Val × Val)).map Except.ok = ms.map toItem := by
                simp [toItem, List.map_map, Function.comp_def]
              rw [this, hb3 [] (by intro p _; simp)]
              simp only [List.nil_append]
              have hcons := construct_ok ci c' fs hnameeq hndfs
              cases hfl : ci.flavour <;> simp_all
          | _ =>
            cases hfl : ci.flavour <;> simp_all
    | wrap w t' =>
      simp only [hasTypeL, hasTypeG] at hty
      simp only [wfTy] at hwf
      obtain ⟨m, h1, h2, h3, h4⟩ := ih t' v hwf hty
      exact ⟨m, by simp [mar, h1], by simp [um, h2], by simpa [isKeyTy] using h3, h4⟩

theorem roundtrip_aux (S : Scalar → Bool) (env : Env) (L : Leaves) (hE : wfEnv S env = true) (hL : LeafLaws S env L) :
    ∀ n t v, wfTy S env t = true → hasType env n t v = true → RT env L n t v :=
  roundtrip_auxG S hasScalar env L hE hL.rt hL.enumRT

/-- **C01, generic in the scalar validity check**: for values whose scalar positions satisfy `leaf`
    (`hasTypeL leaf`), provided the leaves round-trip every value `leaf` accepts.  `roundtrip` is the
    instance `leaf = hasScalar`; Props/C04.lean instantiates it with the canonical-spelling check
    `hasScalarC` for Decimal / Fraction / path / pattern. -/
theorem roundtripG (S : Scalar → Bool) (leaf : Scalar → Val → Bool) (env : Env) (L : Leaves)
    (hE : wfEnv S env = true)
    (hrt : ∀ s v, S s = true → leaf s v = true →
      ∃ m, L.mar s v = .ok m ∧ L.um s m = .ok v ∧ hashable m = true ∧ decode m ≠ .none)
    (henum : ∀ c i w, memberValue env c i = some w →
      umEnum env L c w = .ok (.member c i) ∧ hashable w = true ∧ decode w ≠ .none)
    (n : Nat) (t : Ty) (v : Val)
    (hwf : wfTy S env t = true) (hty : hasTypeL leaf env n t v = true) :
    ∃ m, mar env L n t v = .ok m ∧ um env L n t m = .ok v := by
  obtain ⟨m, h1, h2, _⟩ := roundtrip_auxG S leaf env L hE hrt henum n t v hwf hty
  exact ⟨m, h1, h2⟩

/-- **C01, Optional-only unions.** -/
theorem roundtrip (S : Scalar → Bool) (env : Env) (L : Leaves) (hE : wfEnv S env = true)
    (hL : LeafLaws S env L) (n : Nat) (t : Ty) (v : Val)
    (hwf : wfTy S env t = true) (hty : hasType env n t v = true) :
    ∃ m, mar env L n t v = .ok m ∧ um env L n t m = .ok v := by
  obtain ⟨m, h1, h2, _⟩ := roundtrip_aux S env L hE hL n t v hwf hty
  exact ⟨m, h1, h2⟩

/-- An environment without enum members satisfies `enumRT` vacuously. -/
theorem noEnums_laws (env : Env) (today : Int) (h : ∀ c i, memberValue env c i = none) :
    LeafLaws S0 env (pyLeaves env today) :=
  { rt := pyLeaves_rt env today
    enumRT := by intro c i w hw; rw [h c i] at hw; cases hw }

/-- The executable leaves satisfy the leaf laws on U₀ for every environment whose enum classes pass
    the decidable check `enumWF` (Lemmas/EnumRT.lean): each member's value — bool, int or str — is
    met first at that member by the lookups of the enum routine. -/
theorem enumWF_laws (env : Env) (today : Int) (h : enumWF env = true) :
    LeafLaws S0 env (pyLeaves env today) :=
  { rt := pyLeaves_rt env today
    enumRT := pyLeaves_enumRT env today h }

/-- **C01 on the unconditional core U₀** (int, bool, float, str and enums with bool / int / str values
    under every composite constructor, class flavour, wrapper and recursion): no hypothesis about
    CPython is left; the side conditions `wfEnv`, `enumWF`, `wfTy` are decidable.
    Without `enumWF` the statement is false (`roundtrip_false_for_shadowed_member`). -/
theorem roundtrip_core (env : Env) (today : Int) (hE : wfEnv S0 env = true)
    (hne : enumWF env = true) (n : Nat) (t : Ty) (v : Val)
    (hwf : wfTy S0 env t = true) (hty : hasType env n t v = true) :
    ∃ m, mar env (pyLeaves env today) n t v = .ok m ∧ um env (pyLeaves env today) n t m = .ok v :=
  roundtrip S0 env (pyLeaves env today) hE (enumWF_laws env today hne) n t v hwf hty

/-- The former statement of `roundtrip_core` (environments without enum members) is a corollary. -/
theorem roundtrip_core_noEnums (env : Env) (today : Int) (hE : wfEnv S0 env = true)
    (hne : ∀ c i, memberValue env c i = none) (n : Nat) (t : Ty) (v : Val)
    (hwf : wfTy S0 env t = true) (hty : hasType env n t v = true) :
    ∃ m, mar env (pyLeaves env today) n t v = .ok m ∧ um env (pyLeaves env today) n t m = .ok v :=
  roundtrip_core env today hE (enumWF_of_noEnums env hne) n t v hwf hty

/-! ### Enums: the side condition is forced, and satisfiable

`EnumUnmarshaller` reads text as JSON / a Python literal before the by-value lookup and only then
falls back on the text itself (`unmarshals/routines.py:589-602`).  A str-valued member whose text
reads as the value of another member is therefore shadowed by it. -/

/-- `class E(Enum): A = 1; B = "1"`. -/
def shadowEnv : Env :=
  [{ flavour := .plain, members := [("A".toList, .int 1), ("B".toList, .str "1".toList)] }]

example : enumWF shadowEnv = false := by decide

/-- `LeafLaws.enumRT` fails for the executable leaves on `shadowEnv`: the value `"1"` of `E.B` is read
    as the int 1 and finds `E.A` (same on the real library: `unmarshal(E, marshal(E.B))` is `E.A`). -/
theorem enumRT_false_for_shadowed_member :
    ¬ (∀ (env : Env) (c i : Nat) (w : Val), memberValue env c i = some w →
        umEnum env (pyLeaves env) c w = .ok (.member c i) ∧ hashable w = true ∧ decode w ≠ .none) := by
  intro h
  have h1 := (h shadowEnv 0 1 (.str ['1']) rfl).1
  have hu : umEnum shadowEnv (pyLeaves shadowEnv) 0 (.str ['1']) = .ok (.member 0 0) := by rfl
  rw [hu] at h1
  simp at h1

/-- … hence the round trip itself fails there: `roundtrip_core` without `enumWF` is false. -/
theorem roundtrip_false_for_shadowed_member :
    ¬ (∀ (env : Env) (n : Nat) (t : Ty) (v : Val), wfEnv S0 env = true → wfTy S0 env t = true →
        hasType env n t v = true →
        ∃ m, mar env (pyLeaves env) n t v = .ok m ∧ um env (pyLeaves env) n t m = .ok v) := by
  intro h
  obtain ⟨m, h1, h2⟩ := h shadowEnv 2 (.enum 0) (.member 0 1) (by decide) (by decide) (by decide)
  have hm : mar shadowEnv (pyLeaves shadowEnv) 2 (.enum 0) (.member 0 1) = .ok (.str ['1']) := by rfl
  rw [hm] at h1
  cases h1
  have hu : um shadowEnv (pyLeaves shadowEnv) 2 (.enum 0) (.str ['1']) = .ok (.member 0 0) := by rfl
  rw [hu] at h2
  simp at h2

/-- `class Color(IntEnum): R = 1; G = 2`; `class Tag(Enum): A = "a"; ONE = "1"; N = "null"`;
    `@dataclass class Item: color: Color; tag: Optional[Tag]; tags: dict[Tag, int]`. -/
def exEnumEnv : Env :=
  [{ flavour := .plain, members := [("R".toList, .int 1), ("G".toList, .int 2)], mixin := .int },
   { flavour := .plain,
     members := [("A".toList, .str "a".toList), ("ONE".toList, .str "1".toList), ("N".toList, .str "null".toList)] },
   { flavour := .dataclass,
     fields := [("color".toList, .enum 0), ("tag".toList, .union [.enum 1, .none]),
                ("tags".toList, .dict (.enum 1) (.scalar .int))],
     required := ["color".toList, "tag".toList, "tags".toList] }]

def exEnumVal : Val :=
  .inst 2 [("color".toList, .member 0 1), ("tag".toList, .member 1 2),
           ("tags".toList, .dict [(.member 1 1, .int 7), (.member 1 0, .int 8)])]

example : enumWF exEnumEnv = true := by decide
example : wfEnv S0 exEnumEnv = true := by decide
example : wfTy S0 exEnumEnv (.coll .list (.cls 2)) = true := by decide
example : hasType exEnumEnv 5 (.coll .list (.cls 2)) (.list [exEnumVal]) = true := by decide
/-- The theorem applies to a dataclass with int- and str-valued enum fields (values `"1"`, `"null"`
    included, as dict keys and under `Optional`). -/
example : ∃ m, mar exEnumEnv (pyLeaves exEnumEnv) 5 (.coll .list (.cls 2)) (.list [exEnumVal]) = .ok m
    ∧ um exEnumEnv (pyLeaves exEnumEnv) 5 (.coll .list (.cls 2)) m = .ok (.list [exEnumVal]) :=
  roundtrip_core exEnumEnv 0 (by decide) (by decide) 5 _ _ (by decide) (by decide)
/-- What the model computes for the three str-valued members: text that reads as a number or as
    null still comes back as the declared member. -/
example : um exEnumEnv (pyLeaves exEnumEnv) 2 (.enum 1) (.str "1".toList) = .ok (.member 1 1) := by rfl
example : um exEnumEnv (pyLeaves exEnumEnv) 2 (.enum 1) (.str "null".toList) = .ok (.member 1 2) := by rfl
example : um exEnumEnv (pyLeaves exEnumEnv) 2 (.enum 1) (.str "a".toList) = .ok (.member 1 0) := by rfl

/-! ### Non-vacuity: a recursive dataclass inside `dict[str, tuple[Node, ...]]` -/

/-- `@dataclass class Node: val: int; name: Optional[str]; kids: dict[str, tuple[Node, ...]]` -/
def exEnv : Env :=
  [{ flavour := .dataclass,
     fields := [("val".toList, .scalar .int), ("name".toList, .union [.scalar .str, .none]),
                ("kids".toList, .dict (.scalar .str) (.coll .vartuple (.cls 0)))],
     required := ["val".toList], defaults := [("name".toList, .none), ("kids".toList, .dict [])] }]

def exTy : Ty := .dict (.scalar .str) (.coll .vartuple (.cls 0))

def leaf (i : Int) : Val := .inst 0 [("val".toList, .int i), ("name".toList, .none), ("kids".toList, .dict [])]

def exVal : Val :=
  .dict [(.str "a".toList, .tuple [
    .inst 0 [("val".toList, .int 1), ("name".toList, .str "null".toList),
             ("kids".toList, .dict [(.str "b".toList, .tuple [leaf 2, leaf 3])])]])]

example : wfEnv S0 exEnv = true := by decide
example : wfTy S0 exEnv exTy = true := by decide
example : hasType exEnv 12 exTy exVal = true := by decide
theorem exEnv_noEnums : ∀ c i, memberValue exEnv c i = none := by
  intro c i
  match c with
  | 0 => cases i <;> rfl
  | _ + 1 => rfl
/-- The theorem applies to the example, and the model really computes the round trip. -/
example : ∃ m, mar exEnv (pyLeaves exEnv) 12 exTy exVal = .ok m ∧ um exEnv (pyLeaves exEnv) 12 exTy m = .ok exVal :=
  roundtrip_core exEnv 0 (by decide) (enumWF_of_noEnums _ exEnv_noEnums) 12 exTy exVal (by decide) (by decide)
example : enumWF exEnv = true := by decide

/-! ### Unions with several non-None members

Both union routines are first-acceptor (C08).  The round trip then needs the earlier members to
reject the value and its wire form; the full statement is false without that. -/

/-- `Union[int, str]`, `v = "5"`: the `int` marshaller accepts the string (`int("5")`), so the wire
    form is `5` and comes back as the int 5 — the round trip fails (known finding
    `unionFirstAcceptor`; replayed on the real library by the check). -/
theorem roundtrip_false_for_cross_member_union :
    ¬ (∀ (env : Env) (n : Nat) (t : Ty) (v : Val), hasType env n t v = true →
        ∃ m, mar env (pyLeaves env) n t v = .ok m ∧ um env (pyLeaves env) n t m = .ok v) := by
  intro h
  obtain ⟨m, h1, h2⟩ := h [] 3 (.union [.scalar .int, .scalar .str]) (.str ['5']) (by decide)
  have hm : mar [] (pyLeaves []) 3 (.union [.scalar .int, .scalar .str]) (.str ['5']) = .ok (.int 5) := by rfl
  rw [hm] at h1
  cases h1
  have hu : um [] (pyLeaves []) 3 (.union [.scalar .int, .scalar .str]) (.int 5) = .ok (.int 5) := by rfl
  rw [hu] at h2
  cases h2

end Typelib.C01
