/-
  C04 — Scalar values survive their text wire forms exactly (temporal part).

  The model (`Model/Temporal.lean`) is the integer-only transcription of `serdes.isoformat`,
  `serdes.dateparse` and the four temporal unmarshallers.  Proved here, for all values of the
  stated ranges (no bound on sizes):

  * timedelta: the hand-written ISO duration writer is read back exactly by the duration reader,
    for EVERY integer number of microseconds (`timedelta_text_roundtrip`), hence by
    `parseTemporal?` and `umTimedelta`; the emitted text is accepted by an independently written
    strict ISO-8601 recogniser for every non-zero duration (`duration_wellformed`), and is the
    non-ISO text `PT` for zero (`zeroDurationText`, the recorded known finding), so the full
    well-formedness statement is false exactly there (`duration_wellformed_false_at_zero`);
  * time: every aware time with a whole-minute offset in (-24h, +24h) (`time_roundtrip`);
  * date: every date 0001-01-01 .. 9999-12-31 (`date_roundtrip`);
  * datetime: every aware datetime whose local date is in range, including those whose UTC
    instant falls outside year 1..9999 (`datetime_text_roundtrip`, `datetime_unmarshal`);
  * the calendar law both date theorems rest on is itself proved (`calendar_law`);
  * `LeafLaws` and `PassLaws` for `pyLeaves` on S1 = {int, bool, float, str, date, datetime, time,
    timedelta}, so that C01's `roundtrip` and C13's `passthroughG` apply to annotations over these
    scalars (`roundtrip_temporal`, `passthrough_temporal`);
  * the remaining scalar kinds (Lemmas/ScalarText.lean), S2 = every kind of U but bytes:
    `uuid_text_roundtrip` (hex text of every 128-bit value), `uuid_unmarshal` (the executable leaves read
    `str(u)` back: the modelled `strload` returns canonical UUID text unchanged, `strload_uuid`),
    `fraction_text_roundtrip` (every fraction in lowest terms); `PassLaws` on S2 (`passLaws_S2`,
    `passthrough_all`: no side condition), the leaf round trip on S2 for canonically spelled values
    `hasScalarC` (`leaf_roundtrip_all`, `roundtrip_all`), and the refutation without the spelling
    condition (`roundtrip_all_false_without_canon`).
-/
import TypelibModel.Lemmas.TemporalText
import TypelibModel.Lemmas.ScalarText
import TypelibModel.Lemmas.EnumRT
import TypelibModel.Props.C01
import TypelibModel.Props.C13
namespace Typelib.C04
open Typelib

/-! ### timedelta -/

/-- The magnitude reader inverts the magnitude writer, for every natural number of µs. -/
theorem durmag_roundtrip (n : Nat) : readDurMag? (durMagText n) = some n := durmag_rt n

/-- The sign-aware duration reader inverts `isoformat(timedelta)` for EVERY integer µs count
    (zero — text `PT` — and negatives included; no range restriction). -/
theorem timedelta_text_roundtrip (us : Int) : readDur? (durText us) = some us := duration_rt us

/-- `dateparse(isoformat(td))` is the duration `td`. -/
theorem timedelta_parse (us : Int) : parseTemporal? (durText us) = some (.duration us) :=
  parseTemporal_dur us

/-- `unmarshal(timedelta, isoformat(td)) == td` over the whole `timedelta` range. -/
theorem timedelta_unmarshal {us : Int} (h : tdOk us = true) :
    umTimedelta (.str (durText us)) = .ok (.timedelta us) := umTimedelta_rt h

example : durText (-86400000001) = "-P1DT0.000001S".toList := by decide
example : durText 93784000005 = "P1DT2H3M4.000005S".toList := by decide
example : durText 604800000000 = "P7D".toList := by decide        -- a week stays seven days
example : durText 59999999 = "PT59.999999S".toList := by decide
example : tdOk (-86399999913600000000) = true := by decide
example : readDur? "-P1DT0.000001S".toList = some (-86400000001) := by decide

/-- Well-formedness for an independent reader: every non-zero duration text is a strict
    ISO-8601(-2) duration `-?P(nD)?(T(nH)?(nM)?(n(.f{1,6})?S)?)?` with at least one component and
    a non-empty time part after `T`.
    Full statement `∀ us, isoDuration (durText us) = true` is false: see below. -/
theorem duration_wellformed {us : Int} (h : us ≠ 0) : isoDuration (durText us) = true :=
  isoDuration_durText h

/-- Known finding `zeroDurationText`: `isoformat(timedelta(0))` is `PT` (pinned by the
    repository's test-suite), which a strict ISO-8601 reader rejects; the model's reader (like
    pendulum) reads it as zero. -/
theorem zeroDurationText :
    durText 0 = "PT".toList ∧ isoDuration "PT".toList = false ∧ readDur? "PT".toList = some 0 := by
  decide

theorem duration_wellformed_false_at_zero : ¬ ∀ us : Int, isoDuration (durText us) = true := by
  intro h
  have := h 0
  revert this
  decide

example : isoDuration "-P1DT0.000001S".toList = true := by decide
example : isoDuration "P1D".toList = true := by decide
example : isoDuration "P".toList = false := by decide
example : isoDuration "P1DT".toList = false := by decide
example : isoDuration "PT1.S".toList = false := by decide
example : isoDuration "PT1H2".toList = false := by decide

/-! ### time -/

/-- `dateparse(t.isoformat())` for an aware time: same microseconds, same offset. -/
theorem time_roundtrip {us : Nat} {off : Int} (hus : us < 86400000000) (hm : off % 60 = 0)
    (hlo : -86400 < off) (hhi : off < 86400) :
    parseTemporal? (timeText us (some off)) = some (.timeOnly us (some off)) :=
  time_parse hus hm hlo hhi

theorem time_unmarshal (today : Int) {us : Nat} {off : Int} (hus : us < 86400000000)
    (hm : off % 60 = 0) (hlo : -86400 < off) (hhi : off < 86400) :
    umTime today (.str (timeText us (some off))) = .ok (.time us (some off)) :=
  umTime_rt today hus hm hlo hhi

example : timeText 86399999999 (some (-86340)) = "23:59:59.999999-23:59".toList := by decide
example : timeText 3600000000 (some 19800) = "01:00:00+05:30".toList := by decide

/-! ### The calendar law -/

/-- On ordinals 1 .. 3652059 (0001-01-01 .. 9999-12-31) `civilOfOrd` produces a valid civil date
    and `ordOfCivil` inverts it.  Proved: monotonicity of the year-of-era formula + a kernel check of
    the 400 year boundaries of one era + linear arithmetic for months and days. -/
theorem calendar_law : CalLaw := calLaw

example : civilOfOrd 3652059 = { y := 9999, m := 12, d := 31 } := by decide
example : civilOfOrd 730179 = { y := 2000, m := 2, d := 29 } := by decide
example : civilOfOrd 1 = { y := 1, m := 1, d := 1 } := by decide

/-! ### date -/

theorem date_roundtrip_rel (cal : CalLaw) {o : Int} (h : inDateRange o = true) :
    parseTemporal? (dateText o) = some (.dateOnly o) := date_parse cal h

/-- `dateparse(d.isoformat())` is the date `d`, for every date of the supported range. -/
theorem date_roundtrip {o : Int} (h : inDateRange o = true) :
    parseTemporal? (dateText o) = some (.dateOnly o) := date_parse calLaw h

theorem date_unmarshal (today : Int) {o : Int} (h : inDateRange o = true) :
    umDate today (.str (dateText o)) = .ok (.date o) := umDate_rt calLaw today h

example : dateText 1 = "0001-01-01".toList := by decide
example : dateText 730179 = "2000-02-29".toList := by decide
example : inDateRange 3652059 = true := by decide

/-! ### datetime -/

theorem datetime_text_roundtrip_rel (cal : CalLaw) {us off : Int} (h : inDateRange (localOrd us off) = true)
    (hm : off % 60 = 0) (hlo : -86400 < off) (hhi : off < 86400) :
    parseTemporal? (datetimeText us off) = some (.dateTime us (some off)) :=
  datetime_parse cal h hm hlo hhi

/-- `dateparse(dt.isoformat())` for an aware datetime: the same instant and the same offset. -/
theorem datetime_text_roundtrip {us off : Int} (h : inDateRange (localOrd us off) = true)
    (hm : off % 60 = 0) (hlo : -86400 < off) (hhi : off < 86400) :
    parseTemporal? (datetimeText us off) = some (.dateTime us (some off)) :=
  datetime_parse calLaw h hm hlo hhi

/-- `unmarshal(datetime, dt.isoformat()) == dt` with the same offset, for every valid aware datetime. -/
theorem datetime_unmarshal (today : Int) {us off : Int} (h : inDateRange (localOrd us off) = true)
    (hm : off % 60 = 0) (hlo : -86400 < off) (hhi : off < 86400) :
    umDatetime today (.str (datetimeText us off)) = .ok (.datetime us off) :=
  umDatetime_rt calLaw today h hm hlo hhi

/-- 0001-01-01T00:00:00+01:00: a valid aware datetime whose UTC instant lies in year 0; it round-trips
    (as in the real code). -/
example (today : Int) : hasScalar .datetime (.datetime (-62135600400000000) 3600) = true
    ∧ instantOk (-62135600400000000) = false
    ∧ umDatetime today (.str (datetimeText (-62135600400000000) 3600))
        = .ok (.datetime (-62135600400000000) 3600) :=
  ⟨by decide, by decide, datetime_unmarshal today (by decide) (by decide) (by decide) (by decide)⟩

example : datetimeText (-62135600400000000) 3600 = "0001-01-01T00:00:00+01:00".toList := by decide
example : datetimeText 1700000000123456 (-34200) = "2023-11-14T12:43:20.123456-09:30".toList := by decide

/-! ### Leaf laws on S1 and the composite round trip -/

/-- `LeafLaws.rt` for the executable leaves on S1 = S0 ∪ {date, datetime, time, timedelta}. -/
theorem leaf_roundtrip (env : Env) (today : Int) : ∀ s v, S1 s = true → hasScalar s v = true →
    ∃ m, (pyLeaves env today).mar s v = .ok m ∧ (pyLeaves env today).um s m = .ok v
      ∧ hashable m = true ∧ decode m ≠ .none :=
  pyLeaves_rt_temporal calLaw env today

/-- Pass-through of valid scalar values on S1. -/
theorem leaf_passthrough (env : Env) (today : Int) : ∀ s v, S1 s = true → hasScalar s v = true →
    (pyLeaves env today).um s v = .ok v :=
  pyLeaves_pass_temporal env today

/-- `LeafLaws` on S1 under the decidable enum side condition `enumWF` (Lemmas/EnumRT.lean). -/
theorem leafLaws_S1 (env : Env) (today : Int) (h : enumWF env = true) :
    LeafLaws S1 env (pyLeaves env today) :=
  { rt := leaf_roundtrip env today
    enumRT := pyLeaves_enumRT env today h }

/-- C01's round trip over annotations whose scalars are int, bool, float, str, date, datetime, time,
    timedelta (any composite constructor, class flavour, wrapper, recursion) and whose enum classes
    pass the decidable check `enumWF`. -/
theorem roundtrip_temporal (env : Env) (today : Int) (hE : wfEnv S1 env = true)
    (hne : enumWF env = true) (n : Nat) (t : Ty) (v : Val)
    (hwf : wfTy S1 env t = true) (hty : hasType env n t v = true) :
    ∃ m, mar env (pyLeaves env today) n t v = .ok m ∧ um env (pyLeaves env today) n t m = .ok v :=
  C01.roundtrip S1 env (pyLeaves env today) hE (leafLaws_S1 env today hne) n t v hwf hty

/-- The former statement of `roundtrip_temporal` (no enum members) is a corollary. -/
theorem roundtrip_temporal_noEnums (env : Env) (today : Int) (hE : wfEnv S1 env = true)
    (hne : ∀ c i, memberValue env c i = none) (n : Nat) (t : Ty) (v : Val)
    (hwf : wfTy S1 env t = true) (hty : hasType env n t v = true) :
    ∃ m, mar env (pyLeaves env today) n t v = .ok m ∧ um env (pyLeaves env today) n t m = .ok v :=
  roundtrip_temporal env today hE (enumWF_of_noEnums env hne) n t v hwf hty

theorem passLaws_S1 (env : Env) (today : Int) :
    C13.PassLaws S1 hasScalar (fun vs v => Val.exactMem v vs) env (pyLeaves env today) :=
  { leafPass := leaf_passthrough env today
    litPass := fun vs v hp hm => (C01.literal_pyMem env vs v hp hm).1 }

/-- C13's pass-through over annotations whose scalars are in S1 and every enum (str mix-in or not):
    no condition on the enum classes is left. -/
theorem passthrough_temporal (env : Env) (today : Int) (hE : wfEnv S1 env = true)
    (n : Nat) (t : Ty) (v : Val)
    (hwf : wfTy S1 env t = true) (hty : hasType env n t v = true) :
    um env (pyLeaves env today) n t v = .ok v :=
  C13.passthroughG S1 hasScalar (fun vs v => Val.exactMem v vs) env (pyLeaves env today) hE
    (passLaws_S1 env today) n t v hwf hty

/-- Non-vacuity with enums: `class Kind(Enum): D = "1"; W = "w"`,
    `@dataclass class Ev: kind: Kind; at: datetime; every: dict[Kind, timedelta]`. -/
def exEvEnv : Env :=
  [{ flavour := .plain, members := [("D".toList, .str "1".toList), ("W".toList, .str "w".toList)] },
   { flavour := .dataclass,
     fields := [("kind".toList, .enum 0), ("at".toList, .scalar .datetime),
                ("every".toList, .dict (.enum 0) (.scalar .timedelta))],
     required := ["kind".toList, "at".toList, "every".toList] }]

def exEv : Val :=
  .inst 1 [("kind".toList, .member 0 0), ("at".toList, .datetime 1700000000123456 (-34200)),
           ("every".toList, .dict [(.member 0 1, .timedelta (-1))])]

example : enumWF exEvEnv = true := by decide
example : wfEnv S1 exEvEnv = true := by decide
example : hasType exEvEnv 4 (.cls 1) exEv = true := by decide
example : ∃ m, mar exEvEnv (pyLeaves exEvEnv) 4 (.cls 1) exEv = .ok m
    ∧ um exEvEnv (pyLeaves exEvEnv) 4 (.cls 1) m = .ok exEv :=
  roundtrip_temporal exEvEnv 0 (by decide) (by decide) 4 _ _ (by decide) (by decide)
example : um exEvEnv (pyLeaves exEvEnv) 4 (.cls 1) exEv = .ok exEv :=
  passthrough_temporal exEvEnv 0 (by decide) 4 _ _ (by decide) (by decide)

example : wfTy S1 [] (.coll .list (.scalar .datetime)) = true := by decide
example : hasType [] 3 (.coll .list (.scalar .datetime)) (.list [.datetime (-62135600400000000) 3600]) = true := by
  decide

/-- Non-vacuity: `dict[str, tuple[timedelta, ...]]` with a negative sub-second duration. -/
example : wfTy S1 [] (.dict (.scalar .str) (.coll .vartuple (.scalar .timedelta))) = true := by decide
example : hasType [] 3 (.dict (.scalar .str) (.coll .vartuple (.scalar .timedelta)))
    (.dict [(.str "k".toList, .tuple [.timedelta (-1), .timedelta 0])]) = true := by decide

/-! ### The remaining scalar kinds: Decimal, Fraction, UUID, path, pattern (S2) -/

/-- `UUID(str(u)) == u`: the 8-4-4-4-12 hex reader inverts the writer for every `n < 2^128`. -/
theorem uuid_text_roundtrip {n : Nat} (h : n < uuidMax) : uuidParse? (uuidStr n) = some n := uuid_text_rt h

/-- `Fraction(str(q)) == q` for every fraction in lowest terms, any size. -/
theorem fraction_text_roundtrip (n : Int) (d : Nat) (hd : d ≠ 0) (hg : Nat.gcd n.natAbs d = 1) :
    fracOfStr (fracText n d) = .ok (.frac n d) := frac_text_rt n d hd hg

/-- `strload(str(u)) == str(u)` on the model. -/
theorem strload_uuid {n : Nat} (h : n < uuidMax) : pySl (uuidStr n) = .ok (.str (uuidStr n)) := pySl_uuidStr h

/-- `unmarshal(UUID, str(u)) == u` on the executable leaves, for every 128-bit value. -/
theorem uuid_unmarshal (env : Env) (today : Int) {n : Nat} (h : n < uuidMax) :
    (pyLeaves env today).um .uuid (.str (uuidStr n)) = .ok (.uuid n) := umUuid_pyLeaves env today h

/-- `LeafLaws.rt` on S2 = S1 ∪ {decimal, fraction, uuid, path, pattern} for canonically spelled values
    (`hasScalarC` = `hasScalar` ∧ `canonScalar`: Decimal text positional, Fraction in lowest terms,
    path text normalised and inside the modelled `strload`, pattern literal; no condition on S1 and
    uuid). -/
theorem leaf_roundtrip_all (env : Env) (today : Int) : ∀ s v, S2 s = true → hasScalarC s v = true →
    ∃ m, (pyLeaves env today).mar s v = .ok m ∧ (pyLeaves env today).um s m = .ok v
      ∧ hashable m = true ∧ decode m ≠ .none :=
  pyLeaves_rt_all calLaw env today

/-- Pass-through of every valid scalar value on S2 = every kind of U but bytes; no spelling condition. -/
theorem leaf_passthrough_all (env : Env) (today : Int) : ∀ s v, S2 s = true → hasScalar s v = true →
    (pyLeaves env today).um s v = .ok v :=
  pyLeaves_pass_all env today

/-- Validity with canonically spelled scalars (`hasType` with `hasScalarC` at the scalar positions). -/
def hasTypeC (env : Env) : Nat → Ty → Val → Bool := C01.hasTypeL hasScalarC env

/-- **C01 over every scalar kind of U but bytes**, under every composite constructor, class flavour,
    wrapper and recursion. -/
theorem roundtrip_all (env : Env) (today : Int) (hE : wfEnv S2 env = true)
    (hne : enumWF env = true) (n : Nat) (t : Ty) (v : Val)
    (hwf : wfTy S2 env t = true) (hty : hasTypeC env n t v = true) :
    ∃ m, mar env (pyLeaves env today) n t v = .ok m ∧ um env (pyLeaves env today) n t m = .ok v :=
  C01.roundtripG S2 hasScalarC env (pyLeaves env today) hE (leaf_roundtrip_all env today)
    (pyLeaves_enumRT env today hne) n t v hwf hty

/-- With plain `hasType` (no spelling condition) the statement is false: the unnormalised pair `2/4`
    comes back as `1/2`. -/
theorem roundtrip_all_false_without_canon :
    ¬ (∀ (env : Env) (n : Nat) (t : Ty) (v : Val), wfEnv S2 env = true → wfTy S2 env t = true →
        hasType env n t v = true →
        ∃ m, mar env (pyLeaves env) n t v = .ok m ∧ um env (pyLeaves env) n t m = .ok v) := by
  intro h
  obtain ⟨m, h1, h2⟩ := h [] 1 (.scalar .fraction) (.frac 2 4) rfl rfl rfl
  have hm : mar [] (pyLeaves []) 1 (.scalar .fraction) (.frac 2 4) = .ok (.str "2/4".toList) := by rfl
  rw [hm] at h1
  cases h1
  have hu : um [] (pyLeaves []) 1 (.scalar .fraction) (.str "2/4".toList) = .ok (.frac 1 2) := by rfl
  rw [hu] at h2
  cases h2

theorem passLaws_S2 (env : Env) (today : Int) :
    C13.PassLaws S2 hasScalar (fun vs v => Val.exactMem v vs) env (pyLeaves env today) :=
  { leafPass := leaf_passthrough_all env today
    litPass := fun vs v hp hm => (C01.literal_pyMem env vs v hp hm).1 }

/-- **C13 over every scalar kind of U but bytes**, every enum, no side condition on the values. -/
theorem passthrough_all (env : Env) (today : Int) (hE : wfEnv S2 env = true)
    (n : Nat) (t : Ty) (v : Val)
    (hwf : wfTy S2 env t = true) (hty : hasType env n t v = true) :
    um env (pyLeaves env today) n t v = .ok v :=
  C13.passthroughG S2 hasScalar (fun vs v => Val.exactMem v vs) env (pyLeaves env today) hE
    (passLaws_S2 env today) n t v hwf hty

/-- Non-vacuity: `@dataclass class Order: id: UUID; price: Decimal; where: PurePath; part: Fraction;
    tag: Optional[re.Pattern]; by_price: dict[Decimal, list[Fraction]]`. -/
def exOrdEnv : Env :=
  [{ flavour := .dataclass,
     fields := [("id".toList, .scalar .uuid), ("price".toList, .scalar .decimal),
                ("where".toList, .scalar .path), ("part".toList, .scalar .fraction),
                ("tag".toList, .union [.scalar .pattern, .none]),
                ("by_price".toList, .dict (.scalar .decimal) (.coll .list (.scalar .fraction)))],
     required := ["id".toList, "price".toList, "where".toList, "part".toList] }]

def exOrd : Val :=
  .inst 0 [("id".toList, .uuid 0x12345678123456781234567812345678), ("price".toList, .dec "-12.50".toList),
           ("where".toList, .path "a/b.txt".toList), ("part".toList, .frac (-3) 4),
           ("tag".toList, .pattern "a+".toList),
           ("by_price".toList, .dict [(.dec "1E+3".toList, .list [.frac 1 2])])]

example : wfEnv S2 exOrdEnv = true := by decide
example : hasType exOrdEnv 4 (.cls 0) exOrd = true := by decide
example : um exOrdEnv (pyLeaves exOrdEnv) 4 (.cls 0) exOrd = .ok exOrd :=
  passthrough_all exOrdEnv 0 (by decide) 4 _ _ (by decide) (by decide)

/-- The same class with canonically spelled values: the round trip applies. -/
def exOrdC : Val :=
  .inst 0 [("id".toList, .uuid 0x12345678123456781234567812345678), ("price".toList, .dec "-12.50".toList),
           ("where".toList, .path "etc".toList), ("part".toList, .frac (-3) 4),
           ("tag".toList, .pattern "ab c".toList),
           ("by_price".toList, .dict [(.dec "0.001".toList, .list [.frac 1 2, .frac 7 1])])]

example : hasTypeC exOrdEnv 4 (.cls 0) exOrdC = true := by decide
example : ∃ m, mar exOrdEnv (pyLeaves exOrdEnv) 4 (.cls 0) exOrdC = .ok m
    ∧ um exOrdEnv (pyLeaves exOrdEnv) 4 (.cls 0) m = .ok exOrdC :=
  roundtrip_all exOrdEnv 0 (by decide) (by decide) 4 _ _ (by decide) (by decide)
example : (pyLeaves []).um .uuid (.str (uuidStr 0x12345678123456781234567812345678))
    = .ok (.uuid 0x12345678123456781234567812345678) := uuid_unmarshal [] 0 (by decide)
/-- … and an unnormalised fraction is rejected by `hasTypeC`. -/
example : hasTypeC [] 2 (.scalar .fraction) (.frac 2 4) = false := by decide

end Typelib.C04
