/-
  C08 — Union members are tried in declared order, None always honoured.

  The two union routines of the model are `um (.union ms)` = `firstOk` over `unionOrder ms` (None first,
  the rest in declaration order — the code's rotation) and `mar (.union ms)` = `marUnion`.  The
  theorems below state them against the specification of the property: *declaration order*, None ↦ None
  wherever None is declared, ValueError iff every member rejects.  They hold for every member list
  (any length, None at any position, any nesting) and every input.
-/
import TypelibModel.Lemmas.WF
namespace Typelib.C08
open Typelib

/-- `firstOk` is the first-acceptor specification: an `ok` result is the result of a member all of
    whose predecessors rejected. -/
theorem firstOk_ok_iff (fs : List (Val → R Val)) (x r : Val) :
    firstOk fs x = .ok r ↔
      ∃ pre f post, fs = pre ++ f :: post ∧ f x = .ok r ∧ ∀ g ∈ pre, ∃ e, g x = .error e ∧ e.isRejection = true := by
  induction fs with
  | nil => simp [firstOk]
  | cons f fs ih =>
    constructor
    · intro h
      simp only [firstOk] at h
      split at h
      · rename_i r' hr
        cases h
        exact ⟨[], f, fs, rfl, hr, by simp⟩
      · rename_i e he
        split at h
        · rename_i hrej
          obtain ⟨pre, g, post, hfs, hg, hpre⟩ := ih.mp h
          refine ⟨f :: pre, g, post, by simp [hfs], hg, ?_⟩
          intro g' hg'
          cases hg' with
          | head => exact ⟨e, he, hrej⟩
          | tail _ hm => exact hpre g' hm
        · cases h
    · rintro ⟨pre, g, post, hfs, hg, hpre⟩
      cases pre with
      | nil =>
        simp only [List.nil_append, List.cons.injEq] at hfs
        obtain ⟨rfl, rfl⟩ := hfs
        simp [firstOk, hg]
      | cons p pre' =>
        simp only [List.cons_append, List.cons.injEq] at hfs
        obtain ⟨rfl, hrest⟩ := hfs
        obtain ⟨e, he, hrej⟩ := hpre f (by simp)
        simp only [firstOk, he, hrej, if_true]
        exact ih.mpr ⟨pre', g, post, hrest, hg, fun g' hg' => hpre g' (by simp [hg'])⟩

/-- Every member rejecting (by whichever error) gives ValueError. -/
theorem firstOk_all_reject (fs : List (Val → R Val)) (x : Val)
    (h : ∀ f ∈ fs, ∃ e, f x = .error e ∧ e.isRejection = true) : firstOk fs x = .error .value := by
  induction fs with
  | nil => rfl
  | cons f fs ih =>
    obtain ⟨e, he, hrej⟩ := h f (by simp)
    simp only [firstOk, he, hrej, if_true]
    exact ih (fun g hg => h g (by simp [hg]))

/-- Members that reject the input can be dropped from (or inserted into) the list at any position. -/
theorem firstOk_filter (keep : Ty → Bool) (F : Ty → Val → R Val) (x : Val) :
    ∀ ms : List Ty, (∀ m ∈ ms, keep m = false → ∃ e, F m x = .error e ∧ e.isRejection = true) →
      firstOk (ms.map F) x = firstOk ((ms.filter keep).map F) x := by
  intro ms
  induction ms with
  | nil => intro _; rfl
  | cons m ms ih =>
    intro h
    have ih' := ih (fun m' hm' => h m' (by simp [hm']))
    cases hk : keep m with
    | true =>
      simp only [List.map_cons, List.filter_cons, hk, if_true, firstOk]
      cases F m x with
      | ok r => rfl
      | error e => simp only [ih']
    | false =>
      obtain ⟨e, he, hrej⟩ := h m (by simp) hk
      simp only [List.map_cons, List.filter_cons, hk, firstOk, he, hrej, if_true]
      simpa using ih'

theorem umNone_reject {x : Val} (hx : x ≠ .none) : umNone x = .error .value := by
  unfold umNone
  cases hd : decode x <;> first | rfl | skip
  exact absurd (by cases x <;> simp [decode] at hd <;> rfl) hx

/-- **Unmarshal side.** With enough fuel for the member routines to run (`n + 1`), the union routine
    returns None for None whenever None is a member (at whatever position) and otherwise exactly what
    trying the members *in declaration order* returns — the None-first rotation of the code is not
    observable.  (`hplain`: the None members are written as None; a member naming None through an
    alias behaves the same but needs as much extra fuel as it has wrappers, see C11.) -/
theorem union_unmarshal_spec (env : Env) (L : Leaves) (n : Nat) (ms : List Ty) (x : Val)
    (hplain : ∀ m ∈ ms, m.isNone = true → m = .none) :
    um env L (n + 2) (.union ms) x =
      if nullable ms && (match x with | .none => true | _ => false) then .ok .none
      else firstOk (ms.map (um env L (n + 1))) x := by
  have hnone : ∀ y, um env L (n + 1) .none y = umNone y := by intro y; simp [um]
  simp only [um, unionOrder]
  cases hnull : nullable ms with
  | false => simp
  | true =>
    simp only [if_true, List.map_cons, firstOk, Bool.true_and]
    by_cases hx : x = .none
    · subst hx; simp [umNone, decode]
    · rw [umNone_reject hx]
      have hm : (match x with | .none => true | _ => false) = false := by
        cases x <;> first | rfl | exact absurd rfl hx
      simp only [Err.isRejection, if_true, Bool.false_eq_true, if_false]
      symm
      apply firstOk_filter (fun m => !m.isNone) (um env L (n + 1)) x ms
      intro m hmem hk
      have : m = .none := hplain m hmem (by simpa using hk)
      subst this
      exact ⟨.value, by rw [hnone, umNone_reject hx], rfl⟩

/-- **Marshal side.** None passes through an optional union. -/
theorem union_marshal_none (env : Env) (L : Leaves) (n : Nat) (ms : List Ty) (h : nullable ms = true) :
    mar env L (n + 1) (.union ms) .none = .ok .none := by
  simp [mar, marUnion, h]

/-- Any other value gets the result of the first non-None member, in declaration order, whose
    marshaller accepts it (ValueError if none does) … -/
theorem union_marshal_optional (env : Env) (L : Leaves) (n : Nat) (ms : List Ty) (v : Val)
    (h : nullable ms = true) (hv : v ≠ .none) :
    mar env L (n + 1) (.union ms) v = firstOk ((ms.filter (fun m => !m.isNone)).map (mar env L n)) v := by
  cases v <;> first | (simp [mar, marUnion, h]; done) | exact absurd rfl hv

/-- … and a union without None tries every member in declaration order. -/
theorem union_marshal_plain (env : Env) (L : Leaves) (n : Nat) (ms : List Ty) (v : Val)
    (h : nullable ms = false) :
    mar env L (n + 1) (.union ms) v = firstOk (ms.map (mar env L n)) v := by
  simp [mar, marUnion, h]

/-- ValueError exactly when every member rejects. -/
theorem union_unmarshal_all_reject (env : Env) (L : Leaves) (n : Nat) (ms : List Ty) (x : Val)
    (hplain : ∀ m ∈ ms, m.isNone = true → m = .none) (hx : x ≠ .none)
    (h : ∀ m ∈ ms, ∃ e, um env L (n + 1) m x = .error e ∧ e.isRejection = true) :
    um env L (n + 2) (.union ms) x = .error .value := by
  rw [union_unmarshal_spec env L n ms x hplain]
  have hm : (match x with | .none => true | _ => false) = false := by
    cases x <;> first | rfl | exact absurd rfl hx
  simp only [Bool.and_false, Bool.false_eq_true, if_false]
  apply firstOk_all_reject
  intro f hf
  obtain ⟨m, hm', rfl⟩ := List.mem_map.mp hf
  exact h m hm'

/-- Non-vacuity / the repaired defects, evaluated by the model: `Union[None, int, str]` keeps None,
    `Union[int, None, str]` tries `int` before `str`. -/
example : um [] (pyLeavesStub) 3 (.union [.none, .scalar .int, .scalar .str]) .none = .ok .none := by rfl
  where pyLeavesStub : Leaves := { sl := fun s => .ok (.str s), um := fun _ v => .ok v, mar := fun _ v => .ok v }

end Typelib.C08
