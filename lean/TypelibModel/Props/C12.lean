/-
  C12 — Results depend only on (type, input), never on call history.

  `memo_refines_pure`: IF every site is key-congruent (`keyOf a = keyOf b → pure a = pure b`) AND every
  site returns a fresh copy or immutable results, THEN for EVERY finite history of
  {call, deep-mutate a held object (an earlier input or result), read a held object, clear caches}
  (induction on the list, no bound) the machine with memo tables produces exactly the outputs of
  the machine that evaluates every call purely into brand-new objects.

  Invariant (`Sim`): the user's i-th object has, on the heap, the value it has in the cold run;
  every table entry holds the pure result for every argument of its class (in scope) and has the
  mutability its site declares; a mutable object the user holds is held once and is in no table.

  The theorem is proved relative to a scope `P` of (site, argument) pairs
  (`memo_refines_pure_on`), which gives
    * `memo_refines_pure`            — P = everything: the statement above;
    * `history_independent_unless_aliased` — congruence is needed only among the arguments the
      history really uses: a history in which no two calls hit one entry with different arguments
      (`aliasedKeys = false`, the exclusion predicate of finding `unionOrderKey`) is history
      independent whatever the key function forgets;
    * `good_sites_history_independent` — the site table: for any machine whose sites respect the
      declared classification, histories over the sites classified good (and un-aliased on the
      others that return immutable objects) are history independent.
  `inputs_unmutated`: no call writes to an object the user already holds.

  Both hypotheses are necessary (kernel-checked counterexamples):
    * `noncongruent_breaks` (`unionOrderKey`): keyOf forgets the member order, pure depends on it —
      broken by a 2-call history;
    * `shared_mutable_breaks`: a site handing out its cached mutable object — broken by
      call–mutate–call (what a8d48a3 repaired in `strload`); `shared_mutable_breaks_alias`: two
      results are one object.
-/
import TypelibModel.Model.Cache
set_option linter.unusedSectionVars false
namespace Typelib.C12
open Typelib.Cache

variable {Site Arg Key Val : Type} [DecidableEq Site] [DecidableEq Key]

/-! ### The hypotheses -/

/-- Arguments in one key class have one result — among the (site, argument) pairs in scope. -/
def KeyCongruentOn (M : Machine Site Arg Key Val) (P : Site → Arg → Prop) : Prop :=
  ∀ s a b, P s a → P s b → (M.site s).keyOf a = (M.site s).keyOf b → (M.site s).pure a = (M.site s).pure b

def KeyCongruent (sp : SiteSpec Arg Key Val) : Prop :=
  ∀ a b, sp.keyOf a = sp.keyOf b → sp.pure a = sp.pure b

def FreshOrImmutable (sp : SiteSpec Arg Key Val) : Prop :=
  sp.returnsShared = false ∨ sp.resultMutable = false

/-- Every call of the history is in scope and goes to a fresh-or-immutable site. -/
def OpsIn (M : Machine Site Arg Key Val) (P : Site → Arg → Prop) : List (Op Site Arg) → Prop
  | [] => True
  | .call s a :: ops => (P s a ∧ FreshOrImmutable (M.site s)) ∧ OpsIn M P ops
  | _ :: ops => OpsIn M P ops

/-! ### The simulation invariant -/

structure Sim (M : Machine Site Arg Key Val) (P : Site → Arg → Prop)
    (σ : State Site Key Val) (c : Cold Val) : Prop where
  n_eq : σ.nheld = c.n
  /-- the user's objects have the values of the cold run -/
  objs : ∀ i, i < c.n → σ.heap (σ.held i) = c.objs i
  held_lt : ∀ i, i < c.n → σ.held i < σ.next
  tab_lt : ∀ s k r, σ.table s k = some r → r < σ.next
  /-- every entry holds the pure result for every argument of its class -/
  tab_ok : ∀ s k r, σ.table s k = some r →
    (σ.heap r).mutable = (M.site s).resultMutable ∧
    ∀ a, P s a → (M.site s).keyOf a = k → (σ.heap r).val = (M.site s).pure a
  /-- a mutable object the user holds is held once … -/
  sep_held : ∀ i j, i < c.n → j < c.n → (σ.heap (σ.held i)).mutable = true → σ.held j = σ.held i → j = i
  /-- … and no table entry reaches it -/
  sep_tab : ∀ i s k, i < c.n → (σ.heap (σ.held i)).mutable = true → σ.table s k ≠ some (σ.held i)

theorem sim_init [Inhabited Val] (M : Machine Site Arg Key Val) (P : Site → Arg → Prop) :
    Sim M P (State.init : State Site Key Val) (Cold.init : Cold Val) where
  n_eq := rfl
  objs := by intro i h; simp [Cold.init] at h
  held_lt := by intro i h; simp [Cold.init] at h
  tab_lt := by intro s k r h; simp [State.init, emptyTable] at h
  tab_ok := by intro s k r h; simp [State.init, emptyTable] at h
  sep_held := by intro i j h; simp [Cold.init] at h
  sep_tab := by intro i s k h; simp [Cold.init] at h

/-- A brand-new object handed to the user. -/
theorem sim_allocHold {M : Machine Site Arg Key Val} {P : Site → Arg → Prop}
    {σ : State Site Key Val} {c : Cold Val} (I : Sim M P σ c) (o : Obj Val) :
    Sim M P (σ.allocHold o) (c.push o) := by
  have hn := I.n_eq
  constructor
  · simp [State.allocHold, Cold.push, hn]
  · intro i hi
    simp only [State.allocHold, Cold.push, updHeap, updHeld, hn] at hi ⊢
    by_cases h : i = c.n
    · simp [h]
    · have hi' : i < c.n := by omega
      have := I.held_lt i hi'
      simp only [if_neg h]
      rw [if_neg (by omega)]
      exact I.objs i hi'
  · intro i hi
    simp only [State.allocHold, Cold.push, updHeld, hn] at hi ⊢
    by_cases h : i = c.n
    · simp [h]
    · have := I.held_lt i (by omega)
      simp only [if_neg h]; omega
  · intro s k r h
    simp only [State.allocHold] at h ⊢
    have := I.tab_lt s k r h; omega
  · intro s k r h
    simp only [State.allocHold, updHeap] at h ⊢
    have hlt := I.tab_lt s k r h
    rw [if_neg (by omega)]
    exact I.tab_ok s k r h
  · intro i j hi hj hm he
    simp only [State.allocHold, Cold.push, updHeap, updHeld, hn] at hi hj hm he
    by_cases h1 : i = c.n
    · by_cases h2 : j = c.n
      · omega
      · have := I.held_lt j (by omega)
        simp only [h1, if_neg h2, if_true] at he
        omega
    · by_cases h2 : j = c.n
      · have := I.held_lt i (by omega)
        simp only [h2, if_neg h1, if_true] at he
        omega
      · have hi' : i < c.n := by omega
        have hlt := I.held_lt i hi'
        simp only [if_neg h1, if_neg h2] at he hm
        rw [if_neg (by omega)] at hm
        exact I.sep_held i j hi' (by omega) hm he
  · intro i s k hi hm
    simp only [State.allocHold, Cold.push, updHeap, updHeld, hn] at hi hm ⊢
    by_cases h1 : i = c.n
    · simp only [h1, if_true]
      intro h
      have := I.tab_lt s k _ h; omega
    · have hi' : i < c.n := by omega
      have hlt := I.held_lt i hi'
      simp only [if_neg h1] at hm ⊢
      rw [if_neg (by omega)] at hm
      exact I.sep_tab i s k hi' hm

/-- An existing immutable object handed to the user. -/
theorem sim_holdRef {M : Machine Site Arg Key Val} {P : Site → Arg → Prop}
    {σ : State Site Key Val} {c : Cold Val} (I : Sim M P σ c) (r : Nat) (hr : r < σ.next)
    (him : (σ.heap r).mutable = false) :
    Sim M P (σ.holdRef r) (c.push (σ.heap r)) := by
  have hn := I.n_eq
  constructor
  · simp [State.holdRef, Cold.push, hn]
  · intro i hi
    simp only [State.holdRef, Cold.push, updHeap, updHeld, hn] at hi ⊢
    by_cases h : i = c.n
    · simp [h]
    · simp only [if_neg h]
      exact I.objs i (by omega)
  · intro i hi
    simp only [State.holdRef, Cold.push, updHeld, hn] at hi ⊢
    by_cases h : i = c.n
    · simp [h, hr]
    · simp only [if_neg h]; exact I.held_lt i (by omega)
  · intro s k r' h; exact I.tab_lt s k r' h
  · intro s k r' h; exact I.tab_ok s k r' h
  · intro i j hi hj hm he
    simp only [State.holdRef, Cold.push, updHeld, hn] at hi hj hm he
    by_cases h1 : i = c.n
    · simp only [h1, if_true] at hm
      rw [him] at hm; cases hm
    · simp only [if_neg h1] at hm he
      by_cases h2 : j = c.n
      · simp only [h2, if_true] at he
        rw [← he, him] at hm; cases hm
      · simp only [if_neg h2] at he
        exact I.sep_held i j (by omega) (by omega) hm he
  · intro i s k hi hm
    simp only [State.holdRef, Cold.push, updHeld, hn] at hi hm ⊢
    by_cases h1 : i = c.n
    · simp only [h1, if_true] at hm
      rw [him] at hm; cases hm
    · simp only [if_neg h1] at hm ⊢
      exact I.sep_tab i s k (by omega) hm

/-- A brand-new object entered into a table (and handed to nobody). -/
theorem sim_fill {M : Machine Site Arg Key Val} {P : Site → Arg → Prop}
    {σ : State Site Key Val} {c : Cold Val} (I : Sim M P σ c) (s : Site) (k : Key) (o : Obj Val)
    (hmut : o.mutable = (M.site s).resultMutable)
    (hval : ∀ a, P s a → (M.site s).keyOf a = k → o.val = (M.site s).pure a) :
    Sim M P (σ.fill s k o) c := by
  constructor
  · exact I.n_eq
  · intro i hi
    have := I.held_lt i hi
    simp only [State.fill, updHeap]
    rw [if_neg (by omega)]
    exact I.objs i hi
  · intro i hi
    have := I.held_lt i hi
    simp only [State.fill]; omega
  · intro s' k' r h
    simp only [State.fill, updTable] at h ⊢
    by_cases hk : s' = s ∧ k' = k
    · simp only [hk, and_self, if_true, Option.some.injEq] at h; omega
    · simp only [if_neg hk] at h
      have := I.tab_lt s' k' r h; omega
  · intro s' k' r h
    simp only [State.fill, updTable, updHeap] at h ⊢
    by_cases hk : s' = s ∧ k' = k
    · simp only [hk, and_self, if_true, Option.some.injEq] at h
      subst h
      obtain ⟨h1, h2⟩ := hk
      subst h1; subst h2
      simp only [if_true]
      exact ⟨hmut, hval⟩
    · simp only [if_neg hk] at h
      have hlt := I.tab_lt s' k' r h
      rw [if_neg (by omega)]
      exact I.tab_ok s' k' r h
  · intro i j hi hj hm he
    have hlt := I.held_lt i hi
    simp only [State.fill, updHeap] at hm he
    rw [if_neg (by omega)] at hm
    exact I.sep_held i j hi hj hm he
  · intro i s' k' hi hm
    have hlt := I.held_lt i hi
    simp only [State.fill, updHeap, updTable] at hm ⊢
    rw [if_neg (by omega)] at hm
    by_cases hk : s' = s ∧ k' = k
    · simp only [hk, and_self, if_true, ne_eq, Option.some.injEq]; omega
    · simp only [if_neg hk]
      exact I.sep_tab i s' k' hi hm

/-- The user deep-mutates one of his objects. -/
theorem sim_mutate {M : Machine Site Arg Key Val} {P : Site → Arg → Prop}
    {σ : State Site Key Val} {c : Cold Val} (I : Sim M P σ c) (i : Nat) :
    Sim M P (mutateCached M σ i) (stepCold M c (.mutate i)).1 := by
  have hn := I.n_eq
  unfold mutateCached
  simp only [stepCold]
  by_cases hi : i < c.n
  · have hi' : i < σ.nheld := by omega
    simp only [if_pos hi, if_pos hi']
    have hobj := I.objs i hi
    by_cases hm : (σ.heap (σ.held i)).mutable = true
    · -- a mutable object: held once, in no table
      have hmo : (mutObj M.deepMut (σ.heap (σ.held i))).mutable = true := by simp [mutObj, hm]
      constructor
      · exact hn
      · intro j hj
        simp only [updHeap]
        by_cases hji : j = i
        · subst hji; simp [hobj]
        · have : σ.held j ≠ σ.held i := fun e => hji (I.sep_held i j hi hj hm e)
          rw [if_neg this, if_neg hji]
          exact I.objs j hj
      · exact I.held_lt
      · exact I.tab_lt
      · intro s k r h
        have : r ≠ σ.held i := fun e => I.sep_tab i s k hi hm (e ▸ h)
        simp only [updHeap, if_neg this]
        exact I.tab_ok s k r h
      · intro a b ha hb hma he
        simp only [updHeap] at hma
        by_cases hai : σ.held a = σ.held i
        · have hai' : a = i := I.sep_held i a hi ha hm hai
          subst hai'
          exact I.sep_held a b ha hb hm he
        · rw [if_neg hai] at hma
          exact I.sep_held a b ha hb hma he
      · intro a s k ha hma
        simp only [updHeap] at hma
        by_cases hai : σ.held a = σ.held i
        · rw [hai]; exact I.sep_tab i s k hi hm
        · rw [if_neg hai] at hma
          exact I.sep_tab a s k ha hma
    · -- an immutable object: nothing happens, in either machine
      have hm' : (σ.heap (σ.held i)).mutable = false := by simpa using hm
      have e1 : mutObj M.deepMut (σ.heap (σ.held i)) = σ.heap (σ.held i) := by simp [mutObj, hm']
      have e2 : updHeap σ.heap (σ.held i) (σ.heap (σ.held i)) = σ.heap := by
        funext r; simp only [updHeap]; split
        · next h => rw [h]
        · rfl
      have e3 : mutObj M.deepMut (c.objs i) = c.objs i := by rw [← hobj]; exact e1
      have e4 : updHeap c.objs i (c.objs i) = c.objs := by
        funext r; simp only [updHeap]; split
        · next h => rw [h]
        · rfl
      rw [e1, e2, e3, e4]
      exact I
  · have hi' : ¬ i < σ.nheld := by omega
    simp only [if_neg hi, if_neg hi']
    exact I

/-- One call: same output, invariant kept. -/
theorem call_sim {M : Machine Site Arg Key Val} {P : Site → Arg → Prop}
    (hc : KeyCongruentOn M P) {σ : State Site Key Val} {c : Cold Val} (I : Sim M P σ c)
    (s : Site) (a : Arg) (hP : P s a) (hf : FreshOrImmutable (M.site s)) :
    (callCached M σ s a).2 = (stepCold M c (.call s a)).2 ∧
    Sim M P (callCached M σ s a).1 (stepCold M c (.call s a)).1 := by
  -- 1. the input object
  have I1 := sim_allocHold I (M.inputObj a)
  -- 2. lookup or fill: a state related to the same cold state, a ref below `next` holding the pure result
  have key : ∃ σ2 r, lookupOrFill M (σ.allocHold (M.inputObj a)) s a = (σ2, r) ∧
      Sim M P σ2 (c.push (M.inputObj a)) ∧ r < σ2.next ∧ σ2.heap r = resultObj M s a := by
    unfold lookupOrFill
    cases hl : (σ.allocHold (M.inputObj a)).table s ((M.site s).keyOf a) with
    | some r =>
      refine ⟨_, r, rfl, I1, I1.tab_lt _ _ _ hl, ?_⟩
      obtain ⟨h1, h2⟩ := I1.tab_ok _ _ _ hl
      have h3 := h2 a hP rfl
      cases hh : (σ.allocHold (M.inputObj a)).heap r with
      | mk v m =>
        rw [hh] at h1 h3
        simp only at h1 h3
        simp [resultObj, h1, h3]
    | none =>
      refine ⟨_, _, rfl, ?_, ?_, ?_⟩
      · apply sim_fill I1
        · rfl
        · intro b hb hk
          exact hc s a b hP hb hk.symm
      · simp [State.fill]
      · simp [State.fill, updHeap]
  obtain ⟨σ2, r, hlk, I2, hr, hobj⟩ := key
  simp only [callCached, hlk, stepCold]
  refine ⟨by simp [hobj, resultObj], ?_⟩
  -- 3. hand the result out
  unfold handOut
  by_cases hs : (M.site s).returnsShared = true
  · have him : (M.site s).resultMutable = false := by
      cases hf with
      | inl h => rw [h] at hs; cases hs
      | inr h => exact h
    simp only [hs, if_true]
    have := sim_holdRef I2 r hr (by simp [hobj, resultObj, him])
    rwa [hobj] at this
  · simp only [hs]
    have := sim_allocHold I2 (⟨(σ2.heap r).val, (M.site s).resultMutable⟩ : Obj Val)
    simpa [hobj, resultObj] using this

/-- One operation: same output, invariant kept. -/
theorem step_sim {M : Machine Site Arg Key Val} {P : Site → Arg → Prop}
    (hc : KeyCongruentOn M P) {σ : State Site Key Val} {c : Cold Val} (I : Sim M P σ c)
    (op : Op Site Arg) (hop : OpsIn M P [op]) :
    (stepCached M σ op).2 = (stepCold M c op).2 ∧ Sim M P (stepCached M σ op).1 (stepCold M c op).1 := by
  cases op with
  | call s a =>
    simp only [OpsIn, and_true] at hop
    exact call_sim hc I s a hop.1 hop.2
  | mutate i => exact ⟨rfl, sim_mutate I i⟩
  | read i =>
    refine ⟨?_, I⟩
    simp only [stepCached, stepCold, readCached, I.n_eq]
    by_cases hi : i < c.n
    · simp [hi, I.objs i hi]
    · simp [hi]
  | clear =>
    refine ⟨rfl, ?_⟩
    simp only [stepCached, stepCold]
    exact { n_eq := I.n_eq, objs := I.objs, held_lt := I.held_lt,
            tab_lt := by intro s k r h; simp [emptyTable] at h,
            tab_ok := by intro s k r h; simp [emptyTable] at h,
            sep_held := I.sep_held,
            sep_tab := by intro i s k _ _; simp [emptyTable] }

theorem run_sim {M : Machine Site Arg Key Val} {P : Site → Arg → Prop}
    (hc : KeyCongruentOn M P) (ops : List (Op Site Arg)) :
    ∀ (σ : State Site Key Val) (c : Cold Val), Sim M P σ c → OpsIn M P ops →
      (runCachedFrom M σ ops).2 = (runColdFrom M c ops).2 ∧
      Sim M P (runCachedFrom M σ ops).1 (runColdFrom M c ops).1 := by
  induction ops with
  | nil => intro σ c I _; exact ⟨rfl, I⟩
  | cons op ops ih =>
    intro σ c I hop
    have h1 : OpsIn M P [op] ∧ OpsIn M P ops := by
      cases op <;> simp only [OpsIn, and_true] at hop ⊢
      · exact hop
      all_goals exact ⟨trivial, hop⟩
    obtain ⟨e1, I1⟩ := step_sim hc I op h1.1
    obtain ⟨e2, I2⟩ := ih _ _ I1 h1.2
    exact ⟨by simp only [runCachedFrom, runColdFrom, e1, e2], I2⟩

/-! ### The theorems -/

variable [Inhabited Val]

/-- Refinement relative to a scope `P` of (site, argument) pairs. -/
theorem memo_refines_pure_on (M : Machine Site Arg Key Val) (P : Site → Arg → Prop)
    (hc : KeyCongruentOn M P) (ops : List (Op Site Arg)) (hops : OpsIn M P ops) :
    (runCached M ops).2 = (runCold M ops).2 :=
  (run_sim hc ops _ _ (sim_init M P) hops).1

theorem opsIn_of_all (M : Machine Site Arg Key Val) (hf : ∀ s, FreshOrImmutable (M.site s))
    (ops : List (Op Site Arg)) : OpsIn M (fun _ _ => True) ops := by
  induction ops with
  | nil => trivial
  | cons op ops ih => cases op <;> simp only [OpsIn] <;> first | exact ⟨⟨trivial, hf _⟩, ih⟩ | exact ih

/-- **C12.**  If every site is key-congruent and every site returns a fresh copy or immutable
    results, then for every finite history the outputs with memo tables are the outputs of
    evaluating every call purely, on its own. -/
theorem memo_refines_pure (M : Machine Site Arg Key Val)
    (hc : ∀ s, KeyCongruent (M.site s)) (hf : ∀ s, FreshOrImmutable (M.site s))
    (ops : List (Op Site Arg)) :
    (runCached M ops).2 = (runCold M ops).2 :=
  memo_refines_pure_on M (fun _ _ => True) (fun s a b _ _ h => hc s a b h) ops (opsIn_of_all M hf ops)

/-- The outcome of a call does not depend on the history before it: after ANY history, the call
    returns the value of its pure function. -/
theorem call_after_any_history (M : Machine Site Arg Key Val)
    (hc : ∀ s, KeyCongruent (M.site s)) (hf : ∀ s, FreshOrImmutable (M.site s))
    (ops : List (Op Site Arg)) (s : Site) (a : Arg) :
    (stepCached M (runCached M ops).1 (.call s a)).2 = .value ((M.site s).pure a) := by
  have hcP : KeyCongruentOn M (fun _ _ => True) := fun s a b _ _ h => hc s a b h
  have I := (run_sim hcP ops _ _ (sim_init M _) (opsIn_of_all M hf ops)).2
  exact (call_sim hcP I s a trivial (hf s)).1

/-- `σ'` extends `σ`: what the user held is still held under the same index and every object that
    existed has the value it had. -/
structure Ext (σ σ' : State Site Key Val) : Prop where
  nheld_le : σ.nheld ≤ σ'.nheld
  next_le : σ.next ≤ σ'.next
  held_eq : ∀ i, i < σ.nheld → σ'.held i = σ.held i
  heap_eq : ∀ r, r < σ.next → σ'.heap r = σ.heap r

omit [DecidableEq Site] [DecidableEq Key] [Inhabited Val] in
theorem Ext.refl (σ : State Site Key Val) : Ext σ σ := ⟨Nat.le_refl _, Nat.le_refl _, fun _ _ => rfl, fun _ _ => rfl⟩

omit [DecidableEq Site] [DecidableEq Key] [Inhabited Val] in
theorem Ext.trans {σ1 σ2 σ3 : State Site Key Val} (a : Ext σ1 σ2) (b : Ext σ2 σ3) : Ext σ1 σ3 :=
  ⟨Nat.le_trans a.nheld_le b.nheld_le, Nat.le_trans a.next_le b.next_le,
   fun i hi => by rw [b.held_eq i (Nat.lt_of_lt_of_le hi a.nheld_le), a.held_eq i hi],
   fun r hr => by rw [b.heap_eq r (Nat.lt_of_lt_of_le hr a.next_le), a.heap_eq r hr]⟩

omit [DecidableEq Site] [DecidableEq Key] [Inhabited Val] in
theorem ext_allocHold (σ : State Site Key Val) (o : Obj Val) : Ext σ (σ.allocHold o) := by
  refine ⟨by simp [State.allocHold], by simp [State.allocHold], ?_, ?_⟩
  · intro i hi
    show updHeld σ.held σ.nheld σ.next i = σ.held i
    unfold updHeld
    rw [if_neg (Nat.ne_of_lt hi)]
  · intro r hr
    show updHeap σ.heap σ.next o r = σ.heap r
    unfold updHeap
    rw [if_neg (Nat.ne_of_lt hr)]

omit [DecidableEq Site] [DecidableEq Key] [Inhabited Val] in
theorem ext_holdRef (σ : State Site Key Val) (r : Nat) : Ext σ (σ.holdRef r) := by
  refine ⟨by simp [State.holdRef], Nat.le_refl _, ?_, fun _ _ => rfl⟩
  intro i hi
  show updHeld σ.held σ.nheld r i = σ.held i
  unfold updHeld
  rw [if_neg (Nat.ne_of_lt hi)]

omit [Inhabited Val] in
theorem ext_fill (σ : State Site Key Val) (s : Site) (k : Key) (o : Obj Val) : Ext σ (σ.fill s k o) := by
  refine ⟨Nat.le_refl _, by simp [State.fill], fun _ _ => rfl, ?_⟩
  intro r hr
  show updHeap σ.heap σ.next o r = σ.heap r
  unfold updHeap
  rw [if_neg (Nat.ne_of_lt hr)]

omit [Inhabited Val] in
theorem ext_call (M : Machine Site Arg Key Val) (σ : State Site Key Val) (s : Site) (a : Arg) :
    Ext σ (callCached M σ s a).1 := by
  have e1 := ext_allocHold σ (M.inputObj a)
  have e2 : Ext (σ.allocHold (M.inputObj a)) (lookupOrFill M (σ.allocHold (M.inputObj a)) s a).1 := by
    unfold lookupOrFill
    cases (σ.allocHold (M.inputObj a)).table s ((M.site s).keyOf a) with
    | some r => exact Ext.refl _
    | none => exact ext_fill _ _ _ _
  have e3 : ∀ (τ : State Site Key Val) (r : Nat), Ext τ (handOut M τ s r) := by
    intro τ r
    unfold handOut
    cases (M.site s).returnsShared with
    | true => exact ext_holdRef _ _
    | false => exact ext_allocHold _ _
  exact (e1.trans e2).trans (e3 _ _)

omit [Inhabited Val] in
/-- **Inputs (and earlier results) are never written by a call**: every object the user holds
    before a call is the same object, with the same value, after it — whatever the sites are. -/
theorem inputs_unmutated (M : Machine Site Arg Key Val) (σ : State Site Key Val)
    (hwf : ∀ i, i < σ.nheld → σ.held i < σ.next) (s : Site) (a : Arg) :
    ∀ i, i < σ.nheld →
      (callCached M σ s a).1.held i = σ.held i ∧
      (callCached M σ s a).1.heap (σ.held i) = σ.heap (σ.held i) := by
  intro i hi
  have e := ext_call M σ s a
  exact ⟨e.held_eq i hi, e.heap_eq _ (hwf i hi)⟩

/-- The same through the refinement: reading any held object (an input, say) after any history
    gives what the cold run gives — in the cold run only the user's own `mutate` touches it. -/
theorem read_after_any_history (M : Machine Site Arg Key Val)
    (hc : ∀ s, KeyCongruent (M.site s)) (hf : ∀ s, FreshOrImmutable (M.site s))
    (ops : List (Op Site Arg)) (i : Nat) :
    readCached (runCached M ops).1 i = (stepCold M (runCold M ops).1 (.read i)).2 := by
  have hcP : KeyCongruentOn M (fun _ _ => True) := fun s a b _ _ h => hc s a b h
  have I := (run_sim hcP ops _ _ (sim_init M _) (opsIn_of_all M hf ops)).2
  exact (step_sim hcP I (.read i) (by simp [OpsIn])).1

/-! ### Congruence is needed only among the arguments of the history -/

theorem mem_callsOf_of_opsIn_aux (ops : List (Op Site Arg)) (M : Machine Site Arg Key Val)
    (P : Site → Arg → Prop) (h : ∀ p ∈ callsOf ops, P p.1 p.2 ∧ FreshOrImmutable (M.site p.1)) :
    OpsIn M P ops := by
  induction ops with
  | nil => trivial
  | cons op ops ih =>
    cases op with
    | call s a =>
      simp only [callsOf, List.mem_cons] at h
      exact ⟨h (s, a) (Or.inl rfl), ih (fun p hp => h p (Or.inr hp))⟩
    | mutate i => exact ih (by simpa [callsOf] using h)
    | read i => exact ih (by simpa [callsOf] using h)
    | clear => exact ih (by simpa [callsOf] using h)

theorem freshOrImmutable_of_calls (M : Machine Site Arg Key Val) (ops : List (Op Site Arg))
    (h : callsFreshOrImmutable M ops = true) : ∀ p ∈ callsOf ops, FreshOrImmutable (M.site p.1) := by
  intro p hp
  simp only [callsFreshOrImmutable, List.all_eq_true, Bool.or_eq_true, Bool.not_eq_true'] at h
  exact h p hp

omit [Inhabited Val] in
theorem aliasedKeys_of_pair [DecidableEq Arg] (M : Machine Site Arg Key Val) (sites : Site → Bool)
    (ops : List (Op Site Arg)) (s : Site) (a b : Arg) (ha : (s, a) ∈ callsOf ops) (hb : (s, b) ∈ callsOf ops)
    (hs : sites s = true) (hk : (M.site s).keyOf a = (M.site s).keyOf b) (hne : a ≠ b) :
    aliasedKeys M sites ops = true := by
  simp only [aliasedKeys, List.any_eq_true]
  exact ⟨(s, a), ha, (s, b), hb, by simp [hs, hk, hne]⟩

/-- **History independence unless keys are aliased.**  Whatever the key functions forget: a
    history in which no two calls hit one table entry with different arguments, and whose calls go
    to fresh-or-immutable sites, is history independent.  (`aliasedKeys … = true` is the exclusion
    predicate of finding `unionOrderKey`.) -/
theorem history_independent_unless_aliased [DecidableEq Arg] (M : Machine Site Arg Key Val)
    (ops : List (Op Site Arg))
    (hal : aliasedKeys M (fun _ => true) ops = false)
    (hf : callsFreshOrImmutable M ops = true) :
    (runCached M ops).2 = (runCold M ops).2 := by
  apply memo_refines_pure_on M (fun s a => (s, a) ∈ callsOf ops)
  · intro s a b ha hb hk
    have : a = b := by
      apply Classical.byContradiction
      intro hne
      have := aliasedKeys_of_pair M (fun _ => true) ops s a b ha hb rfl hk hne
      rw [hal] at this; cases this
    rw [this]
  · apply mem_callsOf_of_opsIn_aux
    intro p hp
    exact ⟨hp, freshOrImmutable_of_calls M ops hf p hp⟩

/-! ### The site table -/

/-- A machine over the real sites respects the declared classification. -/
structure Respects (M : Machine RealSite Arg Key Val) : Prop where
  shared : ∀ s, (M.site s).returnsShared = (classify s).returnsShared
  mutable : ∀ s, (M.site s).resultMutable = (classify s).resultMutable
  congruent : ∀ s, (classify s).congruent = true → KeyCongruent (M.site s)

/-- The sites for which both hypotheses of the theorem are declared to hold. -/
def goodSites : List RealSite := RealSite.all.filter fun s => (classify s).good

/-- The sites that return immutable objects but are not key-congruent: the routine caches. -/
def aliasableSites : List RealSite :=
  RealSite.all.filter fun s => !(classify s).congruent && (classify s).freshOrImmutable

theorem goodSites_eq : goodSites =
    [.strload, .dateparse, .getItemsIter, .delayedResolved, .cachedSignature, .cachedSimpleAttrs,
     .futureTransform, .getBinding] := by decide

theorem aliasableSites_eq : aliasableSites =
    [.marshaller, .unmarshaller, .codec, .staticOrder, .typeContext, .typingGenericCache, .inspectPredicate, .inspectUnwrap,
     .resolveModuleName] := by
  decide

/-- the two sites that hand out a cached mutable object are not reached by an operation of the
    property: `_strload` (behind `strload`) and `cached_type_hints` (`static_order` handed out its memoised list
    until dd76572; its memo is an immutable tuple now) (read by the
    routines only; the harness checks that they are not mutated by their callers) -/
theorem shared_mutable_sites_are_internal :
    RealSite.all.filter (fun s => !(classify s).freshOrImmutable) = [.strloadRaw, .cachedTypeHints] ∧
    ∀ s ∈ RealSite.all, (classify s).freshOrImmutable = false → (classify s).«public» = false := by
  decide

theorem all_complete : ∀ s : RealSite, s ∈ RealSite.all := by
  intro s; cases s <;> decide

/-- every call of the history goes to a site of the list -/
def callsOnly (sites : List RealSite) (ops : List (Op RealSite Arg)) : Bool :=
  (callsOf ops).all fun p => sites.contains p.1

/-- **The history-independence theorem applies to the sites classified good** (and to the
    routine caches as long as the history does not alias their keys): for any machine whose
    sites respect the declared classification, every history that calls only good or aliasable
    sites and hits no entry of an aliasable site with two different arguments produces the
    outputs of the cold runs. -/
theorem good_sites_history_independent [DecidableEq Arg] (M : Machine RealSite Arg Key Val)
    (hM : Respects M) (ops : List (Op RealSite Arg))
    (hcalls : callsOnly (goodSites ++ aliasableSites) ops = true)
    (hal : aliasedKeys M (fun s => aliasableSites.contains s) ops = false) :
    (runCached M ops).2 = (runCold M ops).2 := by
  have hsite : ∀ p ∈ callsOf ops, (classify p.1).freshOrImmutable = true ∧
      ((classify p.1).congruent = true ∨ aliasableSites.contains p.1 = true) := by
    intro p hp
    simp only [callsOnly, List.all_eq_true] at hcalls
    have := hcalls p hp
    revert this
    cases p.1 <;> decide
  apply memo_refines_pure_on M (fun s a => (s, a) ∈ callsOf ops)
  · intro s a b ha hb hk
    cases (hsite (s, a) ha).2 with
    | inl hcg => exact hM.congruent s hcg a b hk
    | inr hal' =>
      have : a = b := by
        apply Classical.byContradiction
        intro hne
        have := aliasedKeys_of_pair M (fun s => aliasableSites.contains s) ops s a b ha hb hal' hk hne
        rw [hal] at this; cases this
      rw [this]
  · apply mem_callsOf_of_opsIn_aux
    intro p hp
    refine ⟨hp, ?_⟩
    have h := (hsite p hp).1
    simp only [SiteClass.freshOrImmutable, Bool.or_eq_true, Bool.not_eq_true'] at h
    unfold FreshOrImmutable
    rw [hM.shared, hM.mutable]
    exact h

/-! ### Abstract sites: the side conditions are decidable -/

theorem abs_congruent (d : AbsSite) (h : d.congruent = true) : KeyCongruent (absSpec d) := by
  intro a b hk
  simp only [absSpec, absKeyOf, absPure] at hk ⊢
  simp only [AbsSite.congruent, Bool.or_eq_true, Bool.not_eq_true'] at h
  cases h with
  | inl h => simp only [h, Bool.false_eq_true, if_false] at hk; rw [hk]
  | inr h =>
    simp only [h, Bool.false_eq_true, if_false]
    cases hf : d.keyForgets with
    | true => simp only [hf, if_true, Prod.mk.injEq] at hk; rw [hk.1]
    | false => simp only [hf, Bool.false_eq_true, if_false] at hk; rw [hk]

theorem abs_freshOrImmutable (d : AbsSite) (h : d.freshOrImmutable = true) : FreshOrImmutable (absSpec d) := by
  simp only [AbsSite.freshOrImmutable, Bool.or_eq_true, Bool.not_eq_true'] at h
  exact h

theorem getD_all (p : AbsSite → Bool) (sites : List AbsSite) (h : sites.all p = true) (hd : p absDefault = true) :
    ∀ i, p (sites.getD i absDefault) = true := by
  intro i
  simp only [List.getD, List.all_eq_true] at h ⊢
  cases hi : sites[i]? with
  | none => exact hd
  | some d => exact h d (List.mem_of_getElem? hi)

/-- C12 on the driver's abstract universe: any list of good abstract sites, any history. -/
theorem abs_refines (sites : List AbsSite) (hg : sites.all AbsSite.good = true) (ops : List AOp) :
    (runCached (absMachine sites) ops).2 = (runCold (absMachine sites) ops).2 := by
  have hd := getD_all AbsSite.good sites hg (by decide)
  apply memo_refines_pure
  · intro i
    have := hd i
    simp only [AbsSite.good, Bool.and_eq_true] at this
    exact abs_congruent _ this.1
  · intro i
    have := hd i
    simp only [AbsSite.good, Bool.and_eq_true] at this
    exact abs_freshOrImmutable _ this.2

/-! ### Non-vacuity, and the two converses -/

/-- `strload` after a8d48a3: key forgets the spelling (str / str-enum member / bytearray of one
    text), result does not depend on it, fresh mutable copy. -/
def sStrload : AbsSite := { shared := false, mutable := true, keyForgets := true, pureUsesVariant := false }
/-- a routine cache keyed by what the routine depends on: shared immutable object. -/
def sRoutine : AbsSite := { shared := true, mutable := false, keyForgets := false, pureUsesVariant := true }
/-- `unmarshaller` as it is: the key forgets the member order, the routine depends on it. -/
def sUnionKeyed : AbsSite := { shared := true, mutable := false, keyForgets := true, pureUsesVariant := true }
/-- `strload` before a8d48a3: hands out the cached list. -/
def sStrloadOld : AbsSite := { shared := true, mutable := true, keyForgets := true, pureUsesVariant := false }

/-- strload('[1,2]'), mutate the result, strload(SE('[1,2]')), mutate the *input* of the first
    call, clear, build a routine twice, read everything back. -/
def exOps : List AOp :=
  [.call 0 (7, 0), .mutate 1, .call 0 (7, 1), .read 1, .read 3, .mutate 0, .call 1 (4, 0), .call 1 (4, 0),
   .mutate 5, .clear, .call 0 (7, 0), .read 0, .read 5, .read 7]

example : [sStrload, sRoutine].all AbsSite.good = true := by decide
example : (runCached (absMachine [sStrload, sRoutine]) exOps).2 =
    [.value [7], .unit, .value [7], .value [7, 99], .value [7], .unit, .value [4, 0], .value [4, 0],
     .unit, .unit, .value [7], .value [7, 0, 99], .value [4, 0], .value [4, 0]] := by decide
example : (runCached (absMachine [sStrload, sRoutine]) exOps).2 = (runCold (absMachine [sStrload, sRoutine]) exOps).2 :=
  abs_refines _ (by decide) exOps
/-- the tables are really used: the two routine results are ONE object (refs equal), the two
    strload results are not -/
example : let σ := (runCached (absMachine [sStrload, sRoutine]) exOps).1
    σ.held 5 = σ.held 7 ∧ σ.held 1 ≠ σ.held 3 := by decide
example : aliasedKeys (absMachine [sStrload, sRoutine]) (fun _ => true) exOps = true := by decide
example : aliasedKeys (absMachine [sUnionKeyed]) (fun _ => true) [.call 0 (3, 0), .clear, .call 0 (3, 0), .call 0 (5, 1)] = false := by
  decide
example : (runCached (absMachine [sUnionKeyed]) [.call 0 (3, 0), .call 0 (5, 1), .call 0 (3, 0)]).2 =
    (runCold (absMachine [sUnionKeyed]) [.call 0 (3, 0), .call 0 (5, 1), .call 0 (3, 0)]).2 :=
  history_independent_unless_aliased _ _ (by decide) (by decide)

/-- **Converse 1 (`unionOrderKey`).**  A site whose key forgets what its result depends on breaks
    history independence at a 2-call history: `unmarshaller(Union[int, str])` then
    `unmarshaller(Union[str, int])` gets the first routine. -/
theorem noncongruent_breaks :
    sUnionKeyed.freshOrImmutable = true ∧ sUnionKeyed.congruent = false ∧
    (runCached (absMachine [sUnionKeyed]) [.call 0 (3, 0), .call 0 (3, 1)]).2 = [.value [3, 0], .value [3, 0]] ∧
    (runCold (absMachine [sUnionKeyed]) [.call 0 (3, 0), .call 0 (3, 1)]).2 = [.value [3, 0], .value [3, 1]] ∧
    aliasedKeys (absMachine [sUnionKeyed]) (fun _ => true) [.call 0 (3, 0), .call 0 (3, 1)] = true := by
  decide

/-- … hence the theorem without the congruence hypothesis is false. -/
theorem congruence_needed :
    ¬ (∀ (M : Machine Nat AArg AKey AVal), (∀ s, FreshOrImmutable (M.site s)) →
        ∀ ops, (runCached M ops).2 = (runCold M ops).2) := by
  intro h
  have := h (absMachine [sUnionKeyed, sUnionKeyed])
    (fun i => abs_freshOrImmutable _ (getD_all AbsSite.freshOrImmutable _ (by decide) (by decide) i))
    [.call 0 (3, 0), .call 0 (3, 1)]
  revert this
  decide

/-- **Converse 2.**  A site that hands out its cached *mutable* object breaks history
    independence at call–mutate–call (`strload('[1,2]').append(3)`; `strload('[1,2]')` — what
    a8d48a3 repaired). -/
theorem shared_mutable_breaks :
    sStrloadOld.congruent = true ∧ sStrloadOld.freshOrImmutable = false ∧
    (runCached (absMachine [sStrloadOld]) [.call 0 (7, 0), .mutate 1, .call 0 (7, 0)]).2 = [.value [7], .unit, .value [7, 99]] ∧
    (runCold (absMachine [sStrloadOld]) [.call 0 (7, 0), .mutate 1, .call 0 (7, 0)]).2 = [.value [7], .unit, .value [7]] := by
  decide

/-- … and two results of such a site are one object: mutating the second changes the first. -/
theorem shared_mutable_breaks_alias :
    (runCached (absMachine [sStrloadOld]) [.call 0 (7, 0), .call 0 (7, 0), .mutate 3, .read 1]).2
      = [.value [7], .value [7], .unit, .value [7, 99]] ∧
    (runCold (absMachine [sStrloadOld]) [.call 0 (7, 0), .call 0 (7, 0), .mutate 3, .read 1]).2
      = [.value [7], .value [7], .unit, .value [7]] := by
  decide

theorem freshness_needed :
    ¬ (∀ (M : Machine Nat AArg AKey AVal), (∀ s, KeyCongruent (M.site s)) →
        ∀ ops, (runCached M ops).2 = (runCold M ops).2) := by
  intro h
  have := h (absMachine [sStrloadOld, sStrloadOld])
    (fun i => abs_congruent _ (getD_all AbsSite.congruent _ (by decide) (by decide) i))
    [.call 0 (7, 0), .mutate 1, .call 0 (7, 0)]
  revert this
  decide

/-- The fixed `strload` on the same history. -/
example : (runCached (absMachine [sStrload]) [.call 0 (7, 0), .mutate 1, .call 0 (7, 1)]).2
    = [.value [7], .unit, .value [7]] := by decide

end Typelib.C12
