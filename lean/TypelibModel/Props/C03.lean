/-
  C03 — Unmarshal never returns a value outside the target type.

  `unmarshal_sound`: for every class environment `env` with distinct field names whose constructor
  defaults conform to their field annotations (`soundEnv F env`, decidable), every annotation `t` of
  the universe (all fourteen scalars, None, Any, enums, Literals, the five collection kinds, fixed
  tuples, dicts, unions of arbitrarily many arbitrary members, the five class flavours, recursion
  through classes, NewType/alias/Final/ClassVar wrappers) and **every input `x` whatsoever** —
  primitives, text, containers of the wrong shape, instances of unrelated classes, corrupted wire
  forms; no validity or shape hypothesis —
      unmarshal(t, x) = r   ⟹   conforms env k t r   for some k (explicitly: fuel + F).
  `conforms` (Model/Typing.lean) is the independent structural checker: the right class at every
  position (a subclass where Python has one: bool / int-mixin member under `int`, str-mixin member
  under `str`), every element, key and field value conforming to its annotated member type, fixed
  tuples of exactly the declared arity (`conforms_tuple`), TypedDicts with distinct declared keys and
  all required keys (`conforms_typeddict`), other classes with exactly the declared fields in order
  (`conforms_inst`), Enum results declared members (`conforms_enum`), Literal results members under
  Python's `in` (`conforms_literal`).  Proved by induction on the fuel shared by `um` and `conforms`,
  i.e. on the nesting depth; monotonicity of `conforms` in the fuel (Lemmas/Mono.lean) joins the
  depths of the parts.

  What is assumed, and why:
  * `wfVal env x`: every `Val.member c i` occurring inside the input is a declared member.  This is a
    condition on model *terms* (`member c 7` of a two-member enum denotes no Python object), not on
    the shape or type of inputs; `wfVal_needed` shows the statement is false for such junk terms.
  * `SlWf env L`: `strload` returns such well-formed values (proved for the modelled `strload`,
    `pySl_wf`), `LeafSound env L`: a scalar unmarshaller returns an instance of its class (proved for
    all fourteen executable leaf routines, `pyLeaves_sound`).  `unmarshal_sound_py` has neither.
  * `noneDepthOk F t` (explicit-fuel forms only; `unmarshal_sound` does not need it): the fuel offset
    `F` exceeds the alias / NewType chain of union members naming None (`Union[int, NoneAlias]`): the
    union routine answers None on behalf of such a member, and the checker needs that much fuel to
    see through the chain.  Always satisfiable (`noneDepthOk_ex`), monotone (`noneDepthOk_mono`).
  * `soundEnv`: a default that violates its own annotation (`x: int = None`) is handed to the
    constructor unconverted, by Python's semantics; `default_needed` shows it.

  `idempotent`: with the pass-through theorem of C13 instantiated at conformance, a result of
  unmarshal is returned unchanged when unmarshalled again (`idempotent_core`: no leaf hypothesis).
-/
import TypelibModel.Lemmas.Mono
import TypelibModel.Lemmas.LeafRT
import TypelibModel.Props.C06
import TypelibModel.Props.C08
import TypelibModel.Props.C13
namespace Typelib.C03
open Typelib

/-! ### Well-formed model values

`Val.member c i` denotes the `i`-th member of enum class `c`; the term exists in the model for any
`i`, a Python object only for a declared one.  `wfVal env x` says that every enum member occurring
inside `x` is declared — a condition on the *representation* of inputs, not on their shape or type. -/

mutual
  def wfVal (env : Env) : Val → Bool
    | .member c i => (memberValue env c i).isSome
    | .list xs => wfVals env xs
    | .tuple xs => wfVals env xs
    | .set xs => wfVals env xs
    | .frozenset xs => wfVals env xs
    | .deque xs => wfVals env xs
    | .iter xs => wfVals env xs
    | .dict kvs => wfPairs env kvs
    | .inst _ fs => wfFields env fs
    | _ => true
  termination_by structural v => v
  def wfVals (env : Env) : List Val → Bool
    | [] => true
    | x :: xs => wfVal env x && wfVals env xs
  termination_by structural xs => xs
  def wfPairs (env : Env) : List (Val × Val) → Bool
    | [] => true
    | (a, b) :: rest => wfVal env a && wfVal env b && wfPairs env rest
  termination_by structural xs => xs
  def wfFields (env : Env) : List (Str × Val) → Bool
    | [] => true
    | (_, b) :: rest => wfVal env b && wfFields env rest
  termination_by structural xs => xs
end

/-- `serdes.strload` yields well-formed values (it builds None/bool/int/float/str/list/dict/tuple). -/
def SlWf (env : Env) (L : Leaves) : Prop := ∀ s v, L.sl s = .ok v → wfVal env v = true

theorem wfVals_iff {env : Env} : ∀ {xs : List Val}, wfVals env xs = true ↔ ∀ x ∈ xs, wfVal env x = true := by
  intro xs
  induction xs with
  | nil => simp [wfVals]
  | cons x xs ih => simp [wfVals, ih]

theorem wfPairs_iff {env : Env} : ∀ {kvs : List (Val × Val)},
    wfPairs env kvs = true ↔ ∀ kv ∈ kvs, wfVal env kv.1 = true ∧ wfVal env kv.2 = true := by
  intro kvs
  induction kvs with
  | nil => simp [wfPairs]
  | cons kv kvs ih => obtain ⟨a, b⟩ := kv; simp [wfPairs, ih, and_assoc]

theorem wfFields_iff {env : Env} : ∀ {fs : List (Str × Val)},
    wfFields env fs = true ↔ ∀ f ∈ fs, wfVal env f.2 = true := by
  intro fs
  induction fs with
  | nil => simp [wfFields]
  | cons f fs ih => obtain ⟨a, b⟩ := f; simp [wfFields, ih]

theorem wf_decode {env : Env} {v : Val} (h : wfVal env v = true) : wfVal env (decode v) = true := by
  cases v <;> first | exact h | rfl

theorem wf_chars {env : Env} (s : Str) : ∀ x ∈ chars s, wfVal env x = true := by
  intro x hx
  obtain ⟨c, _, rfl⟩ := List.mem_map.mp hx
  rfl

theorem mem_enumerateFrom : ∀ (xs : List Val) (n : Nat) (a b : Val), (a, b) ∈ enumerateFrom n xs →
    (∃ k : Nat, a = .int k) ∧ b ∈ xs := by
  intro xs
  induction xs with
  | nil => intro n a b h; simp [enumerateFrom] at h
  | cons x xs ih =>
    intro n a b h
    simp only [enumerateFrom, List.mem_cons, Prod.mk.injEq] at h
    cases h with
    | inl h1 => exact ⟨⟨n, h1.1⟩, by simp [h1.2]⟩
    | inr h2 =>
      obtain ⟨hk, hb⟩ := ih (n + 1) a b h2
      exact ⟨hk, by simp [hb]⟩

theorem wf_load {env : Env} {L : Leaves} (hS : SlWf env L) {v d : Val} (hv : wfVal env v = true)
    (h : load env L v = .ok d) : wfVal env d = true := by
  cases v
  case str s => exact hS s d h
  case text c s => exact hS s d h
  case member c i =>
    simp only [load] at h
    split at h
    · split at h
      · rename_i s _
        exact hS s d h
      · cases h
    · cases h; exact hv
  all_goals (simp only [load] at h; cases h; exact hv)

theorem wf_itervalues {env : Env} {v : Val} {xs : List Val} (hv : wfVal env v = true)
    (h : itervalues env v = .ok xs) : ∀ x ∈ xs, wfVal env x = true := by
  cases v
  case dict kvs =>
    simp only [itervalues] at h
    cases h
    intro x hx
    obtain ⟨kv, hkv, rfl⟩ := List.mem_map.mp hx
    exact ((wfPairs_iff.mp hv) kv hkv).2
  case list ys => simp only [itervalues] at h; cases h; exact wfVals_iff.mp hv
  case tuple ys => simp only [itervalues] at h; cases h; exact wfVals_iff.mp hv
  case set ys => simp only [itervalues] at h; cases h; exact wfVals_iff.mp hv
  case frozenset ys => simp only [itervalues] at h; cases h; exact wfVals_iff.mp hv
  case deque ys => simp only [itervalues] at h; cases h; exact wfVals_iff.mp hv
  case iter ys => simp only [itervalues] at h; cases h; exact wfVals_iff.mp hv
  case str s => simp only [itervalues] at h; cases h; exact wf_chars s
  case inst c fs =>
    simp only [itervalues] at h
    have hf := wfFields_iff.mp hv
    split at h
    · cases h
      intro x hx
      obtain ⟨f, hfm, rfl⟩ := List.mem_map.mp hx
      exact hf f hfm
    · cases h
      intro x hx
      obtain ⟨f, hfm, rfl⟩ := List.mem_map.mp hx
      exact hf f (List.mem_filter.mp hfm).1
    · cases h
  case member c i =>
    simp only [itervalues] at h
    split at h
    · split at h
      · cases h; exact wf_chars _
      · cases h
    · cases h; intro x hx; cases hx
  case «opaque» t => simp only [itervalues] at h; cases h; intro x hx; cases hx
  all_goals (simp only [itervalues] at h; cases h)

theorem wf_unpackPair {env : Env} {x a b : Val} (hx : wfVal env x = true)
    (h : unpackPair env x = .ok (a, b)) : wfVal env a = true ∧ wfVal env b = true := by
  unfold unpackPair at h
  split at h
  all_goals first
    | (cases h; first | done | (simp_all [wfVal, wfVals, wfPairs]; done))
    | (split at h <;> cases h <;> simp_all [wfVal, wfFields])

theorem wf_itemsOfSeq {env : Env} {xs : List Val} {items : List Item} (hx : ∀ x ∈ xs, wfVal env x = true)
    (h : itemsOfSeq env xs = .ok items) :
    ∀ a b, Except.ok (a, b) ∈ items → wfVal env a = true ∧ wfVal env b = true := by
  unfold itemsOfSeq at h
  split at h
  · cases h; intro a b hm; cases hm
  · split at h
    · cases h
    · cases h
      intro a b hm
      obtain ⟨y, hy, hyu⟩ := List.mem_map.mp hm
      exact wf_unpackPair (hx y hy) hyu
    · cases h
      intro a b hm
      obtain ⟨p, hp, hpe⟩ := List.mem_map.mp hm
      cases hpe
      obtain ⟨⟨k, rfl⟩, hb⟩ := mem_enumerateFrom _ 0 a b hp
      exact ⟨rfl, hx b hb⟩

theorem wf_enumChars {env : Env} (s : Str) (a b : Val)
    (hm : (Except.ok (a, b) : Item) ∈ (enumerateFrom 0 (chars s)).map Except.ok) :
    wfVal env a = true ∧ wfVal env b = true := by
  obtain ⟨p, hp, hpe⟩ := List.mem_map.mp hm
  cases hpe
  obtain ⟨⟨k, rfl⟩, hb⟩ := mem_enumerateFrom _ 0 a b hp
  exact ⟨rfl, wf_chars s b hb⟩

theorem wf_iteritems {env : Env} {v : Val} {items : List Item} (hv : wfVal env v = true)
    (h : iteritems env v = .ok items) :
    ∀ a b, Except.ok (a, b) ∈ items → wfVal env a = true ∧ wfVal env b = true := by
  cases v
  case dict kvs =>
    simp only [iteritems] at h
    cases h
    intro a b hm
    obtain ⟨kv, hkv, hke⟩ := List.mem_map.mp hm
    cases hke
    exact (wfPairs_iff.mp hv) (a, b) hkv
  case inst c fs =>
    simp only [iteritems] at h
    have hf := wfFields_iff.mp hv
    split at h
    · cases h
      intro a b hm
      obtain ⟨f, hfm, hfe⟩ := List.mem_map.mp hm
      cases hfe
      exact ⟨rfl, hf f hfm⟩
    · cases h
      intro a b hm
      obtain ⟨f, hfm, hfe⟩ := List.mem_map.mp hm
      cases hfe
      exact ⟨rfl, hf f (List.mem_filter.mp hfm).1⟩
    · cases h
  case list ys => simp only [iteritems] at h; exact wf_itemsOfSeq (wfVals_iff.mp hv) h
  case tuple ys => simp only [iteritems] at h; exact wf_itemsOfSeq (wfVals_iff.mp hv) h
  case deque ys => simp only [iteritems] at h; exact wf_itemsOfSeq (wfVals_iff.mp hv) h
  case iter ys => simp only [iteritems] at h; exact wf_itemsOfSeq (wfVals_iff.mp hv) h
  case set ys =>
    simp only [iteritems, itemsOfSet] at h
    split at h
    · cases h; intro a b hm; cases hm
    · split at h
      · split at h
        · cases h
        · exact wf_itemsOfSeq (wfVals_iff.mp hv) h
      · cases h
  case frozenset ys =>
    simp only [iteritems, itemsOfSet] at h
    split at h
    · cases h; intro a b hm; cases hm
    · split at h
      · split at h
        · cases h
        · exact wf_itemsOfSeq (wfVals_iff.mp hv) h
      · cases h
  case str s => simp only [iteritems] at h; cases h; exact wf_enumChars s
  case member c i =>
    simp only [iteritems] at h
    split at h
    · split at h
      · cases h; exact wf_enumChars _
      · cases h
    · cases h; intro a b hm; cases hm
  case «opaque» t => simp only [iteritems] at h; cases h; intro a b hm; cases hm
  all_goals (simp only [iteritems] at h; cases h)

/-! ### Side conditions and the leaf hypothesis -/

/-- Python's `in` as the literal check of conformance. -/
def litConf (env : Env) : List Val → Val → Bool := fun vs v => (pyMem? env v vs).getD false

theorem conforms_succ (env : Env) (n : Nat) (t : Ty) (r : Val) :
    conforms env (n + 1) t r = tyStep (conformsScalar env) (litConf env) env (conforms env n) t r :=
  hasTypeG_succ (conformsScalar env) (litConf env) env n t r

/-- A declared default conforms to the annotation of its field (at fuel `F`). -/
def defaultOk (F : Nat) (env : Env) (fields : List (Str × Ty)) (p : Str × Val) : Bool :=
  match fields.find? (fun f => f.1 == p.1) with
  | some f => conforms env F f.2 p.2
  | none => true

mutual
  /-- `F` exceeds the wrapper chain of every union member that names None through an alias / NewType
      (`Union[int, NoneAlias]`): the union routine answers None for such a member, and `conforms`
      needs that much fuel to see through the chain.  Trivial (any `F ≥ 1`) when None members are
      written as `None`. -/
  def noneDepthOk (F : Nat) : Ty → Bool
    | .coll _ e => noneDepthOk F e
    | .tuple es => noneDepthOks F es
    | .dict k e => noneDepthOk F k && noneDepthOk F e
    | .union ms => ms.all (fun m => !m.isNone || decide (wrapDepth m < F)) && noneDepthOks F ms
    | .wrap _ t => noneDepthOk F t
    | _ => true
  termination_by structural t => t
  def noneDepthOks (F : Nat) : List Ty → Bool
    | [] => true
    | t :: ts => noneDepthOk F t && noneDepthOks F ts
  termination_by structural ts => ts
end

theorem noneDepthOks_mem {F : Nat} : ∀ {ts : List Ty}, noneDepthOks F ts = true →
    ∀ t ∈ ts, noneDepthOk F t = true := by
  intro ts
  induction ts with
  | nil => intro _ t ht; cases ht
  | cons a as ih =>
    intro h t ht
    simp only [noneDepthOks, Bool.and_eq_true] at h
    cases ht with
    | head => exact h.1
    | tail _ hm => exact ih h.2 t hm

mutual
  theorem noneDepthOk_mono {F F' : Nat} (hF : F ≤ F') : (t : Ty) → noneDepthOk F t = true → noneDepthOk F' t = true
    | .scalar _ | .none | .any | .enum _ | .literal _ | .cls _ => fun _ => rfl
    | .coll _ e => by
      simp only [noneDepthOk]; exact noneDepthOk_mono hF e
    | .tuple es => by
      simp only [noneDepthOk]; exact noneDepthOks_mono hF es
    | .dict k e => by
      simp only [noneDepthOk, Bool.and_eq_true]
      exact fun h => ⟨noneDepthOk_mono hF k h.1, noneDepthOk_mono hF e h.2⟩
    | .union ms => by
      simp only [noneDepthOk, Bool.and_eq_true, List.all_eq_true, Bool.or_eq_true, decide_eq_true_eq]
      exact fun h => ⟨fun m hm => (h.1 m hm).imp id (fun hlt => Nat.lt_of_lt_of_le hlt hF),
        noneDepthOks_mono hF ms h.2⟩
    | .wrap _ t => by
      simp only [noneDepthOk]; exact noneDepthOk_mono hF t
  termination_by structural t => t
  theorem noneDepthOks_mono {F F' : Nat} (hF : F ≤ F') : (ts : List Ty) → noneDepthOks F ts = true → noneDepthOks F' ts = true
    | [] => fun _ => rfl
    | t :: ts => by
      simp only [noneDepthOks, Bool.and_eq_true]
      exact fun h => ⟨noneDepthOk_mono hF t h.1, noneDepthOks_mono hF ts h.2⟩
  termination_by structural ts => ts
end

theorem wrapDepth_bound : ∀ ms : List Ty, ∃ F0, ∀ m ∈ ms, wrapDepth m < F0 := by
  intro ms
  induction ms with
  | nil => exact ⟨0, fun m hm => by cases hm⟩
  | cons a as ih =>
    obtain ⟨F0, h⟩ := ih
    refine ⟨max F0 (wrapDepth a + 1), ?_⟩
    intro m hm
    cases hm with
    | head => omega
    | tail _ hm' => have := h m hm'; omega

mutual
  /-- The side condition is satisfiable for every annotation: it only asks for enough fuel. -/
  theorem noneDepthOk_ex : (t : Ty) → ∃ F0, noneDepthOk F0 t = true
    | .scalar _ | .none | .any | .enum _ | .literal _ | .cls _ => ⟨0, rfl⟩
    | .coll _ e => by
      obtain ⟨F0, h⟩ := noneDepthOk_ex e
      exact ⟨F0, by simp only [noneDepthOk]; exact h⟩
    | .tuple es => by
      obtain ⟨F0, h⟩ := noneDepthOks_ex es
      exact ⟨F0, by simp only [noneDepthOk]; exact h⟩
    | .dict k e => by
      obtain ⟨F1, h1⟩ := noneDepthOk_ex k
      obtain ⟨F2, h2⟩ := noneDepthOk_ex e
      refine ⟨max F1 F2, ?_⟩
      simp only [noneDepthOk, Bool.and_eq_true]
      exact ⟨noneDepthOk_mono (Nat.le_max_left _ _) k h1, noneDepthOk_mono (Nat.le_max_right _ _) e h2⟩
    | .union ms => by
      obtain ⟨F1, h1⟩ := wrapDepth_bound ms
      obtain ⟨F2, h2⟩ := noneDepthOks_ex ms
      refine ⟨max F1 F2, ?_⟩
      simp only [noneDepthOk, Bool.and_eq_true, List.all_eq_true, Bool.or_eq_true, decide_eq_true_eq]
      exact ⟨fun m hm => Or.inr (Nat.lt_of_lt_of_le (h1 m hm) (Nat.le_max_left _ _)),
        noneDepthOks_mono (Nat.le_max_right _ _) ms h2⟩
    | .wrap _ t => by
      obtain ⟨F0, h⟩ := noneDepthOk_ex t
      exact ⟨F0, by simp only [noneDepthOk]; exact h⟩
  termination_by structural t => t
  theorem noneDepthOks_ex : (ts : List Ty) → ∃ F0, noneDepthOks F0 ts = true
    | [] => ⟨0, rfl⟩
    | t :: ts => by
      obtain ⟨F1, h1⟩ := noneDepthOk_ex t
      obtain ⟨F2, h2⟩ := noneDepthOks_ex ts
      refine ⟨max F1 F2, ?_⟩
      simp only [noneDepthOks, Bool.and_eq_true]
      exact ⟨noneDepthOk_mono (Nat.le_max_left _ _) t h1, noneDepthOks_mono (Nat.le_max_right _ _) ts h2⟩
  termination_by structural ts => ts
end

/-- Distinct field names; constructor defaults conform to their field's annotation; the fuel `F`
    sees through the wrapped-None union members of the field annotations. -/
def soundClass (F : Nat) (env : Env) (ci : ClassInfo) : Bool :=
  nodupStr (ci.fields.map Prod.fst) && ci.defaults.all (defaultOk F env ci.fields)
    && ci.fields.all (fun f => noneDepthOk F f.2)

def soundEnv (F : Nat) (env : Env) : Bool := env.all (soundClass F env)

/-- The leaf hypothesis: a scalar unmarshaller returns an instance of its class (or a subclass). -/
def LeafSound (env : Env) (L : Leaves) : Prop :=
  ∀ s x r, L.um s x = .ok r → conformsScalar env s r = true

theorem soundEnv_cls {F : Nat} {env : Env} (h : soundEnv F env = true) {c : Nat} {ci : ClassInfo}
    (hc : env.cls c = some ci) : soundClass F env ci = true := by
  unfold soundEnv at h
  rw [List.all_eq_true] at h
  apply h
  unfold Env.cls at hc
  exact List.mem_of_getElem? hc

theorem defaultOk_mono {F F' : Nat} (hF : F ≤ F') (env : Env) (fields : List (Str × Ty)) (p : Str × Val) :
    defaultOk F env fields p = true → defaultOk F' env fields p = true := by
  unfold defaultOk
  split
  · exact hasTypeG_mono_le _ _ env hF _ _
  · exact id

/-- The side conditions only ask for *enough* fuel. -/
theorem soundEnv_mono {F F' : Nat} (hF : F ≤ F') {env : Env} (h : soundEnv F env = true) :
    soundEnv F' env = true := by
  unfold soundEnv at h ⊢
  rw [List.all_eq_true] at h ⊢
  intro ci hci
  have := h ci hci
  simp only [soundClass, Bool.and_eq_true, List.all_eq_true] at this ⊢
  exact ⟨⟨this.1.1, fun p hp => defaultOk_mono hF env ci.fields p (this.1.2 p hp)⟩,
    fun f hf => noneDepthOk_mono hF f.2 (this.2 f hf)⟩

theorem clsOk_td {P : Ty → Val → Bool} {c : Nat} {ci : ClassInfo} (hfl : ci.flavour = .typeddict)
    (kw : List (Str × Val)) :
    clsOk P c ci (.dict (kw.map fun p => ((Val.str p.1, p.2) : Val × Val))) =
      (nodupStr (kw.map Prod.fst) && ci.required.all (fun r => (kw.map Prod.fst).contains r)
        && (kw.map fun p => ((Val.str p.1, p.2) : Val × Val)).all (tdEntryOk P ci.fields)) := by
  simp only [clsOk, hfl, keyNames_strKeys]

theorem clsOk_inst {P : Ty → Val → Bool} {c c' : Nat} {ci : ClassInfo} (hfl : ci.flavour ≠ .typeddict)
    (fs : List (Str × Val)) :
    clsOk P c ci (.inst c' fs) = (c' == c && all2 (fieldOk P) ci.fields fs) := by
  unfold clsOk
  cases h : ci.flavour <;> first | exact absurd h hfl | rfl

theorem isMemberOf_wf {env : Env} {c : Nat} {d : Val} (hm : isMemberOf c d = true) (hd : wfVal env d = true) :
    enumOk env c d = true := by
  cases d <;> simp [isMemberOf] at hm
  subst hm
  simpa [enumOk, wfVal] using hd

/-! ### The theorem -/

theorem unmarshal_sound_aux (F : Nat) (env : Env) (L : Leaves) (hE : soundEnv F env = true)
    (hL : LeafSound env L) (hS : SlWf env L) :
    ∀ (n : Nat) (t : Ty) (x r : Val), noneDepthOk F t = true → wfVal env x = true →
      um env L n t x = .ok r → conforms env (n + F) t r = true := by
  intro n
  induction n with
  | zero => intro t x r _ _ h; simp [um] at h
  | succ n ih =>
    intro t x r hN hx h
    have hfuel : n + 1 + F = (n + F) + 1 := by omega
    rw [hfuel, conforms_succ]
    cases t with
    | scalar s =>
      simp only [um] at h
      exact hL s x r h
    | none =>
      simp only [um, umNone] at h
      split at h
      · cases h; rfl
      · cases h
    | any => rfl
    | literal vs =>
      simp only [um] at h
      simp only [tyStep, litConf]
      split at h
      · cases h
      · rename_i heq
        cases h
        simp [heq]
      · split at h
        · cases h
        · rename_i heq
          cases h
          simp [heq]
        · split at h
          · cases h
          · split at h
            · cases h
            · rename_i heq
              cases h
              simp [heq]
            · cases h
    | enum c =>
      simp only [um, umEnum] at h
      simp only [tyStep]
      split at h
      · rename_i hm
        cases h
        simp only [Bool.and_eq_true] at hm
        exact isMemberOf_wf hm.1 hx
      split at h
      · cases h
      · rename_i d hd
        have hwd := wf_load hS hx hd
        split at h
        · rename_i hm
          cases h
          exact isMemberOf_wf hm hwd
        · split at h
          · rename_i m hm
            cases h
            exact lookupByValue_ok hm
          · split at h
            · split at h
              · rename_i hm
                cases h
                exact isMemberOf_wf hm (wf_decode hx)
              · split at h
                · rename_i m hm
                  cases h
                  exact lookupByValue_ok hm
                · cases h
            · cases h
    | coll k e =>
      simp only [um] at h
      simp only [noneDepthOk] at hN
      simp only [tyStep, collOk]
      split at h
      · cases h
      · rename_i xs hxs
        obtain ⟨d, hd, hit⟩ := bind_ok hxs
        have hwxs := wf_itervalues (wf_load hS hx hd) hit
        split at h
        · cases h
        · rename_i ys hys
          cases h
          rw [collOf_mkColl]
          simp only [List.all_eq_true]
          exact mapR_ok_forall (um env L n e) (fun y => conforms env (n + F) e y = true) xs ys hys
            (fun x' hx' y hy => ih e x' y hN (hwxs x' hx') hy)
    | tuple es =>
      simp only [um] at h
      simp only [noneDepthOk] at hN
      simp only [tyStep]
      split at h
      · cases h
      · rename_i xs hxs
        obtain ⟨d, hd, hit⟩ := bind_ok hxs
        have hwxs := wf_itervalues (wf_load hS hx hd) hit
        split at h
        · cases h
        · rename_i ys hys
          split at h
          · rename_i hlen
            cases h
            simp only [tupleOk]
            exact zipR_ok_all2 (um env L n) (conforms env (n + F)) es xs ys hys (eq_of_beq hlen)
              (fun e' he' x' hx' y hy => ih e' x' y (noneDepthOks_mem hN e' he') (hwxs x' hx') hy)
          · cases h
    | dict k e =>
      simp only [um] at h
      simp only [noneDepthOk, Bool.and_eq_true] at hN
      simp only [tyStep]
      split at h
      · cases h
      · rename_i items hitems
        obtain ⟨d, hd, hit⟩ := bind_ok hitems
        have hwit := wf_iteritems (wf_load hS hx hd) hit
        split at h
        · cases h
        · rename_i kvs hkvs
          cases h
          simp only [dictOk, List.all_eq_true]
          exact mapR_ok_forall (convPair (um env L n k) (um env L n e))
            (fun kv => dictEntryOk (conforms env (n + F)) k e kv = true) items kvs hkvs
            (fun it hit' kv hkv => by
              obtain ⟨a, b, hab, ha, hb, hh⟩ := convPair_ok hkv
              subst hab
              obtain ⟨hwa, hwb⟩ := hwit a b hit'
              simp only [dictEntryOk, Bool.and_eq_true]
              exact ⟨⟨ih k a kv.1 hN.1 hwa ha, ih e b kv.2 hN.2 hwb hb⟩, hh⟩)
    | union ms =>
      simp only [um] at h
      simp only [tyStep, List.any_eq_true]
      obtain ⟨pre, f, post, hfs, hfv, _⟩ := (C08.firstOk_ok_iff _ x r).mp h
      have hfm : f ∈ (unionOrder ms).map (um env L n) := by rw [hfs]; simp
      obtain ⟨m', hm', rfl⟩ := List.mem_map.mp hfm
      simp only [noneDepthOk, Bool.and_eq_true, List.all_eq_true, Bool.or_eq_true,
        Bool.not_eq_eq_eq_not, Bool.not_true, decide_eq_true_eq] at hN
      cases unionOrder_sub m' hm' with
      | inl hmem => exact ⟨m', hmem, ih m' x r (noneDepthOks_mem hN.2 m' hmem) hx hfv⟩
      | inr hnone =>
        -- the None routine the union puts first on behalf of a member that names None
        obtain ⟨rfl, m0, hm0, hisn⟩ := hnone
        have hr : r = .none :=
          isNone_hasTypeG (conformsScalar env) (litConf env) env (n + F) .none r rfl (ih .none x r rfl hx hfv)
        subst hr
        have hd : wrapDepth m0 < F := by
          cases hN.1 m0 hm0 with
          | inl hf => rw [hisn] at hf; cases hf
          | inr hlt => exact hlt
        have := hasTypeG_mono_add (conformsScalar env) (litConf env) env n F m0 .none
          (isNone_accepts _ _ env F m0 hisn hd)
        rw [Nat.add_comm] at this
        exact ⟨m0, hm0, this⟩
    | cls c =>
      simp only [um] at h
      simp only [tyStep, clsOkE]
      obtain ⟨d, hd, hst⟩ := bind_ok h
      have hwd := wf_load hS hx hd
      unfold umStruct at hst
      split at hst
      · cases hst
      · rename_i ci hc
        simp only [hc]
        have hsc := soundEnv_cls hE hc
        simp only [soundClass, Bool.and_eq_true, List.all_eq_true] at hsc
        obtain ⟨⟨hnd, hdef⟩, hfN⟩ := hsc
        split at hst
        · cases hst
        · rename_i items hitems
          have hwit := wf_iteritems hwd hitems
          split at hst
          · cases hst
          · rename_i kw hkw
            -- every keyword is a declared field's value converted by that field's routine
            have hinv := buildKwargs_inv (convOf (fieldsOf env c) (um env L n))
              (fun name r' => ∃ f, ci.fields.find? (fun f => f.1 == name) = some f
                ∧ conforms env (n + F) f.2 r' = true)
              items [] kw hkw
              (fun name v hm g r' hg hr => by
                simp only [fieldsOf, hc] at hg
                unfold convOf at hg
                split at hg
                · rename_i p hfind
                  cases hg
                  exact ⟨p, hfind, ih p.2 v r' (hfN p (List.mem_of_find?_eq_some hfind)) (hwit _ v hm).2 hr⟩
                · cases hg)
              (by intro p hp'; cases hp')
            split at hst
            · -- TypedDict
              rename_i hfl
              split at hst
              · rename_i hreq
                cases hst
                rw [clsOk_td hfl]
                simp only [Bool.and_eq_true, List.all_eq_true]
                refine ⟨⟨buildKwargs_nodup _ items [] kw hkw rfl, ?_⟩, ?_⟩
                · intro r' hr'
                  rw [List.all_eq_true] at hreq
                  have := hreq r' hr'
                  obtain ⟨v, hv⟩ := Option.isSome_iff_exists.mp this
                  have hmem := lookupKw_some_mem hv
                  simp only [List.contains_iff_mem]
                  exact List.mem_map_of_mem (f := Prod.fst) hmem
                · intro kv hkv
                  obtain ⟨p, hp, rfl⟩ := List.mem_map.mp hkv
                  obtain ⟨f, hfind, hconf⟩ := hinv p hp
                  simp only [tdEntryOk, hfind]
                  exact hconf
              · cases hst
            · -- dataclass / named tuple / plain / slots: `t(**kwargs)`
              rename_i hfl
              have hfl' : ci.flavour ≠ .typeddict := fun hh => hfl hh
              unfold construct at hst
              split at hst
              · cases hst
              · rename_i fs hfs
                cases hst
                rw [clsOk_inst hfl']
                simp only [beq_self_eq_true, Bool.true_and]
                apply mapR_fieldArg_all2 ci kw (conforms env (n + F)) ci.fields fs hfs
                · intro f hf v hv
                  obtain ⟨f', hfind, hconf⟩ := hinv (f.1, v) (lookupKw_some_mem hv)
                  rw [find?_of_mem_nodup ci.fields hnd f hf] at hfind
                  cases hfind
                  exact hconf
                · intro f hf dv hdv
                  have := hdef (f.1, dv) (lookupKw_some_mem hdv)
                  simp only [defaultOk, find?_of_mem_nodup ci.fields hnd f hf] at this
                  have := hasTypeG_mono_add (conformsScalar env) (litConf env) env n F f.2 dv this
                  rw [Nat.add_comm] at this
                  exact this
    | wrap w t' =>
      simp only [um] at h
      simp only [noneDepthOk] at hN
      exact ih t' x r hN hx h

/-! ### The executable leaves satisfy `LeafSound` (all fourteen scalar routines) -/

theorem conforms_int_member {env : Env} {c i : Nat} (h : isIntMixin env c = true) :
    conformsScalar env .int (.member c i) = true := by
  unfold isIntMixin at h
  simp only [conformsScalar]
  cases hc : env.cls c <;> simp_all

theorem conforms_str_member {env : Env} {c i : Nat} (h : isStrMixin env c = true) :
    conformsScalar env .str (.member c i) = true := by
  unfold isStrMixin at h
  simp only [conformsScalar]
  cases hc : env.cls c <;> simp_all

/-- Split the routine's definition to its leaves; close error branches, literal `ok` branches and
    the branches that end in a cast whose result shape is known. -/
local macro "leaf_cases" h:ident " with " t:tactic : tactic =>
  `(tactic| (
    repeat' (split at $h:ident)
    all_goals first
      | (cases $h:ident; done)
      | (cases $h:ident; rfl)
      | ($t:tactic)))

theorem umInt_sound {env : Env} {v r : Val} (h : umInt env v = .ok r) : conformsScalar env .int r = true := by
  unfold umInt at h
  leaf_cases h with first
    | (cases h; exact conforms_int_member (by assumption))
    | (obtain ⟨i, rfl⟩ := C06.castInt_shape h; rfl)

theorem umBool_sound {env : Env} {v r : Val} (h : umBool env v = .ok r) : conformsScalar env .bool r = true := by
  unfold umBool at h
  leaf_cases h with skip

theorem umFloat_sound {env : Env} {v r : Val} (h : umFloat env v = .ok r) : conformsScalar env .float r = true := by
  unfold umFloat at h
  leaf_cases h with (obtain ⟨i, rfl⟩ := C06.castFloat_shape h; rfl)

theorem umStr_sound {env : Env} {v r : Val} (h : umStr env v = .ok r) : conformsScalar env .str r = true := by
  unfold umStr at h
  leaf_cases h with first
    | (cases h; exact conforms_str_member (by assumption))
    | (obtain ⟨i, rfl⟩ := C06.pyStr_shape h; rfl)

theorem castDecimal_shape {v m : Val} (h : castDecimal v = .ok m) : ∃ s, m = .dec s := by
  unfold castDecimal at h
  repeat' (split at h)
  all_goals first | (cases h; done) | (cases h; exact ⟨_, rfl⟩)

theorem umDecimal_sound {env : Env} {v r : Val} (h : umDecimal env v = .ok r) :
    conformsScalar env .decimal r = true := by
  unfold umDecimal at h
  leaf_cases h with (obtain ⟨i, rfl⟩ := castDecimal_shape h; rfl)

theorem gcdNorm_shape (n : Int) (d : Nat) : ∃ a b, gcdNorm n d = .frac a b := by
  simp only [gcdNorm]
  split <;> exact ⟨_, _, rfl⟩

theorem fracOfStr_shape {s : Str} {m : Val} (h : fracOfStr s = .ok m) : ∃ a b, m = .frac a b := by
  simp only [fracOfStr] at h
  repeat' (split at h)
  all_goals first
    | (cases h; done)
    | (cases h; exact ⟨_, _, rfl⟩)
    | (cases h; exact gcdNorm_shape _ _)

theorem castFraction_shape {v m : Val} (h : castFraction v = .ok m) : ∃ a b, m = .frac a b := by
  unfold castFraction at h
  split at h
  all_goals first
    | (cases h; done)
    | (cases h; exact ⟨_, _, rfl⟩)
    | exact fracOfStr_shape h

theorem umFraction_sound {env : Env} {v r : Val} (h : umFraction env v = .ok r) :
    conformsScalar env .fraction r = true := by
  unfold umFraction at h
  leaf_cases h with first
    | (obtain ⟨a, b, rfl⟩ := castFraction_shape h; rfl)
    | (cases h; obtain ⟨a, b, hg⟩ := gcdNorm_shape _ _; rw [hg]; rfl)

theorem umUuid_sound {env : Env} {L : Leaves} {v r : Val} (h : umUuid env L v = .ok r) :
    conformsScalar env .uuid r = true := by
  unfold umUuid at h
  leaf_cases h with skip

theorem umPath_sound {env : Env} {L : Leaves} {v r : Val} (h : umPath env L v = .ok r) :
    conformsScalar env .path r = true := by
  unfold umPath at h
  leaf_cases h with skip

theorem umPattern_sound {v r : Val} {env : Env} (h : umPattern v = .ok r) :
    conformsScalar env .pattern r = true := by
  unfold umPattern at h
  leaf_cases h with skip

theorem umDate_sound {env : Env} {today : Int} {v r : Val} (h : umDate today v = .ok r) :
    conformsScalar env .date r = true := by
  unfold umDate at h
  leaf_cases h with skip

theorem umDatetime_sound {env : Env} {today : Int} {v r : Val} (h : umDatetime today v = .ok r) :
    conformsScalar env .datetime r = true := by
  unfold umDatetime at h
  leaf_cases h with skip

theorem umTime_sound {env : Env} {today : Int} {v r : Val} (h : umTime today v = .ok r) :
    conformsScalar env .time r = true := by
  unfold umTime at h
  leaf_cases h with skip

theorem umTimedelta_sound {env : Env} {v r : Val} (h : umTimedelta v = .ok r) :
    conformsScalar env .timedelta r = true := by
  unfold umTimedelta at h
  leaf_cases h with skip

/-- Every scalar unmarshaller of the executable leaves returns an instance of its class (or, for
    `int` / `str`, of a subclass: `bool`, a member of an int- / str-mixin enum). -/
theorem pyLeaves_sound (env : Env) (today : Int) : LeafSound env (pyLeaves env today) := by
  intro s x r h
  simp only [pyLeaves] at h
  cases s with
  | int => exact umInt_sound h
  | bool => exact umBool_sound h
  | float => exact umFloat_sound h
  | str => exact umStr_sound h
  | decimal => exact umDecimal_sound h
  | fraction => exact umFraction_sound h
  | uuid => exact umUuid_sound h
  | path => exact umPath_sound (L := { sl := pySl, um := fun _ _ => .error .unsupported, mar := pyMar env }) h
  | pattern => exact umPattern_sound h
  | date => exact umDate_sound (today := today) h
  | datetime => exact umDatetime_sound (today := today) h
  | time => exact umTime_sound (today := today) h
  | timedelta => exact umTimedelta_sound h
  | bytes => cases h

/-! ### The modelled `strload` yields well-formed values -/

theorem wf_dedupKeys {env : Env} : ∀ (kvs acc : List (Val × Val)),
    (∀ kv ∈ kvs, wfVal env kv.1 = true ∧ wfVal env kv.2 = true) →
    (∀ kv ∈ acc, wfVal env kv.1 = true ∧ wfVal env kv.2 = true) →
    ∀ kv ∈ dedupKeys kvs acc, wfVal env kv.1 = true ∧ wfVal env kv.2 = true := by
  intro kvs
  induction kvs with
  | nil => intro acc _ hacc; simpa [dedupKeys] using hacc
  | cons p rest ih =>
    intro acc hk hacc
    obtain ⟨k, v⟩ := p
    have hkv := hk (k, v) (by simp)
    have hrest : ∀ kv ∈ rest, wfVal env kv.1 = true ∧ wfVal env kv.2 = true :=
      fun kv hm => hk kv (by simp [hm])
    simp only [dedupKeys]
    split
    · apply ih _ hrest
      intro kv hm
      obtain ⟨q, hq, rfl⟩ := List.mem_map.mp hm
      split
      · exact hkv
      · exact hacc q hq
    · apply ih _ hrest
      intro kv hm
      simp only [List.mem_append, List.mem_cons, List.not_mem_nil, or_false] at hm
      cases hm with
      | inl h1 => exact hacc kv h1
      | inr h2 => subst h2; exact hkv

theorem wf_parse (env : Env) : ∀ n : Nat,
    (∀ toks v r, parseVal n toks = some (v, r) → wfVal env v = true) ∧
    (∀ toks xs r, parseElems n toks = some (xs, r) → ∀ x ∈ xs, wfVal env x = true) ∧
    (∀ toks kvs r, parseMembers n toks = some (kvs, r) →
      ∀ kv ∈ kvs, wfVal env kv.1 = true ∧ wfVal env kv.2 = true) := by
  intro n
  induction n with
  | zero => simp [parseVal, parseElems, parseMembers]
  | succ n ih =>
    obtain ⟨ihV, ihE, ihM⟩ := ih
    refine ⟨?_, ?_, ?_⟩
    · intro toks v r h
      simp only [parseVal] at h
      repeat' (split at h)
      all_goals first
        | (cases h; done)
        | (cases h; rfl)
        | (cases h; exact wfVals_iff.mpr (ihE _ _ _ (by assumption)))
        | (cases h
           exact wfPairs_iff.mpr (wf_dedupKeys _ [] (ihM _ _ _ (by assumption)) (by intro kv hm; cases hm)))
    · intro toks xs r h
      simp only [parseElems] at h
      repeat' (split at h)
      all_goals first
        | (cases h; done)
        | (cases h
           intro x hx
           cases hx with
           | head => exact ihV _ _ _ (by assumption)
           | tail _ hm => first | exact ihE _ _ _ (by assumption) x hm | cases hm)
    · intro toks kvs r h
      simp only [parseMembers] at h
      repeat' (split at h)
      all_goals first
        | (cases h; done)
        | (cases h
           intro kv hkv
           cases hkv with
           | head => exact ⟨rfl, ihV _ _ _ (by assumption)⟩
           | tail _ hm => first | exact ihM _ _ _ (by assumption) kv hm | cases hm)

theorem pySl_wf (env : Env) : ∀ s v, pySl s = .ok v → wfVal env v = true := by
  intro s v h
  unfold pySl at h
  split at h
  · rename_i w hw
    cases h
    unfold strload? at hw
    split at hw
    · rename_i u hu
      cases hw
      unfold jsonParse at hu
      repeat' (split at hu)
      all_goals first
        | (cases hu; done)
        | (cases hu; exact (wf_parse env _).1 _ _ _ (by assumption))
    · repeat' (split at hw)
      all_goals first | (cases hw; done) | (cases hw; rfl)
  · split at h
    · cases h; rfl
    · cases h

theorem pyLeaves_slwf (env : Env) (today : Int) : SlWf env (pyLeaves env today) :=
  pySl_wf env

/-! ### C03 -/

/-- **C03.** For every class environment with distinct field names whose constructor defaults
    conform to their annotations (`soundEnv`), every annotation `t` of the universe — unions of
    arbitrary members, `Any`, recursion through classes included — and **every input `x`**
    (well-formed as a term: the enum members occurring in it are declared), whatever its shape:
    if `unmarshal(t, x)` returns `r`, then `r` structurally conforms to `t`. -/
theorem unmarshal_sound (F : Nat) (env : Env) (L : Leaves) (hE : soundEnv F env = true)
    (hL : LeafSound env L) (hS : SlWf env L) (n : Nat) (t : Ty) (x r : Val)
    (hx : wfVal env x = true) (h : um env L n t x = .ok r) : ∃ k, conforms env k t r = true := by
  obtain ⟨F0, h0⟩ := noneDepthOk_ex t
  exact ⟨n + max F F0, unmarshal_sound_aux (max F F0) env L (soundEnv_mono (Nat.le_max_left _ _) hE) hL hS
    n t x r (noneDepthOk_mono (Nat.le_max_right _ _) t h0) hx h⟩

/-- **C03 for the executable leaves** (all fourteen scalar routines, the modelled `strload`): no leaf
    hypothesis left, explicit fuel. -/
theorem unmarshal_sound_py (F : Nat) (env : Env) (today : Int) (hE : soundEnv F env = true)
    (n : Nat) (t : Ty) (x r : Val) (hN : noneDepthOk F t = true) (hx : wfVal env x = true)
    (h : um env (pyLeaves env today) n t x = .ok r) : conforms env (n + F) t r = true :=
  unmarshal_sound_aux F env _ hE (pyLeaves_sound env today) (pyLeaves_slwf env today) n t x r hN hx h

/-! ### What conformance says, clause by clause (the wording of the property) -/

theorem all2_length {α β : Type} {p : α → β → Bool} : ∀ {as : List α} {bs : List β},
    all2 p as bs = true → bs.length = as.length := by
  intro as
  induction as with
  | nil => intro bs h; cases bs <;> simp_all [all2]
  | cons a as ih =>
    intro bs h
    cases bs with
    | nil => simp [all2] at h
    | cons b bs =>
      simp only [all2, Bool.and_eq_true] at h
      simp [ih h.2]

theorem conforms_pos {env : Env} {k : Nat} {t : Ty} {r : Val} (h : conforms env k t r = true) :
    ∃ k', k = k' + 1 := by
  cases k with
  | zero => simp [conforms, hasTypeG] at h
  | succ k' => exact ⟨k', rfl⟩

/-- Fixed tuples have exactly the declared arity, each position conforming to its own annotation. -/
theorem conforms_tuple {env : Env} {k : Nat} {es : List Ty} {r : Val} (h : conforms env k (.tuple es) r = true) :
    ∃ ys, r = .tuple ys ∧ ys.length = es.length := by
  obtain ⟨k', rfl⟩ := conforms_pos h
  rw [conforms_succ] at h
  simp only [tyStep] at h
  cases r <;> simp only [tupleOk] at h <;> first | cases h | skip
  exact ⟨_, rfl, all2_length h⟩

/-- Enum results are declared members of the annotated class. -/
theorem conforms_enum {env : Env} {k c : Nat} {r : Val} (h : conforms env k (.enum c) r = true) :
    ∃ i, r = .member c i ∧ (memberValue env c i).isSome = true := by
  obtain ⟨k', rfl⟩ := conforms_pos h
  rw [conforms_succ] at h
  simp only [tyStep] at h
  cases r <;> simp only [enumOk] at h <;> first | cases h | skip
  simp only [Bool.and_eq_true, beq_iff_eq] at h
  obtain ⟨rfl, h2⟩ := h
  exact ⟨_, rfl, h2⟩

/-- Literal results are (Python-`in`) members of the declared values. -/
theorem conforms_literal {env : Env} {k : Nat} {vs : List Val} {r : Val}
    (h : conforms env k (.literal vs) r = true) : pyMem? env r vs = some true := by
  obtain ⟨k', rfl⟩ := conforms_pos h
  rw [conforms_succ] at h
  simp only [tyStep, litConf] at h
  cases hp : pyMem? env r vs with
  | none => simp [hp] at h
  | some b => simpa [hp] using h

/-- TypedDict results are dicts with distinct declared string keys that contain every required key. -/
theorem conforms_typeddict {env : Env} {k c : Nat} {ci : ClassInfo} {r : Val}
    (hc : env.cls c = some ci) (hfl : ci.flavour = .typeddict) (h : conforms env k (.cls c) r = true) :
    ∃ kvs names, r = .dict kvs ∧ keyNames kvs = some names ∧ names.Nodup
      ∧ (∀ q ∈ ci.required, q ∈ names) ∧ (∀ nm ∈ names, nm ∈ ci.fields.map Prod.fst) := by
  obtain ⟨k', rfl⟩ := conforms_pos h
  rw [conforms_succ] at h
  simp only [tyStep, clsOkE, hc] at h
  cases r <;> simp only [clsOk, hfl] at h <;> first | cases h | skip
  rename_i kvs
  cases hkn : keyNames kvs with
  | none => simp [hkn] at h
  | some names =>
    simp only [hkn, Bool.and_eq_true, List.all_eq_true] at h
    obtain ⟨⟨hnd, hreq⟩, hent⟩ := h
    refine ⟨kvs, names, rfl, hkn, nodupStr_iff.mp hnd, fun q hq => by simpa using hreq q hq, ?_⟩
    obtain ⟨fs, hfs1, hfs2⟩ := keyNames_some kvs names hkn
    intro nm hnm
    rw [← hfs2] at hnm
    obtain ⟨p, hp, rfl⟩ := List.mem_map.mp hnm
    have := hent (Val.str p.1, p.2) (by rw [hfs1]; exact List.mem_map_of_mem (f := fun q : Str × Val => ((Val.str q.1, q.2) : Val × Val)) hp)
    simp only [tdEntryOk] at this
    split at this
    · rename_i f hfind
      have hname : f.1 = p.1 := by
        have := List.find?_some hfind
        exact eq_of_beq this
      rw [← hname]
      exact List.mem_map_of_mem (f := Prod.fst) (List.mem_of_find?_eq_some hfind)
    · cases this

/-- Instances of the other class flavours have exactly the declared fields, in order. -/
theorem conforms_inst {env : Env} {k c : Nat} {ci : ClassInfo} {r : Val}
    (hc : env.cls c = some ci) (hfl : ci.flavour ≠ .typeddict) (h : conforms env k (.cls c) r = true) :
    ∃ fs, r = .inst c fs ∧ fs.map Prod.fst = ci.fields.map Prod.fst := by
  obtain ⟨k', rfl⟩ := conforms_pos h
  rw [conforms_succ] at h
  simp only [tyStep, clsOkE, hc] at h
  cases r
  case inst c' fs =>
    rw [clsOk_inst hfl] at h
    simp only [Bool.and_eq_true, beq_iff_eq] at h
    obtain ⟨rfl, h2⟩ := h
    exact ⟨fs, rfl, (all2_names (P := conforms env k') ci.fields fs h2).1⟩
  all_goals (unfold clsOk at h; cases hf : ci.flavour <;> simp_all)

/-! ### Idempotence: a result of unmarshal is returned unchanged when unmarshalled again -/

theorem isIntMixin_of_conforms {env : Env} {c i : Nat} (h : conformsScalar env .int (.member c i) = true) :
    isIntMixin env c = true := by
  unfold isIntMixin
  simp only [conformsScalar] at h
  cases hc : env.cls c <;> simp_all

theorem isStrMixin_of_conforms {env : Env} {c i : Nat} (h : conformsScalar env .str (.member c i) = true) :
    isStrMixin env c = true := by
  unfold isStrMixin
  simp only [conformsScalar] at h
  cases hc : env.cls c <;> simp_all

/-- The core scalar routines return a conforming value (subclass instances included) unchanged. -/
theorem pyLeaves_pass_conf (env : Env) (today : Int) : ∀ s v, S0 s = true → conformsScalar env s v = true →
    (pyLeaves env today).um s v = .ok v := by
  intro s v hs hv
  cases s <;> simp [S0] at hs
  case int =>
    cases v <;> simp [conformsScalar, hasScalar] at hv
    case int i => simp [pyLeaves, pyUm, umInt, decode]
    case bool b => simp [pyLeaves, pyUm, umInt, decode]
    case member c i =>
      have := isIntMixin_of_conforms (i := i) (by simpa [conformsScalar] using hv)
      simp [pyLeaves, pyUm, umInt, decode, this]
  case bool =>
    cases v <;> simp [conformsScalar, hasScalar] at hv
    simp [pyLeaves, pyUm, umBool, decode]
  case float =>
    cases v <;> simp [conformsScalar, hasScalar] at hv
    simp [pyLeaves, pyUm, umFloat, decode]
  case str =>
    cases v <;> simp [conformsScalar, hasScalar] at hv
    case str s => simp [pyLeaves, pyUm, umStr, decode]
    case member c i =>
      have := isStrMixin_of_conforms (i := i) (by simpa [conformsScalar] using hv)
      simp [pyLeaves, pyUm, umStr, decode, this]

theorem litConf_pass (env : Env) : ∀ vs v, vs.all isPrim = true → litConf env vs v = true →
    pyMem? env v vs = some true := by
  intro vs v _ h
  unfold litConf at h
  cases hp : pyMem? env v vs with
  | none => simp [hp] at h
  | some b => simpa [hp] using h

/-- **Idempotence**, for any leaves satisfying the pass-through laws *for conformance*. -/
theorem idempotent (S : Scalar → Bool) (F : Nat) (env : Env) (L : Leaves)
    (hE : soundEnv F env = true) (hW : wfEnv S env = true) (hL : LeafSound env L) (hS : SlWf env L)
    (hP : C13.PassLaws S (conformsScalar env) (litConf env) env L)
    (n : Nat) (t : Ty) (x r : Val) (hwf : wfTy S env t = true)
    (hx : wfVal env x = true) (h : um env L n t x = .ok r) : ∃ k, um env L k t r = .ok r := by
  obtain ⟨k, hk⟩ := unmarshal_sound F env L hE hL hS n t x r hx h
  exact ⟨k, C13.passthroughG S (conformsScalar env) (litConf env) env L hW hP k t r hwf hk⟩

/-- **Idempotence on the unconditional core** (int, bool, float, str — `True` in an `int` position
    and int-mixin enum members included; every enum, str mix-in or not): no hypothesis about the
    leaves and none about the enum classes. -/
theorem idempotent_core (F : Nat) (env : Env) (today : Int)
    (hE : soundEnv F env = true) (hW : wfEnv S0 env = true)
    (n : Nat) (t : Ty) (x r : Val) (hwf : wfTy S0 env t = true) (hN : noneDepthOk F t = true)
    (hx : wfVal env x = true) (h : um env (pyLeaves env today) n t x = .ok r) :
    um env (pyLeaves env today) (n + F) t r = .ok r :=
  C13.passthroughG S0 (conformsScalar env) (litConf env) env _ hW
    { leafPass := pyLeaves_pass_conf env today
      litPass := litConf_pass env }
    (n + F) t r hwf
    (unmarshal_sound_py F env today hE n t x r hN hx h)

/-! ### Non-vacuity, and the clauses of the property evaluated by the model -/

/-- Fixed-tuple arity: a too-short input is rejected, never returned as a 1-tuple … -/
example : um [] (pyLeaves []) 3 (.tuple [.scalar .int, .scalar .str]) (.list [.int 1]) = .error .value := by rfl
/-- … and a result has the declared arity (extra input members are dropped, as documented at
    `unmarshals/routines.py:912-914`). -/
example : um [] (pyLeaves []) 3 (.tuple [.scalar .int, .scalar .str]) (.list [.int 1, .int 2, .int 3])
    = .ok (.tuple [.int 1, .str ['2']]) := by rfl

/-- Junk into the recursive dataclass of C01: a non-iterable and an attribute-less instance of an
    unrelated class are rejected (required field missing), not returned. -/
example : um C01.exEnv (pyLeaves C01.exEnv) 5 (.cls 0) (.int 3) = .error .type := by rfl
example : um C01.exEnv (pyLeaves C01.exEnv) 5 (.cls 0) (.opaque ['X']) = .error .type := by rfl

/-- The hypotheses hold for that environment … -/
example : soundEnv 3 C01.exEnv = true := by decide

/-- … and a corrupted wire form (field retyped, unknown field added, fields dropped): the model
    converts the retyped field, ignores the unknown one, takes the defaults, -/
def exIn : Val := .dict [(.str "val".toList, .str ['7']), (.str "junk".toList, .none)]
example : um C01.exEnv (pyLeaves C01.exEnv) 5 (.cls 0) exIn = .ok (C01.leaf 7) := by rfl
/-- and the theorem applies to it. -/
example : conforms C01.exEnv (5 + 3) (.cls 0) (C01.leaf 7) = true :=
  unmarshal_sound_py 3 C01.exEnv 0 (by decide) 5 (.cls 0) exIn _ (by decide) (by decide) (by rfl)
example : um C01.exEnv (pyLeaves C01.exEnv) (5 + 3) (.cls 0) (C01.leaf 7) = .ok (C01.leaf 7) :=
  idempotent_core 3 C01.exEnv 0 (by decide) (by decide)
    5 (.cls 0) exIn _ (by decide) (by decide) (by decide) (by rfl)

/-- `class E(IntEnum): A = 1; B = 2` -/
def enumEnv : Env :=
  [{ flavour := .plain, members := [("A".toList, .int 1), ("B".toList, .int 2)], mixin := .int }]

/-- Enum results are declared members: by value, by the text of the value. -/
example : um enumEnv (pyLeaves enumEnv) 2 (.enum 0) (.int 2) = .ok (.member 0 1) := by rfl
example : um enumEnv (pyLeaves enumEnv) 2 (.enum 0) (.str ['2']) = .ok (.member 0 1) := by rfl
example : um enumEnv (pyLeaves enumEnv) 2 (.enum 0) (.int 3) = .error .value := by rfl

/-- `wfVal` cannot be dropped: the term `member 0 7` (no Python object) is returned as it is. -/
theorem wfVal_needed :
    um enumEnv (pyLeaves enumEnv) 2 (.enum 0) (.member 0 7) = .ok (.member 0 7)
      ∧ wfVal enumEnv (.member 0 7) = false
      ∧ ∀ k, conforms enumEnv k (.enum 0) (.member 0 7) = false := by
  refine ⟨rfl, rfl, ?_⟩
  intro k
  cases k with
  | zero => rfl
  | succ k => rfl

/-- `@dataclass class C: x: int = None` -/
def badDefEnv : Env :=
  [{ flavour := .dataclass, fields := [(['x'], .scalar .int)], defaults := [(['x'], .none)] }]

/-- The defaults clause of `soundEnv` cannot be dropped: the constructor binds a default that
    violates its own annotation (Python semantics, not a conversion of typelib). -/
theorem default_needed :
    um badDefEnv (pyLeaves badDefEnv) 3 (.cls 0) (.dict []) = .ok (.inst 0 [(['x'], .none)])
      ∧ soundEnv 5 badDefEnv = false
      ∧ conforms badDefEnv 5 (.cls 0) (.inst 0 [(['x'], .none)]) = false := by
  exact ⟨rfl, by decide, by decide⟩

/-- `class TD(TypedDict, total=False): a: Required[int]; b: str` -/
def tdEnv : Env :=
  [{ flavour := .typeddict, fields := [(['a'], .scalar .int), (['b'], .scalar .str)], required := [['a']] }]

/-- A total key missing is a TypeError, never `{}`; unknown keys are dropped, pairs are accepted. -/
example : um tdEnv (pyLeaves tdEnv) 3 (.cls 0) (.dict []) = .error .type := by rfl
example : um tdEnv (pyLeaves tdEnv) 3 (.cls 0) (.dict [(.str ['a'], .str ['1']), (.str ['z'], .int 3)])
    = .ok (.dict [(.str ['a'], .int 1)]) := by rfl

/-- A union member naming None through an alias makes the union optional: None is answered by the
    None routine on that member's behalf, and the result conforms to the *wrapped* member. -/
def optAlias : Ty := .union [.scalar .int, .wrap .alias (.wrap .newtype .none)]
example : um [] (pyLeaves []) 3 optAlias .none = .ok .none := by rfl
example : noneDepthOk 3 optAlias = true ∧ noneDepthOk 2 optAlias = false := by decide
example : conforms [] (3 + 3) optAlias .none = true :=
  unmarshal_sound_py 3 [] 0 (by decide) 3 optAlias .none _ (by decide) (by decide) (by rfl)
/-- The explicit fuel bound needs `noneDepthOk`: with offset 0 the checker cannot see through the chain
    at the depth the routine ran (the `∃ k` form `unmarshal_sound` is unaffected). -/
example : um [] (pyLeaves []) 2 optAlias .none = .ok .none ∧ conforms [] (2 + 0) optAlias .none = false := by
  exact ⟨rfl, by decide⟩

end Typelib.C03
