/-
  Class dispatch (Model/ClassDispatch.lean): which routine a user-defined class gets from the two ordered handler
  tables, which classes the graph walks into, how `serdes.iteritems` reads an instance — as a function of the
  feature record of the class.  Built and audited with C03; tied to the real code by
  harness/props/classdispatch_corr.py for every record Python can realise.

  Every statement is proved for ALL feature records (19 flavours x 3 mapping bases x 2^8 method sets) by case
  analysis over the fields the functions read; the other fields stay universally quantified variables.

    (a) `record_class_structured` — a dataclass / annotated / init-hinted / plain class that neither is a Mapping
        (real or registered) nor defines `__iter__` gets the structured routines in both directions, is walked by
        the graph and read by its fields — whatever else it defines;
    (b) `dispatch_ignores_unread_methods` — `__getitem__`, `keys()`, `__len__`, `__contains__`, `__call__`, `items()`
        never change the two routines, the reading, or the walk of ANY class (`items()` only decides
        `itemsMissing`: `itemsMissing_iff`).  The seeded changes C03l, C18l, C05l break exactly this, C18k breaks
        `registered_mapping_is_mapping`: `C03l_differs`, `C18l_differs`, `C05l_differs`, `C18k_differs` (+ `*_not_invariant`);
    (c) `namedtuple_wins`, `typeddict_wins`, `enum_wins` — these flavours get their routine whatever protocol the class
        has; their READING is stated exactly (`namedtuple_reading`, `typeddict_reading`);
    (d) KNOWN FINDING `iterableDataclass_is_dispatched_as_iterable` (+ `iterator_dataclass_is_noop`), and the
        characterisations `unmarshal_structured_iff`, `marshal_structured_iff`, `reading_fields_iff`, `walksMembers_iff`;
    (e) `tables_differ_iff` — the two tables choose the same entry except for subclasses of int / float / complex
        (`number` vs `integer` / `float` / the generic tail: `complex_subclass_marshals_structured`) and for
        iterators (`noOp` vs `iterable`: `iterator_rows`).
-/
import TypelibModel.Model.ClassDispatch
namespace Typelib.ClassDispatchProps
open Typelib.ClassDispatch

/-- dataclass | annotated | initHinted | plain: the flavours no row of the tables is written for. -/
def isRecordLike : ClassFlavour → Bool
  | .dataclass | .annotated | .initHinted | .plain => true
  | _ => false

theorem beq_true_iff {α : Type} [DecidableEq α] (a b : α) : ((a == b) = true) ↔ a = b := by
  simp

/-! ### the `With` forms are the tables -/

theorem unmarshalHandlerWith_id (r : Rec) :
    unmarshalHandlerWith isMappingType isIteratorType isIterableType r = unmarshalHandler r := rfl
theorem marshalHandlerWith_id (r : Rec) :
    marshalHandlerWith isMappingType isIterableType r = marshalHandler r := rfl
theorem readingWith_id (r : Rec) : readingWith isMappingType isIterableType r = reading r := rfl

/-! ### (b) methods no predicate reads -/

theorem dispatch_ignores_unread_methods (r : Rec) (g k l c ca it : Bool) :
    let r' := { r with getitem := g, keys := k, len := l, contains := c, call := ca, items := it }
    unmarshalHandler r' = unmarshalHandler r ∧ marshalHandler r' = marshalHandler r
      ∧ reading r' = reading r ∧ walksMembers r' = walksMembers r ∧ instanceIsDict r' = instanceIsDict r := by
  obtain ⟨fl, mp, i, g0, k0, l0, c0, ca0, n, it0⟩ := r
  cases fl <;> exact ⟨rfl, rfl, rfl, rfl, rfl⟩

/-- Names follow the handlers. -/
theorem names_ignore_unread_methods (r : Rec) (g k l c ca it : Bool) :
    let r' := { r with getitem := g, keys := k, len := l, contains := c, call := ca, items := it }
    unmarshallerName r' = unmarshallerName r ∧ marshallerName r' = marshallerName r := by
  cases r
  exact ⟨rfl, rfl⟩

/-! ### (a) record-like classes -/

theorem record_class_structured (r : Rec) (hf : isRecordLike r.flavour = true) (hm : r.mapping = .none)
    (hi : r.iter = false) :
    unmarshalHandler r = .structuredType ∧ marshalHandler r = .structuredType ∧ reading r = .fields
      ∧ walksMembers r = true ∧ itemsMissing r = false
      ∧ unmarshallerName r = "StructuredTypeUnmarshaller" ∧ marshallerName r = "StructuredTypeMarshaller" := by
  obtain ⟨fl, mp, i, g, k, l, c, ca, n, it⟩ := r
  simp only at hf hm hi
  subst hm hi
  cases fl <;> first | (exact absurd hf (by decide)) | (cases n <;> exact ⟨rfl, rfl, rfl, rfl, rfl, rfl, rfl⟩)

/-! ### (d) the known finding and the characterisations -/

/-- KNOWN FINDING iterableDataclass (known_findings.json): a dataclass (any record-like class) that defines `__iter__`
    and is not a Mapping is given the generic iterable routines — `IterableUnmarshaller` (the class `CastUnmarshaller`)
    and `IterableMarshaller` — and its instances are read as iterables, not by their fields. -/
theorem iterableDataclass_is_dispatched_as_iterable (r : Rec) (hf : isRecordLike r.flavour = true)
    (hm : r.mapping = .none) (hi : r.iter = true) (hn : r.next = false) :
    unmarshalHandler r = .iterable ∧ marshalHandler r = .iterable ∧ reading r = .iterable
      ∧ entryName .unmarshal (unmarshalHandler r) = "IterableUnmarshaller" ∧ unmarshallerName r = "CastUnmarshaller"
      ∧ marshallerName r = "IterableMarshaller" ∧ walksMembers r = true := by
  obtain ⟨fl, mp, i, g, k, l, c, ca, n, it⟩ := r
  simp only at hf hm hi hn
  subst hm hi hn
  cases fl <;> first | (exact absurd hf (by decide)) | exact ⟨rfl, rfl, rfl, rfl, rfl, rfl, rfl⟩

/-- ... and with `__next__` too it is an Iterator: left alone when unmarshalled (`NoOpUnmarshaller`), marshalled as an iterable. -/
theorem iterator_dataclass_is_noop (r : Rec) (hf : isRecordLike r.flavour = true)
    (hm : r.mapping = .none) (hi : r.iter = true) (hn : r.next = true) :
    unmarshalHandler r = .noOp ∧ marshalHandler r = .iterable ∧ reading r = .iterable
      ∧ unmarshallerName r = "NoOpUnmarshaller" ∧ marshallerName r = "IterableMarshaller" := by
  obtain ⟨fl, mp, i, g, k, l, c, ca, n, it⟩ := r
  simp only at hf hm hi hn
  subst hm hi hn
  cases fl <;> first | (exact absurd hf (by decide)) | exact ⟨rfl, rfl, rfl, rfl, rfl⟩

/-- The structured unmarshaller is chosen exactly for: named tuples and typed dicts (always), and record-like classes
    that are not Mappings (real or registered) and do not define `__iter__`. -/
def structuredCond (r : Rec) : Bool :=
  r.flavour.isNamedTuple || r.flavour == .typedDict
    || (isRecordLike r.flavour && r.mapping == .none && !r.iter)

theorem unmarshal_structured_beq (r : Rec) : (unmarshalHandler r == .structuredType) = structuredCond r := by
  obtain ⟨fl, mp, i, g, k, l, c, ca, n, it⟩ := r
  cases fl <;> cases mp <;> cases i <;> cases n <;> rfl

theorem unmarshal_structured_iff (r : Rec) : unmarshalHandler r = .structuredType ↔ structuredCond r = true := by
  rw [← unmarshal_structured_beq, beq_true_iff]

/-- The marshal table has no row for `complex`: a subclass of complex without `__iter__` lands in the fallback as well. -/
theorem marshal_structured_beq (r : Rec) :
    (marshalHandler r == .structuredType)
      = (structuredCond r || (r.flavour == .subComplex && r.mapping == .none && !r.iter)) := by
  obtain ⟨fl, mp, i, g, k, l, c, ca, n, it⟩ := r
  cases fl <;> cases mp <;> cases i <;> cases n <;> rfl

theorem marshal_structured_iff (r : Rec) :
    marshalHandler r = .structuredType
      ↔ (structuredCond r || (r.flavour == .subComplex && r.mapping == .none && !r.iter)) = true := by
  rw [← marshal_structured_beq, beq_true_iff]

/-- An instance is read by its fields exactly when its class is not a Mapping, does not define `__iter__`, and its
    flavour brings neither `__iter__` nor dict: record-like, Enum without str mixin, subclass of int / float / complex. -/
def fieldsFlavour : ClassFlavour → Bool
  | .dataclass | .annotated | .initHinted | .plain | .enumPlain | .enumInt | .subInt | .subFloat | .subComplex => true
  | _ => false

theorem reading_fields_beq (r : Rec) :
    (reading r == .fields) = (fieldsFlavour r.flavour && r.mapping == .none && !r.iter) := by
  obtain ⟨fl, mp, i, g, k, l, c, ca, n, it⟩ := r
  cases fl <;> cases mp <;> cases i <;> rfl

theorem reading_fields_iff (r : Rec) :
    reading r = .fields ↔ (fieldsFlavour r.flavour && r.mapping == .none && !r.iter) = true := by
  rw [← reading_fields_beq, beq_true_iff]

/-- The graph walks into: record-like classes, named tuples, typed dicts — and plain Enums and subclasses of complex
    (neither `enum.Enum` nor `complex` is in STDLIB_TYPES) — whatever the class defines. -/
theorem walksMembers_iff (r : Rec) :
    walksMembers r = (isRecordLike r.flavour || r.flavour.isNamedTuple || r.flavour == .typedDict
                      || r.flavour == .enumPlain || r.flavour == .subComplex) := by
  obtain ⟨fl, mp, i, g, k, l, c, ca, n, it⟩ := r
  cases fl <;> rfl

/-! ### (c) flavours with their own row win -/

theorem namedtuple_wins (r : Rec) (h : r.flavour.isNamedTuple = true) :
    unmarshalHandler r = .structuredType ∧ marshalHandler r = .structuredType ∧ walksMembers r = true := by
  obtain ⟨fl, mp, i, g, k, l, c, ca, n, it⟩ := r
  simp only at h
  cases fl <;> first | (exact absurd h (by decide)) | exact ⟨rfl, rfl, rfl⟩

/-- The reading of a named tuple is NOT unconditional: `get_items_iter` tests the mapping first, so a named tuple that is
    also a (registered) Mapping is read through `.items()`. -/
theorem namedtuple_reading (r : Rec) (h : r.flavour.isNamedTuple = true) :
    reading r = (if r.mapping = .none then .namedFields else .mapping) := by
  obtain ⟨fl, mp, i, g, k, l, c, ca, n, it⟩ := r
  simp only at h
  cases fl <;> first | (exact absurd h (by decide)) | (cases mp <;> rfl)

theorem typeddict_wins (r : Rec) (h : r.flavour = .typedDict) :
    unmarshalHandler r = .structuredType ∧ marshalHandler r = .structuredType ∧ walksMembers r = true := by
  obtain ⟨fl, mp, i, g, k, l, c, ca, n, it⟩ := r
  simp only at h
  subst h
  exact ⟨rfl, rfl, rfl⟩

/-- Instances of a TypedDict are dicts: a mapping, `.items()` is there, nothing of the class body matters. -/
theorem typeddict_reading (r : Rec) (h : r.flavour = .typedDict) :
    instanceIsDict r = true ∧ reading r = .mapping ∧ itemsMissing r = false := by
  obtain ⟨fl, mp, i, g, k, l, c, ca, n, it⟩ := r
  simp only at h
  subst h
  exact ⟨rfl, rfl, rfl⟩

theorem enum_wins (r : Rec) (h : r.flavour.isEnum = true) :
    unmarshalHandler r = .enum ∧ marshalHandler r = .enum
      ∧ unmarshallerName r = "CastUnmarshaller" ∧ marshallerName r = "EnumMarshaller" := by
  obtain ⟨fl, mp, i, g, k, l, c, ca, n, it⟩ := r
  simp only at h
  cases fl <;> first | (exact absurd h (by decide)) | exact ⟨rfl, rfl, rfl, rfl⟩

/-- A member of a str-mixin Enum is an iterable for `iteritems`: enumerated by the characters of its value. -/
theorem str_enum_member_read_as_iterable (r : Rec) (h : r.flavour = .enumStr) (hm : r.mapping = .none) :
    reading r = .iterable := by
  obtain ⟨fl, mp, i, g, k, l, c, ca, n, it⟩ := r
  simp only at h hm
  subst h hm
  cases i <;> rfl

/-! ### mappings -/

/-- A class that is a Mapping — by inheritance OR by `Mapping.register` alone — and whose flavour has no earlier row gets
    the mapping routines and the mapping reading. -/
theorem registered_mapping_is_mapping (r : Rec) (hf : isRecordLike r.flavour = true) (hm : r.mapping ≠ .none) :
    unmarshalHandler r = .mapping ∧ marshalHandler r = .mapping ∧ reading r = .mapping
      ∧ unmarshallerName r = "CastUnmarshaller" ∧ marshallerName r = "MappingMarshaller" := by
  obtain ⟨fl, mp, i, g, k, l, c, ca, n, it⟩ := r
  simp only at hf hm
  cases mp
  · exact absurd rfl hm
  all_goals (cases fl <;> first | (exact absurd hf (by decide)) | exact ⟨rfl, rfl, rfl, rfl, rfl⟩)

/-- The mapping reading calls `.items()`: AttributeError exactly for a class that is only REGISTERED and has no `items`. -/
theorem itemsMissing_iff (r : Rec) :
    itemsMissing r = (r.mapping == .registered && !r.items && !r.flavour.isDict) := by
  obtain ⟨fl, mp, i, g, k, l, c, ca, n, it⟩ := r
  cases fl <;> cases mp <;> cases it <;> cases i <;> rfl

/-! ### (e) the two tables -/

/-- Where the tables differ: numbers (one row `isnumbertype` against `isintegertype` / `isfloattype`), and iterators
    (the marshal table has no iterator row). -/
theorem tables_differ_beq (r : Rec) :
    (marshalHandler r != unmarshalHandler r)
      = (r.flavour == .subInt || r.flavour == .subFloat || r.flavour == .subComplex || unmarshalHandler r == .noOp) := by
  obtain ⟨fl, mp, i, g, k, l, c, ca, n, it⟩ := r
  cases fl <;> cases mp <;> cases i <;> cases n <;> rfl

theorem tables_differ_iff (r : Rec) :
    marshalHandler r ≠ unmarshalHandler r
      ↔ (r.flavour = .subInt ∨ r.flavour = .subFloat ∨ r.flavour = .subComplex ∨ unmarshalHandler r = .noOp) := by
  have h := tables_differ_beq r
  constructor
  · intro hne
    have : (marshalHandler r != unmarshalHandler r) = true := by simpa using hne
    rw [h] at this
    simpa [Bool.or_eq_true, or_assoc] using this
  · intro hor
    have : (marshalHandler r != unmarshalHandler r) = true := by
      rw [h]; simpa [Bool.or_eq_true, or_assoc] using hor
    simpa using this

theorem number_rows (r : Rec) :
    (r.flavour = .subInt → unmarshalHandler r = .number ∧ marshalHandler r = .integer)
    ∧ (r.flavour = .subFloat → unmarshalHandler r = .number ∧ marshalHandler r = .float)
    ∧ (r.flavour = .subComplex → unmarshalHandler r = .number) := by
  obtain ⟨fl, mp, i, g, k, l, c, ca, n, it⟩ := r
  refine ⟨?_, ?_, ?_⟩ <;> intro h <;> simp only at h <;> subst h
  · exact ⟨rfl, rfl⟩
  · exact ⟨rfl, rfl⟩
  · rfl

/-- A subclass of complex is a Number for the unmarshal table and NOTHING for the marshal table: it falls through to the
    structured fallback (or to the mapping / iterable rows if it has the protocol). -/
theorem complex_subclass_marshals_structured (r : Rec) (h : r.flavour = .subComplex) (hm : r.mapping = .none)
    (hi : r.iter = false) :
    unmarshalHandler r = .number ∧ marshalHandler r = .structuredType
      ∧ unmarshallerName r = "NumberUnmarshaller" ∧ marshallerName r = "StructuredTypeMarshaller" := by
  obtain ⟨fl, mp, i, g, k, l, c, ca, n, it⟩ := r
  simp only at h hm hi
  subst h hm hi
  exact ⟨rfl, rfl, rfl, rfl⟩

theorem iterator_rows (r : Rec) (h : unmarshalHandler r = .noOp) :
    marshalHandler r = .iterable ∧ isIteratorType r = true ∧ isMappingType r = false := by
  obtain ⟨fl, mp, i, g, k, l, c, ca, n, it⟩ := r
  revert h
  cases fl <;> cases mp <;> cases i <;> cases n <;>
    first | (intro h; exact Handler.noConfusion h) | (intro _; exact ⟨rfl, rfl, rfl⟩)

/-! ### the seeded changes are visible -/

def dcWith (g k ca : Bool) : Rec :=
  { flavour := .dataclass, mapping := .none, iter := false, getitem := g, keys := k, len := false, contains := false,
    call := ca, next := false, items := false }

/-- C03l (`keys` + `__getitem__` make a mapping): a record-like dataclass is taken for a mapping. -/
theorem C03l_differs :
    unmarshalHandlerWith isMappingType_C03l isIteratorType isIterableType (dcWith true true false) = .mapping
    ∧ unmarshalHandler (dcWith true true false) = .structuredType
    ∧ marshalHandlerWith isMappingType_C03l isIterableType (dcWith true true false) = .mapping
    ∧ marshalHandler (dcWith true true false) = .structuredType
    ∧ readingWith isMappingType_C03l isIterableType (dcWith true true false) = .mapping
    ∧ reading (dcWith true true false) = .fields := by decide

theorem C03l_not_invariant :
    ∃ r : Rec, unmarshalHandlerWith isMappingType_C03l isIteratorType isIterableType { r with getitem := true, keys := true }
      ≠ unmarshalHandlerWith isMappingType_C03l isIteratorType isIterableType r :=
  ⟨dcWith false false false, by decide⟩

/-- C18l (`__getitem__` makes an iterable): a dataclass with by-name subscription is enumerated, and dispatched as an iterable. -/
theorem C18l_differs :
    readingWith isMappingType isIterableType_C18l (dcWith true false false) = .iterable
    ∧ reading (dcWith true false false) = .fields
    ∧ unmarshalHandlerWith isMappingType isIteratorType isIterableType_C18l (dcWith true false false) = .iterable
    ∧ unmarshalHandler (dcWith true false false) = .structuredType := by decide

theorem C18l_not_invariant :
    ∃ r : Rec, readingWith isMappingType isIterableType_C18l { r with getitem := true }
      ≠ readingWith isMappingType isIterableType_C18l r :=
  ⟨dcWith false false false, by decide⟩

/-- C05l (`__call__` makes a class unstructured): the graph stops walking a callable dataclass. -/
theorem C05l_differs :
    walksMembers_C05l (dcWith false false true) = false ∧ walksMembers (dcWith false false true) = true := by decide

theorem C05l_not_invariant : ∃ r : Rec, walksMembers_C05l { r with call := true } ≠ walksMembers_C05l r :=
  ⟨dcWith false false false, by decide⟩

def registeredMapping : Rec :=
  { flavour := .plain, mapping := .registered, iter := true, getitem := true, keys := true, len := true, contains := false,
    call := false, next := false, items := true }

/-- C18k (MRO scan instead of issubclass): a class registered with `Mapping.register` is read — and dispatched — as an iterable. -/
theorem C18k_differs :
    readingWith isMappingType_C18k isIterableType registeredMapping = .iterable
    ∧ reading registeredMapping = .mapping ∧ itemsMissing registeredMapping = false
    ∧ unmarshalHandlerWith isMappingType_C18k isIteratorType isIterableType registeredMapping = .iterable
    ∧ unmarshalHandler registeredMapping = .mapping := by decide

end Typelib.ClassDispatchProps
